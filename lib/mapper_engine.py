"""Run mapper cases (cache kind, size, ops) through the implementation and the model."""
import vf


def run_cases(pid, case_lines, tag="mapper"):
    d = vf.tmpdir(pid)
    cf, of = f"{d}/{tag}.cases", f"{d}/{tag}.hxout"
    vf.write_lines(cf, case_lines)
    impl_raw = vf.run_hx("mapper", cf)
    vf.write_lines(of, impl_raw)
    model = vf.run_model("mapper", cf, [of])
    impl = [x.split("\t")[0] for x in impl_raw]
    assert len(impl) == len(model) == len(case_lines), (len(impl), len(model), len(case_lines))
    return [x.split(" | ") for x in impl], [x.split(" | ") for x in model]
