"""Common driver for the pipeline-based property checks."""
import json
import random

import gen_mapper as GM
import pipeline_engine as PE
import vf

TRUSTED_BASE = [
    "Coq 8.16.1 kernel; stdlib axioms inherited from Flocq's binary64 (sig_forall_dec, sig_not_dec, functional_extensionality_dep, classic)",
    "hand-written model of pkg/line, pkg/mapper, pkg/exporter, pkg/registry, pkg/clock tied to the code by differential execution on every run",
    "client_golang (vectors, value semantics, constructor panics, Gather consistency checks) is MODELLED, not verified (Model/ClientGolang.v); summary quantile values, native-histogram fields, timestamps are not compared",
    "strconv.ParseFloat, regexp, yaml.v2, unicode tables: oracles recorded from the implementation; hash collisions inside client_golang's vectors assumed absent (the exporter's own series keys are exact since commit 7f99985); time.Time arithmetic as unbounded integers; amd64 float->int conversion",
    "extraction (ExtrOcamlBasic), ocaml runner, Go harness (-tags verif), Python generators and monitors",
]


def first_diff(i, m):
    for k in range(min(len(i), len(m))):
        if PE.norm_impl(i[k]) != m[k]:
            return k
    return None if len(i) == len(m) else min(len(i), len(m))


def describe(ops):
    out = []
    for o in ops:
        if o.startswith("I "):
            out.append("I " + repr(vf.unhex(o[2:]))[1:])
        elif o.startswith("X "):
            out.append("X (events injected past the parser, '!ff' in label values = byte 0xff) " + repr(vf.unhex(o[2:]))[1:])
        elif o.startswith("L "):
            out.append("L <config>")
        else:
            out.append(o)
    return out


def run(rep, pid, tier, seed, replay, gen_case, monitor, n_quick, n_thorough, rule_text, extra_cases=(), known_hang=None):
    """gen_case(rnd) -> (flags, (cache, size), ops, meta).  monitor(rep, case, impl_ops, model_ops) may call
    rep.violation / rep.known / rep.nontrivial."""
    rep.cov["trusted_base"] = TRUSTED_BASE
    rnd = random.Random(seed)
    cases = []
    if replay:
        rp = json.load(open(replay))
        cases = [(rp["flags"], tuple(rp["cache"]), rp["ops"], rp.get("meta"))]
    else:
        cases = list(extra_cases)
        n = n_quick if tier == "quick" else n_thorough
        for _ in range(n):
            cases.append(gen_case(rnd))
    lines = [PE.case_line(fl, c[0], c[1], ops) for fl, c, ops, _ in cases]
    impl, model = PE.run_cases(pid, lines)
    rep.cov["traces_validated_against_impl"] = len(cases)
    rep.cov["rule"] = rule_text % dict(n=len(cases))
    nbad = 0
    opkinds = {}
    for case, i, m in zip(cases, impl, model):
        fl, cache, ops, meta = case
        rep.count(len(ops))
        for o in ops:
            opkinds[o[0]] = opkinds.get(o[0], 0) + 1
        payload = dict(flags=fl, cache=list(cache), ops=ops, readable=describe(ops), meta=meta)
        nv = len(rep.violations)
        if i and i[0].startswith("NOT-RUN"):
            continue
        hang = next((k for k, x in enumerate(i) if x.endswith("HANG")), None)
        if hang is not None:
            if known_hang and known_hang(meta) and rep.known(known_hang(meta)):
                continue
            rep.violation("the exporter hangs: an input or a scrape did not return within 20 s",
                          dict(payload, op_index=hang, op=describe(ops)[hang] if hang < len(ops) else None, prefix=describe(ops[:hang + 1])))
            if len(rep.violations) >= 5:
                break
            continue
        monitor(rep, case, i, m, payload)
        k = first_diff(i, m)
        if k is not None:
            nbad += 1
            if len(rep.violations) == nv and len(rep.violations) < 5:
                rep.violation("implementation differs from the proved model (pipeline engine)",
                              dict(payload, op_index=k, op=describe(ops)[k] if k < len(ops) else None,
                                   impl=i[k] if k < len(i) else None, model=m[k] if k < len(m) else None),
                              no_input=True)
        if len(rep.violations) >= 5:
            break
    rep.extra["disagreements_with_model"] = nbad
    rep.extra["op_distribution"] = opkinds
    for k in (0, len(cases) // 2, len(cases) - 1):
        rep.sample(dict(flags=cases[k][0], cache=list(cases[k][1]), ops=describe(cases[k][2])[:14], impl=[x[:160] for x in impl[k][:14]]))
    return cases, impl, model
