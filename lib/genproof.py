"""Obligations over the access table that tools/accessgen regenerates from /repo on every run."""
import os
import re

import vf

GEN = f"{vf.COQ}/theories/Generated/AccessTable.v"


def regenerate():
    """(ok, log): rebuild the translator, regenerate the table from /repo's working tree, compile it."""
    with vf.Lock("accessgen"):
        # the table is a function of the translator's source and of every Go file of /repo: when neither changed since
        # the table on disk was generated (content hash, not time stamps) there is nothing to regenerate
        import hashlib
        h = hashlib.sha256(open(f"{vf.ROOT}/tools/accessgen/main.go", "rb").read())
        for root, dirs, files in sorted(os.walk(vf.REPO)):
            dirs[:] = sorted(x for x in dirs if x not in (".git", "vendor", "node_modules"))
            for f in sorted(files):
                if f.endswith(".go") or f in ("go.mod", "go.sum"):
                    h.update(os.path.join(root, f).encode()); h.update(open(os.path.join(root, f), "rb").read())
        stamp, sfile = h.hexdigest(), GEN + ".stamp"
        vo = GEN[:-2] + ".vo"
        if os.path.exists(sfile) and os.path.exists(GEN) and os.path.exists(vo) and open(sfile).read().split("\n")[0] == stamp and \
                os.path.getmtime(vo) >= os.path.getmtime(GEN) and os.path.getmtime(vo) >= os.path.getmtime(f"{vf.COQ}/theories/Model/Concurrency.vo"):
            return True, open(sfile).read().split("\n", 1)[1]
        if os.path.exists(sfile):
            os.remove(sfile)
        rc, out = vf.sh("go build -o accessgen .", cwd=f"{vf.ROOT}/tools/accessgen", timeout=600)
        if rc != 0:
            return False, "accessgen build failed:\n" + out[-3000:]
        tmp = GEN + ".new"
        rc, out = vf.sh([f"{vf.ROOT}/tools/accessgen/accessgen", vf.REPO, tmp], timeout=900)
        if rc != 0 or not os.path.exists(tmp):
            return False, "accessgen failed on /repo (does it still type-check?):\n" + out[-3000:]
        new = open(tmp).read()
        old = open(GEN).read() if os.path.exists(GEN) else None
        if new != old:
            os.replace(tmp, GEN)
        else:
            os.remove(tmp)
        vo = GEN[:-2] + ".vo"
        if not os.path.exists(vo) or os.path.getmtime(vo) < os.path.getmtime(GEN) or \
                os.path.getmtime(vo) < os.path.getmtime(f"{vf.COQ}/theories/Model/Concurrency.vo"):
            rc, out2 = vf.sh("timeout 600 coqc -Q theories SE theories/Generated/AccessTable.v", cwd=vf.COQ)
            if rc != 0:
                return False, "generated table does not compile:\n" + out2[-3000:]
        open(sfile, "w").write(stamp + "\n" + out)
        return True, out


def table_stats():
    src = open(GEN).read()
    if "Definition section_table" in src:
        src = src[:src.index("Definition section_table")] + src[src.index("Definition go_statements") - 60:]
    rows = re.findall(r'^\s*\("([^"]*)", "([^"]*)", (true|false), \[(.*?)\]\)', src, re.M)
    gos = re.findall(r'^\s*\("([^"]*)", "([^"]*)"\)[;]?$', src[src.index("go_statements"):], re.M)
    return rows, gos


def compile_obligation(vfile):
    """compile theories/Properties/<vfile>; (ok, output)"""
    rc, out = vf.sh(f"timeout 900 coqc -Q theories SE theories/Properties/{vfile}", cwd=vf.COQ)
    return rc == 0, out


def offending_pairs():
    """evaluate [violations access_table] inside Coq: the unprotected conflicting pairs"""
    script = ("From Coq Require Import List String.\nImport ListNotations.\n"
              "From SE Require Import Model.Concurrency Generated.AccessTable.\n"
              "Eval vm_compute in (violations access_table).\n"
              "Eval vm_compute in (filter (fun g => match role_of (snd g) roles with Some _ => false | None => true end) go_statements).\n")
    p = f"{vf.BUILD}/tmp/offenders_{os.getpid()}.v"
    os.makedirs(os.path.dirname(p), exist_ok=True)
    open(p, "w").write(script)
    rc, out = vf.sh(f"timeout 600 coqtop -Q theories SE -batch -l {p}", cwd=vf.COQ)
    return re.sub(r"\s+", " ", out)[-6000:]


def unlocked_sites(locs, lock):
    script = ("From Coq Require Import List String Bool.\nImport ListNotations.\n"
              "From SE Require Import Model.Concurrency Generated.AccessTable.\nOpen Scope string_scope. Open Scope bool_scope.\n"
              "Eval vm_compute in (filter (fun a => match role_of (s_entry a) roles with Some _ => true | None => false end && "
              "existsb (String.eqb (s_loc a)) [%s] && negb (existsb (fun l => String.eqb (fst l) \"%s\" && (snd l || negb (s_write a))) (s_locks a))) access_table).\n"
              % ("; ".join('"%s"' % x for x in locs), lock))
    p = f"{vf.BUILD}/tmp/unlocked_{os.getpid()}.v"
    os.makedirs(os.path.dirname(p), exist_ok=True)
    open(p, "w").write(script)
    rc, out = vf.sh(f"timeout 600 coqtop -Q theories SE -batch -l {p}", cwd=vf.COQ)
    return re.sub(r"\s+", " ", out)[-4000:]


def race_hunt(scenarios, timeout=900):
    """run the race-instrumented harness; returns (n_reports, first report text)"""
    ok, out = vf.build_harness(race=True)
    if not ok:
        return None, "race-instrumented harness does not build: " + out[-2000:]
    d = vf.tmpdir("race")
    cf = f"{d}/race.cases"
    vf.write_lines(cf, scenarios)
    import subprocess
    p = subprocess.run([f"{vf.ROOT}/harness/hx_race", "race", cf], stdout=subprocess.PIPE, stderr=subprocess.PIPE, timeout=timeout)
    err = p.stderr.decode("utf-8", "replace")
    n = err.count("WARNING: DATA RACE")
    first = ""
    if n:
        i = err.index("WARNING: DATA RACE")
        first = err[i:i + 3500]
    return n, (first + ("\n" if first else "") + p.stdout.decode()[-1500:])


def failed_theorem(vfile, out):
    """name of the theorem in theories/Properties/<vfile> at which coqc stopped"""
    m = re.findall(r'File "[^"]*%s", line (\d+)' % re.escape(vfile), out)
    if not m:
        return ""
    src = open(f"{vf.COQ}/theories/Properties/{vfile}").read().splitlines()
    for ln in range(min(int(m[0]), len(src)) - 1, -1, -1):
        t = re.match(r"\s*Theorem\s+(\w+)", src[ln])
        if t:
            return t.group(1)
    return ""


def mapper_atomicity(rep, why):
    """The sequential model of the mapper stands for the running program only if a lookup and a reload exclude each
    other as wholes: re-check the generated obligations of Properties/C14_locks.v on the current source."""
    ok, log = regenerate()
    if not ok:
        rep.violation("the access table could not be regenerated from /repo", dict(log=log), no_input=True)
        return
    ok, out = compile_obligation("C14_locks.v")
    rep.extra["mapper_atomicity_obligations"] = "checked" if ok else "FAILED at " + failed_theorem("C14_locks.v", out)
    if not ok:
        thm = failed_theorem("C14_locks.v", out)
        rep.violation("generated obligation %s no longer checks: a lookup and a reload are not atomic with respect to each other (%s)" % (thm or "in C14_locks.v", why),
                      dict(failed_theorem=thm, theorem_file="coq/theories/Properties/C14_locks.v", coqc=out[-800:],
                           unlocked_sites=unlocked_sites(["pkg/mapper.MetricMapper.Defaults", "pkg/mapper.MetricMapper.Mappings", "pkg/mapper.MetricMapper.FSM",
                                                          "pkg/mapper.MetricMapper.doFSM", "pkg/mapper.MetricMapper.doRegex", "pkg/mapper.MetricMapper.cache"], "MetricMapper.mutex")),
                      no_input=True)


def clock_rows(prefixes=()):
    """rows of the generated clock_table whose function starts with one of the prefixes (all rows when none given)"""
    src = open(GEN).read()
    if "Definition clock_table" not in src:
        return []
    src = src[src.index("Definition clock_table"):]
    src = src[:src.index("].")]
    rows = re.findall(r'\("([^"]*)", "([^"]*)"\)', src)
    return [r for r in rows if not prefixes or any(r[0].startswith(p) for p in prefixes)]


def clock_obligation(rep, vfile, what, prefixes, search=None):
    """The model of this part of the code has no time input (or only the named one): re-check the generated obligation
    of Properties/<vfile> on the current source.  When it fails, [search] (if given) looks for an input / schedule on
    which the property itself fails; it returns True when it reported one."""
    ok, log = regenerate()
    if not ok:
        rep.violation("the access table could not be regenerated from /repo", dict(log=log), no_input=True)
        return
    ok, out = compile_obligation(vfile)
    thm = "" if ok else failed_theorem(vfile, out)
    rep.extra["clock_obligation"] = "%s: %s" % (vfile, "checked" if ok else "FAILED at " + thm)
    if ok:
        return
    before = len(rep.violations)
    found = bool(search and search()) or len(rep.violations) > before
    if not found:
        rep.violation("generated obligation %s no longer checks: %s" % (thm or "in " + vfile, what),
                      dict(failed_theorem=thm, theorem_file="coq/theories/Properties/" + vfile, clock_calls=clock_rows(prefixes), coqc=out[-600:],
                           searched="a schedule on which the property fails was searched for and not found" if search else "no search for a failing schedule is implemented for this obligation"),
                      no_input=True)


def reload_count(rep, pid, tier, unordered, caches=("lru", "rr")):
    """long uptime of the mapper: 65 540 (thorough: 131 080) successful reloads in one process; sentinel names cached 1, 2, 255,
    256, 257, 65535, 65536, 65537 (131071, 131072) reloads before the end must be answered by the configuration loaded last"""
    n = 65540 if tier == "quick" else 131080
    gaps = [1, 2, 3, 255, 256, 257, 511, 512, 65535, 65536, 65537] + ([131071, 131072, 131073] if tier != "quick" else [])
    d = vf.tmpdir(pid)
    cases = ["%s %d %d %d %s" % (c, sz, n, 1 if unordered else 0, ",".join(map(str, gaps))) for c in caches for sz in ((1000,) if tier == "quick" else (1000, 3))]
    vf.write_lines(f"{d}/reloadcount.cases", cases)
    for c, o in zip(cases, vf.run_hx("reloadcount", f"{d}/reloadcount.cases", timeout=3000)):
        rep.count(n)
        bad = [x for x in o.split()[1:] if x.split(":", 1)[1].split(":")[0] != x.rsplit(":", 1)[1]] if o.startswith("reloads=") else [o]
        if bad:
            g = bad[0].split(":")[0]
            rep.violation("after many reloads a lookup is answered from a configuration that is no longer loaded (an answer cached %s reloads ago came back)" % g,
                          dict(case=c, cache=c.split()[0], cache_size=int(c.split()[1]), reloads=n, unordered=bool(unordered),
                               stale=[dict(zip(("cached_reloads_ago", "answer_with_cache", "answer_of_a_fresh_mapper"), x.split(":"))) for x in bad[:5]],
                               how="harness/cmd/hx/reloadcount.go: configurations cycle with period 3 and end on a fourth; svc.g<k> is looked up once, k reloads before the end, and again after the last reload"))
            break
    rep.extra["reload_count_runs"] = cases


def digest_rows():
    src = open(GEN).read()
    if "Definition digest_table" not in src:
        return []
    src = src[src.index("Definition digest_table"):]
    src = src[:src.index("].")]
    return re.findall(r'\("([^"]*)", "([^"]*)"\)', src)


def digest_obligation(rep, what):
    """The models identify series, cache entries and names by their full strings: re-check on the current source that
    nothing in main or pkg/ calls a digest function (Properties/C05_digest.v)."""
    ok, log = regenerate()
    if not ok:
        rep.violation("the access table could not be regenerated from /repo", dict(log=log), no_input=True)
        return
    ok, out = compile_obligation("C05_digest.v")
    rep.extra["digest_obligation"] = "C05_no_identity_by_digest: " + ("checked" if ok else "FAILED")
    if not ok:
        rep.violation("generated obligation C05_no_identity_by_digest no longer checks: %s" % what,
                      dict(failed_theorem="C05_no_identity_by_digest", theorem_file="coq/theories/Properties/C05_digest.v", digest_calls=digest_rows(), coqc=out[-600:],
                           searched="the twin corpora of this check (equal FNV-1a / CRC-32 / Adler-32 sums, shifted separators, length-prefix twins) ran before this obligation; "
                                    "a digest they do not cover needs twins built for it"),
                      no_input=not rep.violations)
