"""C07 - TTL expiry removes exactly the stale series."""
import itertools
import struct

import e2e_engine as E2E
import gen_mapper as GM
import pipeline_check as PC
import pipeline_engine as PE
import genproof
import vf

SEC = 10**9


def cfg(ttl_a, ttl_default):
    d = GM.defaults(ttl=ttl_default)
    return (d, [GM.rule(b"A", b"A", ttl=ttl_a, help=b"ra"), GM.rule(b"G.*", b"G_$1", ttl=ttl_a, mmt=b"gauge", help=b"rg")])


HUGE = 9223369200 * SEC          # 2562047h, the longest duration the YAML can spell: last sample + ttl exceeds int64 nanoseconds
CFGS = {"c1": (2 * SEC, 5 * SEC), "c2": (10 * SEC, HUGE), "c3": (0, 1 * SEC), "c4": (0, 0)}
# 8-operation alphabet (+ reload variants); sA2 = another series (other label set) of A's family
ALPHA = ["sA", "sB", "sAB", "adv1", "adv3", "sweep", "reload", "sA2"]
# series of ONE family holding different ttls (immortal next to mortal, long next to short), in both creation orders
DIRECTED = [("c4", ["sA", "reload", "sA2", "adv3", "sweep"]), ("c4", ["sA2", "reload", "sA", "adv3", "sweep"]),
            ("c3", ["sA", "reload", "sA2", "adv3", "sweep", "adv3", "sweep"]), ("c1", ["sA2", "reload", "reload", "reload", "sA", "adv3", "sweep"]),
            ("c4", ["sA", "sB", "reload", "sA2", "sB", "adv3", "sweep", "sA", "adv3", "sweep"]),
            ("c2", ["sA", "reload", "reload", "sA2", "adv3", "adv3", "sweep", "adv3", "adv3", "sweep"]),
            # a series created without a ttl receives one under a later configuration when it is already older than that ttl
            ("c4", ["sA", "adv3", "reload", "sA", "sweep", "sA"]), ("c4", ["sB", "adv3", "adv3", "reload", "sB", "sweep", "sB"]),
            ("c4", ["sA", "sA2", "adv3", "reload", "sA2", "sweep", "adv1", "sA", "sweep"]), ("c3", ["sA", "reload", "sA", "adv3", "reload", "sA", "sweep"])]


def build(seq, rnd=None, start="c1"):
    """returns ops and the expected presence/values according to the property's own reading"""
    cur = start
    ops = [GM.load_op(cfg(*CFGS[cur]))]
    now = 0
    st = {}          # series key -> dict(last, ttl, value)
    expect = []      # per G: dict key -> value
    # a rule ttl of 0 inherits the defaults' ttl (mapper.go), 0 in both means immortal
    ttl_of = lambda key: (CFGS[cur][0] or CFGS[cur][1]) if key[0] in (b"A", b"G_x") else CFGS[cur][1]
    order = ["c1", "c2", "c3", "c4"]

    def sample(name, key, val, rel=False):
        s = st.get(key)
        if s is None:
            s = dict(value=0.0)
            st[key] = s
        s["last"], s["ttl"] = now, ttl_of(key)
        s["value"] = s["value"] + val
    for a in seq:
        if a == "sA":
            ops.append(PE.I(b"A:1|c")); sample(b"A", (b"A", "-"), 1.0)
        elif a == "sA2":
            ops.append(PE.I(b"A:2|c|#k:w")); sample(b"A", (b"A", vf.hexs(b"k") + "=" + vf.hexs(b"w")), 2.0)
        elif a == "sB":
            ops.append(PE.I(b"B:2|c|#k:v")); sample(b"B", (b"B", vf.hexs(b"k") + "=" + vf.hexs(b"v")), 2.0)
        elif a == "sAB":
            ops.append(PE.I(b"A:1|c:4|c")); sample(b"A", (b"A", "-"), 1.0); sample(b"A", (b"A", "-"), 4.0)
        elif a == "adv1":
            ops.append("A %d" % (1 * SEC)); now += 1 * SEC
        elif a == "adv3":
            ops.append("A %d" % (3 * SEC)); now += 3 * SEC
        elif a == "sweep":
            ops.append("S")
            for k in [k for k, s in st.items() if s["ttl"] != 0 and s["last"] + s["ttl"] < now]:
                del st[k]
        elif a == "reload":
            cur = order[(order.index(cur) + 1) % 4]
            ops.append(GM.load_op(cfg(*CFGS[cur])))
        ops.append("G")
        expect.append({k: s["value"] for k, s in st.items()})
    return ops, expect


def gen_case_from(seq, start="c1"):
    ops, expect = build(seq, start=start)
    return (15, ("none", 0), ops, dict(seq=list(seq), start=start, expect=[{"%s|%s" % (k[0].decode(), k[1]): v for k, v in e.items()} for e in expect]))


def f_of(bits):
    return struct.unpack(">d", bytes.fromhex(bits))[0]


def monitor(rep, case, impl, model, payload):
    fl, cache, ops, meta = case
    gi = 0
    swept = False
    for k, (o, i) in enumerate(zip(ops, impl)):
        if "PANIC" in i:
            rep.violation("panic", dict(payload, op_index=k, impl=i)); return
        if o == "S":
            swept = True
        if o != "G":
            continue
        g = PE.parse_gather(i)
        if not g["ok"]:
            rep.violation("scrape failed", dict(payload, op_index=k, impl=i[:300])); return
        got = {}
        for nm, (ty, hlp, series) in g["families"].items():
            for lab, bits in series.items():
                got["%s|%s" % (nm.decode(), lab)] = f_of(bits)
        exp = meta["expect"][gi]
        gi += 1
        if got != exp:
            what = "a series is exposed after its ttl elapsed and a sweep ran" if set(got) - set(exp) else \
                   ("a series disappeared before its ttl elapsed (or without a sweep)" if set(exp) - set(got) else
                    "a series recreated after expiry does not start from the new sample alone")
            rep.violation(what, dict(payload, op_index=k, expected=exp, got=got, prefix=PC.describe(ops[:k + 1]))); return
    if swept and any(len(e) < len(meta["expect"][j - 1]) for j, e in enumerate(meta["expect"]) if j):
        rep.nontrivial(tuple(meta["seq"]))


def _run(rep, tier, seed, replay):
    if replay and E2E.replay_case(rep, "C07", replay):
        rep.cov.setdefault("trusted_base", ["end-to-end replay of one case against the built binary"])
        rep.cov.setdefault("rule", "replay of one end-to-end case")
        return
    import random
    depth = 4 if tier == "quick" else 6
    exhaustive = [gen_case_from(seq) for d in range(1, depth + 1) for seq in itertools.product(ALPHA, repeat=d)]
    n_exh = len(exhaustive)
    # Go map iteration order decides which series a sweep meets first: the directed histories run 8 times each
    exhaustive += [gen_case_from(seq, start=st0) for st0, seq in DIRECTED for _ in range(8)]
    # ... and every history of depth <= 3 that starts without any ttl (c4) or with a default ttl only (c3)
    exhaustive += [gen_case_from(seq, start=st0) for st0 in ("c4", "c3") for d in range(1, 4) for seq in itertools.product(ALPHA, repeat=d)]

    def gen(rnd):
        return gen_case_from([rnd.choice(ALPHA) for _ in range(rnd.randint(7, 40))], start=rnd.choice(["c1", "c4", "c3"]))
    PC.run(rep, "C07", tier, seed, replay, gen, monitor, 300, 6000,
           "all %d histories of depth <= %d over the 8-operation alphabet {sample A, sample A with a tag (a second series of the same family), sample B (other name, labels), two samples "
           "of A on one line, advance 1s, advance 3s, sweep, reload that changes the ttls (2s/5s -> 10s/2562047h -> 0/1s -> 0/0)}, directed histories in which one family holds immortal and mortal "
           "series (8 runs each: map iteration order) + random histories of depth 7-40 (%%(n)d cases in total), scraped after every operation and compared "
           "with the property's own reading (last sample + its ttl, strict comparison at the sweep, recreation from zero); non-trivial = history in which a sweep removed a series; "
           "distinct by operation sequence" % (n_exh, depth), extra_cases=exhaustive)
    rep.cov["exhaustive"] = True
    if not replay:
        # the exporter's own select loop with a backlog of event batches waiting when the sweep tick arrives
        d = vf.tmpdir("C07")
        ks = [0, 1, 2, 8, 64, 256, 256, 1000] if tier == "quick" else [0, 1, 2, 8, 64, 256, 1000] * 40
        vf.write_lines(f"{d}/listenloop.cases", [str(k) for k in ks])
        for k, o in zip(ks, vf.run_hx("listenloop", f"{d}/listenloop.cases")):
            rep.count(1)
            if o != "stale=0 busy=%d" % k:
                rep.violation("a series whose ttl elapsed is still exposed after the sweep tick was taken (or backlog events were lost) when event batches were waiting",
                              dict(backlog_batches=k, observed=o, expected="stale=0 busy=%d" % k,
                                   how="harness/cmd/hx/listenloop.go: ttl 1s, one sample, clock +10 s, k batches pre-loaded into the buffered events channel, one tick on the mock ticker, Exporter.Listen, channel closed, Gather"))
                break
        rep.extra["listen_loop_backlog_runs"] = len(ks)
        # very many series stale for the same sweep (more than 2^16 in one family, or spread over hundreds of families)
        mass = [(1, 70000, 5), (300, 250, 3), (1, 1, 1)] if tier == "quick" else [(1, 70000, 5), (1, 140000, 9), (300, 250, 3), (2000, 40, 3), (1, 1, 1), (3, 65536, 0), (1, 65537, 1)]
        vf.write_lines(f"{d}/massexpiry.cases", ["%d %d %d" % x for x in mass])
        for (fams, per, keep), o in zip(mass, vf.run_hx("massexpiry", f"{d}/massexpiry.cases", timeout=3000)):
            rep.count(fams * per)
            want = "before=%d/%d after=0/%d recreated=5" % (fams * per, keep, keep)
            if o != want:
                rep.violation("with very many series stale at one sweep: series are removed before their ttl, or stale ones survive the sweep, or a series without ttl is removed, or a recreated series does not start from its sample alone",
                              dict(families=fams, series_per_family=per, series_without_ttl=keep, observed=o, expected=want,
                                   how="harness/cmd/hx/massexpiry.go: rule ttl 2s, all series sampled at t=0, sweep at t=1s (all kept), ONE sweep at t=3s (all with a ttl gone), then mass0{id=0}:5|c"))
                break
        rep.extra["mass_expiry_runs"] = mass
    if not replay:
        import genproof
        genproof.mapper_atomicity(rep, "every sample is given the ttl configured at that moment, also while a reload is running")
    if not replay and len(rep.violations) < 5:
        # real time in the built binary: the exporter's own once-a-second sweep, ttl 3 s, with and without a refreshing sample
        E2E.run(rep, "C07", tier, seed, n_quick=8, n_thorough=96, gen=E2E.gen_ttl_case, key="e2e_ttl")
        rep.cov["rule"] += ("; plus %d real-time end-to-end histories against the built binary (ttl 3 s on a rule or in the defaults, a refreshing sample or none, scrapes at 0 s, "
                            "4.2 s and 7.2 s, with generous margins around the one-second sweep)" % rep.extra.get("e2e_ttl_cases", 0))


def run(rep, tier, seed, replay):
    _run(rep, tier, seed, replay)
    if not replay:
        genproof.clock_obligation(rep, "C07_clock.v", "time enters the registry / exporter loop other than as clock.Now and the sweep ticker of pkg/clock (the model's [now] and sweep op), or the wall clock is read without going through pkg/clock", ('pkg/registry.', 'pkg/exporter.', 'pkg/'))
