"""C11 - capture references in names and labels expand as documented; glob == translated regex."""
import itertools
import json
import random
import re

import gen_mapper as GM
import mapper_engine as ME
import vf

TRUSTED = [
    "Coq 8.16.1 kernel; Properties/C11.v: Format on a tokenised template = literal text + n-th captures (empty when out of range), for all templates and captures; glob and regex expansion agree unless the template refers to group 0",
    "regexp.Expand is Go standard library code: modelled (Model/Template.v) and validated by this differential run; unicode.IsLetter/IsDigit for non-ASCII runes is an oracle",
    "that Go's regexp engine returns exactly the glob captures for the translated pattern is tested here, not proved",
    "extraction (ExtrOcamlBasic), ocaml runner, Go harness, Python generators and monitors",
]
LITS = [b"a", b"Z9", b"_", b"-", b" ", b"%", b":", b"x_y", b"%s", b"\xc3\xa9", b"$$", b"1", b"+", b"{", b"}", b"$", b"\\", b"."]
COMPS = [b"p", b"q", b"x-y", b"caf\xc3\xa9", b"9", b"A_b", b"w w", b"%d", b"\xe2\x82\xac", b"r", b"s", b"t"]


def go_expand(tpl, groups, wordp):
    """Python rendition of regexp.Expand for numeric groups (groups[i] is None when unset)."""
    s = tpl.decode("utf-8")
    out = []
    i = 0
    while i < len(s):
        if s[i] != "$":
            out.append(s[i]); i += 1; continue
        rest = s[i + 1:]
        if rest.startswith("$"):
            out.append("$"); i += 2; continue
        brace = rest.startswith("{")
        body = rest[1:] if brace else rest
        j = 0
        while j < len(body) and wordp(body[j]):
            j += 1
        if j == 0 or (brace and (j >= len(body) or body[j] != "}")):
            out.append("$"); i += 1; continue
        name = body[:j]
        used = j + (2 if brace else 0)
        num = -1
        if name.isascii() and name.isdigit() and not (len(name) > 1 and name[0] == "0") and len(name) <= 9:
            num = int(name)
        if 0 <= num < len(groups) and groups[num] is not None:
            out.append(groups[num].decode("utf-8"))
        i += 1 + used
    return "".join(out).encode("utf-8")


def wordp(ch):
    return ch == "_" or (ch.isascii() and ch.isalnum()) or (not ch.isascii() and (ch.isalpha() or ch.isdigit()))


# whole templates that are ALMOST a reference: a fast path for "the template is just $n" must not swallow them
NEAR_REFS = [b"$+1", b"${+2}", b"$-1", b"$+12", b"$ 1", b"$01", b"${01}", b"$1$", b"$", b"${", b"${}", b"$$1", b"${1", b"$1}", b"$0", b"${0}", b"$00",
             b"$1_", b"$1a", b"${1}a", "$\u0661".encode(), b"${1 }", b"$+", b"$1.5", b"$1e1", b"$0x1", b"$99999999999999999999", b"${1}${1}", b"$1$2$3"]


def gen_template(rnd, label=True):
    if label and rnd.random() < 0.12:
        return rnd.choice(NEAR_REFS)
    toks = []
    for _ in range(rnd.randint(1, 5)):
        r = rnd.random()
        if r < 0.4:
            toks.append(rnd.choice(LITS if label else [b"a", b"Z9", b"_", b"1"]))
        elif r < 0.7:
            toks.append(b"$%d" % rnd.randint(0, 12))
        else:
            toks.append(b"${%d}" % rnd.randint(0, 12))
    return b"".join(toks)


MULTI_COMPS = [b"a", b"b", b"c", b"d"]
MULTI_TPLS = [b"$1", b"$2", b"x${2}y", b"$1-$3", b"${3}", b"$4$1", b"s", b"$2$2", b"_${5}_"]


def glob_match(pat, metric):
    ps, ms = pat.split(b"."), metric.split(b".")
    if len(ps) != len(ms):
        return None
    caps = []
    for p_, m_ in zip(ps, ms):
        if p_ == b"*":
            caps.append(m_)
        elif p_ != m_:
            return None
    return caps


def multi_rule_block(rep, rnd, n):
    """several overlapping glob rules sharing template texts (the search backtracks over abandoned branches that
    wrote capture slots; the same template text occurs on rules with different wildcard counts): every answer must
    expand the WINNING rule's own captures, and the translated regex configuration must agree."""
    cfgs = []
    for _ in range(n):
        k = rnd.randint(2, 4)
        ln = rnd.randint(2, 4)
        rules = []
        for i in range(k):
            l_i = ln if rnd.random() < 0.7 else rnd.randint(1, 4)
            pat = [rnd.choice(MULTI_COMPS[:3] + [b"*", b"*"]) for _ in range(l_i)]
            tpls = [rnd.choice(MULTI_TPLS) for _ in range(2)]
            if i and rnd.random() < 0.6:
                tpls = list(rules[0][1])                       # the same texts as the first rule
            rules.append((b".".join(pat), tpls))
        metrics = set()
        for pat, _ in rules:
            for _ in range(3):
                metrics.add(b".".join(rnd.choice(MULTI_COMPS) if f == b"*" else f for f in pat.split(b".")))
        cfgs.append((rules, sorted(metrics)))
    # two rules whose template text followed by the wildcard count reads the same: ("$1", 11) / ("$11", 1), ("x", 10) / ("x1", 0), ...
    for t in (b"$1", b"x", b"${2}_", b"a$1b", b"$1$"):
        for (na, nb, suffix) in ((11, 1, b"1"), (10, 0, b"1"), (12, 2, b"1"), (10, 0, b"10"), (21, 1, b"2")):
            ra = (b".".join([b"pa"] + [b"*"] * na), [t, t])
            rb = (b".".join([b"pb"] + [b"*"] * nb), [t + suffix, t + suffix])
            for order in ([ra, rb], [rb, ra]):
                ms = [b".".join([b"pa"] + [b"u%d" % k for k in range(na)]), b".".join([b"pb"] + [b"w%d" % k for k in range(nb)])]
                cfgs.append((order, sorted(ms)))
    cases = []
    for rules, metrics in cfgs:
        g = (None, [GM.rule(pat, b"n%d" % i, labels=[(b"l0", t[0]), (b"l1", t[1])], help=b"r%d" % i) for i, (pat, t) in enumerate(rules)])
        r = (None, [GM.rule(b"^" + pat.replace(b".", b"\\.").replace(b"*", b"([^.]*)") + b"$", b"n%d" % i, labels=[(b"l0", t[0]), (b"l1", t[1])],
                            help=b"r%d" % i, match_type=b"regex") for i, (pat, t) in enumerate(rules)])
        qs = [GM.query_op("counter", m) for m in metrics]
        cases.append(GM.case_line("none", 0, [GM.load_op(g)] + qs))
        cases.append(GM.case_line("lru", 2, [GM.load_op(g)] + qs + qs))
        cases.append(GM.case_line("none", 0, [GM.load_op(r)] + qs))
    impl, model = ME.run_cases("C11", cases, tag="multi")
    rep.count(len(cases))
    nbad = 0
    for ci, (rules, metrics) in enumerate(cfgs):
        ig, ic, ir = impl[3 * ci], impl[3 * ci + 1], impl[3 * ci + 2]
        payload = dict(rules=[dict(match=p_.decode(), labels=[x.decode() for x in t]) for p_, t in rules], glob=ig, cached=ic, regex=ir)
        if [ig, ic, ir] != [model[3 * ci], model[3 * ci + 1], model[3 * ci + 2]]:
            nbad += 1
        if ig[0] != "L ok" or ir[0] != "L ok":
            continue                                            # e.g. a rule the loader rejects; the model comparison covers it
        backtracks = False
        for qi, m in enumerate(metrics):
            win = next(((i, glob_match(p_, m)) for i, (p_, _) in enumerate(rules) if glob_match(p_, m) is not None), None)
            a = ig[1 + qi]
            if win is None:
                if a != "Q -":
                    rep.violation("a metric no rule matches was mapped", dict(payload, metric=m.decode(), answer=a)); break
                continue
            i, caps = win
            if any(glob_match(p_, m) is None and p_.split(b".")[0] in (m.split(b".")[0], b"*") and len(p_.split(b".")) == len(m.split(b"."))
                   for p_, _ in rules):
                backtracks = True
            if a == "Q -":
                rep.violation("a metric matched by a rule was not mapped", dict(payload, metric=m.decode(), rule=i)); break
            got = dict(x.split("=") for x in a.split()[3].split("&"))
            for li, t in enumerate(rules[i][1]):
                exp = go_expand(t, [None] + caps, wordp)
                have = vf.unhex(got.get(vf.hexs(b"l%d" % li), "-"))
                if have != exp:
                    rep.violation("a label template did not expand to the winning rule's own captures (several overlapping rules)",
                                  dict(payload, metric=m.decode(), rule=i, template=t.decode(), expected=exp.decode(), got=have.decode("utf-8", "replace")))
                    break
            else:
                if a.split()[2:4] != ir[1 + qi].split()[2:4]:
                    rep.violation("glob rules and their translated regex rules disagree (several overlapping rules)", dict(payload, metric=m.decode()))
                    break
                if ic[1 + qi] != a or ic[1 + len(metrics) + qi] != a:
                    rep.violation("the cached mapper expands differently from the uncached one", dict(payload, metric=m.decode()))
                    break
                continue
            break
        if backtracks:
            rep.nontrivial(("multi", tuple(p_ for p_, _ in rules)))
        if len(rep.violations) >= 5:
            break
    if nbad and len(rep.violations) < 5:
        rep.violation("implementation differs from the proved model (mapper engine, several overlapping rules)", dict(disagreeing_cases=nbad), no_input=True)
    rep.extra["multi_rule_configs"] = len(cfgs)
    return nbad


def run(rep, tier, seed, replay):
    rep.cov["trusted_base"] = TRUSTED
    rnd = random.Random(seed)
    items = []
    if replay:
        rp = json.load(open(replay))
        items = [(vf.unhex(rp["pattern"]), vf.unhex(rp["name_tpl"]), [vf.unhex(x) for x in rp["label_tpls"]], vf.unhex(rp["metric"]))]
    else:
        n = 1500 if tier == "quick" else 40000
        for _ in range(n):
            nw = rnd.randint(0, 11)
            k = nw + rnd.randint(0 if nw else 1, 2)
            pos = set(rnd.sample(range(k), nw))
            pat = [b"*" if i in pos else rnd.choice([b"a", b"b", b"c1", b"d-e"]) for i in range(k)]
            if pat[0] not in (b"*",) and pat[0][:1].isdigit():
                pat[0] = b"a"
            metric = [rnd.choice(COMPS) if p == b"*" else p for p in pat]
            ntpl = gen_template(rnd, label=False)
            if not re.fullmatch(rb"([a-zA-Z_]|(\$\{?\d+\}?))([a-zA-Z0-9_]|(\$\{?\d+\}?))*", ntpl):
                ntpl = b"n_" + ntpl.replace(b"-", b"_")
                if not re.fullmatch(rb"([a-zA-Z_]|(\$\{?\d+\}?))([a-zA-Z0-9_]|(\$\{?\d+\}?))*", ntpl):
                    ntpl = b"n_$1"
            ltpls = [gen_template(rnd) for _ in range(3)]
            items.append((b".".join(pat), ntpl, ltpls, b".".join(metric)))
        # every wildcard count around the sizes a fixed buffer or a bit mask could have, referring to the last capture and the one after
        for nw in list(range(0, 21)) + [31, 32, 33, 63, 64, 65, 100]:
            pat = [b"*"] * nw + [b"z"]
            metric = [b"v%d" % k for k in range(nw)] + [b"z"]
            items.append((b".".join(pat), b"n_$1", [b"$%d" % max(nw, 1), b"${%d}x$%d" % (nw + 1, max(nw, 1)), b"$1-$%d" % max(nw // 2, 1)], b".".join(metric)))
        if tier == "thorough":
            alpha = [b"a", b"%", b" ", b"_", b"$1", b"$2", b"${1}", b"$11", b"$0"]
            for t in itertools.product(alpha, repeat=4):
                items.append((b"*.x.*", b"n_$1", [b"".join(t), b"".join(t[:3]), b"".join(t[:2])], b"p.x.q"))
    cases = []
    for pat, ntpl, ltpls, metric in items:
        labels = [(b"l%d" % i, t) for i, t in enumerate(ltpls)]
        g = (None, [GM.rule(pat, ntpl, labels=labels, help=b"r0")])
        rx = b"^" + pat.replace(b".", b"\\.").replace(b"*", b"([^.]*)") + b"$"
        r = (None, [GM.rule(rx, ntpl, labels=labels, help=b"r0", match_type=b"regex")])
        for cfg in (g, r):
            cases.append(GM.case_line("none", 0, [GM.load_op(cfg), GM.query_op("counter", metric)]))
    impl, model = ME.run_cases("C11", cases)
    rep.count(len(cases))
    rep.cov["traces_validated_against_impl"] = len(cases)
    rep.cov["rule"] = ("%d (pattern with 0-11 wildcards, name template, 3 label templates over literals [letters digits _ - space %% : unicode $$] and "
                       "$n/${n} with n in 0..12, matching metric with unicode/punctuation captures), each as a glob rule and as the translated regex "
                       "rule; non-trivial = a template with at least one in-range reference; distinct by (pattern, templates, metric)" % len(items))
    nbad = 0
    for k, (pat, ntpl, ltpls, metric) in enumerate(items):
        ig, ir = impl[2 * k], impl[2 * k + 1]
        mg, mr = model[2 * k], model[2 * k + 1]
        caps = [m for p, m in zip(pat.split(b"."), metric.split(b".")) if p == b"*"]
        payload = dict(pattern=vf.hexs(pat), name_tpl=vf.hexs(ntpl), label_tpls=[vf.hexs(x) for x in ltpls], metric=vf.hexs(metric),
                       readable=dict(pattern=pat.decode(), name=ntpl.decode(), labels=[x.decode() for x in ltpls], metric=metric.decode()),
                       glob=ig, regex=ir)
        if any(re.search(rb"\$\{?[1-9]", t) for t in ltpls + [ntpl]) and caps:
            rep.nontrivial((pat, ntpl, tuple(ltpls), metric))
        if ig[0] != "L ok" or ir[0] != "L ok" or ig[1] == "Q -" or ir[1] == "Q -" or "PANIC" in ig + ir:
            rep.violation("rule did not load or did not match its own metric", payload); continue
        # documented expansion, on the implementation's own output
        got = dict(x.split("=") for x in ig[1].split()[3].split("&"))
        for i, t in enumerate(ltpls):
            exp = go_expand(t, [None] + caps, wordp)
            if vf.unhex(got[vf.hexs(b"l%d" % i)]) != exp:
                rep.violation("glob label template did not expand as documented",
                              dict(payload, label=i, expected=exp.decode(), got=vf.unhex(got[vf.hexs(b"l%d" % i)]).decode("utf-8", "replace")))
                break
        if vf.unhex(ig[1].split()[2]) != go_expand(ntpl, [None] + caps, wordp):
            rep.violation("glob name template did not expand as documented", payload)
        # glob == regex unless group 0 is referenced
        if not any(re.search(rb"\$\{?0(?![0-9])", t) for t in ltpls + [ntpl]):
            if ig[1].split()[2:4] != ir[1].split()[2:4]:
                rep.violation("glob rule and translated regex rule disagree", payload)
        if ig != mg or ir != mr:
            nbad += 1
            if len(rep.violations) < 5:
                rep.violation("implementation differs from the proved model (mapper engine)", dict(payload, model_glob=mg, model_regex=mr), no_input=True)
        if len(rep.violations) >= 5:
            break
    if not replay and len(rep.violations) < 5:
        nbad += multi_rule_block(rep, random.Random(seed + 1), 400 if tier == "quick" else 12000)
        rep.cov["rule"] += ("; plus %d configurations of 2-4 overlapping glob rules that share label template texts (references up to $5), queried with and without cache and as "
                            "translated regex rules: every answer must expand the winning rule's own captures" % rep.extra.get("multi_rule_configs", 0))
    if not replay and len(rep.violations) < 5:
        import genproof
        n_, text = genproof.race_hunt(["mapper none 0 4 150 unordered", "mapper none 0 4 100"])
        rep.count(1)
        mixed = [int(x) for x in re.findall(r"mixed=(\d+)", text or "")]
        if n_ is None:
            rep.violation("the race-instrumented harness does not build", dict(log=text), no_input=True)
        elif any(mixed) or n_:
            rep.violation("with several lookups in flight a name or label was expanded from another lookup's captures (or the race detector reports the capture list shared)",
                          dict(output=(text or "")[:2500], scenarios="4 goroutines looking up a.x0..a.x6 while configurations alternate, glob_disable_ordering on and off"))
        rep.extra["concurrent_lookup_scenarios"] = 2
    rep.extra["disagreements_with_model"] = nbad
    rep.sample(dict(items[0] and dict(pattern=items[0][0].decode(), name=items[0][1].decode(), labels=[x.decode() for x in items[0][2]], metric=items[0][3].decode()), impl=impl[0]))
