"""C18 - listeners frame lines identically on every transport and account for all of them."""
import json
import genproof
import random

import e2e_engine as E2E
import vf

TRUSTED = [
    "Coq 8.16.1 kernel; Properties/C18.v: TCP scanning = splitting at newlines (CR stripped on terminated lines, unterminated tail kept) for all streams whose raw lines stay below 4096 bytes; an over-long line closes only that connection; datagram and TCP framing agree up to empty lines; packet-queue accounting for all operation sequences",
    "bufio.Reader.ReadLine (4096-byte buffer) is standard-library code: modelled; its independence from TCP segmentation is exercised here with random segmentation over real loopback TCP, not proved",
    "the kernel's datagram delivery, concurrent connections and goroutine scheduling are runtime behaviour; the copy of each datagram out of the reused read buffer is observable only at run time (this harness reuses the buffer)",
    "extraction (ExtrOcamlBasic), ocaml runner, Go harness (recording Parser/EventHandler, observed relay), Python generators and monitors",
]
PIECES = [b"a:1|c", b"b:2|g", b"", b"x", b"caf\xc3\xa9:1|c", b"with space:3|ms", b"k\r", b"\r", b"t:1|c|#a:b", b"y" * 10]


def gen_payload(rnd):
    n = rnd.randint(1, 50) if rnd.random() < 0.3 else rnd.randint(1, 8)
    eol = rnd.choice([b"\n", b"\n", b"\r\n"])
    lines = []
    for _ in range(n):
        r = rnd.random()
        if r < 0.05:
            lines.append(b"z" * rnd.choice([4094, 4095, 4096, 4097, 5000]))
        elif r < 0.1:
            lines.append(b"w" * rnd.choice([4093, 4094, 4095]) )
        else:
            lines.append(rnd.choice(PIECES))
    p = eol.join(lines)
    if rnd.random() < 0.5:
        p += eol
    if rnd.random() < 0.05:
        p = b""
    return p


def expected_lines_tcp(p):
    """the property's reading of a TCP stream: (lines, closed)"""
    out = []
    parts = p.split(b"\n")
    for i, raw in enumerate(parts):
        last = i == len(parts) - 1
        if len(raw) >= 4096:
            return out, True
        if last:
            if raw:
                out.append(raw)
        else:
            out.append(raw[:-1] if raw.endswith(b"\r") else raw)
    return out, False


def run(rep, tier, seed, replay):
    if replay and E2E.replay_case(rep, "C18", replay):
        rep.cov.setdefault("trusted_base", ["end-to-end replay of one case against the built binary"])
        rep.cov.setdefault("rule", "replay of one end-to-end case")
        return
    rep.cov["trusted_base"] = TRUSTED
    rnd = random.Random(seed)
    cases, meta = [], []
    if replay:
        rp = json.load(open(replay))
        cases, meta = [rp["case"]], [rp.get("meta")]
    else:
        n = 250 if tier == "quick" else 8000
        for _ in range(n):
            p = gen_payload(rnd)
            rl = "1" if rnd.random() < 0.25 else "0"
            ph = vf.hexs(p)
            for k in ("U", "X"):
                if len(p) <= 65000:
                    cases.append(f"{k} {ph} {rl}"); meta.append(dict(kind=k, payload=p))
            cases.append(f"T {ph} {rnd.randrange(10**6)} {rl}"); meta.append(dict(kind="T", payload=p))
        for _ in range(150 if tier == "quick" else 5000):
            cap = rnd.randint(0, 4)
            ops, recv = [], []
            for _ in range(rnd.randint(1, 14)):
                if rnd.random() < 0.6:
                    d = b"\n".join(rnd.choice(PIECES[:6]) for _ in range(rnd.randint(1, 3)))
                    ops.append("R" + vf.hexs(d)); recv.append(d)
                else:
                    ops.append("D")
            cases.append(f"P {cap} {','.join(ops)}"); meta.append(dict(kind="P", cap=cap, ops=ops, received=recv))
    d = vf.tmpdir("C18")
    cf = f"{d}/listener.cases"
    vf.write_lines(cf, cases)
    impl = vf.run_hx("listener", cf, timeout=3000)
    model = vf.run_model("listener", cf)
    rep.count(len(cases))
    rep.cov["traces_validated_against_impl"] = len(cases)
    rep.cov["rule"] = ("%d cases: payloads of 1-50 lines (empty lines, CRLF, with/without trailing newline, lines of 4093..5000 bytes around the 4096-byte TCP limit, unicode) through "
                       "UDP HandlePacket, Unixgram HandlePacket and TCP HandleConn over real loopback TCP with random segmentation, a quarter of them with an observed relay; plus UDP "
                       "packet-queue runs with capacities 0..4, a REUSED read buffer and manual draining; non-trivial = payload with >= 3 lines or a queue run with a drop; distinct by case"
                       % len(cases))
    nbad = 0
    by_payload = {}
    for c, m_, i, m in zip(cases, meta, impl, model):
        f = dict(x.split("=", 1) for x in i.split(" ") if "=" in x)
        payload = dict(case=c[:3000], meta={k: (repr(v)[:300]) for k, v in (m_ or {}).items()}, impl=i[:1500], model=m[:1500])
        lines = [] if f.get("lines", "none") == "none" else [vf.unhex(x) for x in f["lines"].split(",")]
        bad = None
        if i.startswith("ERR"):
            bad = "harness error"
        elif m_ and m_["kind"] in ("U", "X"):
            p = m_["payload"]
            if lines != p.split(b"\n"):
                bad = "a datagram is not split at newlines only, each piece one line"
            elif int(f["L"]) != len(lines):
                bad = "the line counter does not count every line once"
            elif f["relayed"] not in ("off",) and ([] if f["relayed"] == "none" else [vf.unhex(x) for x in f["relayed"].split(",")]) != [l for l in lines if l]:
                bad = "lines relayed differ from the non-empty lines received"
            if len(lines) >= 3:
                rep.nontrivial(c)
            by_payload.setdefault(p, {})[m_["kind"]] = lines
        elif m_ and m_["kind"] == "T":
            p = m_["payload"]
            exp, closed = expected_lines_tcp(p)
            if lines != exp:
                bad = "TCP framing differs from: split at newlines, strip one CR of a terminated line, keep an unterminated tail"
            elif int(f["toolong"]) != (1 if closed else 0):
                bad = "an over-long TCP line is not counted exactly once (or a fitting line was refused)"
            elif int(f["L"]) != len(lines):
                bad = "the line counter does not count every line once"
            elif f["relayed"] not in ("off",) and ([] if f["relayed"] == "none" else [vf.unhex(x) for x in f["relayed"].split(",")]) != [l for l in lines if l]:
                bad = "lines relayed differ from the non-empty lines received"
            if len(lines) >= 3:
                rep.nontrivial(c)
            by_payload.setdefault(p, {})["T"] = (lines, closed)
        elif m_ and m_["kind"] == "P":
            # every datagram processed or dropped or queued; processed in order, content as received
            q, proc, drops = [], [], 0
            for op in m_["ops"]:
                if op == "D":
                    if q:
                        proc.append(q.pop(0))
                else:
                    dgram = vf.unhex(op[1:])
                    if len(q) < m_["cap"]:
                        q.append(dgram)
                    else:
                        drops += 1
            exp_lines = [l for dgm in proc for l in dgm.split(b"\n")]
            if lines != exp_lines:
                bad = "datagrams were processed out of order or their content changed after being received (read buffer reused)"
            elif int(f["drops"]) != drops or int(f["udp"]) != len(m_["received"]) or int(f["queued"]) != len(q):
                bad = "received != processed + dropped + queued"
            if drops:
                rep.nontrivial(c)
        if bad:
            rep.violation(bad, payload)
        if i != m:
            nbad += 1
            if not bad and len(rep.violations) < 5:
                rep.violation("implementation differs from the proved model (listener engine)", payload, no_input=True)
        if len(rep.violations) >= 5:
            break
    # the same payload on the three transports: same non-empty lines when it has no CR and no over-long line
    for p, d_ in by_payload.items():
        if "T" in d_ and "U" in d_ and b"\r" not in p and not d_["T"][1]:
            if [l for l in d_["T"][0] if l] != [l for l in d_["U"] if l] or d_.get("X", d_["U"]) != d_["U"]:
                rep.violation("the same payload yields different lines on different transports", dict(payload=repr(p)[:500], tcp=repr(d_["T"])[:500], udp=repr(d_["U"])[:500]))
                break
    rep.extra["disagreements_with_model"] = nbad
    if not replay and len(rep.violations) < 5:
        E2E.run_listener_scenarios(rep, "C18", tier, seed)
        E2E.run_tcp_concurrent(rep, "C18", tier, seed)
        E2E.run(rep, "C18", tier, seed, n_quick=4, n_thorough=60, gen=E2E.gen_order_case, key="e2e_order")
        E2E.run(rep, "C18", tier, seed, n_quick=3, n_thorough=24, gen=E2E.gen_big_datagram_case, key="e2e_bigdatagram")
        rep.cov["rule"] += ("; plus, against the built binary (main.go's wiring of the three listeners): %d UDP bursts against a packet queue of 0-4 entries (packets = processed + dropped, "
                            "no line lost or doubled), the relay on every transport (%d runs: each non-empty line relayed once, in order), and %d datagram-order histories (a 1500-4500 line "
                            "packet that ends by setting a gauge, directly followed by packets that move it) and %d datagrams of 65507-65535 bytes" % (rep.extra.get("e2e_bursts", 0), rep.extra.get("e2e_relay_runs", 0), rep.extra.get("e2e_order_cases", 0), rep.extra.get("e2e_bigdatagram_cases", 0)))
    if not replay:
        # the listener model has no time input: the source must not have one either; if it does, look for the pause that shows it
        genproof.clock_obligation(rep, "C18_clock.v", "a listener (pkg/listener or package main) asks the clock something - a wall-clock read, a timer or an I/O deadline - "
                                  "while the model frames a stream independently of how the sender spaces it in time", ("pkg/listener.", ".", "main."),
                                  search=lambda: E2E.run_tcp_pauses(rep, "C18", seed, [3000, 11000, 31000, 61000, 65000, 125000] if tier == "quick" else [3000, 11000, 31000, 61000, 65000, 125000, 305000, 610000]))
    rep.sample(dict(case=cases[0][:200], impl=impl[0][:300]))
    rep.sample(dict(case=cases[-1][:200], impl=impl[-1][:300]))
