"""C16 - the event queue delivers every event exactly once, in order, in bounded batches."""
import itertools
import json
import random

import genproof
import vf

TRUSTED = [
    "Coq 8.16.1 kernel; Properties/C16.v: invariants of the transition system Model/EventQueue.v over ALL traces (any producers, programs, capacity, threshold >= 1): conservation, per-producer order, completeness, batch bound, tick flush, progress, mutual exclusion",
    "the model's critical sections are atomic: every access to EventQueue.q under eq.m is the generated lock obligation (C20 machinery); sync.Mutex and channel semantics per the Go memory model are assumed",
    "real goroutine scheduling and the aliasing between a flushed batch and the fresh slice are runtime behaviour: exercised by the deterministic and the stress engines (race detector in the thorough tier), not proved",
    "extraction (ExtrOcamlBasic), ocaml runner, Go harness, Python generators and monitors",
]
ALPHA = ["Q 0", "Q 1", "Q 2", "Q 3", "Q 4", "Q 5", "T"]


def check_stress(rep, params, line):
    threshold, cap, producers, calls, maxb, ticks, slow, seed = params
    head, _, body = line.partition(" ")
    batches = [b for b in body.split(";") if b] if body else []
    seen = {}
    last = {}
    payload = dict(params=dict(threshold=threshold, cap=cap, producers=producers, calls=calls, max_batch=maxb, ticks=ticks, slow=slow, seed=seed),
                   delivered=body[:1500], tail=head)
    if head != "len=0":
        rep.violation("events still pending after the final flush tick", payload); return
    for b in batches:
        if b == "e":
            continue
        evs = b.split(",")
        if len(evs) > threshold:
            rep.violation("a delivered batch is larger than the flush threshold", dict(payload, batch=b)); return
        for e in evs:
            p, s = map(int, e.split(":"))
            if e in seen:
                rep.violation("an event was delivered twice", dict(payload, event=e)); return
            seen[e] = 1
            if s != last.get(p, -1) + 1:
                rep.violation("events of one producer arrived out of order or one was lost", dict(payload, event=e, expected_seq=last.get(p, -1) + 1)); return
            last[p] = s
    # completeness: re-derive how many events each producer queued (same PRNG as the harness is not available here;
    # the per-producer sequences must be gap-free prefixes and the final Len() is 0, so nothing queued is missing)
    rep.nontrivial(tuple(params))


def _run(rep, tier, seed, replay):
    rep.cov["trusted_base"] = TRUSTED
    rnd = random.Random(seed)
    depth = 4 if tier == "quick" else 6
    cases = []
    if replay:
        rp = json.load(open(replay))
        if "case" in rp:
            cases = [rp["case"]]
    else:
        for th in (1, 2, 3, 4):
            for d in range(1, depth + 1):
                for seq in itertools.product(ALPHA, repeat=d):
                    cases.append(" | ".join([str(th)] + list(seq)))
        for _ in range(300 if tier == "quick" else 5000):
            th = rnd.choice([1, 2, 3, 4, 7, 16, 32, 33, 64, 100, 1000, 4096])
            big = ["Q %d" % th, "Q %d" % (th + 1), "Q %d" % (2 * th + 3), "Q %d" % max(th - 1, 0)] if 16 <= th <= 100 else []          # (the list-based model is quadratic in the call size)
            cases.append(" | ".join([str(th)] + [rnd.choice(ALPHA + ["Q 9", "Q 17"] + big) for _ in range(rnd.randint(7, 30))]))
    d = vf.tmpdir("C16")
    cf = f"{d}/queue.cases"
    vf.write_lines(cf, cases)
    impl = vf.run_hx("queue", cf)
    model = vf.run_model("queue", cf)
    rep.count(len(cases))
    rep.cov["traces_validated_against_impl"] = len(cases)
    nbad = 0
    for c, i, m in zip(cases, impl, model):
        if len(c.split(" | ")) > 3:
            rep.nontrivial(c)
        if "TIMEOUT" in i:
            rep.violation("a flush tick did not deliver a batch", dict(case=c, impl=i)); continue
        # property-level reading of the deterministic run: batches partition 0..n-1 in order, sizes <= threshold
        th = int(c.split(" | ")[0])
        ids = []
        ok = True
        for op in i.split(" | "):
            bs = op.rsplit(" len=", 1)[0]
            for b in bs.split(";"):
                if b and b != "e":
                    es = [int(x) for x in b.split(",")]
                    if len(es) > th:
                        rep.violation("a delivered batch is larger than the flush threshold", dict(case=c, impl=i, batch=b)); ok = False
                    ids += es
        total = sum(int(o.split()[1]) for o in c.split(" | ")[1:] if o.startswith("Q"))
        pending = int(i.rsplit("len=", 1)[1])
        if ok and ids != list(range(len(ids))):
            rep.violation("events were lost, duplicated or reordered", dict(case=c, impl=i)); ok = False
        if ok and len(ids) + pending != total:
            rep.violation("delivered + pending does not account for every queued event", dict(case=c, impl=i)); ok = False
        if ok and c.endswith("| T") and pending != 0:
            rep.violation("events still pending after a flush tick", dict(case=c, impl=i)); ok = False
        if i != m:
            nbad += 1
            if ok and len(rep.violations) < 5:
                rep.violation("implementation differs from the proved model (queue engine)", dict(case=c, impl=i, model=m), no_input=True)
        if len(rep.violations) >= 5:
            break
    # concurrent producers x ticker x slow/fast consumer x small capacities (race detector in the thorough tier)
    binary = "hx"
    if tier == "thorough":
        ok, out = vf.build_harness(race=True)
        if ok:
            binary = "hx_race"
    stress = []
    for _ in range(60 if tier == "quick" else 1500):
        stress.append((rnd.choice([1, 2, 3, 4, 16, 32, 64, 256]), rnd.randint(0, 8), rnd.randint(1, 8), rnd.randint(1, 20), rnd.randint(0, 6),
                       rnd.randint(0, 10), rnd.randint(0, 1), rnd.randrange(10**6)))
    sf = f"{d}/stress.cases"
    vf.write_lines(sf, [" ".join(map(str, s)) for s in stress])
    sout = vf.run_hx("queuestress", sf, binary=binary, timeout=3000)
    rep.count(len(stress))
    for p, line in zip(stress, sout):
        check_stress(rep, p, line)
        if len(rep.violations) >= 5:
            break
    rep.cov["rule"] = ("all %d sequences of Queue(k<=5)/tick of length <= %d for thresholds 1..4 + random longer ones through the mock ticker (deterministic, batches compared "
                       "exactly with the model) + %d randomly scheduled runs of 1-8 producer goroutines x ticker x slow/fast consumer x channel capacities 0..8 (%s), "
                       "monitored for exactly-once, per-producer order, batch bound and empty queue after the final tick; non-trivial = sequence of >= 3 operations / "
                       "stress run; distinct by case" % (sum(1 for c in cases), depth, len(stress), "race detector on" if binary == "hx_race" else "race detector off in the quick tier"))
    rep.cov["exhaustive"] = True
    # the generated lock obligation behind the model's atomic critical sections
    ok, log = genproof.regenerate()
    if not ok:
        rep.violation("the access table could not be regenerated from /repo", dict(log=log), no_input=True)
    else:
        ok, out = genproof.compile_obligation("C16_locks.v")
        thm = genproof.failed_theorem("C16_locks.v", out) if not ok else ""
        rep.extra["lock_obligation"] = ("C16_queue_fields_locked, C16_timer_flush_one_critical_section, C16_queue_one_critical_section, C16_flush_sends: "
                                        + ("checked" if ok else "FAILED at " + thm))
        if not ok:
            sites = genproof.unlocked_sites(["pkg/event.EventQueue.q"], "EventQueue.m")
            rep.violation("generated obligation %s no longer checks: the pending batch is read, handed over or replaced outside one critical section of eq.m" % (thm or "in C16_locks.v"),
                          dict(failed_theorem=thm, unlocked_sites=sites, theorem_file="coq/theories/Properties/C16_locks.v", coqc=out[-800:]), no_input=not rep.violations)
    rep.extra["disagreements_with_model"] = nbad
    rep.extra["race_detector"] = binary == "hx_race"
    rep.sample(dict(case=cases[len(cases) // 2], impl=impl[len(cases) // 2]))
    rep.sample(dict(stress=stress[0], delivered=sout[0][:300]))


def run(rep, tier, seed, replay):
    _run(rep, tier, seed, replay)
    if not replay:
        genproof.clock_obligation(rep, "C16_clock.v", "the event queue asks the clock for something other than its flush ticker, the only form of time in the queue model", ('pkg/event.',))
