"""C06 - exposed counters never decrease and never become NaN."""
import struct

import gen_mapper as GM
import pipeline_check as PC
import pipeline_engine as PE
import genproof
import vf

KF_WRAP = "counter-uint64-wrap"
VALS = [b"1", b"2.5", b"0", b"-0", b"+0", b"100", b"0.001", b"1e19", b"18446744073709551615", b"9223372036854775808", b"1e308", b"4.9e-324",
        b"-1", b"-0.5", b"nan", b"NaN", b"inf", b"+Inf", b"-inf", b"1e400", b"0x1p-1074", b"9007199254740993", b"7", b"3"]
RATES = [None, None, b"1", b"0.5", b"0.1", b"-1", b"-0.5", b"0", b"nan", b"inf", b"-inf", b"2", b"1e-3", b"1e400"]
SCALES = [None, None, 1.0, 0.5, 0.0, -1.0, -0.0, 1e300, float("nan"), float("inf"), float("-inf"), 1e-300]
BIG = (b"1e19", b"18446744073709551615", b"9223372036854775808")


def f_of(bits):
    return struct.unpack(">d", bytes.fromhex(bits))[0]


def go_float(tok):
    """(value, range error) as strconv.ParseFloat reads the spellings used here"""
    t = tok.decode()
    try:
        if t.lower().lstrip("+-").startswith("0x"):
            return float.fromhex(t), False
        v = float(t)
    except (ValueError, OverflowError):
        return None, True
    inf_like = t.lower().lstrip("+-") in ("inf", "infinity")
    return v, (v in (float("inf"), float("-inf")) and not inf_like)


class WrapEmulation:
    """client_golang's counter: integral increments below 2^64 go to a uint64 (wrapping), the others to a float.
    Used only to recognise the known finding counter-uint64-wrap: a decrease at a scrape since whose predecessor the
    integer part of that very series wrapped."""

    def __init__(self, scale):
        self.scale = scale
        self.ints = {}
        self.wrapped = set()

    def line(self, l):
        name, rest = l.split(b":", 1)
        parts = rest.split(b"|")
        v, err = go_float(parts[0])
        if v is None or err:
            return
        for c in parts[2:]:
            if c[:1] == b"@":
                r, _ = go_float(c[1:])
                if r is None:
                    r = 0.0
                if r == 0:
                    r = 1.0
                v = v / r
        if name.startswith(b"c.") and self.scale is not None:
            v = v * self.scale
        if v != v or v < 0 or v >= 2.0 ** 64 or v != int(v):
            return
        cur = self.ints.get(name, 0) + int(v)
        if cur >= 2 ** 64:
            self.wrapped.add(name.replace(b".", b"_"))
            cur -= 2 ** 64
        self.ints[name] = cur


def gen_case(rnd):
    sc = rnd.choice(SCALES)
    # a ttl that never elapses (2562047h): sweeps in between must not reset any counter
    huge = 9223369200 * 10**9 if rnd.random() < 0.3 else 0
    rules = [GM.rule(b"c.*", b"c_$1", scale=sc, help=b"r0", ttl=huge, labels=[(b"env", b"x")] if rnd.random() < 0.3 else [])]
    ops = [GM.load_op((GM.defaults(ttl=huge) if huge else None, rules))]
    nbig = 0
    for _ in range(rnd.randint(3, 20)):
        v = rnd.choice(VALS)
        nbig += v in BIG
        l = rnd.choice([b"c.a", b"c.a", b"c.b", b"plain"]) + b":" + v + b"|c"
        r = rnd.choice(RATES)
        if r is not None:
            l += b"|@" + r
        ops += [PE.I(l), "G"]
        if huge and rnd.random() < 0.3:
            ops += ["A %d" % rnd.choice([10**9, 3 * 10**9, 3600 * 10**9]), "S", "G"]
    return (15, ("none", 0), ops, dict(nbig=nbig, scale=repr(sc), scale_value=sc))


def monitor(rep, case, impl, model, payload):
    fl, cache, ops, meta = case
    prev = {}
    moved = False
    emu = WrapEmulation((meta or {}).get("scale_value"))
    for k, (o, i) in enumerate(zip(ops, impl)):
        if "PANIC" in i:
            rep.violation("panic", dict(payload, op_index=k, impl=i)); return
        if o.startswith("I "):
            emu.line(vf.unhex(o[2:]))
        if o != "G":
            continue
        g = PE.parse_gather(i)
        if not g["ok"]:
            rep.violation("scrape failed", dict(payload, op_index=k, impl=i[:300])); return
        cur = {}
        for nm, (ty, hlp, series) in g["families"].items():
            if ty != "c":
                continue
            for lab, bits in series.items():
                v = f_of(bits)
                cur[(nm, lab)] = v
                if v != v:
                    rep.violation("a counter is NaN", dict(payload, op_index=k, series=[nm.decode(), lab], prefix=PC.describe(ops[:k + 1]))); return
                p = prev.get((nm, lab))
                if p is not None and v < p:
                    if nm in emu.wrapped and rep.known(KF_WRAP):
                        return
                    rep.violation("a counter decreased between two scrapes",
                                  dict(payload, op_index=k, series=[nm.decode(), lab], before=p, after=v, prefix=PC.describe(ops[:k + 1]))); return
                if p is not None and v > p:
                    moved = True
        prev = cur
        emu.wrapped.clear()
    if moved:
        rep.nontrivial(tuple(ops))


def _run(rep, tier, seed, replay):
    extra = [(15, ("none", 0), [PE.I(b"w:1e19|c"), "G", PE.I(b"w:1e19|c"), "G"], dict(nbig=2, scale="None", scale_value=None)),
             (15, ("none", 0), [PE.I(b"n:1|c"), "G", PE.I(b"n:NaN|c"), "G", PE.I(b"n:1|c|@nan"), "G", PE.I(b"n:-1|c|@-1"), "G"], dict(nbig=0, scale="None", scale_value=None))]
    # a counter created without a ttl that receives one later, when it is already older than that ttl: its next sample must not reset it
    for first_ttl, mode in ((0, "rule"), (0, "defaults"), (3600 * 10**9, "rule")):
        def cfg(ttl):
            return (GM.defaults(ttl=ttl) if mode == "defaults" else None, [GM.rule(b"c.*", b"c_$1", help=b"r0", ttl=(ttl if mode == "rule" else 0))])
        extra.append((15, ("none", 0), [GM.load_op(cfg(first_ttl)), PE.I(b"c.a:3|c"), "G", "A 100000000000", GM.load_op(cfg(5 * 10**9)), PE.I(b"c.a:1|c"), "G", "A 1000000000", "S", "G",
                                        PE.I(b"c.a:1|c"), "G", "A 1000000000", "S", "G"], dict(nbig=0, scale="None", scale_value=None)))
    PC.run(rep, "C06", tier, seed, replay, gen_case, monitor, 700, 40000,
           "%(n)d counter histories of 3-20 lines with values and sampling rates from finite, negative, signed-zero, huge (2^63, 2^64-1, 1e19, 1e308), denormal, "
           "Inf and NaN spellings and rule scale factors incl. 0, -0, negative, NaN, +-Inf; value observed at every prefix; non-trivial = history in which some "
           "counter strictly increased; distinct by op sequence", extra_cases=extra)


def run(rep, tier, seed, replay):
    _run(rep, tier, seed, replay)
    if not replay:
        # "never decreases unless the ttl expired": expiry is measured on the clock the registry reads; the same obligations as C07
        genproof.clock_obligation(rep, "C07_clock.v", "time enters the registry / exporter loop other than as clock.Now and the sweep ticker of pkg/clock, pkg/clock turns its "
                                  "instants into wall-clock-only values, or the wall clock is read without going through pkg/clock", ("pkg/registry.", "pkg/exporter.", "pkg/clock."))
