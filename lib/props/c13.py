"""C13 - the mapping cache is invisible (any kind, any size, across reloads)."""
import json
import random

import gen_glob as GG
import gen_mapper as GM
import mapper_engine as ME
import genproof
import vf

TRUSTED = [
    "Coq 8.16.1 kernel; Properties/C13.v: for EVERY sound cache (any policy, any size) the mapper's outputs equal those of the cache-free specification; LRU and random-replacement (any eviction choice) are sound",
    "hand-written model of pkg/mapper + pkg/mappercache tied to the code by differential execution; cache metrics ignored",
    "regexp / yaml.v2 / unicode tables are oracles recorded from the implementation; Go map iteration order (RR eviction) is universally quantified in the theorem and not compared",
    "extraction (ExtrOcamlBasic), ocaml runner, Go harness, Python generators and monitors",
]
CACHES = [("none", 0)] + [(k, s) for k in ("lru", "rr") for s in (1, 2, 3, 8, 1000)]


def overlap(rnd, cfg):
    """add a sibling to a glob rule: the same (or a more general) pattern with another match_metric_type, so that one
    name is answered by different rules depending on the metric type"""
    d, rules = cfg
    globs = [r for r in rules if r["match_type"] != b"regex"]
    if not globs:
        return cfg
    r = rnd.choice(globs)
    fs = r["match"].split(b".")
    if rnd.random() < 0.5:
        k = rnd.randrange(len(fs))
        if k or fs[k] == b"*":
            fs[k] = b"*"
    sib = GM.rule(b".".join(fs), rnd.choice([b"sib", b"sib_$1", b"s${2}"]), help=b"sib", labels=[(b"c1", b"$1")] if rnd.random() < 0.5 else [],
                  mmt=rnd.choice([t for t in GG.TYPEF if t != r["mmt"]]))
    pos = rnd.randint(0, len(rules))
    return (d, rules[:pos] + [sib] + rules[pos:])


def instance(rnd, pat):
    return b".".join(rnd.choice([b"a", b"b", b"c", b"z"]) if f == b"*" else f for f in pat.split(b"."))


def gen_ops(rnd, nops):
    cfgs = [GG.random_cfg(rnd, maxrules=6) for _ in range(3)]
    cfgs = [overlap(rnd, c) if rnd.random() < 0.6 else c for c in cfgs]
    nkeys = rnd.choice([2, 4, 12])
    keyspace = []
    if rnd.random() < 0.25:
        import gen_line as GL
        keyspace += GL.FNV_TWIN_COUNTER_NAMES + GL.FNV64_TWIN_NAMES        # names whose cache keys collide under FNV-1a (as counters)
        twins = [GM.rule(b"req.*", b"req_$1", help=b"tw0", labels=[(b"c1", b"$1")]), GM.rule(b"app.*.requests", b"app_$1", help=b"tw1", labels=[(b"c1", b"$1")]),
                 GM.rule(b"m.*", b"m_$1", help=b"tw2", labels=[(b"c1", b"$1")])]
        cfgs = [(d, [dict(t) for t in twins] + rules) for d, rules in cfgs]
    globs = [r["match"] for c in cfgs for r in c[1] if r["match_type"] != b"regex"]
    for _ in range(nkeys):
        # mostly names that some rule of some configuration matches, so that answers (and their types) differ
        keyspace.append(instance(rnd, rnd.choice(globs)) if globs and rnd.random() < 0.7 else GG.random_name(rnd))
    ops = [GM.load_op(cfgs[0])]
    desc = ["load#0"]
    for _ in range(nops):
        r = rnd.random()
        if r < 0.08:
            k = rnd.randrange(3)
            ops.append(GM.load_op(cfgs[k])); desc.append(f"load#{k}")
        elif r < 0.12:
            bad, _ = GG.invalid_cfg(rnd)
            ops.append(GM.load_op(bad)); desc.append("load-invalid")
        else:
            n = rnd.choice(keyspace)
            ty = rnd.choice(["counter", "gauge", "observer"])
            ops.append(GM.query_op(ty, n)); desc.append(f"{ty}:{n.decode('latin1')}")
    return ops, desc, cfgs


def cache_keys(rep, rnd, n):
    """the key under which a (type, name) pair is cached must be the model's injective format_key: type, a dot, the name"""
    import gen_line as GL
    pool = GL.NAME_ATOMS + GL.SYNTAX_NAMES + [b"", b".", b"counter", b"gauge.a", b"a.counter", b"observer.x"] + GL.FNV_TWIN_COUNTER_NAMES + GL.FNV64_TWIN_NAMES
    cases = []
    for _ in range(n):
        name = b".".join(rnd.choice(pool) for _ in range(rnd.randint(1, 4))) if rnd.random() < 0.8 else bytes(rnd.randrange(1, 256) for _ in range(rnd.randint(1, 40))).replace(b"\n", b"n")
        cases.append((rnd.choice(["counter", "gauge", "observer"]), name))
    # reloads in between: the mapper must reset its cache once per successful load and leave it alone on a failed one
    good = [b"mappings:\n- match: \"zz.*\"\n  name: \"zz_$1\"\n", b"mappings:\n- match: \"zz.*\"\n  name: \"other_$1\"\n- match: \"a.*\"\n  name: \"a\"\n", b"mappings: []\n"]
    badc = [b"mappings:\n- match: \"a..b\"\n  name: \"x\"\n", b"mappings:\n- match: \"a.*\"\n  name: \"0-bad name\"\n", b"mappings: [\n"]
    for k in range(0, len(cases), max(1, len(cases) // 12)):
        cases.insert(k, ("RELOAD", rnd.choice(good if rnd.random() < 0.6 else badc)))
    cases.append(("RELOAD", good[0]))
    d = vf.tmpdir("C13")
    cf = f"{d}/cachekeys.cases"
    vf.write_lines(cf, [f"{t} {vf.hexs(nm)}" for t, nm in cases])
    impl = vf.run_hx("cachekeys", cf)
    model = vf.run_model("cachekeys", cf)
    rep.count(len(cases))
    bad = 0
    seen = {}
    for (t, nm), i, m in zip(cases, impl, model):
        if t == "RELOAD":
            want = "RELOAD ok=true resets=1" if nm in good else "RELOAD ok=false resets=0"
            if i != want:
                rep.violation("a (re)load does not reset the mapping cache exactly once when it succeeds and not at all when it fails", dict(yaml=nm.decode(), observed=i, expected=want))
            continue
        if i != m:
            bad += 1
            if len(rep.violations) < 5:
                rep.violation("the key handed to the mapping cache is not <type>.<name> (the model's injective format_key)",
                              dict(metric_type=t, name=repr(nm), name_hex=vf.hexs(nm), impl=i, model=m))
        k = i.split(" ")[0]
        if k in seen and seen[k] != (t, nm):
            rep.violation("two different (type, name) pairs share one cache key", dict(a=repr(seen[k]), b=repr((t, nm)), key=k))
        seen[k] = (t, nm)
    rep.extra["cache_keys_compared"] = len(cases)
    rep.extra["cache_key_disagreements"] = bad


def _run(rep, tier, seed, replay):
    rep.cov["trusted_base"] = TRUSTED
    rnd = random.Random(seed)
    nseq = 150 if tier == "quick" else 4000
    seqs = []
    if replay:
        rp = json.load(open(replay))
        seqs = [(rp["ops"], rp["desc"], None)]
    else:
        for _ in range(nseq):
            seqs.append(gen_ops(rnd, rnd.choice([20, 40, 80])))
    cases = []
    for ops, desc, _ in seqs:
        for kind, size in CACHES:
            cases.append(GM.case_line(kind, size, ops))
    impl, model = ME.run_cases("C13", cases)
    nc = len(CACHES)
    rep.cov["traces_validated_against_impl"] = len(cases)
    rep.cov["rule"] = ("%d operation sequences (20-80 lookups over key spaces of 2/4/12 names x 3 types with repeats, reloads between any two "
                       "lookups incl. invalid ones) x {no cache, LRU, RR} x sizes 1,2,3,8,1000; non-trivial = a sequence with at least one "
                       "repeated key; distinct by sequence" % len(seqs))
    nbad = 0
    hits = 0
    for si, (ops, desc, _) in enumerate(seqs):
        rep.count(len(ops) * nc)
        if len(set(desc)) < len(desc):
            rep.nontrivial(tuple(desc))
            hits += len(desc) - len(set(desc))
        ref = impl[si * nc]
        for ci, (kind, size) in enumerate(CACHES):
            i, m = impl[si * nc + ci], model[si * nc + ci]
            if i != ref:
                k = next((k for k in range(min(len(i), len(ref))) if i[k] != ref[k]), 0)
                rep.violation(f"a lookup through the {kind} cache of size {size} differs from the lookup with no cache",
                              dict(ops=ops, desc=desc, cache=[kind, size], op_index=k, op=desc[k] if k < len(desc) else None,
                                   cached=i[k], uncached=ref[k]))
                break
            if i != m:
                nbad += 1
                if len(rep.violations) < 5:
                    k = next((k for k in range(min(len(i), len(m))) if i[k] != m[k]), 0)
                    rep.violation("implementation differs from the proved model (mapper engine)",
                                  dict(ops=ops, desc=desc, cache=[kind, size], op_index=k, impl=i[k], model=m[k]), no_input=True)
        if len(rep.violations) >= 5:
            break
    if not replay:
        cache_keys(rep, rnd, 3000 if tier == "quick" else 100000)
    if not replay:
        import genproof
        genproof.mapper_atomicity(rep, "nothing cached under a previous configuration survives a reload, also when lookups run during it")
    rep.extra["disagreements_with_model"] = nbad
    rep.extra["repeated_key_lookups"] = hits
    rep.sample(dict(desc=seqs[0][1][:12], impl=impl[1][:6]))


def run(rep, tier, seed, replay):
    _run(rep, tier, seed, replay)
    if not replay:
        genproof.reload_count(rep, "C13", tier, unordered=False)
        genproof.clock_obligation(rep, "C13_clock.v", "the mapper or one of its caches asks the clock something (entries that age, time-based decisions), while a lookup is a function of the configuration, the name, the type and the cache contents", ('pkg/mapper', 'pkg/mappercache'))
        genproof.digest_obligation(rep, "cache entries are filed under a digest of the (type, name) key")
