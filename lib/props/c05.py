"""C05 - labels come only from the event's own tags and its own rule."""
import gen_mapper as GM
import gen_pipeline as GP
import pipeline_check as PC
import pipeline_engine as PE
import genproof
import vf


import gen_line as GL
# label sets that differ only in where a would-be separator character falls: {a="pSq", bc="r"} and {a="p", bc="qSr"}; and keys that are FNV-64 twins
SHIFTS = [b"|#a:p" + x + b"q,bc:r" for x in GL.SEPARATORS] + [b"|#a:p,bc:q" + x + b"r" for x in GL.SEPARATORS] + \
         [b"|#" + GL.FNV64_TWINS[0] + b":eu", b"|#" + GL.FNV64_TWINS[1] + b":eu", b"|#" + GL.FNV64_TWINS[1] + b":eu," + GL.FNV64_TWINS[0] + b":us"]


# label sets that a length-prefixed encoding with one-byte lengths cannot tell apart: lengths that differ by 256 and a filler byte
# whose code is the wrapped length of the neighbour ({a=f, bc=f*(256+f)} and {a=f*257, bc=f*f}, f the byte and its code)
def _lp(f):
    c = bytes([f])
    return (b"|#a:" + c + b",bc:" + c * (256 + f), b"|#a:" + c * 257 + b",bc:" + c * f)
LENGTH_TWINS = [_lp(f) for f in (65, 97, 48, 95)]


def cfg_for(rnd):
    rules = []
    for i, mmt in enumerate(rnd.sample([b"counter", b"gauge", b"observer", None], rnd.randint(2, 4))):
        rules.append(GM.rule(rnd.choice([b"foo", b"foo.*", b"*", b"*.*"]), rnd.choice([b"foo", b"foo_$1", b"m%d" % i]), mmt=mmt, help=b"r%d" % i,
                             labels=[(rnd.choice([b"ca", b"gb", b"env", b"k_1", b"shard_", b"bc"]), rnd.choice([b"rule%d" % i, b"$1", b"${1}x"]))] if rnd.random() < 0.8 else [],
                             honor=rnd.random() < 0.4, ttl=rnd.choice([0, 0, 2 * 10**9])))
    return (GM.defaults(observer_type=rnd.choice([None, b"histogram"])), rules)


def gen_case(rnd):
    cfg = cfg_for(rnd)
    lines = []
    for _ in range(rnd.randint(2, 10)):
        nm = rnd.choice([b"foo", b"foo.a", b"bar", b"foo.b"])
        tags = rnd.choice([b"", b"", b"|#env:tag", b"|#a.b:1,a-b:2", b"|#k_1:t,ca:t", b"|#gb:z",
                           # keys that need escaping beyond ASCII (a non-ASCII digit, letters whose low byte is a delimiter), a key that clashes with
                           # a rule label only after escaping, and two label sets whose names / values concatenate to the same bytes
                           b"|#shard\xd9\xa3:tag", b"|#shard_:t,shard\xd9\xa3:u", "|#\u0440\u0435\u0433\u0438\u043e\u043d:eu,\u043a\u043b\u0430\u0441\u0442\u0435\u0440:a1".encode(),
                           b"|#a:a,bc:bc", b"|#ab:a,c:bc", b"|#a:ab,bc:c", b"|#" + b"K" * 70 + b":v"] + SHIFTS + SHIFTS)
        if rnd.random() < 0.06:
            # both members of a twin pair on one name, in one case
            for t_ in rnd.choice(LENGTH_TWINS + [(SHIFTS[k], SHIFTS[k + len(GL.SEPARATORS)]) for k in range(len(GL.SEPARATORS))]):
                lines.append((nm, [rnd.choice([b"1|c", b"2|g", b"4|ms"])], t_))
            continue
        r = rnd.random()
        if r < 0.5 and not tags:
            samples = [rnd.choice([b"1|c", b"2|g", b"+3|g", b"4|ms", b"5|h", b"6|c|@0.5", b"7|ms|@0.5"]) for _ in range(rnd.randint(2, 4))]
            lines.append((nm, samples, b""))
        elif r < 0.65:
            lines.append((nm, [b"1:2:3|" + rnd.choice([b"ms", b"h", b"d"])], tags))
        else:
            lines.append((nm, [rnd.choice([b"1|c", b"2|g", b"4|ms", b"5|h|@0.5"])], tags))
    def ops_of(split):
        ops = [GM.load_op(cfg)]
        for nm, samples, tags in lines:
            if split and len(samples) > 1:
                for s in samples:
                    ops.append(PE.I(nm + b":" + s))
            else:
                ops.append(PE.I(nm + b":" + b":".join(samples) + tags))
            if rnd is None:
                pass
        ops.append("G")
        return ops
    cache = rnd.choice([("none", 0), ("lru", 1), ("lru", 2), ("rr", 1), ("rr", 3)])
    return (15, cache, ops_of(False), dict(split_ops=ops_of(True)))


PAIRS = {}


def monitor(rep, case, impl, model, payload):
    fl, cache, ops, meta = case
    for k, i in enumerate(impl):
        if "PANIC" in i:
            rep.violation("panic", dict(payload, op_index=k, impl=i)); return
    key = json_key(ops)
    if meta and "split_ops" in meta:
        PAIRS[json_key(meta["split_ops"])] = (ops, impl[-1])
        if any(o.startswith("I ") and vf.unhex(o[2:]).count(b"|") >= 2 and b":" in vf.unhex(o[2:]).split(b":", 1)[1].split(b"|#")[0].split(b"|")[-1 if False else 0] for o in ops):
            rep.nontrivial(tuple(ops))
    elif key in PAIRS:
        orig_ops, orig_final = PAIRS[key]
        a, b = PE.parse_gather(orig_final), PE.parse_gather(impl[-1])
        if a["families"] != b["families"]:
            rep.violation("samples sharing a line end up with different labels/series than the same samples sent on separate lines",
                          dict(payload, grouped=PC.describe(orig_ops), separate=PC.describe(ops), grouped_scrape=orig_final[:600], separate_scrape=impl[-1][:600]))


def json_key(ops):
    return "\n".join(ops)


def leftover_captures():
    out = []
    for r1, r2, names in ((b"*.b.c", b"a.*.*", [b"a.b.c", b"x.b.c"]), (b"*.checkout.latency.p99", b"web.*.*.mean", [b"web.checkout.latency.p99"]), (b"*.*.z", b"a.*.*", [b"a.b.z", b"a.b.c"])):
        for order in (0, 1):
            for unordered in (False, True):
                rules = [GM.rule(r1, b"shop", help=b"r0", labels=[(b"site", b"$1"), (b"region", b"$2"), (b"zone", b"${3}")]), GM.rule(r2, b"other_$1", help=b"r1", labels=[(b"ca", b"$2")])]
                cfg = (GM.defaults(disable_ordering=True) if unordered else None, rules[::-1] if order else rules)
                for cache in (("none", 0), ("lru", 2)):
                    ops = [GM.load_op(cfg)] + [PE.I(n + b":1|c|#env:prod") for n in names] * 2 + ["G"]
                    out.append((15, cache, ops, None))
    return out


def _run(rep, tier, seed, replay):
    import random
    PAIRS.clear()
    rnd0 = random.Random(seed * 7919 + 1)
    pending = []

    def gen(rnd):
        # each grouped case is followed by its split twin
        if pending:
            return pending.pop()
        c = gen_case(rnd)
        pending.append((c[0], ("none", 0), c[3]["split_ops"], None))
        return c
    PC.run(rep, "C05", tier, seed, replay, gen, monitor, 800, 40000,
           "%(n)d cases in pairs: a stream of multi-sample lines with mixed types hitting type-filtered rules (static and $n labels, honor_labels on/off, tag keys that "
           "collide after escaping, extended aggregation, sampled timers) through caches none/LRU/RR of size 1-3, and the same samples sent one per line without cache; "
           "final scrapes must coincide and both must equal the proved model; non-trivial = grouped stream; distinct by op sequence",
           extra_cases=leftover_captures())


def run(rep, tier, seed, replay):
    _run(rep, tier, seed, replay)
    if not replay:
        genproof.digest_obligation(rep, "a digest of the label names / values stands in for them as the identity of a series")
