"""C14 - configuration reload is all-or-nothing, also under concurrent lookups."""
import json
import random
import re

import e2e_engine as E2E
import gen_glob as GG
import gen_mapper as GM
import genproof
import mapper_engine as ME
import vf

MAPPER_FIELDS = ["pkg/mapper.MetricMapper.Defaults", "pkg/mapper.MetricMapper.Mappings", "pkg/mapper.MetricMapper.FSM",
                 "pkg/mapper.MetricMapper.doFSM", "pkg/mapper.MetricMapper.doRegex", "pkg/mapper.MetricMapper.cache"]


def lock_obligation(rep, tier):
    """the concurrent clause: generated obligation C14_mapper_fields_locked + lookups racing with a reloader"""
    ok, log = genproof.regenerate()
    if not ok:
        rep.violation("the access table could not be regenerated from /repo", dict(log=log), no_input=True)
        return
    ok, out = genproof.compile_obligation("C14_locks.v")
    thm = genproof.failed_theorem("C14_locks.v", out) if not ok else ""
    scen = ["mapper lru 3 4 150", "mapper none 0 4 100"] if tier == "quick" else ["mapper lru 3 8 1500", "mapper rr 2 8 1500", "mapper none 0 8 1000"]
    n, text = genproof.race_hunt(scen)
    rep.extra["lock_obligation"] = ("C14_mapper_fields_locked, C14_reload_one_critical_section, C14_lookup_one_critical_section, "
                                    "C14_cache_changes_inside_mapper_lock: " + ("checked" if ok else "FAILED at " + thm))
    rep.extra["race_reports"] = n
    mixed = [ln for ln in (text or "").splitlines() if "mixed=" in ln and ("mixed=0" not in ln or "stale=0" not in ln)]
    if not ok:
        sites = genproof.unlocked_sites(MAPPER_FIELDS, "MetricMapper.mutex")
        if n or mixed:
            rep.violation("a lookup can observe a reload in progress (mixed / stale answers, or a data race): generated obligation %s no longer checks" % thm,
                          dict(failed_theorem=thm, unlocked_sites=sites, race_output=text[:3000], scenarios=scen,
                               how_to_read="scenario 'mapper <cache> <size> <N> <ms>': N goroutines call GetMapping while one goroutine alternates two configurations; "
                                           "mixed = answers combining both, stale = answers from the previous configuration after InitFromYAMLString returned"))
        else:
            rep.violation("generated obligation %s no longer checks" % (thm or "in C14_locks.v"), dict(failed_theorem=thm, unlocked_sites=sites, theorem_file="coq/theories/Properties/C14_locks.v", coqc=out[-800:]), no_input=True)
    elif mixed:
        rep.violation("a lookup racing with a reload was answered by a mixture of two configurations, or by the previous configuration after the reload returned", dict(output=text[:2000], scenarios=scen))
    elif n:
        rep.violation("the race detector reports a data race between lookups and a reload", dict(race_report=text[:3000], scenarios=scen))

TRUSTED = [
    "Coq 8.16.1 kernel; Properties/C14.v: the mapper (with or without cache) refines 'the last configuration that loaded answers every lookup'; an invalid configuration leaves the state untouched; a valid one answers exactly like a fresh mapper",
    "atomicity of the swap w.r.t. concurrent lookups: the generated access table (tools/accessgen) shows every read of the swapped fields under RLock and every write under Lock (obligation re-proved on every run); sync.RWMutex semantics per the Go memory model is assumed",
    "hand-written model of pkg/mapper tied to the code by differential execution; regexp / yaml.v2 are oracles",
    "runtime part (real goroutine interleavings) is exercised by the race engine, not proved",
]
QUERIES = [("counter", b"a.b"), ("gauge", b"a.b.c"), ("observer", b"b"), ("counter", b"a.z"), ("counter", b"z.z.z"), ("gauge", b"*.a")]


YAML_TEXT = {}          # id(cfg) -> the YAML text to load it from (same configuration, other comments)


def lop(cfg):
    return GM.load_op_yaml(cfg, YAML_TEXT[id(cfg)]) if id(cfg) in YAML_TEXT else GM.load_op(cfg)


def digest_twin_reloads():
    """reload histories A, B, A in which the two files carry the same 32-bit digest (CRC-32, FNV-1 / FNV-1a 32; Adler-32 when a
    pair is found): a reload that recognises "the same file" by such a sum would skip B"""
    out = []
    a = (None, [GM.rule(b"svc.*", b"first_$1", help=b"r0"), GM.rule(b"old.*", b"old", help=b"r1")])
    b = (GM.defaults(ttl=45 * 10**9), [GM.rule(b"svc.*", b"second", help=b"r0", labels=[(b"who", b"$1")]), GM.rule(b"(.*)\\.z", b"re_$1", help=b"r1", match_type=b"regex")])
    for kind in ("crc32", "fnv32", "fnv32a", "adler32"):
        tw = GM.digest_twin_yaml(a, b, kind)
        if not tw:
            continue
        a1, b1, a2 = (a[0], a[1]), (b[0], b[1]), (a[0], a[1])           # fresh tuples: the text is attached by identity
        YAML_TEXT[id(a1)], YAML_TEXT[id(b1)], YAML_TEXT[id(a2)] = tw[0], tw[1], tw[0]
        out.append(([(a1, "ok"), (b1, "ok"), (a2, "ok")], [b"svc.x", b"old.y", b"q.z", b"svc.z"]))
    return out


def ordering_toggles():
    """the rules stay, only defaults.glob_disable_ordering changes: the answers must follow the mode"""
    out = []
    for m1, m2, probes in ((b"*.b", b"a.*", [b"a.b", b"c.b", b"a.d", b"c.d"]), (b"*.*.c", b"a.b.*", [b"a.b.c", b"x.b.c", b"a.b.x"]), (b"x.*", b"x.y", [b"x.y", b"x.z"])):
        rules = lambda: [GM.rule(m1, b"first", help=b"r0", labels=[(b"part", b"$1")]), GM.rule(m2, b"second", help=b"r1", labels=[(b"part", b"$1")])]
        on, off = (GM.defaults(disable_ordering=True), rules()), (None, rules())
        on2, off2 = (GM.defaults(disable_ordering=True), rules()), (GM.defaults(), rules())
        out.append(([(on, "ok"), (off, "ok"), (on2, "ok"), (off2, "ok")], probes))
        out.append(([(off, "ok"), (on, "ok"), (off2, "ok")], probes))
    return out


def resplit_pairs():
    """pairs of glob-only configurations (unordered mode and ordered mode) whose match strings concatenate to the same bytes with the
    rule boundary at another place - a reload that "recognises" the rule set by such a fingerprint keeps stale analysis results"""
    out = []
    for (a1, a2), (b1, b2), probes in (
            ((b"web.*.ti", b"meweb.api.count"), (b"web.*.time", b"web.api.count"), [b"web.api.time", b"web.api.count", b"web.x.time", b"web.x.ti"]),
            ((b"a.*.b", b"ca.d.e"), (b"a.*.bc", b"a.d.e"), [b"a.d.bc", b"a.d.e", b"a.x.b", b"a.x.bc"]),
            ((b"x.*.a", b"bx.z.ab"), (b"x.*.ab", b"x.z.ab"), [b"x.z.ab", b"x.q.ab", b"x.q.a", b"x.z.a"])):
        for unordered in (True, False):
            d = GM.defaults(disable_ordering=True) if unordered else None
            mk = lambda m1, m2: (d, [GM.rule(m1, b"first_$1", help=b"r0", labels=[(b"c1", b"$1")]), GM.rule(m2, b"second", help=b"r1")])
            out.append(([(mk(a1, a2), "ok"), (mk(b1, b2), "ok"), (mk(a1, a2), "ok")], probes))
            out.append(([(mk(b1, b2), "ok"), (mk(a1, a2), "ok"), (mk(b1, b2), "ok")], probes))
    return out


def _run(rep, tier, seed, replay):
    if replay and E2E.replay_case(rep, "C14", replay):
        rep.cov.setdefault("trusted_base", ["end-to-end replay of one case against the built binary"])
        rep.cov.setdefault("rule", "replay of one end-to-end case")
        return
    rep.cov["trusted_base"] = TRUSTED
    rnd = random.Random(seed)
    nseq = 400 if tier == "quick" else 10000
    seqs = []
    if replay:
        rp = json.load(open(replay))
        seqs = [rp["seq"]]
    cases, meta = [], []
    classes = {}
    directed = [] if replay else resplit_pairs() + digest_twin_reloads() + ordering_toggles()
    for it in range(0 if replay else nseq + len(directed)):
        if it < len(directed):
            steps, probes = directed[it]
            qs = [(t, n) for n in probes for t in ("counter", "gauge", "observer")]
            qops = [GM.query_op(t, n) for t, n in qs]
            for cache in (("none", 0), ("lru", 1000)):
                ops = []
                for cfg, e in steps:
                    ops.append(lop(cfg))
                    ops += qops
                cases.append(GM.case_line(cache[0], cache[1], ops))
                meta.append((steps, qs, cache))
            for cfg, e in steps:
                cases.append(GM.case_line("none", 0, [lop(cfg)] + qops))
                meta.append(("fresh", cfg, qs))
            continue
        steps = []
        for _ in range(rnd.randint(2, 6)):
            if rnd.random() < 0.5:
                cfg, e = GG.invalid_cfg(rnd)
            else:
                cfg, e = GG.random_cfg(rnd, maxrules=5), "ok"
                if rnd.random() < 0.15:
                    cfg = (cfg[0], [])            # empty configuration
                elif rnd.random() < 0.15:
                    cfg = (cfg[0], [r for r in cfg[1] if r["match_type"] == b"regex"])     # regex only
                elif rnd.random() < 0.15:
                    cfg = (cfg[0], [r for r in cfg[1] if r["match_type"] != b"regex"])     # glob only
            steps.append((cfg, e))
            classes[e] = classes.get(e, 0) + 1
            if e == "ok" and rnd.random() < 0.3:
                # the same rules again with exactly ONE key of the defaults section changed: what "nothing changed" shortcuts key on
                d0 = dict(cfg[0] or GM.defaults())
                key = rnd.choice(["disable_ordering", "disable_ordering", "ttl", "observer_type", "match_type"])
                d0[key] = {"disable_ordering": not d0["disable_ordering"], "ttl": 0 if d0["ttl"] else 5 * 10**9,
                           "observer_type": None if d0["observer_type"] else b"histogram", "match_type": None if d0["match_type"] else b"glob"}[key]
                if key == "observer_type":
                    d0["timer_type"] = None
                steps.append(((d0, [dict(r) for r in cfg[1]]), "ok"))
                classes["ok"] = classes.get("ok", 0) + 1
        qs = QUERIES + [(rnd.choice(["counter", "gauge", "observer"]), GG.random_name(rnd)) for _ in range(6)]
        qops = [GM.query_op(t, n) for t, n in qs]
        for cache in (("none", 0), ("lru", 3 if len(cases) % 4 else 1000)):      # a large cache keeps entries across the reload
            ops = []
            for cfg, e in steps:
                ops.append(lop(cfg))
                ops += qops
            cases.append(GM.case_line(cache[0], cache[1], ops))
            meta.append((steps, qs, cache))
        # the fresh-mapper reference for every valid step
        for cfg, e in steps:
            if e == "ok":
                cases.append(GM.case_line("none", 0, [lop(cfg)] + qops))
                meta.append(("fresh", cfg, qs))
    impl, model = ME.run_cases("C14", cases)
    rep.cov["traces_validated_against_impl"] = len(cases)
    rep.cov["rule"] = ("%d sequences of 2-6 reloads (valid: glob-only, regex-only, mixed, empty; invalid: 14 classes) each followed by 12 lookups, "
                       "with and without cache, plus a fresh-mapper reference run per valid configuration; non-trivial = sequence containing "
                       "an invalid configuration after a valid one; distinct by sequence" % nseq)
    nbad = 0
    k = 0
    while k < len(cases):
        steps, qs, cache = meta[k]
        nq = len(qs)
        fresh = {}
        j = k + 2
        for cfg, e in steps:
            if e == "ok":
                fresh[id(cfg)] = impl[j][1:]
                j += 1
        for c in (k, k + 1):
            i, m = impl[c], model[c]
            rep.count(len(i))
            if i != m:
                nbad += 1
                if len(rep.violations) < 5:
                    x = next((x for x in range(min(len(i), len(m))) if i[x] != m[x]), 0)
                    rep.violation("implementation differs from the proved model (mapper engine)",
                                  dict(case=cases[c][:2000], op_index=x, impl=i[x], model=m[x]), no_input=True)
            prev = ["Q -"] * nq
            seen_valid = False
            for si, (cfg, e) in enumerate(steps):
                blk = i[si * (nq + 1):(si + 1) * (nq + 1)]
                payload = dict(step=si, expected_class=e, got=blk[0], yaml=GM.to_yaml(cfg), cache=list(meta[c][2]),
                               previous_yaml=[GM.to_yaml(s[0]) for s in steps[:si]])
                if blk[0] == "PANIC" or "PANIC" in blk:
                    rep.violation("reload or lookup panicked", payload); break
                if (blk[0] == "L ok") != (e == "ok"):
                    rep.violation("an invalid configuration was accepted" if e != "ok" else "a valid configuration was rejected", payload); break
                if e != "ok":
                    if seen_valid:
                        rep.nontrivial(cases[c][:400])
                    if blk[1:] != prev:
                        rep.violation("a failed reload changed the answers of later lookups", dict(payload, before=prev, after=blk[1:])); break
                    if blk[0] != "L " + e:
                        rep.violation("a configuration was rejected for a different reason than the first defect in it",
                                      dict(payload), no_input=True); break
                else:
                    seen_valid = True
                    if blk[1:] != fresh[id(cfg)]:
                        rep.violation("after a successful reload lookups differ from a freshly started mapper with the same file",
                                      dict(payload, reloaded=blk[1:], fresh=fresh[id(cfg)])); break
                    prev = blk[1:]
        k = j
        if len(rep.violations) >= 5:
            break
    rep.extra["disagreements_with_model"] = nbad
    rep.extra["config_classes"] = classes
    if not replay:
        lock_obligation(rep, tier)
    if not replay and len(rep.violations) < 5:
        # the binary's own reload paths (/-/reload and SIGHUP, mapping file behind a re-pointed symbolic link)
        E2E.run(rep, "C14", tier, seed, n_quick=40, n_thorough=1200, gen=E2E.gen_reload_case, key="e2e_reload")
        E2E.run(rep, "C14", tier, seed, n_quick=6, n_thorough=60, gen=E2E.gen_inplace_reload_case, key="e2e_inplace")
        rep.cov["rule"] += ("; plus %d end-to-end histories of 3-5 reloads of the built binary (valid ones changing defaults and rules, invalid ones), by /-/reload or SIGHUP, "
                            "lines and a scrape after each, compared with the model" % rep.extra.get("e2e_reload_cases", 0))
    rep.sample(dict(case=cases[0][:600], impl=impl[0][:8]))


def run(rep, tier, seed, replay):
    _run(rep, tier, seed, replay)
    if not replay:
        genproof.digest_obligation(rep, "a configuration is recognised by a digest of its text")
