"""C10 - multi-sample and extended-aggregation lines decompose sample by sample."""
import json
import random

import gen_line as G
import line_engine as LE
import vf

TRUSTED = [
    "Coq 8.16.1 kernel; theorems in Properties/C10.v about Model/Line.v",
    "hand-written model of pkg/line/line.go tied to the code by differential execution on every run",
    "strconv.ParseFloat is an oracle recorded from the implementation",
    "extraction (ExtrOcamlBasic), ocaml runner, Go harness, Python generators and monitors",
]
KF_BAD_RATE = "bad-sampling-factor-still-yields-event"


def only_bad_rate(sample, pobs):
    """the sample's only defect is an unparsable @rate: value/type fine, <= 4 fields, none empty"""
    return pobs["errs"].get("invalid_sample_factor", 0) >= 1 and len(pobs["errs"]) == 1


def run(rep, tier, seed, replay):
    rep.cov["trusted_base"] = TRUSTED
    rnd = random.Random(seed)
    n = 2500 if tier == "quick" else 60000
    items = []  # (kind, flags, whole, parts, meta)
    if replay:
        rp = json.load(open(replay))
        items.append((rp["kind"], rp["flags"], vf.unhex(rp["whole"]), [vf.unhex(p) for p in rp["parts"]], rp.get("oks")))
    else:
        directed = [(b"foo", [b"1|c|@bar"], [False]), (b"foo", [b"1|c", b"2|g|@x", b"3|ms"], [True, False, True])]
        for nm, ss, oks in directed:
            items.append(("multi", 15, nm + b":" + b":".join(ss), [nm + b":" + s for s in ss], oks))
        for _ in range(60 if tier == "quick" else 2000):
            # a long composite line in which a multi-byte character lies across byte offset 2^k: code that looks at a prefix of
            # the line only (a buffer, a shortened copy) sees an invalid line; its parts are short lines
            whole = G.straddle_line(rnd)
            nm, rest = whole.split(b":", 1)
            parts = [nm + b":" + s for s in rest.split(b":")] if b"|#" not in rest else [whole]
            items.append(("straddle", rnd.choice([15, 15, 0, 1]), whole, parts, None))
        for _ in range(n):
            fl = rnd.choice([15, 15, 0, 1, rnd.randrange(16)])
            if rnd.random() < 0.65:
                nm, ss, oks = G.multi_datum(rnd)
                items.append(("multi", fl, nm + b":" + b":".join(ss), [nm + b":" + s for s in ss], oks))
            else:
                nm, vals, suffix = G.extagg_datum(rnd)
                items.append(("extagg", fl, nm + b":" + b":".join(vals) + b"|" + suffix,
                              [nm + b":" + v + b"|" + suffix for v in vals], suffix.split(b"|")[0].decode("latin1")))
    cases, where = [], []
    for ii, (kind, fl, whole, parts, meta) in enumerate(items):
        cases.append((fl, whole)); where.append((ii, -1))
        for pi, p in enumerate(parts):
            cases.append((fl, p)); where.append((ii, pi))
    impl, model = LE.run_cases("C10", cases)
    rep.count(len(cases))
    rep.cov["traces_validated_against_impl"] = len(cases)
    rep.cov["rule"] = ("%d composite lines (multi-sample with malformed samples in any position; extended aggregation with valid/invalid "
                       "type, rate, tags) each with its 1-6 part lines; non-trivial = composite yields >= 2 events; distinct by composite line" % len(items))
    obs = {}
    bad = []
    for w, c, i, m in zip(where, cases, impl, model):
        obs[w] = LE.parse_obs(i)
        if i != m:
            bad.append((c, i, m))
    dist = dict(multi=0, extagg=0, straddle=0, extagg_bad_type=0, with_malformed=0)
    for ii, (kind, fl, whole, parts, meta) in enumerate(items):
        W = obs[(ii, -1)]
        P = [obs[(ii, k)] for k in range(len(parts))]
        dist[kind] += 1
        payload = dict(kind=kind, flags=fl, whole=vf.hexs(whole), parts=[vf.hexs(p) for p in parts], whole_repr=repr(whole),
                       oks=meta if kind == "multi" else None, impl_whole=W.get("raw"), impl_parts=[p.get("raw") for p in P])
        if W["panic"] or any(p["panic"] for p in P):
            rep.violation("panic", payload); continue
        if len(W["events"]) >= 2:
            rep.nontrivial(whole)
        if kind == "extagg" and meta not in ("ms", "h", "d"):
            dist["extagg_bad_type"] += 1
            if W["events"] or sum(W["errs"].values()) < 1:
                rep.violation("extended aggregation with an invalid type not rejected as a whole", payload)
            continue
        mixed = W["errs"].get("mixed_tagging_styles", 0)
        if mixed:
            continue
        concat = [e for p in P for e in p["events"]]
        if W["events"] != concat:
            rep.violation("composite line's events differ from its single-sample lines' events in order", payload); continue
        if all(b"|" in p.split(b":", 1)[1] for p in parts):
            if W["S"] != sum(p["S"] for p in P):
                rep.violation("samples-received does not add up", payload); continue
            sume = {}
            for p in P:
                for k, v in p["errs"].items():
                    sume[k] = sume.get(k, 0) + v
            if W["errs"] != sume:
                rep.violation("sample error counters do not add up", payload); continue
        if kind == "multi":
            if not all(meta):
                dist["with_malformed"] += 1
            for ok, part, p in zip(meta, parts, P):
                if not ok:
                    if p["events"]:
                        if only_bad_rate(part, p) and rep.known(KF_BAD_RATE):
                            continue
                        rep.violation("a malformed sample yields an event", dict(payload, part=repr(part), part_obs=p["raw"]))
                    elif sum(p["errs"].values()) < 1:
                        rep.violation("a malformed sample raises no error counter", dict(payload, part=repr(part), part_obs=p["raw"]))
    for c, i, m in bad[:20]:
        if len(rep.violations) >= 5:
            break
        rep.violation("implementation differs from the proved model (line engine)",
                      dict(engine="line", flags=c[0], line_hex=vf.hexs(c[1]), line=repr(c[1]), impl=i, model=m), no_input=not rep.violations)
    rep.extra["input_distribution"] = dist
    rep.extra["disagreements_with_model"] = len(bad)
    for k in (0, len(items) // 2, len(items) - 1):
        rep.sample(dict(kind=items[k][0], flags=items[k][1], whole=repr(items[k][2]), impl=obs[(k, -1)].get("raw")))
