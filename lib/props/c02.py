"""C02 - no network input can crash or stall the exporter (pipeline part; listeners in C18)."""
import gen_line as GL
import gen_mapper as GM
import gen_pipeline as GP
import pipeline_check as PC
import pipeline_engine as PE
import vf

KF_AMP = "sampling-rate-amplification"
GOOD = [b"ok1:1|c", b"ok2:2|g", b"ok3:3|ms", b"ok4:4|h|#env:prod"]


def gen_case(rnd):
    cfg = GP.gen_config(rnd, safe=False)
    ops = [GM.load_op(cfg)] if rnd.random() < 0.8 else []
    n = rnd.randint(3, 25)
    hostile_at = {rnd.randrange(n) for _ in range(rnd.randint(1, 4))} | ({0} if rnd.random() < 0.3 else set())
    for k in range(n):
        if k in hostile_at:
            l = GL.hostile_line(rnd)
            # keep event multiplication bounded: rates below 1e-4 are exercised by the directed case only
            ops.append(PE.I(GL.bound_rates(l)))
        else:
            ops.append(PE.I(GP.gen_line(rnd, cfg, safe=False, odd_p=0.3)))
    for g in GOOD:
        ops.append(PE.I(g))
    ops.append("G")
    return (rnd.randrange(16), rnd.choice([("none", 0), ("lru", 2), ("rr", 1)]), ops, None)


def monitor(rep, case, impl, model, payload):
    fl, cache, ops, meta = case
    for k, i in enumerate(impl):
        if "PANIC" in i:
            rep.violation("input makes the exporter panic", dict(payload, op_index=k, op=PC.describe(ops)[k], impl=i)); return
    g = PE.parse_gather(impl[-1])
    if not g["ok"]:
        if meta == "amplification":
            return
        rep.violation("scrape fails after hostile input", dict(payload, impl=impl[-1][:300])); return
    if meta == "amplification":
        n = int(g["tel"].get("events", {}).get(vf.hexs(b"observer"), 0))
        if n >= 50000 and rep.known(KF_AMP):
            return
        return
    # well-formed lines after hostile ones are still processed and exposed
    for nm in (b"ok1", b"ok2", b"ok3", b"ok4"):
        if nm not in g["families"]:
            # a configuration may drop or rename them; the model decides
            gm = PE.parse_gather(model[-1])
            if nm in gm["families"]:
                rep.violation("a well-formed line following hostile input is not exposed", dict(payload, missing=nm.decode(), impl=impl[-1][:400]))
                return
    if any(o.startswith("I ") and not vf.unhex(o[2:]).isascii() for o in ops):
        rep.nontrivial(tuple(ops))


def parser_block(rep, tier, seed):
    """the parser alone on hostile bytes, all flag sets: events AND every counter (samples, tag errors, tags, errors by
    reason) must be the model's - C02_parser_no_panic is a theorem about that model"""
    import random
    import line_engine as LE
    rnd = random.Random(seed * 17 + 3)
    n = 3000 if tier == "quick" else 120000
    cases = [(rnd.randrange(16), GL.bound_rates(GL.hostile_line(rnd))) for _ in range(n)]
    cases = [(fl, l) for fl, l in cases if b"\n" not in l]
    impl, model = LE.run_cases("C02", cases, tag="hostile_lines")
    rep.count(len(cases))
    bad = 0
    reasons = {}
    for (fl, l), i, m in zip(cases, impl, model):
        o = LE.parse_obs(i)
        if o.get("panic"):
            rep.violation("a line makes the parser panic", dict(flags=fl, line=repr(l), line_hex=vf.hexs(l), impl=i)); bad += 1
        elif i != m:
            bad += 1
            if len(rep.violations) < 5:
                rep.violation("implementation differs from the proved model (line engine, hostile bytes)",
                              dict(flags=fl, line=repr(l), line_hex=vf.hexs(l), impl=i, model=m), no_input=True)
        else:
            for r_ in o["errs"]:
                reasons[r_] = reasons.get(r_, 0) + 1
        if len(rep.violations) >= 5:
            break
    rep.extra["hostile_lines_through_the_parser"] = len(cases)
    rep.extra["hostile_line_error_reasons"] = reasons
    rep.extra["hostile_line_disagreements"] = bad


def run(rep, tier, seed, replay):
    extra = [(15, ("none", 0), [PE.I(b"amp:1|ms|@0.00001"), PE.I(b"ok1:1|c"), "G"], "amplification"),
             (15, ("none", 0), [PE.I(b"a]b[c:1|c"), PE.I(b"foo:1|ms|#quantile:x"), PE.I(b"#a=b:1|c"), PE.I(b"ok1:1|c"), "G"], None)]
    import props.c03 as c03
    extra = extra + [(fl, c, ops, None) for fl, c, ops, _ in c03.help_after_expiry()]
    PC.run(rep, "C02", tier, seed, replay, gen_case, monitor, 500, 30000,
           "%(n)d streams of 3-25 lines with 1-4 hostile lines (grammar-aware mutations, raw bytes, invalid UTF-8, reserved tag keys, extreme "
           "numerics and rates) in first/middle/last position under random accepted configs (reserved rule labels allowed) and all 16 flag sets, "
           "each followed by four known-good lines and a scrape; non-trivial = stream with non-ASCII bytes; distinct by op sequence", extra_cases=extra)
    if not replay and len(rep.violations) < 5:
        # the built binary over its sockets: hostile streams under every wiring of cache and parsers main() can produce
        import e2e_engine as E2E
        E2E.run(rep, "C02", tier, seed, n_quick=16, n_thorough=600, gen=E2E.gen_hostile_case, key="e2e_hostile")
    if not replay and len(rep.violations) < 5:
        parser_block(rep, tier, seed)
        rep.cov["rule"] += "; plus %d hostile lines through the parser alone under random flag sets, events and all parser counters compared with the model" % rep.extra.get("hostile_lines_through_the_parser", 0)
