"""C01 - StatsD lines aggregate to exactly the predicted Prometheus series."""
import e2e_engine as E2E
import genproof
import gen_line as GL
import gen_mapper as GM
import gen_pipeline as GP
import pipeline_check as PC
import pipeline_engine as PE


def gen_case(rnd):
    big = rnd.random() < 0.02                       # a few large cases: many rules, a long stream, many distinct series
    cfg = GP.gen_config(rnd, safe=True, maxrules=(40 if big else 6))
    ops = [GM.load_op(cfg)]
    for _ in range(rnd.randint(300, 600) if big else rnd.randint(5, 40)):
        ops.append(PE.I(GP.gen_line(rnd, cfg, safe=True, odd_p=0.05)))
        if rnd.random() < 0.03:
            # two label sets that differ only in where a would-be separator character falls
            sep = rnd.choice(GL.SEPARATORS)
            nm = GP.name_for(rnd, cfg)
            ty = rnd.choice([b"c", b"g", b"ms"])
            ops.append(PE.I(nm + b":3|" + ty + b"|#a:p" + sep + b"q,bc:r"))
            ops.append(PE.I(nm + b":4|" + ty + b"|#a:p,bc:q" + sep + b"r"))
        if rnd.random() < 0.08:
            ops.append("G")
    ops.append("G")
    return (rnd.choice([15, 15, 15, 1, 6]), rnd.choice([("none", 0), ("lru", 3), ("rr", 2), ("lru", 1000)]), ops, None)


def monitor(rep, case, impl, model, payload):
    fl, cache, ops, meta = case
    for k, (o, i) in enumerate(zip(ops, impl)):
        if "PANIC" in i:
            rep.violation("panic while processing well-formed lines", dict(payload, op_index=k, impl=i)); return
    last = PE.parse_gather(impl[-1]) if impl[-1].startswith("G") else None
    if last and last["ok"] and len(last["families"]) >= 2:
        rep.nontrivial(tuple(ops))
    # the scrape must expose exactly what the proved model predicts: every G compared in full
    for k, (o, i, m) in enumerate(zip(ops, impl, model)):
        if o == "G" and PE.norm_impl(i) != m:
            gi, gm = PE.parse_gather(i), PE.parse_gather(m)
            if gi["ok"] and gm["ok"] and gi["families"] != gm["families"]:
                names = sorted(set(gi["families"]) ^ set(gm["families"]))
                diff = names or [n for n in gi["families"] if gi["families"][n] != gm["families"].get(n)]
                rep.violation("a scrape does not expose exactly the predicted series",
                              dict(payload, op_index=k, differing_families=[repr(x) for x in diff[:5]], impl=i, predicted=m))
                return


def _run(rep, tier, seed, replay):
    if replay and E2E.replay_case(rep, "C01", replay):
        rep.cov.setdefault("trusted_base", ["end-to-end replay of one case against the built binary"])
        rep.cov.setdefault("rule", "replay of one end-to-end case")
        return
    if not replay:
        # the real binary over its sockets against the same model (main.go's wiring)
        E2E.run(rep, "C01", tier, seed, n_quick=60, n_thorough=3000)
        E2E.run(rep, "C01", tier, seed, n_quick=3, n_thorough=40, gen=E2E.gen_order_case, key="e2e_order")
        # long uptime in one process: 20-66 thousand events on the same series, thousands of distinct series, 17-65 reloads
        E2E.run(rep, "C01", tier, seed, n_quick=1, n_thorough=8, gen=E2E.gen_longrun_case, key="e2e_longrun")
    PC.run(rep, "C01", tier, seed, replay, gen_case, monitor, 400, 20000,
           "%(n)d (config x stream) cases: configs from the YAML grammar (glob/regex rules, $n labels, honor_labels, scale incl. 0/negative, observer "
           "types, histogram/summary options, match_metric_type, drop, defaults, ttl), 5-40 lines over all five stat types x four tag styles x sampling "
           "x multi-sample x extended aggregation, caches none/LRU/RR; every scrape compared in full (families, help, type, labels, values, buckets); "
           "non-trivial = final scrape has >= 2 families; distinct by op sequence")
    if not replay:
        rep.cov["rule"] += ("; plus %d end-to-end cases: the statsd_exporter binary built from /repo, started with the case's parser/cache flags, fed the lines over TCP, UDP or "
                            "unixgram, reloaded over /-/reload, scraped over /metrics, and compared (families, help, type, labels, values, the exporter's own event/action/error/"
                            "conflict/metrics counters, lines/packets/reload counters) with the same proved model" % rep.extra.get("e2e_cases", 0))
        rep.cov["trusted_base"] = list(rep.cov["trusted_base"]) + [
            "end-to-end engine: real time is not controlled (TTL-free configurations only); a scrape is taken once every sent line is counted and three consecutive scrapes agree; "
            "the sign of a zero value is not observable in the text exposition"]


def run(rep, tier, seed, replay):
    _run(rep, tier, seed, replay)
    if not replay:
        genproof.digest_obligation(rep, "a digest stands in for a string that identifies a series or a cache entry (two different names or label sets with equal digests would be served as one)")
