"""C08 - a conflicting event is dropped alone and harms nothing else."""
import gen_mapper as GM
import pipeline_check as PC
import pipeline_engine as PE
import vf

import gen_line as GL
LONG = GL.LONG_NAME
# the four names of one histogram/summary family; the same for a name beyond any fixed buffer; names carrying two suffixes
FAMILIES = [[b"X", b"X_sum", b"X_count", b"X_bucket"], [LONG, LONG + b"_sum", LONG + b"_count", LONG + b"_bucket"],
            [LONG[:121], LONG[:121] + b"_sum", LONG[:121] + b"_count", LONG[:121] + b"_bucket"],
            [b"X_count", b"X_count_sum", b"X_sum", b"X_sum_bucket"],
            # chains of companions: a base, its companions, and THEIR companions (three related families at once)
            [b"X", b"X_count", b"X_count_sum", b"X_count_bucket", b"X_sum", b"X_sum_count"],
            [b"X", b"X_bucket", b"X_bucket_sum", b"X_bucket_count", b"X_sum_sum", b"X_sum"]]
NAMES = FAMILIES[0]
TYPES = [b"c", b"g", b"ms", b"h"]


def gen_case(rnd):
    ops = []
    NAMES = rnd.choice(FAMILIES + [FAMILIES[0]] * 2)
    hist = rnd.random() < 0.5
    rules = [GM.rule(b"*", b"$1", mmt=None, help=b"r0", ttl=rnd.choice([0, 0, 2 * 10**9]))]
    d = GM.defaults(observer_type=b"histogram" if hist else None)
    ops.append(GM.load_op((d, rules if rnd.random() < 0.5 else [])))
    for _ in range(rnd.randint(2, 8) if len(NAMES) <= 4 else rnd.randint(4, 12)):
        r = rnd.random()
        if r < 0.75:
            l = rnd.choice(NAMES) + b":" + rnd.choice([b"1", b"2"]) + b"|" + rnd.choice(TYPES)
            if rnd.random() < 0.4:
                l += b"|#" + rnd.choice([b"k:v", b"k:w", b"j:v"])
        else:
            l = rnd.choice([b"other:1|c", b"other2:5|g", b"other3:3|ms"])
        if rnd.random() < 0.15 and b"|#" not in l:
            # the event reaches the exporter from a caller other than the parser, with a label value that is not valid UTF-8:
            # the client library refuses it, the sample is dropped alone and must leave no claim on the name behind
            ops += ["X " + vf.hexs(l + b"|#k:a!ffb"), "G"]
        else:
            ops += [PE.I(l), "G"]
        if rnd.random() < 0.15:
            ops += ["A 3000000000", "S", "G"]
    return (15, ("none", 0), ops, None)


def monitor(rep, case, impl, model, payload):
    fl, cache, ops, meta = case
    prev = None
    nconf = 0
    for k, (o, i) in enumerate(zip(ops, impl)):
        if "PANIC" in i:
            rep.violation("panic", dict(payload, op_index=k, impl=i)); return
        if o in ("S",) or o.startswith("A "):
            prev = None if o == "S" else prev
            continue
        if o != "G":
            continue
        g = PE.parse_gather(i)
        if not g["ok"]:
            rep.violation("scrape fails after a sequence of samples claiming X / X_sum / X_count / X_bucket",
                          dict(payload, op_index=k, prefix=PC.describe(ops[:k + 1]), impl=i[:300])); return
        conf = sum(int(v) for v in g["tel"].get("conflicts", {}).values())
        if prev is not None and conf > prev[0]:
            nconf += 1
            if g["families"] != prev[1]:
                rep.violation("a dropped (conflicting) sample changed existing series",
                              dict(payload, op_index=k, before=repr(prev[1])[:400], after=repr(g["families"])[:400])); return
        prev = (conf, g["families"])
    if nconf:
        rep.nontrivial(tuple(ops))


def run(rep, tier, seed, replay):
    PC.run(rep, "C08", tier, seed, replay, gen_case, monitor, 700, 40000,
           "%(n)d histories of 2-8 samples of types {c,g,ms,h} (summary and histogram observers) claiming X, X_sum, X_count, X_bucket with equal or different "
           "label sets, interleaved with ordinary traffic and TTL expiry, scraped after every sample; non-trivial = history with at least one counted conflict; "
           "distinct by op sequence")
