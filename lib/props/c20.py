"""C20 - the concurrent pipeline is free of data races."""
import json

import genproof
import vf

TRUSTED = [
    "Coq 8.16.1 kernel (vm_compute used to evaluate check_table on the generated table); theorems closed under the global context",
    "the translator tools/accessgen (go/ast + go/types): straight-line walk of each function, syntactic lock tracking (deferred unlock = held to the end), interprocedural expansion, tracked struct fields only (mapper, caches, event queue, registry); effects of external methods from a small table, unknown ones treated as writes",
    "the role map in Model/Concurrency.v (which entry function is which goroutine, single or many instances) written from main.go; a `go` statement not covered fails the check; main.main's start-up section is ordered before all goroutines",
    "sync.Mutex/RWMutex semantics and happens-before per the Go memory model (lstep); channels as ownership transfer; client_golang / standard-library internals trusted thread-safe; memory not reachable from the tracked fields is out of scope",
    "race-instrumented harness runs (race engine) corroborate at run time and supply stacks when the obligation fails; they are not proofs",
]
SCENARIOS_QUICK = ["mapper lru 3 4 120", "mapper rr 3 4 120", "mapper none 0 4 80", "mapper none 0 4 80 unordered", "pipeline 250"]
SCENARIOS_THOROUGH = ["mapper lru 3 8 800", "mapper lru 1000 4 800", "mapper rr 2 8 800", "mapper none 0 8 500", "mapper none 0 8 500 unordered", "mapper lru 2 8 500 unordered", "pipeline 3000", "pipeline 3000"]

PREPARE = True


def prepare(rep):
    ok, log = genproof.regenerate()
    if not ok:
        rep.violation("the access table could not be regenerated from /repo", dict(log=log), no_input=True)
    return ok


def run(rep, tier, seed, replay):
    rep.cov["trusted_base"] = TRUSTED
    rows, gos = genproof.table_stats()
    rep.count(len(rows) * len(rows))
    rep.cov["rule"] = ("access table regenerated from /repo by tools/accessgen: %d access sites (entry function, tracked field, read/write, locks held) and %d go statements; "
                       "check_table evaluates all %d ordered pairs inside Coq; non-trivial = a conflicting pair (same field, one write, roles that can run concurrently); plus "
                       "race-detector scenarios (N GetMapping callers x reloader per cache kind; parser->queue->exporter with scrapers and reloads)" % (len(rows), len(gos), len(rows) ** 2))
    for r in rows:
        if r[2] == "true":
            rep.nontrivial(r)
    rep.extra["access_sites"] = len(rows)
    rep.extra["go_statements"] = [list(g) for g in gos]
    rep.sample(dict(site=list(rows[0])))
    rep.sample(dict(site=list(rows[len(rows) // 2])))
    proof_broken = any("proof obligation" in v["what"] for v in rep.violations)
    scen = SCENARIOS_QUICK if tier == "quick" else SCENARIOS_THOROUGH
    n, text = genproof.race_hunt(scen)
    rep.extra["race_reports"] = n
    rep.cov["traces_validated_against_impl"] = len(scen)
    if proof_broken:
        off = genproof.offending_pairs()
        # replace the generic proof violation by one that names the unprotected pair and, if found, a concrete schedule
        rep.violations = [v for v in rep.violations if "proof obligation" not in v["what"]]
        if n:
            rep.violation("conflicting accesses without a common lock (theorem C20_access_table_race_free no longer checks); the race detector exhibits a schedule",
                          dict(unprotected_pairs=off, race_report=text, scenarios=scen))
        else:
            ok_, out_ = genproof.compile_obligation("C20.v")
            thm = genproof.failed_theorem("C20.v", out_) if not ok_ else ""
            main_rows = ""
            if thm == "C20_main_startup_ordered":
                # which of main's accesses come after a goroutine that touches the same location was started
                import re as _re
                src = open(genproof.GEN).read()
                src = src[src.index("Definition main_table"):]
                src = src[:src.index("].")]
                main_rows = [r_ for r_ in _re.findall(r'\("([^"]*)", (true|false), \[([^\]]*)\], \[([^\]]+)\]\)', src) if not r_[2]][:12]
            rep.violation("theorem %s no longer checks on the regenerated access table (C20_access_table_race_free: an unprotected pair of sites; C20_go_statements_covered: "
                          "a goroutine without a role; C20_main_startup_ordered: main touches shared state without a lock after starting a goroutine that writes it)" % (thm or "of Properties/C20.v"),
                          dict(failed_theorem=thm, unprotected_pairs_or_uncovered_go=off, unlocked_accesses_of_main_after_a_go_statement=main_rows,
                               theorem="coq/theories/Properties/C20.v", race_detector="no report in the scenarios run"), no_input=True)
    elif n:
        rep.violation("the race detector reports a data race although the access table passes", dict(race_report=text, scenarios=scen))
    elif any("mixed=" in ln and "mixed=0" not in ln for ln in (text or "").splitlines()):
        rep.violation("concurrent lookups were answered with another lookup's captures or a mixture of two configurations", dict(output=text[:2000], scenarios=scen))
    if n is None:
        rep.violation("race-instrumented harness unavailable", dict(log=text), no_input=True)
