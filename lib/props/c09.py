"""C09 - the four tagging syntaxes are equivalent; disabled ones are inert; mixed lines rejected."""
import json
import random

import gen_line as G
import line_engine as LE
import e2e_engine as E2E
import genproof
import vf

TRUSTED = [
    "Coq 8.16.1 kernel; theorems in Properties/C09.v about Model/Line.v (all byte strings within the stated hypotheses)",
    "hand-written model of pkg/line/line.go tied to the code by differential execution on every run",
    "strconv.ParseFloat is an oracle (Section variable pf); its answers are recorded from the implementation",
    "EscapeMetricName replaced by escape_spec in the model (justified by theorem C15_escape_total_correct)",
    "extraction (ExtrOcamlBasic), ocaml runner, Go harness, Python generators and monitors",
]
STYLES = ["librato", "influx", "signalfx", "dogstatsd"]
BIT = dict(dogstatsd=1, influx=2, librato=4, signalfx=8)


def agree(a, b):
    return a == b


def _run(rep, tier, seed, replay):
    if replay and E2E.replay_case(rep, "C09", replay):
        rep.cov.setdefault("trusted_base", ["end-to-end replay of one case against the built binary"])
        rep.cov.setdefault("rule", "replay of one end-to-end case")
        return
    rep.cov["trusted_base"] = TRUSTED
    rnd = random.Random(seed)
    n = 700 if tier == "quick" else 20000
    if replay:
        rp = json.load(open(replay))
        data = [(vf.unhex(rp["pre"]), vf.unhex(rp["post"]), [tuple(vf.unhex(x) if i else x for i, x in enumerate(t)) for t in rp["tags"]], vf.unhex(rp["tail"]))]
    else:
        data = [G.c09_datum(rnd) for _ in range(n)]
    cases, index = [], []
    for di, d in enumerate(data):
        rs = G.c09_renderings(d)
        for st in STYLES:
            for fl in range(16):
                cases.append((fl, rs[st]))
                index.append((di, st, fl, "plain"))
        # mixed: a name-side syntax plus a DogStatsD section
        for st in STYLES[:3]:
            for fl in (15, 14, BIT[st], BIT[st] | 1):
                cases.append((fl, rs[st] + b"|#" + G.render_tags(d[2], b":")))
                index.append((di, st, fl, "mixed"))
    impl, model = LE.run_cases("C09", cases)
    rep.count(len(cases))
    rep.cov["traces_validated_against_impl"] = len(cases)
    rep.cov["rule"] = ("%d data (name, split point, 1-4 tags incl. malformed, single or extended-aggregation sample) x 4 renderings x 16 "
                       "flag sets + mixed-style lines; non-trivial = the line yields at least one labelled event; distinct by line+flags" % len(data))
    by = {}
    bad = []
    for (di, st, fl, kind), c, i, m in zip(index, cases, impl, model):
        by[(di, st, fl, kind)] = LE.parse_obs(i)
        if i != m:
            bad.append((di, st, fl, kind, c, i, m))
        o = by[(di, st, fl, kind)]
        if not o["panic"] and any(not e.endswith(",-") for e in o["events"]):
            rep.nontrivial((fl, c))
    dist = dict(single=0, extagg=0, malformed_tags=0)
    for di, d in enumerate(data):
        pre, post, ts, tail = d
        nvals = tail.split(b"|")[0].count(b":") + 1
        dist["extagg" if nvals > 1 else "single"] += 1
        if any(t[0] == "bare" or not t[1] or not t[2] for t in ts):
            dist["malformed_tags"] += 1
        payload = dict(pre=vf.hexs(pre), post=vf.hexs(post), tags=[[t[0]] + [vf.hexs(x) for x in t[1:]] for t in ts],
                       tail=vf.hexs(tail), renderings={k: repr(v) for k, v in G.c09_renderings(d).items()})
        obs = {st: by[(di, st, 15, "plain")] for st in STYLES}
        if any(o["panic"] for o in obs.values()):
            rep.violation("a rendering makes the parser panic", dict(payload, obs={k: v["raw"] for k, v in obs.items()}))
            continue
        ref = obs["librato"]
        for st in STYLES[1:]:
            o = obs[st]
            same = o["events"] == ref["events"] and o["TR"] == ref["TR"] and o["errs"] == ref["errs"] and o["S"] == ref["S"]
            if st == "dogstatsd":
                same = same and o["TE"] == ref["TE"] * nvals
            else:
                same = same and o["TE"] == ref["TE"]
            if not same:
                rep.violation(f"syntaxes disagree: librato vs {st} (all parsers enabled)",
                              dict(payload, obs={k: v["raw"] for k, v in obs.items()}))
                break
        # the equivalence holds under every flag set that enables the syntax used: alone, and with DogStatsD
        for st in STYLES:
            for fl in ((BIT[st], BIT[st] | 1) if st != "dogstatsd" else (1,)):
                o = by[(di, st, fl, "plain")]
                if o["panic"]:
                    rep.violation("panic", dict(payload, flags=fl, obs=o["raw"])); break
                if o["events"] != ref["events"] or o["TR"] != ref["TR"] or (st != "dogstatsd" and o["TE"] != ref["TE"]):
                    rep.violation(f"{st} tags are not interpreted (or interpreted differently) when only {st}{' and DogStatsD' if fl & 1 and st != 'dogstatsd' else ''} parsing is enabled",
                                  dict(payload, flags=fl, obs=o["raw"], reference=ref["raw"]))
                    break
        # a malformed tag is counted in every syntax
        nbad = sum(1 for t in ts if t[0] == "bare" or not t[1] or not t[2])
        if ref["TE"] != nbad:
            rep.violation("malformed tags not counted exactly once each (Librato rendering)", dict(payload, obs=ref["raw"], expected_TE=nbad))
        # disabled syntaxes are inert
        rs = G.c09_renderings(d)
        for st in STYLES[:3]:
            fl = 15 & ~BIT[st]
            o = by[(di, st, fl, "plain")]
            if o["panic"]:
                rep.violation("panic with a syntax disabled", dict(payload, flags=fl, obs=o["raw"]))
                continue
            raw_name = rs[st].split(b":")[0]
            interfering = any(ch in raw_name for ch in (b"#" if fl & 4 else b"") + (b"," if fl & 2 else b"")) or \
                (fl & 8 and (b"[" in raw_name or b"]" in raw_name))
            if not interfering and o["events"]:
                names = {LE.ev_fields(e)[1] for e in o["events"]}
                labs = {LE.ev_fields(e)[3] for e in o["events"]}
                if names != {raw_name} or labs != {"-"}:
                    rep.violation(f"{st} markers interpreted although {st} parsing is disabled",
                                  dict(payload, flags=fl, obs=o["raw"]))
        o = by[(di, "dogstatsd", 14, "plain")]
        if not o["panic"] and any(not e.endswith(",-") for e in o["events"]):
            rep.violation("DogStatsD tag section interpreted although DogStatsD parsing is disabled", dict(payload, obs=o["raw"]))
        # mixed styles are rejected as a whole and counted
        for st in STYLES[:3]:
            o = by[(di, st, 15, "mixed")]
            has_labels = obs[st]["events"] and not obs[st]["events"][0].endswith(",-") or nbad < len(ts)
            if nbad < len(ts):
                if o["panic"] or o["events"] or o["errs"].get("mixed_tagging_styles", 0) != 1:
                    rep.violation(f"line mixing {st} and DogStatsD tags not rejected as a whole", dict(payload, obs=o["raw"]))
    for t in bad[:50]:
        di, st, fl, kind, c, i, m = t
        if len(rep.violations) >= 5:
            break
        rep.violation("implementation differs from the proved model (line engine)",
                      dict(engine="line", flags=fl, line_hex=vf.hexs(c[1]), line=repr(c[1]), impl=i, model=m,
                           note="no clause of C09 is violated by this case on the implementation" if not rep.violations else ""),
                      no_input=not rep.violations)
    rep.extra["input_distribution"] = dist
    rep.extra["disagreements_with_model"] = len(bad)
    if not replay and len(rep.violations) < 5:
        # the binary's --[no-]statsd.parse-* flags and its three listeners, on the same renderings
        E2E.run(rep, "C09", tier, seed, n_quick=48, n_thorough=1500, gen=E2E.gen_c09_case, key="e2e_flags")
        rep.cov["rule"] += ("; plus %d end-to-end cases: the built binary started with each of the 16 --[no-]statsd.parse-* flag sets, 2-6 data in their four renderings sent over "
                            "TCP / UDP / unixgram, /metrics and the parser's counters compared with the model" % rep.extra.get("e2e_flags_cases", 0))
    for k in (0, len(cases) // 3, len(cases) - 1):
        rep.sample(dict(flags=cases[k][0], line=repr(cases[k][1]), impl=impl[k]))


def run(rep, tier, seed, replay):
    _run(rep, tier, seed, replay)
    if not replay:
        genproof.clock_obligation(rep, "C09_clock.v", "the line parser (pkg/line) asks the clock something, while line_to_events is a function of the line's bytes and the flag set", ('pkg/line.',))
        genproof.digest_obligation(rep, "tag keys or lines are memoised under a digest")
