"""C15 - name escaping: correspondence of EscapeMetricName with Model/Escape.v (proved equal to
Spec/EscapeSpec.v for all byte strings), exhaustive small scope + random byte strings."""
import itertools
import json
import random

import genproof
import vf

ALPHABET = [b"a", b"7", b"_", b"-", b".", "é".encode(), "€".encode(),
            "\U0001F600".encode(), "�".encode(), b"\xff", "\u0663".encode(),         # ... a decimal digit outside ASCII,
            "\u012d".encode()]                                                           # and a letter whose code point ends in the byte of '-'
# code points whose low byte is one of the ASCII bytes the function treats specially (- _ . 0 9 A a :), in every UTF-8 length:
# a comparison made on a truncated rune takes them for that ASCII character
FOLD = ["\u212a".encode(), "\u0130".encode(), "\u017f".encode(), "\u0131".encode()]      # fold to k, i, s, i
LOWBYTE = [chr(hi * 0x100 + lo).encode("utf-8") for lo in (0x2D, 0x5F, 0x2E, 0x30, 0x39, 0x41, 0x61, 0x3A) for hi in (0x01, 0x4E, 0x1F3)]

TRUSTED = [
    "Coq 8.16.1 kernel (coqc; coqchk in the thorough tier); vm_compute used in Examples only",
    "hand-written model Model/Escape.v of pkg/mapper/escape.go tied to the code by this differential run",
    "Base/Utf8.v models Go's utf8.DecodeRuneInString / RuneLen / range (validated by the same run)",
    "extraction (ExtrOcamlBasic only), ocaml/runner.ml + conv.ml, harness/cmd/hx, this script",
]


def corpus():
    # every boundary of the UTF-8 length classes and of the surrogate gap, alone, between letters, between dashes, after a digit
    edges = [0x7F, 0x80, 0x7FF, 0x800, 0xFFFF, 0x10000, 0x10FFFF, 0xD7FF, 0xE000, 0xFFFD, 0xFFFE, 0x100, 0x660, 0x669]
    out = []
    for cp in edges:
        u = chr(cp).encode("utf-8")
        out += [u, b"a" + u + b"b", b"-" + u + b"-", b"1" + u, u + u, b"a" + u, u + b"-" + u]
    for u in FOLD:
        out += [u, b"a" + u, u + b"a", b"cpu.temp_" + u, u + b"stanbul.hits", u + b"-", b"9" + u, u + u]
    for u in LOWBYTE:
        out += [u, u + b"-", b"-" + u, u + b"-" + u, b"a" + u + b"-b", u + b"--", u + b"_", b"_" + u, b"9" + u, u + b"9", u + b".", u + b"a", u + b"-" + b"a", b"0" + u + b"-"]
    # lengths around every power of two a fixed buffer could have
    for n in (63, 64, 65, 127, 128, 129, 255, 256, 257, 1023, 1024, 1025, 4095, 4096, 4097):
        out += [b"a" * n, b"a" * (n - 1) + b"-", b"-" * n, b"a" * (n - 2) + "\u20ac".encode()[:3], b"9" + b"b" * (n - 1), b"a" * (n - 1) + b"\xff"]
    # strings with equal 64-bit FNV-1a sums, each pair in both orders (a memo keyed by the hash alone returns the first one's result)
    import gen_line as GL
    out += GL.FNV64_TWINS + GL.FNV64_TWINS[::-1] + GL.FNV64_TWIN_NAMES + GL.FNV64_TWIN_NAMES[::-1] + [GL.FNV64_TWINS[0] + b".x", GL.FNV64_TWINS[1] + b".x"]
    out += [b"a\xffb-", b"a\xffbcd", b"a\xef\xbf\xbdb-", b"", b"9", b"--", b"a--b", b"-", b"\xf0\x9f\x98", b"\xed\xa0\x80",
           b"\xc0\x80", b"\xe0\x80\x80", b"\xf4\x90\x80\x80", b"a\x00b", b"_", b"A-Z_09", b"\xc3", b"x\xc3\xa9-\xc3-"]
    return out


def gen(tier, seed):
    rnd = random.Random(seed)
    cases = list(corpus())
    maxlen = 5 if tier == "quick" else 6
    for n in range(1, maxlen + 1):
        for t in itertools.product(ALPHABET, repeat=n):
            cases.append(b"".join(t))
    nrand = 20000 if tier == "quick" else 400000
    import gen_line as GL
    pool = [b"-", b"_", b".", b"a", b"Z", b"0", b"9", b"\xff", b"\x80", b"\xc3", b"\xe2\x82", b"\xf0\x9f", b":", b" "] + ALPHABET + GL.UNICODE_ATOMS + LOWBYTE
    for _ in range(nrand):
        k = rnd.randint(1, 64)
        mode = rnd.random()
        if mode < 0.4:
            cases.append(bytes(rnd.randrange(256) for _ in range(k)))
        elif mode < 0.7:
            cases.append(b"".join(rnd.choice(pool) for _ in range(rnd.randint(1, 24)))[:64] or b"a")
        elif mode < 0.8:
            # any assigned-looking code point: one in ~250 is a non-ASCII digit, one in 3 a letter
            cases.append("".join(chr(rnd.choice([rnd.randrange(0x80, 0x3000), rnd.randrange(0x3000, 0xD800), rnd.randrange(0xE000, 0x30000)]))
                                 for _ in range(rnd.randint(1, 12))).encode("utf-8"))
        else:
            cases.append(bytes(rnd.choice(b"abcXYZ019_-.") for _ in range(k)))
    return cases


def clause(inp, impl_line, spec_hex):
    """Which clause of C15 fails on this input, judged on the implementation's own output."""
    tok = impl_line.split()
    if tok[0] == "PANIC":
        return "escaping failed (panic)"
    outb = vf.unhex(tok[1])
    import re
    if inp and not re.fullmatch(rb"[a-zA-Z_][a-zA-Z0-9_]*", outb):
        return "result is not a legal name"
    keep = lambda s: bytes(c for c in s if chr(c).isalnum() and c < 128)
    if keep(outb) != keep(inp):
        return "ASCII letters/digits not preserved in order"
    if len(tok) > 2 and tok[2] != tok[1]:
        return "not idempotent"
    if (outb[:1] == b"_" and inp[:1] != b"_") != (inp[:1].isdigit()) and inp[:1].isalnum():
        return "leading underscore not exactly for a leading digit"
    if tok[1] != spec_hex:
        return "a replaced character / run of dashes did not become exactly one underscore"
    return None


def _run(rep, tier, seed, replay):
    rep.cov["trusted_base"] = TRUSTED
    rep.cov["rule"] = ("corpus + all strings over a 12-symbol alphabet (letter, digit, _, -, ., 2/3/4-byte rune, a non-ASCII decimal digit, a letter whose code point ends in 0x2D, "
                       "U+FFFD, stray 0xff) up to length %d + random byte strings <= 64; non-trivial = the "
                       "escaped result differs from the input; distinct by input bytes" % (5 if tier == "quick" else 6))
    rep.cov["exhaustive"] = False
    if replay:
        cases = [vf.unhex(json.load(open(replay))["input_hex"])]
    else:
        cases = gen(tier, seed)
    d = vf.tmpdir("C15")
    cf = f"{d}/cases.txt"
    vf.write_lines(cf, [vf.hexs(c) for c in cases])
    impl = vf.run_hx("escape", cf)
    model = vf.run_model("escape", cf)
    assert len(impl) == len(model) == len(cases), (len(impl), len(model), len(cases))
    rep.count(len(cases))
    rep.cov["traces_validated_against_impl"] = len(cases)
    npanic = 0
    lens = {}
    for c, i, m in zip(cases, impl, model):
        it, mt = i.split(), m.split()
        spec_hex = mt[mt.index("SPEC") + 1]
        lens[len(c)] = lens.get(len(c), 0) + 1
        if it[0] == "OK" and vf.unhex(it[1]) != c:
            rep.nontrivial(c)
        agree = (it[0] == mt[0]) and (it[0] == "PANIC" or it[1] == mt[1])
        cl = None
        if not agree or it[0] == "PANIC":
            cl = clause(c, i, spec_hex) or "implementation differs from the proved model"
        if cl:
            rep.violation(cl, dict(engine="escape", input_hex=vf.hexs(c), input_repr=repr(c), impl=i, model=m))
            if len(rep.violations) >= 5:
                break
    rep.sample(dict(input=repr(cases[0]), impl=impl[0], model=model[0]))
    rep.sample(dict(input=repr(cases[len(cases) // 2]), impl=impl[len(cases) // 2], model=model[len(cases) // 2]))
    rep.sample(dict(input=repr(cases[-1]), impl=impl[-1], model=model[-1]))
    rep.extra["input_length_histogram"] = {str(k): v for k, v in sorted(lens.items())}


def run(rep, tier, seed, replay):
    _run(rep, tier, seed, replay)
    if not replay:
        genproof.digest_obligation(rep, "escaped names are memoised under a digest")
