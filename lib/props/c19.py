"""C19 - a configuration that loads is safe to run; one that is invalid is rejected."""
import e2e_engine as E2E
import gen_glob as GG
import gen_mapper as GM
import gen_pipeline as GP
import pipeline_check as PC
import pipeline_engine as PE
import vf

BOUNDARY_BUCKETS = [[3.0, 2.0, 1.0], [1.0, 1.0], [], [1.0], [float("inf")], [1.0, float("inf")], [float("-inf"), 0.0], [float("nan")], [1.0, float("nan")],
                    [0.1, 0.2], [1e-320, 1e308]]
BOUNDARY_QS = [[(1.5, 0.1)], [(-0.5, 0.1)], [(0.0, 0.1)], [(1.0, 0.1)], [(0.5, -1.0)], [(0.5, 2.0)], [(0.5, 0.0)], [], [(0.5, 0.1), (0.5, 0.2)], [(float("nan"), 0.1)]]
LABELS = [b"quantile", b"le", b"__x", b"ab", b"__name__", b"instance", b"job"]


KF_TINY = "tiny-summary-max-age"


def tiny_stream(cfg):
    """signature of the known finding: some summary max_age between 0 and 10 ms (stream duration far below any scrape interval)"""
    if cfg == "unparsable":
        return False
    d, rules = cfg
    ss = [r["summary"] for r in rules if r.get("summary")] + ([d["summary"]] if d and d.get("summary") else [])
    return any(0 < s["max_age"] < 10**7 for s in ss)


def min_stream_ns(cfg):
    """the shortest summary stream duration (max_age / age_buckets) this configuration asks for, read as the loader reads it: a rule
    whose observer type is known at load (its own or the defaults') has unset fields filled from the defaults, any other rule's
    block is taken whole; client defaults 10 min / 5 buckets.  In process a scrape costs (elapsed / duration) rotations: only
    durations of a few nanoseconds can make the harness wait for seconds (the known finding); longer ones cannot."""
    if cfg == "unparsable":
        return 10**12
    d, rules = cfg
    ds = (d or {}).get("summary") or dict(max_age=0, age_buckets=0)
    best = 10**12
    def dur(ma, ab):
        ma = ma if ma > 0 else 600 * 10**9
        return ma // (ab or 5)
    best = min(best, dur(ds["max_age"], ds["age_buckets"]))
    for r in rules:
        s_ = r.get("summary")
        if not s_:
            continue
        typed = (r.get("observer_type") or r.get("timer_type") or (d or {}).get("observer_type") or (d or {}).get("timer_type")) is not None
        if typed:
            best = min(best, dur(s_["max_age"] or ds["max_age"], s_["age_buckets"] or ds["age_buckets"]))
        else:
            best = min(best, dur(s_["max_age"], s_["age_buckets"]))
    return best


def battery(cfg):
    out = []
    for r in cfg[1]:
        if r["match_type"] == b"regex":
            names = [b"svc.req", b"a.b", b"x", b"lat", b"a.q.r"]
        else:
            names = [b".".join(b"w" if f == b"*" else f for f in r["match"].split(b"."))]
        for nm in names:
            for t in (b"c", b"g", b"ms", b"h", b"d"):
                out.append(nm + b":1.5|" + t)
            out.append(nm + b":1|ms|#le:1,quantile:2")
    out += [b"unmapped:1|ms", b"unmapped:1|h", b"unmapped:1|c"]
    return out


def gen_case(rnd):
    r = rnd.random()
    expected = "ok"
    if r < 0.35:
        cfg, expected = GG.invalid_cfg(rnd)
    else:
        cfg = GP.gen_config(rnd, safe=False, maxrules=4)
        d, rules = cfg
        k = rnd.randrange(11)
        if k == 10:
            # a rule with 1-20 (or 31-33, 63-65) wildcards whose label refers to the last capture; the battery sends a matching line
            nw = rnd.choice(list(range(1, 21)) + [31, 32, 33, 63, 64, 65])
            rules.append(GM.rule(b".".join([b"wc"] + [b"*"] * nw), b"wc_$1", labels=[(b"ab", b"$%d" % nw), (b"cd", b"${%d}-$1" % nw)], help=b"wc"))
        elif k >= 8:
            # options of an observer kind on a rule that does not say which kind it is (the defaults, or nothing, decide)
            if k == 8:
                rules.append(GM.rule(b"iq.*", b"iq", summary=GM.summ(quantiles=rnd.choice(BOUNDARY_QS), max_age=rnd.choice([0, -10**9, 1, 4, 5, 6, 10**9]),
                                                                     age_buckets=rnd.choice([0, 1, 5, 7]), buf_cap=rnd.choice([0, 1, 500])), help=b"iq"))
            else:
                rules.append(GM.rule(b"ib.*", b"ib", hist=dict(buckets=rnd.choice(BOUNDARY_BUCKETS)), help=b"ib"))
            if d is not None and rnd.random() < 0.6:
                d["observer_type"], d["timer_type"] = rnd.choice([None, None, b"histogram", b"summary"]), None
        elif k == 0:
            rules.append(GM.rule(b"bb.*", b"bb", observer_type=b"histogram", hist=dict(buckets=rnd.choice(BOUNDARY_BUCKETS)), help=b"bb"))
        elif k == 1:
            rules.append(GM.rule(b"bq.*", b"bq", observer_type=b"summary", summary=GM.summ(quantiles=rnd.choice(BOUNDARY_QS), max_age=rnd.choice([0, -10**9, 1, 3, 4, 5, 6, 7, 999, 10**9]),
                                                                                               age_buckets=rnd.choice([0, 1, 5, 7, 1000]), buf_cap=rnd.choice([0, 1, 500])), help=b"bq"))
        elif k == 2:
            rules.append(GM.rule(b"bl.*", b"bl", labels=[(rnd.choice(LABELS), b"v")], observer_type=rnd.choice([None, b"histogram", b"summary"]), help=b"bl"))
        elif k == 3:
            d = d or GM.defaults()
            d["hist"] = dict(buckets=rnd.choice(BOUNDARY_BUCKETS)); d["observer_type"] = rnd.choice([None, b"histogram"])
        elif k == 4:
            d = d or GM.defaults()
            d["summary"] = GM.summ(quantiles=rnd.choice(BOUNDARY_QS), max_age=rnd.choice([0, -10**9, 10**9, 4, 5, 1]), age_buckets=rnd.choice([0, 0, 5, 9]))
        elif k == 5:
            if rnd.random() < 0.4:
                d = d or GM.defaults()
                d["ttl"] = rnd.choice([-10**9, 1, 2**61, -1])
            rules.append(GM.rule(b"bt.*", b"bt", ttl=rnd.choice([-10**9, 1, 2**61]), scale=rnd.choice([0.0, -1.0, float("nan"), float("inf"), 1e308]), help=b"bt"))
        elif k == 6:
            rules.append(GM.rule(b"bn.*", rnd.choice([b"$1", b"${1}_$2", b"$2", b"x$3"]), labels=[(b"ab", rnd.choice([b"$1$2", b"100%", b"$$", b"${9}"]))], help=b"bn"))
        elif k == 7:
            rules.append(GM.rule(b"lq.*", b"lq", legacy_quantiles=rnd.choice(BOUNDARY_QS), legacy_buckets=rnd.choice(BOUNDARY_BUCKETS), observer_type=rnd.choice([None, b"histogram", b"summary"]), help=b"lq"))
        cfg = (d, rules)
    ops = [GM.load_op(cfg)]
    lines = battery(cfg) if cfg != "unparsable" else [b"x:1|c"]
    for l in lines[:60]:
        ops.append(PE.I(l))
    ops += ["G", "A 700000000000", "S", "G"]
    return (15, ("none", 0), ops, dict(expected=expected, yaml=GM.to_yaml(cfg), tiny_stream=tiny_stream(cfg), min_stream_ns=min_stream_ns(cfg)))


def monitor(rep, case, impl, model, payload):
    fl, cache, ops, meta = case
    loaded = impl[0] == "L ok"
    if meta and meta["expected"] is None:
        pass            # whether it loads is the model's call (compared by the engine); what loads must run
    elif meta and meta["expected"] != "ok" and loaded:
        rep.violation("an invalid configuration (%s) was accepted" % meta["expected"], dict(payload, yaml=meta["yaml"])); return
    if meta and meta["expected"] == "ok" and not loaded and impl[0] not in ("L EBadBuckets", "L EBadSummary", "L ESummWithHistOpts", "L EHistWithSummaryOpts"):
        # generated "boundary" configs may legitimately be rejected: by the bucket/quantile validation, or because options of one
        # observer kind meet a rule whose (inherited) kind is the other one; the model comparison decides which
        rep.violation("a valid configuration was rejected", dict(payload, yaml=meta["yaml"], impl=impl[0]), no_input=True); return
    if loaded:
        rep.nontrivial(meta["yaml"] if meta else tuple(ops))
    for k, (o, i) in enumerate(zip(ops, impl)):
        if "PANIC" in i:
            rep.violation("a configuration that loaded makes the exporter panic" if loaded else "panic",
                          dict(payload, yaml=meta and meta["yaml"], op_index=k, op=PC.describe(ops)[k], impl=i)); return
        if o == "G" and not PE.parse_gather(i)["ok"]:
            rep.violation("a configuration that loaded makes scrapes fail", dict(payload, yaml=meta and meta["yaml"], op_index=k, impl=i[:300])); return


def summary_cross(rnd, tier):
    """summary options of a rule and of the defaults in every combination (which of them supplies max_age and which age_buckets
    differs between a rule that names its observer type and one that does not): whatever loads must run"""
    out = []
    combos = [(m, ar, md, ad, ot) for m in (0, 100, 500, 10**6) for ar in (0, 3) for md in (0, 10**9) for ad in (0, 1000, 50000) for ot in (None, b"summary", b"histogram")]
    if tier == "quick":
        combos = rnd.sample(combos, 50) + [(500, 0, 0, 1000, None), (10**6, 0, 0, 50000, None)]
    for m, ar, md, ad, ot in combos:
        cfg = (GM.defaults(observer_type=ot, summary=GM.summ(max_age=md, age_buckets=ad)), [GM.rule(b"sx.*", b"sx", summary=GM.summ(max_age=m, age_buckets=ar), help=b"sx")])
        ops = [GM.load_op(cfg), PE.I(b"sx.a:1|ms"), PE.I(b"sx.a:2|ms"), PE.I(b"sx.b:1|h|#k1:v"), PE.I(b"other:1|ms"), "G"]
        out.append((15, ("none", 0), ops, dict(expected=None, yaml=GM.to_yaml(cfg), tiny_stream=tiny_stream(cfg), min_stream_ns=min_stream_ns(cfg))))
    return out


def run(rep, tier, seed, replay):
    import random as _random
    directed = summary_cross(_random.Random(seed + 77), tier) + [(15, ("none", 0), [GM.load_op((GM.defaults(summary=GM.summ(max_age=5)), [])), PE.I(b"t:1|ms"), "G"], dict(expected="ok", yaml="defaults: summary_options: max_age: 5ns", tiny_stream=True))]
    res = PC.run(rep, "C19", tier, seed, replay, gen_case, monitor, 500, 25000,
           "%(n)d configurations: 35%% invalid (17 classes: syntax, match, name, label key, enum, regex, legacy/new contradictions, unsorted/duplicate buckets, quantile outside [0,1], "
           "negative max_age) and 65%% valid or boundary (empty/Inf/NaN/denormal buckets, quantiles 0 and 1, odd errors, reserved label names le/quantile/__x, huge/negative ttl, "
           "scale 0/negative/NaN/Inf, out-of-range template references), each followed by a battery of lines of every type hitting every rule, reserved tags, unmapped names, a scrape, "
           "an expiry sweep and a second scrape; non-trivial = configuration that loaded; distinct by YAML text",
           extra_cases=directed,
           # in process only a stream duration of a few nanoseconds can make a scrape take seconds (cost = elapsed time / duration)
           known_hang=lambda meta: KF_TINY if (meta or {}).get("min_stream_ns", 10**12) < 20 or ((meta or {}).get("tiny_stream") and "min_stream_ns" not in (meta or {})) else None)
    if not replay and res:
        cases, impl, model = res
        items = [(c[2][0].split()[1], i[0] == "L ok", (c[3] or {}).get("yaml", "")) for c, i in zip(cases, impl) if c[2] and c[2][0].startswith("L ")]
        E2E.check_configs(rep, "C19", items, 120 if tier == "quick" else 3000)
        live = [(c[2][0], [vf.unhex(o[2:]) for o in c[2] if o.startswith("I ")], (c[3] or {}).get("yaml", ""), KF_TINY if (c[3] or {}).get("tiny_stream") else None)
                for c, i in zip(cases, impl) if c[2] and c[2][0].startswith("L ") and i[0] == "L ok"]
        # the known finding's own case runs first, always
        live.insert(0, (GM.load_op((GM.defaults(summary=GM.summ(max_age=5)), [])), [b"t:1|ms", b"t:2|ms", b"u:1|c"], "defaults:\n  summary_options:\n    max_age: 5ns\nmappings: []\n", KF_TINY))
        E2E.run_liveness(rep, "C19", live, 40 if tier == "quick" else 1500, seed)
        rep.cov["rule"] += ("; plus, against the built binary: --check-config on %d of the configurations, and %d of the loadable ones run end to end (start, lines, scrape, reload "
                            "of the same file by /-/reload or SIGHUP, scrape): the process must stay up and answer" % (rep.extra.get("check_config_runs", 0), rep.extra.get("e2e_liveness_runs", 0)))
    if not replay:
        # two configurations that load, alternated by a reloader running flat out while timers with the client library's
        # reserved label names are processed: each event is judged against one configuration, the exporter never panics
        d = vf.tmpdir("C19")
        vf.write_lines(f"{d}/reloadsafe.cases", ["700 500"] if tier == "quick" else ["20000 500", "20000 100"])
        for o in vf.run_hx("reloadsafe", f"{d}/reloadsafe.cases"):
            rep.count(1)
            f = dict(x.split("=", 1) for x in o.split(" ", 3)) if o.startswith("events=") else {}
            rep.extra["reload_interleaving_events"] = rep.extra.get("reload_interleaving_events", 0) + int(f.get("events", 0))
            rep.extra["reload_interleaving_reloads"] = rep.extra.get("reload_interleaving_reloads", 0) + int(f.get("reloads", 0))
            if not f or f.get("panics") != "0":
                rep.violation("reloading between two configurations that both load makes the exporter panic: an event is judged partly against the old and partly against the new defaults",
                              dict(observed=o, config_a="defaults: observer_type: summary", config_b="defaults: observer_type: histogram",
                                   input="rs.t<n>:12|ms|#le:0.5 and rs.t<n>:12|ms|#quantile:0.5, names fresh",
                                   how="harness/cmd/hx/reloadsafe.go: a goroutine alternates InitFromYAMLString(A/B) on the live mapper while Exporter.Listen processes the events"))
                break
