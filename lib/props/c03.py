"""C03 - every scrape succeeds and is a consistent, parseable exposition."""
import gen_mapper as GM
import gen_pipeline as GP
import pipeline_check as PC
import pipeline_engine as PE
import vf

KF_BUILTIN = "builtin-collector-name-collision"
BUILTIN = [b"statsd_exporter_lines_total", b"statsd_exporter_loaded_mappings", b"go_goroutines"]
import gen_line as GL
LONG = GL.LONG_NAME
NAMES = [b"x", b"x_sum", b"x_count", b"x_bucket", b"x_total", b"x.sum", b"x-sum", b"x\xef\xbf\xbdy",
         # every chain of two companion suffixes (x_bucket is itself a base for x_bucket_count, ...)
         b"x_count_sum", b"x_sum_bucket", b"x_sum_count", b"x_bucket_count", b"x_bucket_sum", b"x_bucket_bucket", b"x_sum_sum", b"x_count_count", b"x_count_bucket", LONG, LONG + b"_sum", LONG + b"_bucket", LONG[:121], LONG[:121] + b"_count", b"x\xd9\xa3", b"x_"]
TYPES = [b"c", b"g", b"ms", b"h"]


def gen_case(rnd):
    ops = []
    if rnd.random() < 0.7:
        d = GM.defaults(observer_type=rnd.choice([None, b"histogram", b"summary"]), ttl=rnd.choice([0, 0, 2 * 10**9]))
        rules = []
        if rnd.random() < 0.5:
            rules = [GM.rule(b"*", rnd.choice([b"x", b"x_sum", b"y_$1", b"$1_count"]), mmt=rnd.choice([None, b"counter", b"observer"]),
                             help=rnd.choice([b"h1", b"h2"]), labels=[(rnd.choice([b"la", b"lb"]), b"v")] if rnd.random() < 0.5 else [],
                             observer_type=rnd.choice([None, b"histogram", b"summary"])),
                     GM.rule(b"*.*", rnd.choice([b"x", b"${2}_bucket"]), help=b"h3", labels=[(b"lc", b"$1")])]
        ops.append(GM.load_op((d, rules)))
    builtin_hit = False
    for _ in range(rnd.randint(2, 12)):
        r = rnd.random()
        if r < 0.04:
            nm = rnd.choice(BUILTIN + [b"go.goroutines"])
            builtin_hit = True
        elif r < 0.8:
            nm = rnd.choice(NAMES)
        else:
            nm = rnd.choice([b"y", b"a.b", b"z_sum", b"#k=v", b",k=v", b"[k=v]"])
        l = nm + b":" + rnd.choice([b"1", b"2", b"0.5"]) + b"|" + rnd.choice(TYPES)
        if rnd.random() < 0.35:
            l += b"|#" + rnd.choice([b"k:v", b"k:w", b"j:v", b"__name__:q", b"le:1", b"quantile:0.5", b"-_x:1", b"a.b:1,a-b:2", b"k:caf\xc3\xa9", b"h\xef\xbf\xbdst:1", b"\xef\xbf\xbd:1"])
        if rnd.random() < 0.06 and b"|#" not in l:
            ops.append("X " + vf.hexs(l + b"|#k:a!ffb"))      # injected past the parser: a label value that is not valid UTF-8
        else:
            ops.append(PE.I(l))
        ops.append("G")
        if rnd.random() < 0.15:
            ops += ["A 3000000000", "S", "G"]
    return (15, ("none", 0), ops, dict(builtin=builtin_hit))


def monitor(rep, case, impl, model, payload):
    fl, cache, ops, meta = case
    hit_builtin = False
    for k, (o, i) in enumerate(zip(ops, impl)):
        if o.startswith("I "):
            nm = vf.unhex(o[2:]).split(b":")[0].replace(b".", b"_")
            if nm in BUILTIN:
                hit_builtin = True
        if "PANIC" in i:
            rep.violation("panic", dict(payload, op_index=k, impl=i)); return
        if o == "G":
            g = PE.parse_gather(i)
            if not g["ok"]:
                if hit_builtin and rep.known(KF_BUILTIN):
                    return
                rep.violation("a scrape fails (gather error) after client-chosen names/tags",
                              dict(payload, op_index=k, prefix=PC.describe(ops[:k + 1]), impl=i[:400])); return
            if not g["text"]:
                rep.violation("the text exposition does not parse back to the same families", dict(payload, op_index=k, impl=i[:400])); return
            if len(g["families"]) >= 2:
                rep.nontrivial(tuple(ops[:k + 1]))


def help_after_expiry():
    """one name reachable with two help texts and two label-name sets, a ttl on everything: shape A, everything expires, shape B
    (or A) arrives while the name has no live series, then the other shape again - in every order, for every metric type"""
    out = []
    for ty, ot in ((b"c", None), (b"g", None), (b"ms", b"summary"), (b"ms", b"histogram")):
        for seq in (["a", "X", "b", "a"], ["a", "X", "b", "X", "a", "b"], ["b", "X", "a", "c", "b"], ["a", "b", "X", "c", "a"], ["a", "X", "a", "b"], ["a", "X", "c", "X", "b", "a", "c"]):
            d = GM.defaults(ttl=2 * 10**9, observer_type=ot)
            rules = [GM.rule(b"a.*", b"shared", help=b"help A", labels=[(b"la", b"$1")]),
                     GM.rule(b"b.*", b"shared", help=b"help B", labels=[(b"la", b"$1"), (b"lb", b"x")]),
                     GM.rule(b"c.*", b"shared", help=b"help C", labels=[(b"lc", b"$1")])]
            ops = [GM.load_op((d, rules)), PE.I(b"bystander:1|g"), "G"]
            for st in seq:
                if st == "X":
                    ops += ["A 3000000000", "S", "G"]
                else:
                    ops += [PE.I(st.encode() + b".one:2|" + ty), "G"]
            out.append((15, ("none", 0), ops, dict(builtin=False)))
    return out


def suffix_chains(tier):
    """a base, the base with one companion suffix, and that with a second one (x, x_bucket, x_bucket_count), as timer / counter in
    every order, under summary and histogram defaults: a scrape after every line"""
    import itertools
    out = []
    sfx = [b"_sum", b"_count", b"_bucket"]
    for obs in ([None, b"histogram"] if tier == "quick" else [None, b"histogram", b"summary"]):
        for s1 in sfx:
            for s2 in sfx:
                three = [(b"x", b"ms"), (b"x" + s1, b"ms"), (b"x" + s1 + s2, b"c")]
                for order in itertools.permutations(three):
                    for alt in ((), ((b"x" + s1 + s2, b"ms"),)) if tier != "quick" else ((),):
                        ops = [GM.load_op((GM.defaults(observer_type=obs), []))]
                        for nm, ty in list(order) + list(alt):
                            ops += [PE.I(nm + b":1|" + ty), "G"]
                        out.append((15, ("none", 0), ops, dict(builtin=False)))
    return out


def run(rep, tier, seed, replay):
    extra = [(15, ("none", 0), [PE.I(b"statsd_exporter_lines_total:1|g"), "G"], dict(builtin=True))] + help_after_expiry() + suffix_chains(tier)
    PC.run(rep, "C03", tier, seed, replay, gen_case, monitor, 600, 40000,
           "%(n)d histories of 2-12 lines over names {x, x_sum, x_count, x_bucket, x_total, ...} x types {c,g,ms,h} x reserved/exotic tag keys, names of "
           "the binary's own collectors, names that are only tags, two rules mapping to one name with different help, TTL expiry; a scrape (gather + "
           "text encode + parse back) after EVERY line; non-trivial = prefix whose scrape has >= 2 families; distinct by prefix", extra_cases=extra)
    if not replay and len(rep.violations) < 5:
        import e2e_engine as E2E
        E2E.run(rep, "C03", tier, seed, n_quick=10, n_thorough=400, gen=E2E.gen_hostile_case, key="e2e_exposition")
