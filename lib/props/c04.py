"""C04 - ordered glob mapping: the first matching rule wins; non-matching rules are irrelevant."""
import itertools
import json
import random

import gen_glob as GG
import gen_mapper as GM
import mapper_engine as ME
import vf

TRUSTED = [
    "Coq 8.16.1 kernel; theorems in Properties/C04.v: the FSM search (Model/Fsm.v) equals first_match for ALL rule lists, names and types",
    "hand-written model of pkg/mapper/fsm + pkg/mapper (trie represented by its denotation) tied to the code by differential execution",
    "regexp compile/match, yaml.v2 decoding and unicode.IsLetter/IsDigit are oracles recorded from the implementation",
    "extraction (ExtrOcamlBasic), ocaml runner, Go harness, Python generators and monitors",
]
UNORDERED = False
PID = "C04"


def glob_match(p, n):
    pf, nf = p.split(b"."), n.split(b".")
    return len(pf) == len(nf) and all(a == b"*" or a == b for a, b in zip(pf, nf))


def type_ok(t, ty):
    return t is None or {b"timer": b"observer"}.get(t, t) == ty.encode()


def spec_winner(shape_list, name, ty, unordered):
    """index of the winning glob rule per the property statement"""
    ms = [i for i, (p, t) in enumerate(shape_list) if type_ok(t, ty) and glob_match(p, name)]
    if not ms:
        return None
    if not unordered:
        return ms[0]
    def key(i):
        return tuple(1 if c == b"*" else 0 for c in shape_list[i][0].split(b"."))
    best = min(key(i) for i in ms)
    return [i for i in ms if key(i) == best][0]


def locate(rep, shape_list, unordered, names):
    """re-run one rule list verbosely; report the first query where impl and spec disagree"""
    cfg = GG.cfg_of(shape_list, unordered)
    ops = [GM.load_op(cfg)] + [GM.query_op(ty, n) for n in names for ty in ("counter", "gauge", "observer")]
    impl, model = ME.run_cases(PID, [GM.case_line("none", 0, ops)], tag="locate")
    k = 1
    for n in names:
        for ty in ("counter", "gauge", "observer"):
            i, m = impl[0][k], model[0][k]
            k += 1
            w = spec_winner(shape_list, n, ty, unordered)
            got = None if i == "Q -" else vf.unhex(i.split()[1]).decode()
            exp = None if w is None else "r%d" % w
            if got != exp:
                return dict(rules=[[p.decode(), (t or b"").decode()] for p, t in shape_list], unordered=unordered,
                            name=n.decode(), type=ty, impl=i, model=m, expected_rule=exp,
                            yaml=GM.to_yaml(cfg))
            if i != m:
                return dict(rules=[[p.decode(), (t or b"").decode()] for p, t in shape_list], unordered=unordered,
                            name=n.decode(), type=ty, impl=i, model=m, expected_rule=exp, yaml=GM.to_yaml(cfg),
                            note="winner agrees with the specification; name/labels/attributes differ from the model")
    return None


def run(rep, tier, seed, replay, unordered=UNORDERED, pid=PID):
    global PID
    PID = pid
    rep.cov["trusted_base"] = TRUSTED
    rnd = random.Random(seed)
    shapes = GG.shapes()
    names = GG.names()
    lists = []
    if replay:
        rp = json.load(open(replay))
        lists = [[(p.encode(), t.encode() or None) for p, t in rp["rules"]]]
    else:
        lists = [[s] for s in shapes]
        pairs = [[a, b] for a in shapes for b in shapes]
        if unordered and tier == "quick":
            pairs = rnd.sample(pairs, 9000)
        lists += pairs
        ntrip = (3000 if tier == "quick" else 200000) // (2 if unordered else 1)
        for _ in range(ntrip):
            lists.append([rnd.choice(shapes) for _ in range(3)])
    cases, meta = [], []
    namearg = ",".join(vf.hexs(n) for n in names)
    for sl in lists:
        perms = [sl]
        if unordered and len(sl) > 1:
            perms = [list(p) for p in itertools.permutations(sl)][: (6 if len(sl) == 3 else 2)]
        for pl in perms:
            cases.append(GM.case_line("none", 0, [GM.load_op(GG.cfg_of(pl, unordered)), "D " + namearg]))
            meta.append(pl)
    impl, model = ME.run_cases(pid, cases)
    nq = len(names) * 3
    rep.count(len(cases) * nq)
    rep.cov["traces_validated_against_impl"] = len(cases)
    rep.cov["rule"] = ("all rule lists of <=2 rules over 156 shapes (39 patterns over {a,b,*} of length<=3 x 4 type filters)%s + %d random "
                       "3-rule lists, each answered for %d names over {a,b,*,z} (+ empty components) x 3 types in digest mode, plus random "
                       "configs (<=12 rules, <=5 components, mixed glob/regex) queried verbosely; non-trivial = rule lists with >=2 rules; distinct by rule list"
                       % (" (sampled, all permutations)" if unordered and tier == "quick" else "", sum(1 for l in lists if len(l) == 3), len(names)))
    rep.cov["exhaustive"] = not (unordered and tier == "quick")
    nbad = 0
    for sl, i, m in zip(meta, impl, model):
        if len(sl) >= 2:
            rep.nontrivial(tuple(sl))
        if i != m:
            nbad += 1
            if len(rep.violations) < 3:
                loc = locate(rep, sl, unordered, names)
                if loc and loc.get("expected_rule") != (None if loc["impl"] == "Q -" else vf.unhex(loc["impl"].split()[1]).decode()):
                    rep.violation("the winning rule is not the one the property prescribes", loc)
                elif loc:
                    rep.violation("implementation differs from the proved model (mapper engine)", loc, no_input=True)
                else:
                    rep.violation("digest mismatch that does not reproduce verbosely", dict(rules=[[p.decode(), (t or b"").decode()] for p, t in sl]), no_input=True)
    # random configs through the whole mapper, verbose, incl. regex fallback
    nr = 400 if tier == "quick" else 8000
    rcases, rmeta = [], []
    for _ in range(nr):
        cfg = GG.random_cfg(rnd, unordered=unordered)
        qs = [(rnd.choice(["counter", "gauge", "observer"]), GG.random_name(rnd)) for _ in range(30)]
        # a third of the configurations arrive by reload on a mapper that held another one: the answer is the new configuration's alone
        before = [GM.load_op(GG.random_cfg(rnd, unordered=unordered))] if rnd.random() < 0.33 else []
        if before and rnd.random() < 0.5:
            # ... or the very same rules in the other ordering mode (nothing but defaults.glob_disable_ordering differs)
            d1 = dict(cfg[0] or GM.defaults())
            d1["disable_ordering"] = not d1["disable_ordering"]
            before = [GM.load_op((d1, [dict(r) for r in cfg[1]]))]
        rcases.append(GM.case_line("none", 0, before + [GM.load_op(cfg)] + [GM.query_op(t, n) for t, n in qs]))
        rmeta.append((cfg, qs, len(before)))
    if not replay:
        import props.c14 as c14
        for steps, probes in c14.resplit_pairs():
            # the rule boundary moves while the concatenated match strings stay the same
            if (steps[0][0][0] is not None) != bool(unordered):
                continue
            qs = [(t, n) for n in probes for t in ("counter", "gauge", "observer")]
            rcases.append(GM.case_line("none", 0, [GM.load_op(steps[0][0]), GM.load_op(steps[1][0])] + [GM.query_op(t, n) for t, n in qs]))
            rmeta.append((steps[1][0], qs, 1))
    rimpl, rmodel = ME.run_cases(pid, rcases, tag="random")
    rep.count(sum(len(x[1]) for x in rmeta))
    for (cfg, qs, nb), i, m in zip(rmeta, rimpl, rmodel):
        rep.nontrivial(GM.to_yaml(cfg))
        if i != m:
            nbad += 1
            k = next((k for k in range(min(len(i), len(m))) if i[k] != m[k]), 0)
            if len(rep.violations) < 5:
                q = qs[k - 1 - nb] if k >= 1 + nb else None
                rep.violation("implementation differs from the proved model (mapper engine, random config)",
                              dict(yaml=GM.to_yaml(cfg), loaded_over_another_configuration=bool(nb), query=[q[0], q[1].decode("latin1")] if q else None, impl=i[k], model=m[k]),
                              no_input=True)
    # sizes outside the small alphabets: rules of 8-200 components, 300 rules in one configuration, 300-byte components
    scases, smeta = [], []
    for n in (8, 31, 32, 33, 63, 64, 65, 100, 200):
        pre = [b"c%d" % k for k in range(1, n)]
        rules = [GM.rule(b".".join(pre + [b"*"]), b"gen_$1", help=b"r0", labels=[(b"c1", b"$1")]), GM.rule(b".".join(pre + [b"leaf"]), b"leaf", help=b"r1"),
                 GM.rule(b"short.*", b"short_$1", help=b"r2"), GM.rule(b".".join([b"*"] * n), b"stars", help=b"r3", labels=[(b"cn", b"$%d" % n)])]
        for order in (rules, rules[::-1]):
            cfg = (GM.defaults(disable_ordering=True) if unordered else None, [dict(r) for r in order])
            qs = [b".".join(pre + [b"leaf"]), b".".join(pre + [b"other"]), b"short.x", b".".join([b"q"] * n), b".".join(pre), b".".join(pre + [b"a", b"b"])]
            scases.append(GM.case_line("none", 0, [GM.load_op(cfg)] + [GM.query_op(t, q) for q in qs for t in ("counter", "observer")]))
            smeta.append("rules of %d components" % n)
    # a staircase: rule k equals the metric except for a wildcard at position k (deepest first, the all-literal rule last):
    # the search has one alternative pending per level of the metric
    for n in (3, 8, 33, 64, 65, 70, 130):
        rules = [GM.rule(b".".join([b"s"] * k + [b"*"] + [b"s"] * (n - k - 1)), b"stair_%d" % k, help=b"r%d" % (n - 1 - k), labels=[(b"c1", b"$1")]) for k in range(n - 1, -1, -1)]
        rules.append(GM.rule(b".".join([b"s"] * n), b"literal", help=b"r%d" % n))
        for order in (rules, rules[::-1]):
            cfg = (GM.defaults(disable_ordering=True) if unordered else None, [dict(r) for r in order])
            qs = [b".".join([b"s"] * n), b".".join([b"s"] * (n - 1) + [b"x"]), b".".join([b"x"] + [b"s"] * (n - 1)), b".".join([b"s"] * (n // 2) + [b"x"] + [b"s"] * (n - n // 2 - 1))]
            scases.append(GM.case_line("none", 0, [GM.load_op(cfg)] + [GM.query_op(t, q) for q in qs for t in ("counter", "gauge")]))
            smeta.append("a staircase of %d rules" % (n + 1))
    # a dense tree: every literal / wildcard combination over one name (2^d rules), preceded by a rule that starts with a
    # wildcard - the search has to come back from more than a thousand branches before it may answer
    for dpt in ((4, 10) if tier == "quick" else (4, 10, 11)):
        import itertools as _it
        tree = [GM.rule(b".".join([b"*"] + [b"a"] * dpt), b"first_$1", help=b"r0", labels=[(b"c1", b"$1")])]
        for k, combo in enumerate(_it.product([b"a", b"*"], repeat=dpt)):
            tree.append(GM.rule(b".".join((b"a",) + combo), b"tree_%d" % k, help=b"r%d" % (k + 1)))
        tail = [GM.rule(b".".join([b"a"] * (dpt + 1) + [b"b"]), b"longer", help=b"r%d" % (len(tree)))]
        for rules in (tree, tree + tail, [tree[0]] + tree[:0:-1]):
            cfg = (GM.defaults(disable_ordering=True) if unordered else None, [dict(r) for r in rules])
            qs = [b".".join([b"a"] * (dpt + 1)), b".".join([b"a"] * dpt + [b"z"]), b".".join([b"z"] + [b"a"] * dpt), b".".join([b"a", b"z"] * ((dpt + 1) // 2) + [b"a"] * ((dpt + 1) % 2))]
            scases.append(GM.case_line("none", 0, [GM.load_op(cfg)] + [GM.query_op(t, q) for q in qs for t in ("counter", "gauge")]))
            smeta.append("a dense tree of %d rules" % len(rules))
    many = [GM.rule(b"m%d.*" % k, b"many_%d_$1" % k, help=b"r%d" % k) for k in range(300)]
    scases.append(GM.case_line("lru", 50, [GM.load_op((GM.defaults(disable_ordering=True) if unordered else None, many))] +
                               [GM.query_op("counter", b"m%d.x%d" % (k, k)) for k in list(range(0, 300, 7)) * 2] + [GM.query_op("gauge", b"m300.x")]))
    smeta.append("300 rules")
    longc = b"L" * 300
    scases.append(GM.case_line("none", 0, [GM.load_op((None, [GM.rule(longc + b".*." + longc, b"long_$1", help=b"r0", labels=[(b"v1", b"$1")])])),
                                           GM.query_op("counter", longc + b"." + longc + b"." + longc), GM.query_op("counter", longc + b".x." + longc[:-1])]))
    smeta.append("300-byte components")
    simpl, smodel = ME.run_cases(pid, scases, tag="sizes")
    rep.count(sum(len(x) for x in simpl))
    for what, case, i, m in zip(smeta, scases, simpl, smodel):
        if i != m:
            nbad += 1
            k = next((k for k in range(min(len(i), len(m))) if i[k] != m[k]), 0)
            if len(rep.violations) < 5:
                rep.violation("implementation differs from the proved model (mapper engine, %s)" % what, dict(case=case[:1500], op_index=k, impl=i[k][:400], model=m[k][:400]))
    if not replay:
        # a cached answer is filed under the full (type, name) pair: otherwise a rule that does not match a name could answer for it
        import props.c13 as c13
        c13.cache_keys(rep, rnd, 1500 if tier == "quick" else 30000)
    # irrelevant rules: inserting / removing a non-matching rule never changes the winner (on the implementation)
    if not unordered:
        icases, imeta = [], []
        for _ in range(300 if tier == "quick" else 5000):
            sl = [rnd.choice(shapes) for _ in range(rnd.randint(1, 4))]
            n = rnd.choice(names)
            ty = rnd.choice(["counter", "gauge", "observer"])
            extra = rnd.choice(shapes)
            if type_ok(extra[1], ty) and glob_match(extra[0], n):
                continue
            pos = rnd.randint(0, len(sl))
            sl2 = sl[:pos] + [extra] + sl[pos:]
            for l in (sl, sl2):
                icases.append(GM.case_line("none", 0, [GM.load_op(GG.cfg_of(l)), GM.query_op(ty, n)]))
            imeta.append((sl, sl2, n, ty, pos))
        iimpl, imodel = ME.run_cases(pid, icases, tag="irrelevant")
        rep.count(len(icases))
        for k, (sl, sl2, n, ty, pos) in enumerate(imeta):
            a, b = iimpl[2 * k][1], iimpl[2 * k + 1][1]
            wa = None if a == "Q -" else int(vf.unhex(a.split()[1])[1:])
            wb = None if b == "Q -" else int(vf.unhex(b.split()[1])[1:])
            if wb is not None and wb > pos:
                wb -= 1
            elif wb is not None and wb == pos:
                wb = "inserted"
            if wa != wb:
                rep.violation("inserting a non-matching rule changes the outcome",
                              dict(rules=[[p.decode(), (t or b"").decode()] for p, t in sl], inserted_at=pos,
                                   rules_after=[[p.decode(), (t or b"").decode()] for p, t in sl2], name=n.decode(), type=ty, before=a, after=b))
    if not replay:
        # the same rule semantics after long uptime: tens of thousands of reloads in one process, answers cached long ago
        import genproof
        genproof.reload_count(rep, pid, tier, unordered=unordered, caches=("lru",))
    rep.extra["disagreements_with_model"] = nbad
    rep.sample(dict(case=cases[len(cases) // 2][:300], impl=impl[len(cases) // 2], model=model[len(cases) // 2]))
    rep.sample(dict(yaml=GM.to_yaml(rmeta[0][0]), queries=[[t, n.decode("latin1")] for t, n in rmeta[0][1][:4]], impl=rimpl[0][:5]))
