"""C17 - the relay forwards every line once, intact, in packets within the limit."""
import json
import random

import e2e_engine as E2E
import genproof
import vf

TRUSTED = [
    "Coq 8.16.1 kernel; Properties/C17.v: for all packet lengths, line sequences, tick placements and send results - stream conservation, whole-line datagrams, packet bound, tick drain, line accounting, the sender never gets stuck",
    "hand-written model of pkg/relay tied to the code by differential execution over a loopback UDP socket with the mock ticker; hook (build tag verif): VerifPending, VerifCloseConn",
    "the kernel's UDP delivery, goroutine scheduling and net.UDPConn are runtime behaviour (the result of each send is an oracle of the model); the 1 s tick is driven through pkg/clock's mock",
    "extraction (ExtrOcamlBasic), ocaml runner, Go harness, Python generators and monitors",
]


def gen_case(rnd, tier):
    pl = rnd.choice([2, 3, 4, 5, 8, 16, 64, 100, 512, 1400, 1500]) if rnd.random() < 0.7 else rnd.randint(2, 1500)
    ops = []
    lines = []
    failed = False
    n = rnd.randint(1, 25)
    for _ in range(n):
        r = rnd.random()
        if r < 0.45:
            ln = max(0, pl + rnd.choice([-3, -2, -1, 0, 1]))          # around the limit
        elif r < 0.75:
            ln = rnd.randint(1, max(1, pl // 3))
        else:
            # complete the current packet exactly
            ln = rnd.randint(1, max(1, pl - 1))
        body = bytes(rnd.choice(b"abcxyz019:|.#") for _ in range(ln))
        if rnd.random() < 0.05 and body:
            body = body[:-1] + b"\n"
        ops.append("R " + vf.hexs(body))
        lines.append(body)
        if rnd.random() < 0.2:
            ops.append("T")
            if not failed and rnd.random() < 0.12:
                ops.append("F")
                failed = True
    return dict(pl=pl, ops=ops, failed=failed, lines=lines)


def _run(rep, tier, seed, replay):
    rep.cov["trusted_base"] = TRUSTED
    rnd = random.Random(seed)
    if replay:
        rp = json.load(open(replay))
        cases = [dict(pl=rp["pl"], ops=rp["ops"], failed="F" in rp["ops"], lines=[vf.unhex(o[2:]) for o in rp["ops"] if o.startswith("R ")])]
    else:
        cases = [gen_case(rnd, tier) for _ in range(400 if tier == "quick" else 20000)]
        if tier == "thorough":
            for pl in range(2, 1501):
                ops = []
                for ln in (pl - 2, pl - 1, pl, pl + 1, 1, pl - 2):
                    if ln >= 0:
                        ops.append("R " + vf.hexs(b"a" * ln))
                cases.append(dict(pl=pl, ops=ops, failed=False, lines=[vf.unhex(o[2:]) for o in ops]))
    for c in cases:
        if replay and any(o.startswith("B ") for o in c["ops"]):
            n = int(next(o for o in c["ops"] if o.startswith("B ")).split()[1])
            c["lines"] = [b"b%d:1|c" % k for k in range(n)]
            c["model_ops"] = ["R " + vf.hexs(l) for l in c["lines"]] + ["T"]
    if not replay:
        # bursts far beyond the relay's internal queue: nothing may be dropped while the target is healthy
        for n, pl in ((1500, 1400), (3000, 64), (8100, 1400)) if tier == "quick" else ((1500, 1400), (3000, 64), (8100, 1400), (20000, 200), (1001, 16), (5000, 1400)):
            lines = [b"b%d:1|c" % k for k in range(n)]
            cases.append(dict(pl=pl, ops=["B %d" % n, "T"], model_ops=["R " + vf.hexs(l) for l in lines] + ["T"], failed=False, lines=lines))
    d = vf.tmpdir("C17")
    cf = f"{d}/relay.cases"
    vf.write_lines(cf, [" | ".join([str(c["pl"])] + c.get("model_ops", c["ops"])) for c in cases])
    # the relay's counters live in the process-wide default registry, one series per target port: reading them gets
    # slower with every case a process has run, so the cases go through the harness in chunks of 1000, 8 at a time
    lines = [" | ".join([str(c["pl"])] + c["ops"]) for c in cases]
    chunks = [lines[k:k + 1000] for k in range(0, len(lines), 1000)]

    def run_chunk(arg):
        k, ch = arg
        p = f"{d}/relay_{k}.cases"
        vf.write_lines(p, ch)
        return vf.run_hx("relay", p, timeout=1500)
    from concurrent.futures import ThreadPoolExecutor
    with ThreadPoolExecutor(max_workers=8) as ex:
        impl = [x for part in ex.map(run_chunk, enumerate(chunks)) for x in part]
    model = vf.run_model("relay", cf)
    rep.count(len(cases))
    rep.cov["traces_validated_against_impl"] = len(cases)
    rep.cov["rule"] = ("%d histories of 1-25 lines for packet lengths 2..1500 with line lengths around packetLength-3..+1, sums that fill a packet, ticks between any two "
                       "lines and a send failure (closed socket) injected after a tick in ~12%% of them; datagrams received on a loopback socket; non-trivial = history "
                       "with >= 2 datagrams; distinct by history" % len(cases))
    nbad = 0
    for c, i, m in zip(cases, impl, model):
        payload = dict(pl=c["pl"], ops=c["ops"], impl=i[:1500], model=m[:1500])
        f = dict(x.split("=", 1) for x in i.split(" "))
        if f.get("notes", "-") == "NOT-RUN":
            continue
        if f.get("notes", "-") != "-":
            rep.violation("the relay blocked the caller or its sender stopped (%s)" % f["notes"], payload); continue
        dg = [] if f["sent"] == "-" else [vf.unhex(x) for x in f["sent"].split(",")]
        if len(dg) >= 2:
            rep.nontrivial((c["pl"], tuple(c["ops"])))
        pl = c["pl"]
        acc = [l if l.endswith(b"\n") else l + b"\n" for l in c["lines"] if l and len(l) <= pl - 1]
        nlong = sum(1 for l in c["lines"] if l and len(l) > pl - 1)
        bad = None
        if any(len(x) > pl for x in dg):
            bad = "a forwarded datagram exceeds the packet length"
        elif int(f["long"]) != nlong:
            bad = "over-long lines are not counted exactly"
        elif int(f["relayed"]) != len(acc):
            bad = "the relayed-lines counter does not match the accepted lines"
        elif not c["failed"] and b"".join(dg) != b"".join(acc):
            bad = "forwarded bytes differ from the accepted lines (lost, duplicated, reordered or altered)"
        else:
            # every datagram is made of whole lines, in order (also with failures: at most once)
            pos = 0
            for x in dg:
                while x:
                    while pos < len(acc) and not x.startswith(acc[pos]):
                        pos += 1
                        if not c["failed"]:
                            break
                    if pos >= len(acc) or not x.startswith(acc[pos]):
                        bad = "a datagram splits a line or carries bytes that were not accepted in that order"
                        break
                    x = x[len(acc[pos]):]
                    pos += 1
                if bad:
                    break
        if bad:
            rep.violation(bad, payload)
        if i != m:
            nbad += 1
            if not bad and len(rep.violations) < 5:
                rep.violation("implementation differs from the proved model (relay engine)", payload, no_input=True)
        if len(rep.violations) >= 5:
            break
    if not replay and len(rep.violations) < 5:
        # the sender goroutine arrives late: a tick and a backlog of lines are both pending when it first runs
        late = [(rnd.choice([16, 20, 55, 64, 100, 1400]), rnd.randint(6, 60), rnd.randint(5, 12)) for _ in range(40 if tier == "quick" else 2000)]
        vf.write_lines(f"{d}/relaylate.cases", ["%d %d %d" % x for x in late])
        for (pl, n, ll), o in zip(late, vf.run_hx("relaylate", f"{d}/relaylate.cases")):
            rep.count(1)
            f = dict(x.split("=", 1) for x in o.split()) if o.startswith("sizes=") else {}
            sizes = [int(x) for x in f.get("sizes", "").split(",") if x]
            if not f or any(x > pl for x in sizes) or f.get("complete") != "true":
                rep.violation("with a tick and a backlog of lines pending when the sender first runs, a datagram exceeds the packet length, splits a line, or lines are lost / doubled",
                              dict(packet_length=pl, lines=n, line_length=ll, observed=o,
                                   how="harness/cmd/hx/relaylate.go: GOMAXPROCS(1), a tick pre-queued on the mock ticker, NewRelay, n RelayLine calls, then the sender runs"))
                break
        rep.extra["late_sender_runs"] = len(late)
    if not replay and len(rep.violations) < 5:
        # the target goes away and comes back: every line flushed while it is up arrives exactly once, also right after an outage
        outs = [(rnd.choice([16, 30, 100, 1400]), rnd.randint(1, 3), rnd.randint(1, 4)) for _ in range(6 if tier == "quick" else 300)]
        vf.write_lines(f"{d}/relayoutage.cases", ["%d %d %d" % x for x in outs])
        for (pl, no, per), o in zip(outs, vf.run_hx("relayoutage", f"{d}/relayoutage.cases", timeout=3000)):
            rep.count(1)
            if o.startswith("SKIP"):
                continue
            arrived = dict(x.rsplit("=", 1) for x in o.split(" ")[1].split(",")) if o.startswith("arrived ") else {}
            if not arrived or any(v != "1" for v in arrived.values()) or not o.endswith("notes=-"):
                rep.violation("a line flushed while the relay target is up does not arrive exactly once after the target was down for a while",
                              dict(packet_length=pl, outages=no, lines_per_phase=per, observed=o,
                                   how="harness/cmd/hx/relayoutage.go: the UDP sink is closed and re-opened on the same port between phases; each line is followed by a tick"))
                break
        rep.extra["relay_outage_runs"] = len(outs)
    if not replay and len(rep.violations) < 5:
        E2E.run_relay_latency(rep, "C17")
        rep.cov["rule"] += "; plus one real-time run of the built binary with --statsd.relay.address: 7 lines 300 ms apart, each must reach the sink within a second (the one-second tick)"
    rep.extra["disagreements_with_model"] = nbad
    rep.extra["with_send_failure"] = sum(1 for c in cases if c["failed"])
    rep.sample(dict(pl=cases[0]["pl"], ops=cases[0]["ops"][:8], impl=impl[0][:300]))


def run(rep, tier, seed, replay):
    _run(rep, tier, seed, replay)
    if not replay:
        genproof.clock_obligation(rep, "C17_clock.v", "the relay asks the clock for something other than its flush ticker, the only form of time in the relay model", ('pkg/relay.',))
