"""C12 - unordered glob mode: complete, the most specific rule wins, independent of rule order."""
import props.c04 as c04

LEVEL = "proof"


def run(rep, tier, seed, replay):
    c04.run(rep, tier, seed, replay, unordered=True, pid="C12")
    rep.cov["trusted_base"] = [t.replace("first_match", "most_specific").replace("C04", "C12") for t in c04.TRUSTED]
