"""Run (flags, line) cases through the implementation and the model; parse observations."""
import vf


def run_cases(pid, cases, tag="line"):
    d = vf.tmpdir(pid)
    cf, of = f"{d}/{tag}.cases", f"{d}/{tag}.hxout"
    vf.write_lines(cf, [f"{fl} {vf.hexs(l)}" for fl, l in cases])
    impl_raw = vf.run_hx("line", cf)
    vf.write_lines(of, impl_raw)
    model = vf.run_model("line", cf, [of])
    impl = [x.split("\t")[0] for x in impl_raw]
    assert len(impl) == len(model) == len(cases), (len(impl), len(model), len(cases))
    return impl, model


def parse_obs(o):
    """'OK E=.. S=.. TE=.. TR=.. ERR=..' -> dict, or {'panic': True}"""
    if not o.startswith("OK "):
        return dict(panic=True, raw=o)
    f = dict(x.split("=", 1) for x in o[3:].split(" "))
    evs = [] if f["E"] == "-" else f["E"].split(";")
    errs = {} if f["ERR"] == "-" else {k: int(v) for k, v in (x.split(":") for x in f["ERR"].split(","))}
    return dict(panic=False, events=evs, S=int(f["S"]), TE=int(f["TE"]), TR=int(f["TR"]), errs=errs, raw=o)


def ev_fields(e):
    kind, name, val, labels = e.split(",")
    return kind, vf.unhex(name), val, labels
