"""Configurations and line streams for the pipeline engine (C01-C03, C05-C08, C19)."""
import gen_line as GL
import gen_mapper as GM

BASES = [b"x", b"y", b"foo", b"r\xef\xbf\xbdq", b"svc.req", b"a.b", b"a.b.c", b"my-svc.lat", b"9lives", b"x_sum", b"x_count", b"x_bucket", b"y_sum",
         b"x_total", b"t", b"caf\xc3\xa9.q", b"a--b", b"a|#b", b"cpu\xd9\xa3", b"cpu\xef\xbc\x91", GL.LONG_NAME, GL.LONG_NAME + b"_sum", b"x_count_sum", b"x_sum_bucket"]
COMP = [b"a", b"b", b"c", b"req", b"lat", b"x", b"y", b"9", b"p-q", b"z_sum", b"z"]
LKEYS = [b"env", b"job2", b"k_1", b"dc", b"le", b"quantile", b"__x", b"aa"]
TAGKEYS = [b"env", b"k", b"a.b", b"a-b", b"dc", b"h\xef\xbf\xbdst", b"9k", b"le", b"quantile", b"__name__", b"-_x", b"job2",
           "\u0440\u0435\u0433\u0438\u043e\u043d".encode(), "\u043a\u043b\u0430\u0441\u0442\u0435\u0440".encode(), b"shard\xd9\xa3", b"shard_", b"K" * 70,
           b"a", b"bc", b"ab", b"c", GL.FNV64_TWINS[0], GL.FNV64_TWINS[1]]               # different (sorted) key sets with equal concatenations: {a, bc} and {ab, c}
TAGVALS = [b"prod", b"v", b"1", b"a=b", b"with space", b"caf\xc3\xa9", b"x.y",
           b"a", b"ab", b"b", b"bc", b"c", b"abc",           # different value tuples with equal concatenations
           b"p", b"r", b"p\xc3\xbfq", b"q\xc3\xbfr", b"p\x00q", b"q\x00r"]          # ... and with a would-be separator (U+00FF, NUL) shifted across the boundary
SCALES = [None, None, None, 0.5, 2.0, 1000.0, 0.0, -1.0, 0.001]
TTLS = [0, 0, 10**9, 2 * 10**9, 5 * 10**9, 10 * 10**9, 9223369200 * 10**9]          # the last one: 2562047h, the longest duration YAML can spell
BUCKETS = [[0.1, 1.0, 10.0], [1.0], [0.005, 0.5, 5.0, float("inf")], [-1.0, 0.0, 1.0], [1e-9, 1e9]]
QUANTS = [[(0.5, 0.05)], [(0.5, 0.05), (0.9, 0.01), (0.99, 0.001)], [(0.0, 0.1), (1.0, 0.1)], [(0.25, 0.1), (0.75, 0.1)]]


def gen_rule(rnd, i, safe=True):
    kw = dict(help=b"r%d" % i)
    if rnd.random() < 0.2:
        src = rnd.choice([rb"^svc\.(.*)$", rb"^([^.]*)\.b(\..*)?$", rb"^(x|y)(_.*)?$", rb"lat$", rb"^a\.(.*)\.(.*)$"])
        name = rnd.choice([b"re_$1", b"re", b"m_${1}", b"x", b"y_sum", b"re$2_$1"])
        kw["match_type"] = b"regex"
        match = src
    else:
        k = rnd.randint(1, 3)
        fs = [rnd.choice(COMP + [b"*", b"*"]) for _ in range(k)]
        if fs[0][:1].isdigit() or fs[0][:1] == b"9":
            fs[0] = b"a"
        fs = [f if f == b"*" or not f[:1].isdigit() or j else b"a" for j, f in enumerate(fs)]
        match = b".".join(fs)
        name = rnd.choice([b"m_$1", b"g", b"x", b"y", b"x_sum", b"${2}_$1", b"m$1$2", b"n_${1}_total", b"h", b"$1"])
    labs = []
    for _ in range(rnd.choice([0, 0, 1, 2])):
        k = rnd.choice(LKEYS if not safe else LKEYS[:4] + [b"aa"])
        if k not in [x for x, _ in labs]:
            labs.append((k, rnd.choice([b"static", b"$1", b"${1}-$2", b"v%", b"$2"])))
    kw["labels"] = labs
    kw["honor"] = rnd.random() < 0.3
    kw["scale"] = rnd.choice(SCALES)
    kw["ttl"] = rnd.choice(TTLS)
    kw["mmt"] = rnd.choice([None, None, b"counter", b"gauge", b"observer", b"timer"])
    if rnd.random() < 0.1:
        kw["action"] = b"drop"
    ot = rnd.choice([None, None, b"histogram", b"summary"])
    kw["observer_type"] = ot
    if ot is not None and rnd.random() < 0.2:
        kw["observer_type"], kw["timer_type"] = None, ot          # the deprecated spelling
    if ot == b"histogram" and rnd.random() < 0.6:
        if rnd.random() < 0.5:
            kw["hist"] = dict(buckets=rnd.choice(BUCKETS))
        else:
            kw["legacy_buckets"] = rnd.choice(BUCKETS)
    if ot == b"summary" and rnd.random() < 0.6:
        if rnd.random() < 0.5:
            kw["summary"] = GM.summ(quantiles=rnd.choice(QUANTS), max_age=rnd.choice([0, 10**9, 600 * 10**9]),
                                    age_buckets=rnd.choice([0, 2, 5]), buf_cap=rnd.choice([0, 10, 500]))
        else:
            kw["legacy_quantiles"] = rnd.choice(QUANTS)
    return GM.rule(match, name, **kw)


def gen_config(rnd, safe=True, maxrules=6):
    d = None
    if rnd.random() < 0.6:
        d = GM.defaults(observer_type=rnd.choice([None, b"histogram", b"summary"]), ttl=rnd.choice(TTLS),
                        disable_ordering=rnd.random() < 0.2)
        if rnd.random() < 0.3:
            d["hist"] = dict(buckets=rnd.choice(BUCKETS))
        if rnd.random() < 0.3:
            d["summary"] = GM.summ(quantiles=rnd.choice(QUANTS), max_age=rnd.choice([0, 10**9]))
        if rnd.random() < 0.1:
            d["legacy_buckets"] = rnd.choice(BUCKETS)
        if rnd.random() < 0.1:
            d["legacy_quantiles"] = rnd.choice(QUANTS)          # the deprecated top-level spelling in the defaults
        if rnd.random() < 0.12:
            d["match_type"] = rnd.choice([b"regex", b"regex", b"glob"])          # rules without match_type follow it
        if d["observer_type"] is not None and rnd.random() < 0.2:
            d["observer_type"], d["timer_type"] = None, d["observer_type"]          # the deprecated spelling
    rules = [gen_rule(rnd, i, safe) for i in range(rnd.randint(0, maxrules))]
    if d is not None and d.get("match_type") == b"regex":
        for r in rules:
            if r["match_type"] is None and r["match"].startswith(b"*"):
                r["match_type"] = b"glob"          # "*..." is not a regular expression: keep the configuration loadable
    return (d, rules)


def name_for(rnd, cfg):
    rules = cfg[1] if cfg != "unparsable" else []
    globs = [r for r in rules if r["match_type"] != b"regex"]
    if globs and rnd.random() < 0.6:
        r = rnd.choice(globs)
        return b".".join(rnd.choice(COMP) if f == b"*" else f for f in r["match"].split(b"."))
    return rnd.choice(BASES)


GOODV = [b"1", b"2.5", b"0", b"100", b"1e3", b"0.001", b".5", b"3", b"7", b"1e19", b"18446744073709551615", b"0x1p-2", b"1e+3", b"2.5E+1", b"0x1p+4"]
ODDV = [b"-3", b"+4", b"-0", b"+0", b"nan", b"inf", b"-inf", b"1e308", b"4.9e-324", b"NaN", b"+Inf", b"9007199254740993"]
RATES = [b"1", b"0.5", b"0.1", b"0.25", b"2", b"0", b"-1", b"nan", b"inf", b"0.01", b"0.3", b"1.5", b"1.0000000000000002"]


def tags_for(rnd, safe):
    keys = TAGKEYS[:5] + [b"job2", b"a", b"bc", b"ab", b"c", b"shard\xd9\xa3", b"shard_", "\u0440\u0435\u0433\u0438\u043e\u043d".encode(), "\u043a\u043b\u0430\u0441\u0442\u0435\u0440".encode()] if safe else TAGKEYS
    ts = []
    for _ in range(rnd.choice([0, 0, 1, 2, 2, 3])):
        ts.append(("kv", rnd.choice(keys), rnd.choice(TAGVALS)))
    if rnd.random() < 0.1:
        ts.append(rnd.choice([("kv", b"", b"v"), ("kv", b"k", b""), ("bare", b"novalue")]))
    return ts


def sample_text(rnd, odd_p=0.2, types=(b"c", b"g", b"ms", b"h", b"d")):
    v = rnd.choice(ODDV) if rnd.random() < odd_p else rnd.choice(GOODV)
    t = rnd.choice(types)
    s = v + b"|" + t
    if rnd.random() < 0.3:
        s += b"|@" + rnd.choice(RATES)
    return s


def gen_line(rnd, cfg, safe=True, odd_p=0.2, types=(b"c", b"g", b"ms", b"h", b"d")):
    nm = name_for(rnd, cfg)
    ts = tags_for(rnd, safe)
    style = rnd.choice(["librato", "influx", "signalfx", "dogstatsd"]) if ts else "none"
    r = rnd.random()
    if r < 0.15 and style in ("none", "librato", "influx", "signalfx"):
        tail = b":".join(sample_text(rnd, odd_p, types) for _ in range(rnd.randint(2, 3)))
    elif r < 0.25:
        tail = b":".join(rnd.choice(GOODV[:8]) for _ in range(rnd.randint(2, 3))) + b"|" + rnd.choice([b"ms", b"h", b"d"])
        if rnd.random() < 0.4:
            tail += b"|@" + rnd.choice(RATES[:4])
    else:
        tail = sample_text(rnd, odd_p, types)
    eq = GL.render_tags(ts, b"=")
    if style == "librato":
        return nm + b"#" + eq + b":" + tail
    if style == "influx":
        return nm + b"," + eq + b":" + tail
    if style == "signalfx":
        cut = rnd.randint(0, len(nm))
        while cut < len(nm) and (nm[cut] & 0xC0) == 0x80:
            cut += 1
        return nm[:cut] + b"[" + eq + b"]" + nm[cut:] + b":" + tail
    if style == "dogstatsd":
        return nm + b":" + tail + b"|#" + GL.render_tags(ts, b":")
    return nm + b":" + tail
