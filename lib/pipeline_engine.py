"""Run pipeline cases through the implementation and the model; normalise observations."""
import re

import vf


def norm_impl(op):
    # the gather error classes are diagnostics only; the model says just "G err"
    if op.startswith("G err "):
        m = re.search(r" (T events=.*)$", op)
        return "G err " + (m.group(1) if m else "")
    return op.replace("G ok text=0", "G ok text=1")


def run_cases(pid, case_lines, tag="pipeline"):
    d = vf.tmpdir(pid)
    cf, of = f"{d}/{tag}.cases", f"{d}/{tag}.hxout"
    vf.write_lines(cf, case_lines)
    impl_raw = vf.run_hx("pipeline", cf)
    vf.write_lines(of, impl_raw)
    model = vf.run_model("pipeline", cf, [of])
    impl = [x.split("\t")[0] for x in impl_raw]
    assert len(impl) == len(model) == len(case_lines), (len(impl), len(model), len(case_lines))
    return [x.split(" | ") for x in impl], [x.split(" | ") for x in model]


def case_line(flags, cache, size, ops):
    return " | ".join([f"{flags} {cache} {size}"] + ops)


def I(line):
    return "I " + vf.hexs(line)


def parse_gather(op):
    """'G ok text=1 F:... T ...' -> dict(ok, text, families{name: (type, help, {labels: value})}, tel)"""
    toks = op.split(" ")
    res = dict(ok=toks[1] == "ok", text=True, families={}, tel={}, panic=(toks[1] == "PANIC"), raw=op)
    for t in toks[2:]:
        if t.startswith("text="):
            res["text"] = t == "text=1"
        elif t.startswith("F:"):
            _, nh, ty, hh, series = t.split(":", 4)
            sd = {}
            for s in series.split(";"):
                if s:
                    lab, val = s.split("@", 1)
                    sd[lab] = val
            res["families"][vf.unhex(nh)] = (ty, vf.unhex(hh), sd)
        elif "=" in t and not t.startswith("T"):
            k, v = t.split("=", 1)
            res["tel"][k] = {} if v == "-" else dict(x.rsplit(":", 1) for x in v.split(","))
    return res
