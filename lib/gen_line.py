"""Generators for StatsD lines: structured (AST -> renderings) and malformed streams."""
import random

NAME_ATOMS = [b"foo", b"bar", b"a", b"b", b"z", b"x9", b"9x", b"my-svc", b"a--b", b"with space", b"caf\xc3\xa9",
              b"\xe2\x82\xac", b"r\xef\xbf\xbdq", b"_u", b"A", b"k=v", b"p%q", b"*", b" lead", b"trail ", b"x_sum", b"x_count", b"x_bucket", b"le", b"quantile"]
KEY_ATOMS = [b"k", b"key", b"a", b"b", b"env", b"a.b", b"a-b", b"9k", b"t\xc3\xa9", b"h\xef\xbf\xbdst", b"le", b"quantile", b"__name__",
             b"-_x", b"K_1", b"with space", b"job", b"instance"]
VAL_ATOMS = [b"v", b"1", b"prod", b"a=b", b"with space", b"\xf0\x9f\x98\x80", b"x.y", b"-", b"=", b"9", b"v_v", b"%s", b"a b ", b" ", b"\tv"]
# one or two code points of every Unicode class a hand-rolled ASCII test could be "simplified" into (unicode.IsDigit,
# IsLetter, IsSpace, ...), and code points whose low byte is a delimiter of the line syntax (U+043A ':' U+043D '=' U+017C '|'
# U+0123 '#' U+012C ',' U+0140 '@' U+015B '[' U+015D ']')
UNICODE_ATOMS = [x.encode("utf-8") for x in ("\u0663", "\uff11", "\u0968", "\u2167", "\u00b2", "\u00c9", "\u043d", "\u043a", "\u4e3d", "\u4e3a",
                                              "\u0301", "\u203f", "\u00a0", "\u017c", "\u0123", "\u012c", "\u0140", "\u015b", "\u015d", "\u212a",
                                              # low byte = '-', '_', '.', ':', '=' in 2-, 3- and 4-byte encodings
                                              "\u012d", "\u4e2d", "\U0001f32d", "\u015f", "\u012e", "\u013a", "\u013d", "\u012d-", "\u4e2d-x",
                                              # case folding maps these onto ASCII letters (Kelvin sign, dotted capital I, long s, dotless i)
                                              "\u212a", "\u0130", "\u017f", "\u0131")]
# names and values that contain bytes of the sample syntax itself
# two strings with equal 64-bit FNV-1a sums (a memo table or a set keyed by the hash alone confuses them)
FNV64_TWINS = [b"gadlgenekeokochf", b"cmafdfhkcfbljoif"]
FNV64_TWIN_NAMES = [b"m.plhjCwo5vzo", b"m.U8HMUVhLJak"]                       # ... as metric names
# names whose cache keys collide: "counter.<name>" under 64-bit FNV-1a, and under 32-bit FNV-1a
FNV_TWIN_COUNTER_NAMES = [b"req.d317fded79e14782", b"req.3a53940b3f0db526", b"app.pod-9gapmv6x.requests", b"app.pod-8hdw98sq.requests"]
# characters a series / cache key could use as a field separator: a value that contains one can imitate a field boundary
SEPARATORS = [b"\xc3\xbf", b"\x00", b"\x01", b"\x1f", b"\x7f", b";", b"/", b"\xc2\x80", b"\xef\xbf\xbf"]
SYNTAX_NAMES = [b"a|#b", b"p|q", b"x@y", b"|#n", b"n|#", b"m|c", b"q|@0.5"]
LONG_NAME = b"long" + b"n" * 121                                         # 125 bytes: beyond any plausible fixed buffer
NAME_ATOMS += FNV64_TWINS + [b"cpu" + u for u in UNICODE_ATOMS[:6]] + UNICODE_ATOMS[6:] + [LONG_NAME, b"x" * 300]
KEY_ATOMS += ["\u0440\u0435\u0433\u0438\u043e\u043d".encode(), "\u043a\u043b\u0430\u0441\u0442\u0435\u0440".encode()] + [b"shard" + u for u in UNICODE_ATOMS] + [b"K" * 70]
VAL_ATOMS += UNICODE_ATOMS[:4] + [b"v" * 200] + [b"p" + x + b"q" for x in SEPARATORS[:3]]
KEY_ATOMS += FNV64_TWINS
TYPES = [b"c", b"g", b"ms", b"h", b"d"]
BAD_TYPES = [b"s", b"x", b"", b"cc", b"C", b"m", b"kv"]
NUMS = [b"1", b"0", b"2.5", b"-3", b"+4", b"100", b"1e3", b"0.001", b"-0", b"+0", b".5", b"5.", b"1_000", b"0x1p-2",
        b"1e308", b"1e-320", b"4.9e-324", b"inf", b"-inf", b"+Inf", b"Infinity", b"nan", b"NaN", b"1e400", b"-1e400",
        b"1e19", b"18446744073709551615", b"9007199254740993", b"3.0000000000000004",
        b"1e+3", b"2.5E+1", b"0x1p+4", b"1e+06", b"1E3", b"-1e+2", b"+1e+01", b"007", b"1.e1", b".5e1", b"1" * 40, b"-0.0", b"1e-400",
        b"0.1" + b"0" * 60 + b"1"]
GOOD_NUMS = [x for x in NUMS if x not in (b"1e400", b"-1e400", b"1_000")]
BAD_NUMS = [b"", b"x", b"1,2", b"--1", b"1e", b"0x", b"1 ", b" 1", b"one", b"1.2.3", b"+", b"-"]
# sampling rates: 1/r never exceeds a few thousand events
RATES = [b"1", b"0.5", b"0.1", b"0.25", b"0.3", b"0.01", b"2", b"0", b"-0", b"-1", b"-0.5", b"nan", b"inf", b"-inf",
         b"1e400", b"0.001", b"0.7", b"1e0", b"0x1p-3", b"3", b"0.9999999999999999", b"1.0000000000000002"]
BAD_RATES = [b"", b"x", b"bar", b"0.1.2", b"1e", b"@0.5"]


def name(rnd, exotic=True):
    n = rnd.randint(1, 3)
    pool = NAME_ATOMS if exotic else NAME_ATOMS[:6]
    return b".".join(rnd.choice(pool) for _ in range(n))


def tag(rnd, malformed_p=0.25):
    """('kv', k, v) | ('bare', t); malformed = empty key / empty value / no separator / empty."""
    r = rnd.random()
    if r < malformed_p:
        m = rnd.randrange(4)
        if m == 0:
            return ("kv", b"", rnd.choice(VAL_ATOMS))
        if m == 1:
            return ("kv", rnd.choice(KEY_ATOMS), b"")
        if m == 2:
            return ("bare", rnd.choice([b"novalue", b"x", b"caf\xc3\xa9"]))
        return ("bare", b"")
    return ("kv", rnd.choice(KEY_ATOMS), rnd.choice(VAL_ATOMS))


def render_tag(t, sep):
    return t[1] + sep + t[2] if t[0] == "kv" else t[1]


def render_tags(ts, sep):
    return b",".join(render_tag(t, sep) for t in ts)


def sample(rnd, types=TYPES, rate_p=0.4, bad_p=0.0, nums=None):
    """one sample 'v|T[|@r]' ; returns (bytes, wellformed?)"""
    ok = True
    v = rnd.choice(nums or NUMS)
    t = rnd.choice(types)
    r = None
    if rnd.random() < rate_p:
        r = rnd.choice(RATES)
    if rnd.random() < bad_p:
        ok = False
        m = rnd.randrange(6)
        if m == 0:
            v = rnd.choice(BAD_NUMS)
        elif m == 1:
            t = rnd.choice(BAD_TYPES)
        elif m == 2:
            return rnd.choice([v, v + b"|", b"|" + t, b"|"]), False
        elif m == 3:
            s = v + b"|" + t + b"|@" + rnd.choice(RATES) + b"|" + rnd.choice([b"x", b"@0.5", b""]) + b"|y"
            return s, False
        elif m == 4:
            r = rnd.choice(BAD_RATES)
        else:
            return v + b"|" + t + b"|" + rnd.choice([b"", b"x0.5", b"0.5"]), False
    s = v + b"|" + t
    if r is not None:
        s += b"|@" + r
    return s, ok


def c09_datum(rnd):
    """(pre, post, tags, tail) satisfying the hypotheses of syntaxes_agree."""
    nm = name(rnd)
    cut = rnd.randint(0, len(nm))
    # do not split inside a UTF-8 sequence
    while cut < len(nm) and (nm[cut] & 0xC0) == 0x80:
        cut += 1
    ts = [tag(rnd) for _ in range(rnd.randint(1, 4) if rnd.random() < 0.97 else rnd.randint(10, 24))]
    if ts[-1] == ("bare", b""):
        ts[-1] = ("kv", b"k", b"v")
    if rnd.random() < 0.25:
        vals = [rnd.choice(GOOD_NUMS[:12]) for _ in range(rnd.randint(2, 4))]
        if rnd.random() < 0.4 and all(t[0] == "kv" and t[1] and t[2] for t in ts):
            # a value that does not parse, first, last or anywhere: the other values' events keep their labels in every syntax
            # (with well-formed tags only: a malformed tag is counted once per VALID value by the DogStatsD path)
            pos = rnd.choice([0, len(vals) - 1, rnd.randrange(len(vals))])
            vals[pos] = rnd.choice([b"", b"oops", b"12ms", b"1e999", b"0x1", b"--1"])
        tail = b":".join(vals) + b"|" + rnd.choice([b"ms", b"h", b"d"])
        if rnd.random() < 0.5:
            tail += b"|@" + rnd.choice(RATES)
    else:
        tail, _ = sample(rnd, nums=GOOD_NUMS)
    return nm[:cut], nm[cut:], ts, tail


def c09_renderings(d):
    pre, post, ts, tail = d
    nm = pre + post
    eq = render_tags(ts, b"=")
    return dict(
        librato=nm + b"#" + eq + b":" + tail,
        influx=nm + b"," + eq + b":" + tail,
        signalfx=pre + b"[" + eq + b"]" + post + b":" + tail,
        dogstatsd=nm + b":" + tail + b"|#" + render_tags(ts, b":"),
    )


def multi_datum(rnd):
    """(name, [samples], [ok flags]) for C10: 1-6 samples, malformed in any position."""
    nm = name(rnd, exotic=False) if rnd.random() < 0.8 else rnd.choice(SYNTAX_NAMES + [LONG_NAME])
    n = rnd.randint(1, 6) if rnd.random() < 0.95 else rnd.choice([63, 64, 65, 66, 129, 200])
    ss, oks = [], []
    for i in range(n):
        s, ok = sample(rnd, bad_p=0.35)
        if i == 0 and b"|" not in s:
            s, ok = sample(rnd)
        ss.append(s)
        oks.append(ok)
    return nm, ss, oks


def extagg_datum(rnd):
    nm = name(rnd, exotic=False) if rnd.random() < 0.85 else rnd.choice(SYNTAX_NAMES + [LONG_NAME])
    nvals = rnd.randint(2, 6) if rnd.random() < 0.93 else rnd.choice([63, 64, 65, 66, 127, 128, 129, 200, 300])
    vals = [rnd.choice(NUMS if rnd.random() < 0.8 else BAD_NUMS) for _ in range(nvals)]
    t = rnd.choice([b"ms", b"h", b"d"] * 3 + [b"c", b"g", b"s", b"x"])
    suffix = t
    if rnd.random() < 0.5:
        suffix += b"|@" + rnd.choice(RATES + BAD_RATES[:2])
    if rnd.random() < 0.5:
        suffix += b"|#" + render_tags([tag(rnd) for _ in range(rnd.randint(1, 3))], b":")
    r = rnd.random()
    if r < 0.12:
        suffix += rnd.choice([b"|", b"||", b"|x", b"||@0.5"])         # dangling / empty / surplus fields after the type
    elif r < 0.16:
        suffix = t + rnd.choice([b"|", b"||@0.5", b"|@0.5|"])
    return nm, vals, suffix


MUT_CHARS = [b":", b"|", b"#", b",", b"=", b"[", b"]", b"@", b"\n", b"\xff", b"\xc3", b"\x00", b" ", b"|#", b"::", b"||",
             b"][", b"|@", b"-", b"+", b"e", b".", b"\xe2\x82"]


def mutate(rnd, s):
    s = bytearray(s)
    for _ in range(rnd.randint(1, 3)):
        op = rnd.randrange(5)
        pos = rnd.randint(0, len(s))
        if op == 0:
            s[pos:pos] = rnd.choice(MUT_CHARS)
        elif op == 1 and s:
            del s[pos:pos + rnd.randint(1, 3)]
        elif op == 2 and s:
            p2 = rnd.randint(0, len(s))
            a, b = sorted((pos, p2))
            s[a:b] = s[a:b][::-1]
        elif op == 3 and s:
            p2 = rnd.randint(0, len(s))
            a, b = sorted((pos, p2))
            s[pos:pos] = s[a:b]
        else:
            if s:
                i = rnd.randrange(len(s))
                s[i] = rnd.randrange(256)
    return bytes(s)


def any_line(rnd):
    """A line from the mostly-valid structured stream (any style, any sample form)."""
    r = rnd.random()
    if r < 0.35:
        d = c09_datum(rnd)
        return rnd.choice(list(c09_renderings(d).values()))
    if r < 0.6:
        nm, ss, _ = multi_datum(rnd)
        return nm + b":" + b":".join(ss)
    if r < 0.75:
        nm, vals, suffix = extagg_datum(rnd)
        return nm + b":" + b":".join(vals) + b"|" + suffix
    if r < 0.9:
        s, _ = sample(rnd)
        return name(rnd) + b":" + s
    # mixed styles
    d = c09_datum(rnd)
    rs = c09_renderings(d)
    return rs[rnd.choice(["librato", "influx", "signalfx"])] + b"|#" + render_tags(d[2], b":")


def straddle_line(rnd):
    """a valid line of more than 2^k bytes in which a multi-byte character lies across byte offset 2^k (k = 8..12): whatever
    works on a prefix of the line (a buffer, a truncated copy for the log) cuts it in two"""
    k = rnd.choice([256, 512, 1024, 1024, 2048, 4096])
    ch = rnd.choice(["\u00e9", "\u20ac", "\U0001F600"]).encode("utf-8")
    back = rnd.randint(1, len(ch) - 1)                      # bytes of the character before the offset
    kind = rnd.random()
    if kind < 0.4:
        # long name
        pad = k - back - 2
        return b"n." + b"a" * pad + ch + b"tail:1|c"
    if kind < 0.7:
        # long tag value
        head = b"m:1|c|#k:"
        return head + b"v" * (k - back - len(head)) + ch + b"w,z:1"
    # many samples, each short: the character sits in a malformed sample in the middle
    head = b"m:"
    body = b""
    while len(head + body) + 8 < k - back - 4:
        body += b"1|c:"
    fill = k - back - len(head + body) - 0
    return head + body + b"x" * fill + ch + b"|c:2|c:3|g"


def hostile_line(rnd):
    r = rnd.random()
    if r < 0.04:
        return straddle_line(rnd)
    if r < 0.6:
        return mutate(rnd, any_line(rnd))
    if r < 0.75:
        return bytes(rnd.randrange(256) for _ in range(rnd.randint(1, 40)))
    if r < 0.9:
        return b"".join(rnd.choice(MUT_CHARS + [b"a", b"1", b"c", b"g", b"ms"]) for _ in range(rnd.randint(1, 14)))
    return rnd.choice([b"a]b[c:1|c", b"#a=b:1|c", b",a=b:1|c", b"[a=b]:1|c", b":1|c", b"foo:", b"foo:|", b"foo:1|c|@",
                       b"foo:1|ms|#quantile:x", b"foo:1|h|#le:x", b"foo:1|c|#__name__:x", b"foo:1|c|#-_x:1",
                       b"foo:1|c|@bar", b"foo:1|c|@nan", b"foo:NaN|c", b"foo:1:2", b"foo:1|c:x", b"foo:1:2|c",
                       b"a[b:1|c", b"a]b:1|c", b"a[]b:1|c", b"a[b=c][d=e]:1|c", b"foo:1|c|#", b"foo:1|c|#,", b"foo:1|c|#a:",
                       b"foo:1|c|#:b", b"foo:1|c|##a:b", b"foo#:1|c", b"foo,:1|c", b"foo#a=b,:1|c", b"foo#,a=b:1|c"])


def bound_rates(line, floor=1e-4):
    """Sampling rates between 0 and `floor` multiply one line into more than 1/floor events (the known finding
    sampling-rate-amplification, exercised by its own directed case): everywhere else they are replaced by 0.5, whatever
    spelling the mutations produced (decimal, exponent, hexadecimal float)."""
    import re

    def fix(m):
        tok = m.group(1)
        t = tok.decode("latin1").strip().replace("_", "")
        try:
            r = float.fromhex(t) if t.lower().lstrip("+-").startswith("0x") else float(t)
        except (ValueError, OverflowError):
            return m.group(0)
        return b"@0.5" if 0 < abs(r) < floor else m.group(0)
    return re.sub(rb"@([^|:\n@#,]*)", fix, line)
