"""Rule-list and name spaces for C04/C12/C13/C14."""
import itertools
import random

import gen_mapper as GM

COMPS = [b"a", b"b", b"*"]
TYPEF = [None, b"counter", b"gauge", b"timer"]       # "timer" is the deprecated alias of observer
NCOMPS = [b"a", b"b", b"*", b"z"]


def patterns(maxlen=3, comps=COMPS):
    out = []
    for n in range(1, maxlen + 1):
        for t in itertools.product(comps, repeat=n):
            out.append(b".".join(t))
    return out


def shapes():
    return [(p, t) for p in patterns() for t in TYPEF]        # 39 * 4 = 156


def names(maxlen=3):
    out = []
    for n in range(1, maxlen + 1):
        for t in itertools.product(NCOMPS, repeat=n):
            out.append(b".".join(t))
    return out + [b"a.", b""]


def cfg_of(shape_list, unordered=False, name_tpl=b"m_$1_$2"):
    rules = [GM.rule(p, name_tpl, mmt=t, help=b"r%d" % i, labels=[(b"c1", b"$1"), (b"c3", b"${3}x")])
             for i, (p, t) in enumerate(shape_list)]
    d = GM.defaults(disable_ordering=True) if unordered else None
    return (d, rules)


REGEX_POOL = [rb"^a\.(.*)$", rb"(.*)\.b", rb"^([^.]*)\.([^.]*)$", rb"z", rb"^a\.b\.c$", rb"(a|b)\.(?:x|z)(\..*)?", rb"^\*\.(.*)"]


def random_cfg(rnd, unordered=None, maxrules=12, with_regex=True):
    comps = [b"a", b"b", b"c", b"*", b"*", b"x9", b"my-svc", b"_u"]
    rules = []
    n = rnd.randint(1, maxrules)
    for i in range(n):
        if with_regex and rnd.random() < 0.25:
            m = rnd.choice(REGEX_POOL)
            r = GM.rule(m, rnd.choice([b"re_$1", b"re", b"x${2}_$1", b"n$0"]), match_type=b"regex", help=b"r%d" % i,
                        mmt=rnd.choice(TYPEF), labels=[(b"g1", b"$1")] if rnd.random() < 0.5 else [])
        else:
            k = rnd.randint(1, 5)
            fs = [rnd.choice(comps) for _ in range(k)]
            if fs[0] in (b"x9",):
                fs[0] = b"a"
            m = b".".join(fs)
            r = GM.rule(m, rnd.choice([b"g_$1", b"g", b"${2}_$1", b"g$1$2", b"q_$3_$1"]), help=b"r%d" % i,
                        mmt=rnd.choice(TYPEF), labels=[(b"c1", b"$1-$2")] if rnd.random() < 0.5 else [])
        if rnd.random() < 0.1:
            r["action"] = b"drop"                     # a drop rule takes part in matching like any other rule
        rules.append(r)
    if unordered is None:
        unordered = rnd.random() < 0.3
    d = GM.defaults(disable_ordering=True) if unordered else (None if rnd.random() < 0.7 else GM.defaults())
    if d is not None and rnd.random() < 0.15:
        d["match_type"] = b"regex"                    # rules without match_type are then regular expressions
        for r in rules:
            if r["match_type"] is None and r["match"].startswith(b"*"):
                r["match_type"] = b"glob"             # "*..." is not a regular expression: keep the configuration loadable
    return (d, rules)


def random_name(rnd):
    comps = [b"a", b"b", b"c", b"*", b"x9", b"my-svc", b"_u", b"z", b"", b"q"]
    return b".".join(rnd.choice(comps) for _ in range(rnd.randint(1, 5)))


def invalid_cfg(rnd):
    """a configuration that must be rejected, with the expected error class"""
    base = random_cfg(rnd, maxrules=4)
    d, rules = base
    pos = rnd.randint(0, len(rules))
    k = rnd.randrange(17)
    mk = lambda **kw: GM.rule(kw.pop("match", b"a.*"), kw.pop("name", b"x_$1"), help=b"bad", **kw)
    if k == 0:
        return "unparsable", "EYaml"
    if k == 1:
        bad, e = mk(match=rnd.choice([b"a..b", b"9a.b", b"a b", b"a.b.", b".a", b"", b"a.*b", b"a.b$"])), "EBadMatch"
    elif k == 2:
        bad, e = mk(name=rnd.choice([b"9x", b"a-b", b"$x", b"a b", b"a.b", b"${1", b"x$"])), "EBadName"
        if bad["name"] in (b"${1",):
            bad["name"] = b"a-b"
    elif k == 3:
        bad, e = mk(name=None), "ENoName"
    elif k == 4:
        bad, e = mk(labels=[(rnd.choice([b"x", b"9ab", b"a-b", b"", b"a b", b"\xc3\xa9a"]), b"v")]), "ELabelKey"
    elif k == 5:
        bad, e = mk(legacy_quantiles=[(0.5, 0.1)], summary=GM.summ(quantiles=[(0.9, 0.1)])), "EBothQuantiles"
    elif k == 6:
        bad, e = mk(legacy_buckets=[1.0, 2.0], hist=dict(buckets=[1.0])), "EBothBuckets"
    elif k == 7:
        bad, e = mk(observer_type=rnd.choice([b"foo", b"Histogram", b"timer"])), "EEnum"
    elif k == 8:
        bad, e = mk(match_type=rnd.choice([b"globb", b"re", b"Regex"])), "EEnum"
    elif k == 9:
        bad, e = mk(action=rnd.choice([b"delete", b"Drop", b"keep"])), "EEnum"
    elif k == 10:
        bad, e = mk(mmt=rnd.choice([b"count", b"histogram", b"Counter", b"set"])), "EEnum"
    elif k == 11:
        bad, e = mk(match=rnd.choice([b"(", b"a[", b"*a", b"(?P<x", b"a{2,1}"]), match_type=b"regex"), "EBadRegex"
    elif k == 12:
        bad, e = mk(observer_type=b"histogram", summary=GM.summ(quantiles=[(0.5, 0.1)])), "EHistWithSummaryOpts"
    elif k == 13:
        bad, e = mk(observer_type=b"summary", hist=dict(buckets=[1.0, 2.0])), "ESummWithHistOpts"
    elif k == 14:
        bad, e = mk(observer_type=b"histogram", hist=dict(buckets=rnd.choice([[3.0, 2.0, 1.0], [1.0, 1.0], [1.0, float("nan")], [float("inf"), 1.0]]))), "EBadBuckets"
    elif k == 15:
        bad, e = mk(observer_type=b"summary", summary=GM.summ(quantiles=[(rnd.choice([1.5, -0.5, float("nan"), float("inf")]), 0.1)])), "EBadSummary"
    else:
        bad, e = mk(observer_type=b"summary", summary=GM.summ(quantiles=[(0.5, 0.1)], max_age=-10**9)), "EBadSummary"
    if bad["match_type"] is None and d is not None and d.get("match_type") == b"regex":
        bad["match_type"] = b"glob"                   # the defect is meant for a glob rule
    return (d, rules[:pos] + [bad] + rules[pos:]), e
