"""Mapping configurations: a Python AST rendered both as YAML (for the implementation) and as the
token stream the OCaml runner decodes into Model/Mapper.v's config_ast."""
import struct

import vf


def fbits(x):
    return "%016x" % struct.unpack(">Q", struct.pack(">d", float(x)))[0]


def ystr(b):
    """YAML double-quoted scalar for a (valid UTF-8) byte string."""
    s = b.decode("utf-8")
    out = ['"']
    for ch in s:
        o = ord(ch)
        if ch == '"':
            out.append('\\"')
        elif ch == "\\":
            out.append("\\\\")
        elif o < 32 or o == 127:
            out.append("\\x%02x" % o)
        else:
            out.append(ch)
    out.append('"')
    return "".join(out)


def ynum(x):
    if isinstance(x, str):
        return x
    x = float(x)
    if x != x:
        return ".nan"
    if x in (float("inf"), float("-inf")):
        return ".inf" if x > 0 else "-.inf"
    return repr(x)


def dur(ns):
    """(yaml text, ns)"""
    if ns % 10**9 == 0:
        return "%ds" % (ns // 10**9)
    if ns % 10**6 == 0:
        return "%dms" % (ns // 10**6)
    return "%dns" % ns


# ---------------------------------------------------------------- AST constructors

def rule(match, name, **kw):
    r = dict(match=match, name=name, labels=[], honor=False, observer_type=None, timer_type=None,
             legacy_buckets=None, legacy_quantiles=None, match_type=None, help=b"", action=None, mmt=None,
             ttl=0, summary=None, hist=None, scale=None)
    r.update(kw)
    return r


def summ(quantiles=None, max_age=0, age_buckets=0, buf_cap=0):
    return dict(quantiles=quantiles, max_age=max_age, age_buckets=age_buckets, buf_cap=buf_cap)


def defaults(**kw):
    d = dict(observer_type=None, timer_type=None, match_type=None, disable_ordering=False, ttl=0,
             summary=summ(), hist=dict(buckets=None), legacy_buckets=None, legacy_quantiles=None)
    d.update(kw)
    return d


# ---------------------------------------------------------------- YAML

def y_quantiles(qs, ind):
    if not qs:
        return " []\n"
    return "\n" + "".join(f"{ind}- quantile: {ynum(q)}\n{ind}  error: {ynum(e)}\n" for q, e in qs)


def y_floats(fs):
    return "[" + ", ".join(ynum(f) for f in fs) + "]"


def y_summ(s, ind):
    out = ""
    if s["quantiles"] is not None:
        out += f"{ind}quantiles:" + y_quantiles(s["quantiles"], ind)
    if s["max_age"]:
        out += f"{ind}max_age: {dur(s['max_age'])}\n"
    if s["age_buckets"]:
        out += f"{ind}age_buckets: {s['age_buckets']}\n"
    if s["buf_cap"]:
        out += f"{ind}buf_cap: {s['buf_cap']}\n"
    return out


YTRUE = ["true", "true", "true", "True", "TRUE", "yes", "Yes", "YES", "on", "On", "ON", "y", "Y"]
YFALSE = ["false", "False", "FALSE", "no", "No", "NO", "off", "Off", "OFF", "n", "N"]


def to_yaml(cfg):
    if cfg == "unparsable":
        return "mappings:\n- match: [unclosed\n  name: x\n"
    d, rules = cfg
    import zlib
    salt = zlib.crc32(b"|".join((r["match"] or b"") + b">" + (r["name"] or b"") for r in rules) + (b"D" if d is not None else b"-"))
    out = ""
    if d is not None:
        out += "defaults:\n"
        for key, fld in (("observer_type", "observer_type"), ("timer_type", "timer_type"), ("match_type", "match_type")):
            if d[fld] is not None:
                out += f"  {key}: {ystr(d[fld])}\n"
        if d["disable_ordering"]:
            out += "  glob_disable_ordering: %s\n" % YTRUE[salt % len(YTRUE)]
        elif salt % 5 == 0:
            out += "  glob_disable_ordering: %s\n" % YFALSE[(salt // 5) % len(YFALSE)]      # an explicit false
        if d["ttl"]:
            out += f"  ttl: {dur(d['ttl'])}\n"
        if d["legacy_buckets"] is not None:
            out += f"  buckets: {y_floats(d['legacy_buckets'])}\n"
        if d["legacy_quantiles"] is not None:
            out += "  quantiles:" + y_quantiles(d["legacy_quantiles"], "  ")
        ys = y_summ(d["summary"], "    ")
        if ys:
            out += "  summary_options:\n" + ys
        if d["hist"]["buckets"] is not None:
            out += f"  histogram_options:\n    buckets: {y_floats(d['hist']['buckets'])}\n"
        if out == "defaults:\n":
            out = "defaults: {}\n"
    out += "mappings:" + (" []\n" if not rules else "\n")
    for r in rules:
        out += f"- match: {ystr(r['match'])}\n"
        if r["name"] is not None:
            out += f"  name: {ystr(r['name'])}\n"
        if r["labels"]:
            out += "  labels:\n" + "".join(f"    {ystr(k)}: {ystr(v)}\n" for k, v in r["labels"])
        if r["honor"]:
            out += "  honor_labels: %s\n" % YTRUE[(salt // 7) % len(YTRUE)]
        elif salt % 11 == 0 and len(rules) > 1:
            out += "  honor_labels: %s\n" % YFALSE[(salt // 11) % len(YFALSE)]
        for key, fld in (("observer_type", "observer_type"), ("timer_type", "timer_type"), ("match_type", "match_type"),
                         ("action", "action"), ("match_metric_type", "mmt")):
            if r[fld] is not None:
                out += f"  {key}: {ystr(r[fld])}\n"
        if r["help"]:
            out += f"  help: {ystr(r['help'])}\n"
        if r["ttl"]:
            out += f"  ttl: {dur(r['ttl'])}\n"
        if r["legacy_buckets"] is not None:
            out += f"  buckets: {y_floats(r['legacy_buckets'])}\n"
        if r["legacy_quantiles"] is not None:
            out += "  quantiles:" + y_quantiles(r["legacy_quantiles"], "  ")
        if r["summary"] is not None:
            ys = y_summ(r["summary"], "    ")
            out += "  summary_options:" + ("\n" + ys if ys else " {}\n")
        if r["hist"] is not None:
            if r["hist"]["buckets"] is not None:
                out += f"  histogram_options:\n    buckets: {y_floats(r['hist']['buckets'])}\n"
            else:
                out += "  histogram_options: {}\n"
        if r["scale"] is not None:
            out += f"  scale: {ynum(r['scale'])}\n"
    return out


# ---------------------------------------------------------------- runner tokens

def t_optb(b):
    return ["N"] if b is None else ["S", vf.hexs(b)]


def t_optfl(fs):
    return ["N"] if fs is None else ["S", str(len(fs))] + [fbits(f) for f in fs]


def t_optqs(qs):
    if qs is None:
        return ["N"]
    out = ["S", str(len(qs))]
    for q, e in qs:
        out += [fbits(q), fbits(e)]
    return out


def t_summ(s):
    return t_optqs(s["quantiles"]) + [str(s["max_age"]), str(s["age_buckets"]), str(s["buf_cap"])]


def to_tokens(cfg):
    if cfg == "unparsable":
        return ["U"]
    d, rules = cfg
    out = ["P"]
    if d is None:
        out.append("N")
    else:
        out.append("S")
        out += t_optb(d["observer_type"]) + t_optb(d["timer_type"]) + t_optb(d["match_type"])
        out += ["1" if d["disable_ordering"] else "0", str(d["ttl"])]
        out += t_summ(d["summary"]) + t_optfl(d["hist"]["buckets"]) + t_optfl(d["legacy_buckets"]) + t_optqs(d["legacy_quantiles"])
    out.append(str(len(rules)))
    for r in rules:
        out += [vf.hexs(r["match"]), vf.hexs(r["name"] or b""), str(len(r["labels"]))]
        for k, v in r["labels"]:
            out += [vf.hexs(k), vf.hexs(v)]
        out.append("1" if r["honor"] else "0")
        out += t_optb(r["observer_type"]) + t_optb(r["timer_type"]) + t_optfl(r["legacy_buckets"]) + t_optqs(r["legacy_quantiles"])
        out += t_optb(r["match_type"]) + [vf.hexs(r["help"])] + t_optb(r["action"]) + t_optb(r["mmt"]) + [str(r["ttl"])]
        out += (["N"] if r["summary"] is None else ["S"] + t_summ(r["summary"]))
        out += (["N"] if r["hist"] is None else ["S"] + t_optfl(r["hist"]["buckets"]))
        out += (["N"] if r["scale"] is None else ["S", fbits(r["scale"])])
    return out


def regexes_of(cfg):
    """sources of the rules that are (or may be) regex rules"""
    if cfg == "unparsable":
        return []
    d, rules = cfg
    dflt_regex = d is not None and d["match_type"] == b"regex"
    out = []
    for r in rules:
        if r["match_type"] == b"regex" or (r["match_type"] is None and dflt_regex):
            if r["match"] not in out:
                out.append(r["match"])
    return out


def runes_of(cfg):
    if cfg == "unparsable":
        return []
    out = set()
    for r in cfg[1]:
        for t in [r["name"] or b""] + [v for _, v in r["labels"]]:
            for ch in t.decode("utf-8", "replace"):
                if ord(ch) >= 128:
                    out.add(ord(ch))
    return sorted(out)


def load_op(cfg):
    res = regexes_of(cfg)
    rn = runes_of(cfg)
    return " ".join(["L", vf.hexs(to_yaml(cfg).encode()), ",".join(vf.hexs(x) for x in res) or "-",
                     ",".join(str(x) for x in rn) or "-"] + to_tokens(cfg))


def load_op_yaml(cfg, yaml_text):
    """load op for cfg with a given YAML text (the same configuration with other comments / layout)"""
    f = load_op(cfg).split(" ")
    f[1] = vf.hexs(yaml_text.encode())
    return " ".join(f)


def _fnv32(data, h, a):
    for b in data:
        if a:
            h = ((h ^ b) * 16777619) & 0xffffffff
        else:
            h = ((h * 16777619) & 0xffffffff) ^ b
    return h


def digest_twin_yaml(cfg_a, cfg_b, kind, tries=90000):
    """YAML texts of two DIFFERENT configurations made equal under a 32-bit digest of the whole text by a trailing '# rev:'
    comment on each (birthday search, what a configuration-management stamp would look like).  kind: crc32, adler32, fnv32,
    fnv32a.  None when no pair is found within the budget."""
    import zlib
    ya, yb = to_yaml(cfg_a) + "# rev: ", to_yaml(cfg_b) + "# rev: "
    if kind in ("crc32", "adler32"):
        fn = zlib.crc32 if kind == "crc32" else zlib.adler32
        pa, pb = fn(ya.encode()), fn(yb.encode())
        dig = lambda pre, suf: fn(suf, pre)
    else:
        a = kind == "fnv32a"
        pa, pb = _fnv32(ya.encode(), 2166136261, a), _fnv32(yb.encode(), 2166136261, a)
        dig = lambda pre, suf: _fnv32(suf, pre, a)
    seen = {}
    for k in range(tries):
        suf = b"%08x\n" % (k * 2654435761 % 2**32)
        seen[dig(pa, suf)] = suf
    for k in range(tries):
        suf = b"%08x\n" % ((k * 40503 + 12345) * 2246822519 % 2**32)
        d = dig(pb, suf)
        if d in seen:
            return ya + seen[d].decode(), yb + suf.decode()
    return None


def query_op(ty, name):
    return f"Q {ty} {vf.hexs(name)}"


def case_line(cache, size, ops):
    return " | ".join([f"{cache} {size}"] + ops)
