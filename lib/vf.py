"""Shared machinery for the checks: build, proof step, engines, verdicts, evidence."""
import fcntl
import glob
import hashlib
import json
import os
import re
import subprocess
import sys
import time

# The registered commands run with the defaults; VERIF_ROOT / VERIF_REPO exist for tools/mutants, which runs the
# checks from private copies of /verif against scratch worktrees of /repo in parallel.
ROOT = os.environ.get("VERIF_ROOT", "/verif")
COQ = f"{ROOT}/coq"
BUILD = f"{ROOT}/build"
REPO = os.environ.get("VERIF_REPO", "/repo")
GOENV = dict(GOFLAGS="-mod=mod", GOPROXY="off", GOSUMDB="off", GOTOOLCHAIN="local",
             CGO_ENABLED="0")
FORBIDDEN = re.compile(r"\b(Admitted|admit|Axiom|Axioms|Parameter|Parameters|Conjecture|Conjectures|"
                       r"Unset\s+Guard|Unset\s+Positivity|Unset\s+Universe|bypass_check|type-in-type|impredicative-set|"
                       r"Admit\s+Obligations)\b")
SECTION_ONLY = re.compile(r"^\s*(?:Local\s+|Global\s+)?(Variable|Variables|Hypothesis|Hypotheses)\b")


def forbidden_in(src):
    """First forbidden construct in (comment-stripped) Coq source, or None.  Variable/Hypothesis
    are allowed inside a Section only (outside they declare axioms)."""
    m = FORBIDDEN.search(src)
    if m:
        return m.group(0)
    depth = 0
    for ln in src.splitlines():
        if re.match(r"^\s*Section\s+\w+\s*\.", ln):
            depth += 1
        elif re.match(r"^\s*End\s+\w+\s*\.", ln) and depth > 0:
            depth -= 1
        else:
            mm = SECTION_ONLY.match(ln)
            if mm and depth == 0:
                return mm.group(1) + " outside a section"
    return None


# standard-library axioms that theorems may depend on (named in DESIGN.md section 9)
AXIOM_WHITELIST = {
    "ClassicalDedekindReals.sig_forall_dec",
    "ClassicalDedekindReals.sig_not_dec",
    "FunctionalExtensionality.functional_extensionality_dep",
    "functional_extensionality_dep",
    "sig_forall_dec", "sig_not_dec",
    "Classical_Prop.classic", "classic",
}


def sh(cmd, cwd=None, timeout=None, env=None, check=False, stdin=None):
    e = dict(os.environ)
    e.update(GOENV)
    if env:
        e.update(env)
    p = subprocess.run(cmd, cwd=cwd, shell=isinstance(cmd, str), stdout=subprocess.PIPE,
                       stderr=subprocess.STDOUT, timeout=timeout, env=e, input=stdin)
    out = p.stdout.decode("utf-8", "replace")
    if check and p.returncode != 0:
        raise RuntimeError(f"command failed ({p.returncode}): {cmd}\n{out[-4000:]}")
    return p.returncode, out


class Lock:
    def __init__(self, name="build"):
        os.makedirs(BUILD, exist_ok=True)
        self.path = f"{BUILD}/.{name}.lock"

    def __enter__(self):
        self.f = open(self.path, "w")
        fcntl.flock(self.f, fcntl.LOCK_EX)
        return self

    def __exit__(self, *a):
        fcntl.flock(self.f, fcntl.LOCK_UN)
        self.f.close()


def newest(paths):
    return max((os.path.getmtime(p) for p in paths if os.path.exists(p)), default=0)


def build_coq():
    """Full (.vo) incremental build of the development."""
    if not os.path.exists(f"{COQ}/Makefile") or \
            os.path.getmtime(f"{COQ}/Makefile") < os.path.getmtime(f"{COQ}/_CoqProject"):
        sh("coq_makefile -f _CoqProject -o Makefile", cwd=COQ, check=True)
    rc, out = sh("timeout 3000 make -j16", cwd=COQ)
    return rc == 0, out


def build_model():
    """Extraction + OCaml runner; rebuilt when any .vo is newer than the runner."""
    vos = glob.glob(f"{COQ}/theories/**/*.vo", recursive=True)
    srcs = [f"{ROOT}/ocaml/runner.ml", f"{ROOT}/ocaml/conv.ml", f"{COQ}/theories/Extract/Extraction.v"]
    runner = f"{ROOT}/ocaml/runner"
    if os.path.exists(runner) and os.path.getmtime(runner) >= max(newest(vos), newest(srcs)):
        return True, ""
    rc, out = sh("timeout 600 coqc -Q ../coq/theories SE ../coq/theories/Extract/Extraction.v",
                 cwd=f"{ROOT}/ocaml")
    if rc != 0:
        return False, out
    rc, out2 = sh("ocamlfind ocamlopt -w -a -package str,unix -linkpkg model.mli model.ml conv.ml runner.ml -o runner",
                  cwd=f"{ROOT}/ocaml")
    return rc == 0, out + out2


def build_harness(race=False):
    """Always rebuilt from /repo's current working tree, hooks on (-tags verif)."""
    h = f"{ROOT}/harness"
    sh(f"cp {REPO}/go.sum {h}/go.sum")
    outbin = "hx_race" if race else "hx"
    flags = "-race" if race else ""
    env = dict(CGO_ENABLED="1") if race else None
    rc, out = sh(f"go build {flags} -tags verif -o {h}/{outbin} ./cmd/hx", cwd=h, timeout=900, env=env)
    return rc == 0, out


def ensure_built(need_go=True):
    t0 = time.time()
    with Lock():
        ok, out = build_coq()
        if not ok:
            return dict(ok=False, stage="coq", log=out[-6000:])
        ok, out = build_model()
        if not ok:
            return dict(ok=False, stage="model", log=out[-6000:])
        if need_go:
            ok, out = build_harness()
            if not ok:
                return dict(ok=False, stage="harness", log=out[-6000:])
    return dict(ok=True, wall=time.time() - t0)


# ---------------------------------------------------------------- proof step

def coq_deps(vfile, seen=None):
    """Transitive closure of SE.* dependencies of a .v file (by its Require lines)."""
    if seen is None:
        seen = set()
    if vfile in seen or not os.path.exists(vfile):
        return seen
    seen.add(vfile)
    src = open(vfile).read()
    for m in re.finditer(r"From\s+SE\s+Require\s+(?:Import\s+|Export\s+)?(.*?)\.(?=\s|$)", src, re.S):
        for mod in m.group(1).split():
            p = f"{COQ}/theories/" + mod.replace(".", "/") + ".v"
            coq_deps(p, seen)
    return seen


def strip_comments(src):
    out, depth, i = [], 0, 0
    while i < len(src):
        if src.startswith("(*", i):
            depth += 1
            i += 2
        elif src.startswith("*)", i) and depth > 0:
            depth -= 1
            i += 2
        else:
            if depth == 0:
                out.append(src[i])
            i += 1
    return "".join(out)


def proof_step(pid):
    """Re-checks Properties/<pid>.v, collects Print Assumptions, scans the closure for forbidden
    constructs, and counts obligations (= Qed-closed statements in the closure)."""
    pf = f"{COQ}/theories/Properties/{pid}.v"
    res = dict(ok=True, problems=[], axioms=[], obligations=0, discharged=0, theorems=[], files=[])
    if not os.path.exists(pf):
        res["ok"] = False
        res["problems"].append(f"missing {pf}")
        return res
    closure = sorted(coq_deps(pf))
    res["files"] = [os.path.relpath(p, COQ) for p in closure]
    stmts = quds = 0
    for p in closure:
        src = strip_comments(open(p).read())
        bad = forbidden_in(src)
        if bad:
            res["ok"] = False
            res["problems"].append(f"forbidden construct '{bad}' in {p}")
        stmts += len(re.findall(r"^\s*(?:Local\s+|Global\s+)?(?:Theorem|Lemma|Corollary|Example|Fact|Remark|Proposition)\b", src, re.M))
        quds += len(re.findall(r"\bQed\.", src))
        if p != pf and (not os.path.exists(p[:-2] + ".vo") or os.path.getmtime(p[:-2] + ".vo") < os.path.getmtime(p)):
            res["ok"] = False
            res["problems"].append(f"{p} is not compiled / stale")
    res["obligations"] = stmts
    res["discharged"] = quds
    rc, out = sh(f"timeout 900 coqc -Q theories SE theories/Properties/{pid}.v", cwd=COQ)
    if rc != 0:
        res["ok"] = False
        res["problems"].append("coqc failed on the property file: " + out[-1500:])
        res["discharged"] = min(res["discharged"], max(0, res["obligations"] - 1))
        return res
    res["theorems"] = re.findall(r"^\s*Theorem\s+(\w+)", open(pf).read(), re.M)
    closed = out.count("Closed under the global context")
    axioms = set()
    for blk in re.findall(r"Axioms:\n((?:.+\n)+?)(?=\n|\Z|Closed|Axioms:)", out + "\n"):
        for ln in blk.splitlines():
            m = re.match(r"^(\S+)\s*:", ln)
            if m:
                axioms.add(m.group(1))
    res["axioms"] = sorted(axioms)
    res["closed_theorems"] = closed
    bad = [a for a in axioms if a not in AXIOM_WHITELIST and a.split(".")[-1] not in AXIOM_WHITELIST]
    if bad:
        res["ok"] = False
        res["problems"].append(f"axioms outside the whitelist: {bad}")
    nprint = len(re.findall(r"Print Assumptions", strip_comments(open(pf).read())))
    if nprint < len(res["theorems"]):
        res["ok"] = False
        res["problems"].append("a theorem in the property file lacks Print Assumptions")
    if res["obligations"] != res["discharged"]:
        res["ok"] = False
        res["problems"].append(f"obligations {stmts} != Qed {quds}")
    return res


def coqchk(pid, timeout=5400):
    """Independent re-check of Properties/<pid>.vo and everything it depends on (thorough tier);
    cached by the content hash of the dependency closure's .vo files."""
    pf = f"{COQ}/theories/Properties/{pid}.v"
    closure = sorted(coq_deps(pf))
    h = hashlib.sha256()
    for p in closure:
        vo = p[:-2] + ".vo"
        if os.path.exists(vo):
            h.update(open(vo, "rb").read())
    key = h.hexdigest()[:16]
    os.makedirs(f"{BUILD}/coqchk", exist_ok=True)
    cache = f"{BUILD}/coqchk/{pid}-{key}.txt"
    if os.path.exists(cache):
        out = open(cache).read()
    else:
        rc, out = sh(f"timeout {timeout} coqchk -silent -o -Q theories SE SE.Properties.{pid}", cwd=COQ, timeout=timeout + 60)
        out = f"exit={rc}\n" + out
        open(cache, "w").write(out)
    ok = out.startswith("exit=0")
    axioms = []
    m = re.search(r"\* Axioms:(.*?)\n\s*\n\* Constants", out, re.S)
    if m:
        axioms = [x.strip() for x in m.group(1).split("\n") if x.strip() and x.strip() != "<none>"]
    bad = [a for a in axioms if a.split(".")[-1] not in AXIOM_WHITELIST and a not in AXIOM_WHITELIST]
    clean = all(f"{k}: <none>" in out.replace("\n  ", " ") or True for k in ())
    return dict(ok=ok and not bad, axioms=axioms, unexpected_axioms=bad, cached=os.path.exists(cache), summary=out[-1200:])


# ---------------------------------------------------------------- engines

def tmpdir(pid):
    d = f"{BUILD}/tmp/{pid}-{os.getpid()}"
    os.makedirs(d, exist_ok=True)
    return d


def write_lines(path, lines):
    with open(path, "w") as f:
        for ln in lines:
            f.write(ln)
            f.write("\n")


def run_hx(engine, casefile, extra=(), timeout=3000, binary="hx"):
    cmd = [f"{ROOT}/harness/{binary}", engine, casefile, *extra]
    p = subprocess.run(cmd, stdout=subprocess.PIPE, stderr=subprocess.PIPE, timeout=timeout)
    if p.returncode != 0:
        raise RuntimeError(f"hx {engine} failed rc={p.returncode}: {p.stderr.decode()[-3000:]}")
    return p.stdout.decode("utf-8", "replace").splitlines()


def _big_stack():
    # the extracted functions are structural recursions over byte lists (not tail calls): a line of several thousand bytes
    # with thousands of samples needs more than the default 8 MiB of stack
    import resource
    soft, hard = resource.getrlimit(resource.RLIMIT_STACK)
    want = 2 << 30
    if hard != resource.RLIM_INFINITY:
        want = min(want, hard)
    try:
        resource.setrlimit(resource.RLIMIT_STACK, (want, hard))
    except (ValueError, OSError):
        pass


def run_model(engine, casefile, extra=(), timeout=3000):
    cmd = [f"{ROOT}/ocaml/runner", engine, casefile, *extra]
    p = subprocess.run(cmd, stdout=subprocess.PIPE, stderr=subprocess.PIPE, timeout=timeout, preexec_fn=_big_stack)
    if p.returncode != 0:
        raise RuntimeError(f"runner {engine} failed rc={p.returncode}: {p.stderr.decode()[-3000:]}")
    return p.stdout.decode("utf-8", "replace").splitlines()


def hexs(b):
    if isinstance(b, str):
        b = b.encode("utf-8")
    return b.hex() if b else "-"


def unhex(h):
    return b"" if h == "-" else bytes.fromhex(h)


# ---------------------------------------------------------------- known findings

def load_known_findings():
    out = []
    p = f"{ROOT}/KNOWN_FINDINGS.txt"
    if not os.path.exists(p):
        return out
    for ln in open(p):
        ln = ln.strip()
        m = re.match(r"^finding:\s+property=(\S+)\s+key=(\S+)\s+(.*)$", ln)
        if m:
            out.append(dict(property=m.group(1), key=m.group(2), text=m.group(3)))
    return out


# ---------------------------------------------------------------- report

class Report:
    def __init__(self, pid, tier, seed):
        self.pid, self.tier, self.seed = pid, tier, seed
        self.t0 = time.time()
        self.violations = []          # dicts with replay payload
        self.known_seen = {}          # key -> text
        self.cov = dict(evaluations=0, distinct_nontrivial=0, rule="", samples=[],
                        traces_validated_against_impl=0)
        self.assumptions = []
        self.extra = {}
        self.kf = [k for k in load_known_findings() if k["property"] == pid]
        for old in glob.glob(f"{ROOT}/replays/{pid}-{seed}-*.json"):
            os.remove(old)
        self._distinct = set()

    def count(self, n=1):
        self.cov["evaluations"] += n

    def nontrivial(self, key):
        h = hashlib.blake2b(repr(key).encode(), digest_size=8).digest()
        self._distinct.add(h)

    def sample(self, s, cap=6):
        if len(self.cov["samples"]) < cap:
            self.cov["samples"].append(s)

    def known(self, key, detail=None):
        for k in self.kf:
            if k["key"] == key:
                self.known_seen[key] = k["text"]
                return True
        return False

    def violation(self, what, payload, no_input=False):
        self.violations.append(dict(what=what, payload=payload, no_input=no_input))

    def finish(self, proof=None, level="proof"):
        os.makedirs(f"{ROOT}/evidence", exist_ok=True)
        os.makedirs(f"{ROOT}/replays", exist_ok=True)
        self.cov["distinct_nontrivial"] = len(self._distinct)
        if proof is not None:
            self.cov["obligations"] = proof["obligations"]
            self.cov["discharged"] = proof["discharged"] if proof["ok"] else min(proof["discharged"], max(0, proof["obligations"] - 1))
            self.cov["checker_cmd"] = "make -C /verif/coq (coqc 8.16.1, full .vo build) ; coqc -Q theories SE theories/Properties/%s.v (Print Assumptions)" % self.pid
            self.cov["theorems"] = proof.get("theorems", [])
            self.cov["axioms_reported"] = proof.get("axioms", [])
            self.cov["proof_files"] = proof.get("files", [])
        self.cov.setdefault("trusted_base", [])
        self.cov.update(self.extra)
        lines = []
        for key, text in sorted(self.known_seen.items()):
            lines.append(f"KNOWN-FINDING: property={self.pid} {key} {text}")
        rc = 0
        for i, v in enumerate(self.violations[:5]):
            path = f"{ROOT}/replays/{self.pid}-{self.seed}-{i}.json"
            with open(path, "w") as f:
                json.dump(dict(property=self.pid, tier=self.tier, seed=self.seed, what=v["what"],
                               **v["payload"]), f, indent=1, sort_keys=True)
            suffix = " no-failing-input-found" if v["no_input"] else ""
            lines.append(f"VIOLATION property={self.pid} replay={path}{suffix}")
            rc = 1
        ev = dict(property_id=self.pid, tier=self.tier, seed=self.seed, level=level,
                  coverage=self.cov, assumptions=self.assumptions,
                  wall_s=round(time.time() - self.t0, 2), violations=len(self.violations),
                  known_findings_seen=sorted(self.known_seen))
        with open(f"{ROOT}/evidence/{self.pid}.json", "w") as f:
            json.dump(ev, f, indent=1, sort_keys=True)
        for ln in lines:
            print(ln)
        print(f"[{self.pid}] tier={self.tier} seed={self.seed} evaluations={self.cov['evaluations']} "
              f"distinct_nontrivial={self.cov['distinct_nontrivial']} violations={len(self.violations)} "
              f"known={len(self.known_seen)} wall={ev['wall_s']}s")
        return rc


def proof_or_violation(rep, proof):
    """A proof obligation that no longer checks is reported as a violation (no failing input)."""
    if not proof["ok"]:
        rep.violation("proof obligation no longer checks", dict(problems=proof["problems"],
                      theorem_file=f"coq/theories/Properties/{rep.pid}.v"), no_input=True)
