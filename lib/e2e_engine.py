"""End-to-end engine: the statsd_exporter binary built from /repo's working tree, driven over real sockets
(TCP / UDP / unixgram), reloaded over /-/reload and scraped over /metrics, against the pipeline model.
Ties main.go (flag wiring, listeners, event queue, exporter goroutine, HTTP exposition) to the model."""
import os
import random
import subprocess

import gen_mapper as GM
import gen_pipeline as GP
import line_engine as LE
import pipeline_engine as PE
import vf

BIN = f"{vf.BUILD}/statsd_exporter"
HX = f"{vf.ROOT}/harness/hx"


def build_binary():
    with vf.Lock("e2ebin"):
        rc, out = vf.sh(f"go build -o {BIN} .", cwd=vf.REPO, timeout=900)
    return rc == 0, out


def strip_ttl(cfg):
    d, rules = cfg
    if d is not None:
        d["ttl"] = 0
    for r in rules:
        r["ttl"] = 0
    return cfg


def gen_case(rnd):
    cfg = strip_ttl(GP.gen_config(rnd, safe=True))
    ops = [GM.load_op(cfg)]
    cfgs = [cfg]
    cur = cfg
    for phase in range(rnd.choice([1, 1, 2])):
        if phase:
            if rnd.random() < 0.3:
                bad = (None, [GM.rule(b"a..b", b"x")])           # invalid: must change nothing
                ops.append(GM.load_op(bad))
                cfgs.append(None)
            else:
                cur = strip_ttl(GP.gen_config(rnd, safe=True))
                ops.append(GM.load_op(cur))
                cfgs.append(cur)
        for _ in range(rnd.randint(3, 25)):
            ln = GP.gen_line(rnd, cur, safe=True, odd_p=0.05)
            if b"\n" in ln or len(ln) > 1000:
                continue
            ops.append(PE.I(ln))
        ops.append("G")
    flags = rnd.choice([15, 15, 15, 1, 6, 8, 0])
    cache = rnd.choice([("none", 0), ("lru", 3), ("rr", 2), ("lru", 1000)])
    transport = rnd.choice(["tcp", "udp", "unixgram", "tcp", "udp", "unixgram", "unixgram@"])
    return flags, cache, transport, ops, cfgs, rnd.random() < 0.3        # reload by SIGHUP instead of /-/reload


def gen_hostile_case(rnd):
    """C02 against the binary: streams of hostile lines (grammar-aware mutations, raw bytes, invalid UTF-8, reserved tag keys) with
    well-formed lines in between and after, under every way main() can be wired for the mapping cache (none = --statsd.cache-size=0,
    LRU, random replacement) and for the parsers; the process stays up and the scrape is the model's."""
    import gen_line as GL
    ops = [GM.load_op((None, []))] if rnd.random() < 0.5 else []
    cfgs = [(None, [])] if ops else []
    n = rnd.randint(4, 20)
    for k in range(n):
        if rnd.random() < 0.6:
            ln = GL.bound_rates(GL.hostile_line(rnd))
        else:
            ln = b"ok%d:%d|%s" % (k % 5, k, rnd.choice([b"c", b"g", b"ms"]))
        low = ln.lower()
        if b"\n" in ln or b"\r" in ln or len(ln) > 1000 or not ln or any(low.startswith(p_) or low[:1] in b"#,[" and p_ in low for p_ in (b"go_", b"go.", b"process", b"promhttp", b"statsd")):
            continue
        ops.append(PE.I(ln))
    transport = rnd.choice(["tcp", "udp", "unixgram"])
    if transport != "tcp" and rnd.random() < 0.5:
        # a datagram without payload: one empty line, and the listener goes on
        ops.insert(rnd.randint(len(cfgs), len(ops)), PE.I(b""))
    if rnd.random() < 0.3:
        # families whose names differ by a suffix another exposition format gives a meaning to
        ops += [PE.I(b"jobs_total:1|c"), PE.I(b"jobs:3|g"), PE.I(b"jobs_created:42|g")]
    ops.append(PE.I(b"after.hostile:1|c"))
    ops.append("G")
    return rnd.randrange(16), rnd.choice([("none", 0), ("none", 0), ("lru", 1000), ("rr", 2)]), transport, ops, cfgs, rnd.choice([False, "debuglog"])


def gen_reload_case(rnd):
    """reload-heavy histories: 3-5 reloads (valid ones that change defaults and rules, invalid ones that must change
    nothing), each followed by mapped and unmapped lines of every type and a scrape"""
    cfg = strip_ttl(GP.gen_config(rnd, safe=True))
    ops, cfgs, cur = [GM.load_op(cfg)], [cfg], cfg
    for phase in range(rnd.randint(3, 5)):
        if phase:
            if rnd.random() < 0.35:
                bad = rnd.choice([(None, [GM.rule(b"a..b", b"x")]), (None, [GM.rule(b"a.*", b"9x")]), "unparsable",
                                  (None, [GM.rule(b"a.*", b"x", observer_type=b"histogram", hist=dict(buckets=[2.0, 1.0]))])])
                ops.append(GM.load_op(bad)); cfgs.append(None)
            else:
                cur = strip_ttl(GP.gen_config(rnd, safe=True))
                if cur[0] is None and rnd.random() < 0.7:
                    cur = (GM.defaults(observer_type=rnd.choice([b"histogram", b"summary"])), cur[1])
                ops.append(GM.load_op(cur)); cfgs.append(cur)
        for _ in range(rnd.randint(2, 7)):
            ln = GP.gen_line(rnd, cur, safe=True, odd_p=0.0)
            if b"\n" not in ln and len(ln) < 1000:
                ops.append(PE.I(ln))
        ops.append(PE.I(b"unmapped.t%d:%d|%s" % (phase, phase + 1, rnd.choice([b"ms", b"h", b"d", b"g", b"c"]))))
        ops.append("G")
    return 15, rnd.choice([("none", 0), ("lru", 1000), ("rr", 3)]), rnd.choice(["tcp", "udp", "unixgram"]), ops, cfgs, rnd.random() < 0.5


def gen_order_case(rnd):
    """datagram order: a large multi-line packet that ends by setting a gauge, directly followed by a small packet
    that moves it; the later packet must take effect later (gauge = last absolute value + later deltas)"""
    n = rnd.choice([1500, 3000, 4500])
    g = b"gord%d" % rnd.randrange(10)
    big = [b"fill:1|c"] * n + [g + b":100|g"]
    small = [g + rnd.choice([b":+1|g", b":-7|g", b":5|g"])]
    third = [g + b":+2|g", b"fill:1|c"]
    transport = rnd.choice(["udp", "udp", "udp", "unixgram", "tcp", "unixgram@"])
    # on the datagram transports a datagram WITHOUT payload comes in between: one empty line, and the listener goes on
    empty = transport != "tcp" and rnd.random() < 0.6
    model_ops = [GM.load_op((None, []))] + [PE.I(l) for l in big + small] + ([PE.I(b"")] if empty else []) + [PE.I(l) for l in third] + ["G"]
    e2e_ops = [GM.load_op((None, [])), "P " + vf.hexs(b"\n".join(big)), "P " + vf.hexs(b"\n".join(small))] + (["P -"] if empty else []) + ["P " + vf.hexs(b"\n".join(third)), "G"]
    return 15, ("none", 0), transport, model_ops, [(None, [])], False, e2e_ops


def gen_longrun_case(rnd):
    """long uptime in one process: tens of thousands of events on the same few series, thousands of distinct series and
    names, and dozens of reloads in between - whatever the binary counts, numbers or caches along the way, the scrape at
    the end is the model's"""
    def cfg(k):
        return (None, [GM.rule(b"lr.c.*", b"lr_c", help=b"r0", labels=[(b"key", b"$1")]),
                       GM.rule(b"lr.t.*", b"lr_t", help=b"r1", labels=[(b"key", b"$1")], observer_type=b"histogram"),
                       GM.rule(b"lr.pad.v%d" % (k % 2), b"lr_pad", help=b"r2")])
    hot = rnd.choice([20000, 33000, 66000])
    nser = rnd.choice([1100, 2100, 4200])
    nreload = rnd.choice([17, 33, 65])
    lines = []
    for i in range(hot):
        # integer observations of type h: their sum is exact in every grouping (a scrape that lands between two observations
        # makes the client library add the halves of the sum in another order; with fractions the last bits would differ)
        lines.append(b"lr.c.hot:1|c" if i % 3 else (b"lr.t.hot:%d|h" % (i % 7)))
    for i in range(nser):
        lines.append(b"lr.c.s%d:2|c" % i)
        if i % 2 == 0:
            lines.append(b"name%d:%d|g" % (i, i))
    rnd.shuffle(lines)
    chunk = max(1, len(lines) // nreload)
    cfgs, model_ops, e2e_ops = [], [], []
    for k in range(0, len(lines), chunk):
        c = cfg(k // chunk)
        cfgs.append(c)
        model_ops.append(GM.load_op(c)); e2e_ops.append(GM.load_op(c))
        part = lines[k:k + chunk]
        model_ops += [PE.I(l) for l in part]
        # several writes per stretch so that no line is longer than the listener's buffer and packets stay moderate
        for j in range(0, len(part), 400):
            e2e_ops.append("P " + vf.hexs(b"\n".join(part[j:j + 400])))
    model_ops.append("G"); e2e_ops.append("G")
    return 15, rnd.choice([("none", 0), ("lru", 1000), ("rr", 1000)]), "tcp", model_ops, cfgs, rnd.random() < 0.3, e2e_ops


_IPV6 = None


def have_ipv6():
    """is there an IPv6 loopback to send from?"""
    global _IPV6
    if _IPV6 is None:
        import socket
        try:
            s_ = socket.socket(socket.AF_INET6, socket.SOCK_DGRAM)
            s_.bind(("::1", 0))
            s_.close()
            _IPV6 = True
        except OSError:
            _IPV6 = False
    return _IPV6


def gen_big_datagram_case(rnd):
    """one datagram at the size limits: 65507 bytes (the largest UDP/IPv4 payload) over UDP or unixgram, 65508-65535 bytes over
    unixgram only; every line of it must be parsed exactly once"""
    transport = rnd.choice(["udp", "unixgram", "unixgram@"] + (["udp6", "udp6"] if have_ipv6() else []))
    # the largest payloads: 65507 over UDP/IPv4, 65527 over UDP/IPv6, 65535 over unixgram
    size = 65507 if transport == "udp" else rnd.choice([65507, 65508, 65512, 65527]) if transport == "udp6" else rnd.choice([65507, 65508, 65520, 65535])
    lines = []
    total = 0
    k = 0
    while True:
        ln = b"zb%d:1|c" % (k % 7)
        if total + len(ln) + 1 + 12 > size:
            break
        lines.append(ln)
        total += len(ln) + 1
        k += 1
    last = b"zlast" + b"x" * (size - total - len(b"zlast:2|g")) + b":2|g"
    lines.append(last)
    pkt = b"\n".join(lines)
    assert len(pkt) == size, (len(pkt), size)
    model_ops = [GM.load_op((None, []))] + [PE.I(l) for l in lines] + [PE.I(b"after:1|c"), "G"]
    e2e_ops = [GM.load_op((None, [])), "P " + vf.hexs(pkt), "P " + vf.hexs(b"after:1|c"), "G"]
    return 15, ("none", 0), transport, model_ops, [(None, [])], False, e2e_ops


def gen_inplace_reload_case(rnd):
    """the mapping file rewritten in place by a configuration of EXACTLY the same length, its modification time put back: a reload
    must still take the new content (and report an invalid one)"""
    word_a, word_b = rnd.choice([(b"first", b"other"), (b"alpha", b"omega"), (b"aaaa", b"bbbb")])
    def cfg(w, ttl=0):
        return (None, [GM.rule(b"same.*", b"same_" + w, help=b"r0", labels=[(b"tag", w)])])
    a, b = cfg(word_a), cfg(word_b)
    assert len(GM.to_yaml(a)) == len(GM.to_yaml(b))
    bad = (None, [GM.rule(b"same.*", b"same-" + word_a, help=b"r0", labels=[(b"tag", word_a)])])          # same length, invalid name
    seq = rnd.choice([[a, b, a], [a, b, bad, b], [b, bad, a]])
    ops, cfgs = [], []
    for k, c in enumerate(seq):
        ops.append(GM.load_op(c)); cfgs.append(None if c is bad else c)
        ops += [PE.I(b"same.x%d:1|c" % k), "G"]
    return 15, rnd.choice([("none", 0), ("lru", 1000)]), rnd.choice(["tcp", "udp", "unixgram"]), ops, cfgs, rnd.choice(["inplace", "inplace-sighup"])


def gen_c09_case(rnd):
    """all 16 parser flag sets as the binary's --[no-]statsd.parse-* flags; every datum in its four renderings"""
    import gen_line as GL
    ops = [GM.load_op((None, []))]
    for _ in range(rnd.randint(2, 6)):
        d = GL.c09_datum(rnd)
        for ln in GL.c09_renderings(d).values():
            if b"\n" not in ln and len(ln) < 1000:
                ops.append(PE.I(ln))
    ops.append("G")
    return rnd.randrange(16), ("none", 0), rnd.choice(["tcp", "udp", "unixgram"]), ops, [(None, [])], False


def gen_ttl_case(rnd):
    """real time: a series with a TTL disappears within a sweep period after its deadline unless a sample
    refreshed it; a series without TTL stays.  Margins: ttl 3 s, refresh after 2 s, looked at 4.2 s after the
    first sample (the unrefreshed one is gone since a sweep fell into (3 s, 4 s]; the refreshed one lives to 5 s)."""
    sec = 10**9
    ty = rnd.choice([b"c", b"g", b"ms", b"h"])
    on_rule = rnd.random() < 0.5
    d = GM.defaults(ttl=0 if on_rule else 3 * sec, observer_type=rnd.choice([None, b"histogram", b"summary"]))
    rules = [GM.rule(b"exp.*", b"exp_$1", help=b"e", ttl=3 * sec if on_rule else 0, labels=[(b"kk", b"$1")]),
             GM.rule(b"keep.*", b"keep_$1", help=b"k", ttl=(0 if on_rule else 3600 * sec))]
    cfg = (d, rules)
    refresh = rnd.random() < 0.5
    v = {b"c": b"2", b"g": b"-3", b"ms": b"250", b"h": b"0.5"}[ty]
    ops, cfgs = [GM.load_op(cfg)], [cfg]
    if rnd.random() < 0.5:
        # the exporter starts without any ttl; the ttl arrives with a reload
        first = (None, [GM.rule(b"exp.*", b"exp_$1", help=b"e", labels=[(b"kk", b"$1")]), GM.rule(b"keep.*", b"keep_$1", help=b"k")])
        ops, cfgs = [GM.load_op(first), PE.I(b"keep.b:1|c"), GM.load_op(cfg)], [first, cfg]
    ops += [PE.I(b"exp.a:" + v + b"|" + ty), PE.I(b"exp.b:" + v + b"|" + ty), PE.I(b"keep.a:1|c"), "G", "A %d" % (2 * sec), "S"]
    if refresh:
        ops.append(PE.I(b"exp.a:" + v + b"|" + ty))
    ops += ["A %d" % (22 * sec // 10), "S", "G", "A %d" % (3 * sec), "S", "G"]
    return 15, rnd.choice([("none", 0), ("lru", 1000)]), rnd.choice(["tcp", "udp", "unixgram"]), ops, cfgs, rnd.random() < 0.5


def run_e2e(pid, e2e_lines, settle_ms=None, par=None, tag="e2e"):
    d = vf.tmpdir(pid)
    cf = f"{d}/{tag}.e2ecases"
    vf.write_lines(cf, e2e_lines)
    env = dict(os.environ, VERIF_BIN=BIN)
    if settle_ms:
        env["VERIF_E2E_SETTLE_MS"] = str(settle_ms)
    if par:
        env["VERIF_E2E_PAR"] = str(par)
    p = subprocess.run([HX, "e2e", cf], stdout=subprocess.PIPE, stderr=subprocess.PIPE, timeout=3000, env=env)
    if p.returncode != 0:
        raise RuntimeError("hx e2e failed: " + p.stderr.decode()[-2000:])
    return [x.split(" | ") for x in p.stdout.decode("utf-8", "replace").splitlines()]


def split_w(op):
    """'G ... T ... W lines=..' -> (gather part, wiring dict)"""
    if " W " in op:
        g, w = op.split(" W ", 1)
        return g, dict(x.split("=") for x in w.split())
    return op, {}


def compare_case(case, obs, model, ticks=None):
    """None when the binary's observations equal the model's predictions, else (op index, what, observed, predicted).
    ticks: per I op, the parser counters the line model predicts (samples, tag errors, tags, errors by reason)."""
    flags, cache, transport, ops, cfgs = case[:5]
    acc = dict(samples=0, tag_errors=0, tags=0, serr={})
    ti = 0
    eops = case[6] if len(case) > 6 else None
    packets_at_g, cnt = [], 0
    for o in (eops or ops):
        if o[:2] in ("I ", "P "):
            cnt += 1
        elif o == "G":
            packets_at_g.append(cnt)
    gidx = 0
    if obs and obs[0] == "L err exit":
        # the binary refuses to start with this mapping file: right exactly when the model rejects it
        return None if not model[0].startswith("L ok") else (0, "the binary refuses to start with a configuration the model loads", obs[0], model[0])
    if len(obs) != len(ops):
        return (len(obs) - 1, "the run stopped early", obs[-1] if obs else None, None)
    nlines = nload = nok = nfail = 0
    loaded = 0
    for k, (o, i, m) in enumerate(zip(ops, obs, model)):
        if o.startswith("L "):
            cfg = cfgs[nload]
            nload += 1
            want_ok = m.startswith("L ok")
            if i.startswith("L ok") != want_ok:
                return (k, "a configuration is accepted by the binary and rejected by the model, or the reverse", i, m)
            if nload > 1:
                nok, nfail = nok + (1 if want_ok else 0), nfail + (0 if want_ok else 1)
            if want_ok and cfg is not None:
                loaded = len(cfg[1])
        elif o.startswith("I "):
            nlines += 1
            if ticks is not None:
                t = ticks[ti]
                ti += 1
                acc["samples"] += t["S"]; acc["tag_errors"] += t["TE"]; acc["tags"] += t["TR"]
                for r_, n_ in t["errs"].items():
                    acc["serr"][r_] = acc["serr"].get(r_, 0) + n_
            if i != "I ok":
                return (k, "could not send a line", i, m)
        elif o == "G":
            npk = packets_at_g[gidx] if gidx < len(packets_at_g) else nlines
            gidx += 1
            g, w = split_w(i)
            # the text exposition writes -0 as "0": the sign of a zero is not observable over /metrics
            gi, gm = PE.parse_gather(g.replace("8000000000000000", "0000000000000000")), PE.parse_gather(m.replace("8000000000000000", "0000000000000000"))
            if gi["ok"] != gm["ok"]:
                return (k, "the scrape fails in the binary and succeeds in the model, or the reverse", i[:600], m[:600])
            if not gm["ok"]:
                continue
            if gi["families"] != gm["families"]:
                names = sorted(set(gi["families"]) ^ set(gm["families"])) or [n for n in gi["families"] if gi["families"][n] != gm["families"].get(n)]
                return (k, "the binary's /metrics differs from the predicted series in families %r" % [x.decode("utf-8", "replace") for x in names[:4]], i, m)
            if gi["tel"] != gm["tel"]:
                return (k, "the binary's own counters (events, actions, errors, conflicts, metrics) differ from the predicted ones", repr(gi["tel"]), repr(gm["tel"]))
            want = dict(lines=nlines, loaded=loaded, reload_ok=nok, reload_fail=nfail,
                        tcp=(1 if transport == "tcp" and nlines else 0), udp=(npk if transport in ("udp", "udp6") else 0),
                        unixgram=(npk if transport in ("unixgram", "unixgram@") else 0))
            # content negotiation: the unchanged handler answers text 0.0.4 to an OpenMetrics request and protobuf to a protobuf
            # request, and the protobuf body decodes to the same families as the text body
            neg = {k2: int(w.pop(k2)) for k2 in ("neg_om", "omdup", "neg_pb", "pbsame") if k2 in w}
            if neg and neg != dict(neg_om=0, omdup=0, neg_pb=1, pbsame=1):
                return (k, "the metrics endpoint answers a scraper that asks for OpenMetrics or protobuf with something the text exposition does not match "
                           "(an exposition format outside the tie, duplicate TYPE/HELP/series lines in it, or protobuf families that differ)", repr(neg), repr(dict(neg_om=0, omdup=0, neg_pb=1, pbsame=1)))
            serr = w.pop("serr", "-")
            got_serr = {} if serr == "-" else {vf.unhex(x.rsplit(":", 1)[0]).decode(): int(x.rsplit(":", 1)[1]) for x in serr.split(",")}
            got = {k2: int(v) for k2, v in w.items()}
            if ticks is not None:
                want.update(samples=acc["samples"], tag_errors=acc["tag_errors"], tags=acc["tags"])
                if got_serr != acc["serr"]:
                    return (k, "the binary's sample-error counters differ from the line model's", repr(got_serr), repr(acc["serr"]))
            else:
                for k2 in ("samples", "tag_errors", "tags"):
                    got.pop(k2, None)
            if got != want:
                return (k, "the binary's listener / reload counters differ from what was sent", repr(got), repr(want))
    return None


def replay_case(rep, pid, path):
    """re-run one end-to-end case from the replay file of an earlier violation; True when the file is such a case"""
    import json
    rp = json.load(open(path))
    if "transport" not in rp or "ops" not in rp or any(o.startswith("...") for o in rp["ops"]):
        return False
    cfgs = [None if n_ is None else (None, [None] * n_) for n_ in rp.get("rules_per_config", [])]
    case = (rp["flags"], tuple(rp["cache"]), rp["transport"], rp["ops"], cfgs, (rp.get("reload_by") if str(rp.get("reload_by", "")).startswith(("inplace", "debuglog")) else rp.get("reload_by") == "SIGHUP"), rp.get("e2e_ops"))
    run(rep, pid, "quick", rep.seed, key="e2e_replay", cases=[case])
    return True


def run(rep, pid, tier, seed, n_quick=24, n_thorough=600, gen=None, key="e2e", cases=None):
    ok, out = build_binary()
    if not ok:
        rep.violation("the statsd_exporter binary does not build from /repo", dict(log=out[-3000:]), no_input=True)
        return
    rnd = random.Random(seed * 7919 + 17)
    n = n_quick if tier == "quick" else n_thorough
    cases = cases if cases is not None else [(gen or gen_case)(rnd) for _ in range(n)]
    cases = [tuple(c) + ((None,) if len(c) == 6 else ()) for c in cases]
    lines = [PE.case_line(fl, c[0], c[1], ops) for fl, c, tr, ops, _, _, _ in cases]
    impl, model = PE.run_cases(pid, lines, tag=key)
    e2e_lines = [" | ".join([f"{fl} {c[0]} {c[1]} {tr}" + ((" " + hup) if isinstance(hup, str) else (" sighup" if hup else ""))] + (eops or ops)) for fl, c, tr, ops, _, hup, eops in cases]
    obs = run_e2e(pid, e2e_lines, par=(16 if gen is gen_ttl_case else None), tag=key)
    # what the parser's own counters must show: the line model, per sent line
    pairs = [(fl, vf.unhex(o[2:])) for fl, c, tr, ops, _, _, _ in cases for o in ops if o.startswith("I ")]
    _, lmodel = LE.run_cases(pid, pairs, tag=key + "_lines")
    parsed = [LE.parse_obs(x) for x in lmodel]
    per_case, pos = [], 0
    for fl, c, tr, ops, _, _, _ in cases:
        n_i = sum(1 for o in ops if o.startswith("I "))
        per_case.append(parsed[pos:pos + n_i])
        pos += n_i
    nbad = nretry = 0
    transports = {}
    for k, case in enumerate(cases):
        if nbad >= 3:
            break                                   # enough confirmed disagreements: the re-runs are slow
        transports[case[2]] = transports.get(case[2], 0) + 1
        rep.count(len(case[3]))
        d = compare_case(case, obs[k], model[k], per_case[k])
        for settle in (700, 2000):
            if d is None:
                break
            # rule out scheduling noise: the case again, alone, with a long settle time (a real divergence is deterministic)
            nretry += 1
            again = run_e2e(pid, [e2e_lines[k]], settle_ms=settle, par=1, tag=key + "_retry")[0]
            d = compare_case(case, again, model[k], per_case[k])
        if d is not None:
            nbad += 1
            fl, c, tr, ops, _, hup, eops = case
            if len(ops) > 200:
                ops = ops[:3] + ["... %d more ..." % (len(ops) - 6)] + ops[-3:]
            if len(rep.violations) < 5:
                rep.violation("end to end (binary over %s): %s" % (tr, d[1]),
                              dict(flags=fl, cache=list(c), transport=tr, reload_by=(hup if isinstance(hup, str) else ("SIGHUP" if hup else "/-/reload")), ops=ops, e2e_ops=(eops if eops and len(eops) < 50 else None),
                                   rules_per_config=[None if c_ is None else len(c_[1]) for c_ in case[4]], op_index=d[0], observed=d[2], predicted=d[3],
                                   readable=[("I " + repr(vf.unhex(o[2:]))[1:]) if o.startswith("I ") else o[:1] for o in ops],
                                   how_to_replay="bin/check <ID> --replay <this file> re-runs the case against the binary built from /repo (harness/cmd/hx/e2e.go starts it, sends the lines, scrapes /metrics)"))
        else:
            g = [o for o in obs[k] if o.startswith("G ok")]
            if g and len(PE.parse_gather(split_w(g[-1])[0])["families"]) >= 2:
                rep.nontrivial(("e2e", tuple(case[3])))
    rep.extra[key + "_cases"] = len(cases)
    rep.extra[key + "_transports"] = transports
    rep.extra[key + "_disagreements"] = nbad
    rep.extra[key + "_reruns_for_timing"] = nretry
    rep.sample(dict(e2e=dict(flags=cases[0][0], cache=list(cases[0][1]), transport=cases[0][2], observed=[x[:200] for x in obs[0][:6]])))


def check_configs(rep, pid, items, limit):
    """items: [(yaml hex, loaded by the library?, readable yaml)]: `statsd_exporter --check-config` must exit 0 exactly for those that load"""
    ok, out = build_binary()
    if not ok:
        rep.violation("the statsd_exporter binary does not build from /repo", dict(log=out[-3000:]), no_input=True)
        return
    items = items[:limit]
    obs = run_e2e(pid, ["K " + h for h, _, _ in items], par=12, tag="checkconfig")
    bad = 0
    for (h, loaded, text), o in zip(items, obs):
        if (o[0] == "K ok") != loaded:
            bad += 1
            if len(rep.violations) < 5:
                rep.violation("--check-config %s a configuration that the mapper %s" % (("accepts", "rejects") if o[0] == "K ok" else ("rejects", "loads")),
                              dict(yaml=text, check_config=o[0]))
    rep.extra["check_config_runs"] = len(items)
    rep.extra["check_config_disagreements"] = bad
    big = [(65, 1), (65, 0), (17, 1), (2, 1)] if limit < 1000 else [(65, 1), (65, 0), (17, 1), (2, 1), (129, 1), (257, 1), (33, 0)]
    for (mib, invalid), o in zip(big, run_e2e(pid, ["KB %d %d" % b for b in big], par=2, tag="checkconfig_big")):
        rep.count(1)
        if o[0] != "KB exit=%d" % (1 if invalid else 0):
            rep.violation("--check-config gives the wrong verdict on a very long mapping file (%s)" % ("an invalid last rule goes unnoticed" if invalid else "a valid file is rejected"),
                          dict(file_size_MiB=mib, last_rule="observer_type: nonsense" if invalid else "valid", observed=o[0],
                               how="one good rule, 1 KiB comment lines up to the size, then the last rule; statsd_exporter --check-config"))
    rep.extra["check_config_big_files_MiB"] = [b[0] for b in big]


def gen_stream(rnd):
    pieces = [b"a:1|c", b"b:2|g", b"", b"x", b"caf\xc3\xa9:1|c", b"k\r", b"\r", b"t:1|c|#a:b"]
    eol = rnd.choice([b"\n", b"\n", b"\r\n"])
    lines = []
    for _ in range(rnd.randint(1, 12)):
        r = rnd.random()
        if r < 0.12:
            lines.append(b"z" * rnd.choice([4094, 4095, 4096, 4097, 5000, 9000]))
        else:
            lines.append(rnd.choice(pieces))
    p = eol.join(lines)
    if rnd.random() < 0.5:
        p += eol
    return p


def run_listener_scenarios(rep, pid, tier, seed):
    """C18 end to end: (1) a UDP burst against a tiny packet queue - every datagram is processed or counted as dropped;
    (2) the relay on every transport - each non-empty line of a payload is relayed exactly once, in order."""
    ok, out = build_binary()
    if not ok:
        rep.violation("the statsd_exporter binary does not build from /repo", dict(log=out[-3000:]), no_input=True)
        return
    rnd = random.Random(seed * 31 + 5)
    bursts = [(rnd.choice([0, 1, 2, 4]), rnd.choice([200, 400]), rnd.choice([500, 2000, 4000])) for _ in range(3 if tier == "quick" else 24)]
    payloads = [b"zza:1|c\nzzb:2|g\n\nzzc:3|ms", b"one:1|c", b"p:1|c\r\nq:2|c\n", b"\nlead:1|c\ntail:2|g|#k:v\n\n"]
    payloads.append(b"\n".join(b"m%d:%d|c" % (k, k) for k in range(40)))          # fills several packets of a small packet length
    relays = [(tr, rnd.choice(payloads), None) for tr in ("udp", "tcp", "unixgram")] if tier == "quick" else [(tr, p_, None) for tr in ("udp", "tcp", "unixgram") for p_ in payloads]
    relays += [(tr, payloads[-1], rnd.choice([16, 23, 40, 64])) for tr in (("udp",) if tier == "quick" else ("udp", "tcp", "unixgram", "udp"))]
    streams = [gen_stream(rnd) for _ in range(6 if tier == "quick" else 200)]
    streams = [x for x in streams if x]
    # some senders pause in the middle of the stream (mostly mid-line): segmentation in time must not change the framing
    stalls = {}
    pauses = [1200, 2500] if tier == "quick" else [1200, 2500, 5000, 11000, 31000, 65000, 125000]
    for ms in pauses:
        k = rnd.randrange(len(streams))
        while k in stalls:
            k = rnd.randrange(len(streams))
        stalls[k] = (rnd.randrange(1, len(streams[k])) if len(streams[k]) > 1 else 1, ms)
    def fcase(k, x):
        if k in stalls:
            cut, ms = stalls[k]
            return "F %s %s %d" % (vf.hexs(x[:cut]), vf.hexs(x[cut:]) or "-", ms)
        return "F " + vf.hexs(x)
    cases = ["B %d %d %d" % b for b in bursts] + ["R %s %s%s" % (tr, vf.hexs(p_), "" if pl is None else " %d" % pl) for tr, p_, pl in relays] + [fcase(k, x) for k, x in enumerate(streams)]
    obs = run_e2e(pid, cases, par=8, tag="listener_e2e")
    # TCP framing: what the listener model says about each stream
    d = vf.tmpdir(pid)
    vf.write_lines(f"{d}/tcp_e2e.cases", ["T %s 1 0" % vf.hexs(x) for x in streams])
    tmodel = vf.run_model("listener", f"{d}/tcp_e2e.cases")
    for k, (x, o, m) in enumerate(zip(streams, obs[len(bursts) + len(relays):], tmodel)):
        rep.count(1)
        o = o[0]
        if not o.startswith("F lines="):
            rep.violation("end to end TCP framing scenario could not be run", dict(observed=o), no_input=True); continue
        f = {k: int(v) for k, v in (y.split("=") for y in o.split()[1:])}
        mm = dict(y.split("=", 1) for y in m.split())
        want = dict(lines=int(mm["L"]), toolong=int(mm["toolong"]), conns=1, errors=0)
        if int(mm["toolong"]):
            rep.nontrivial(("tcp-too-long", x[:40]))
        if f != want:
            rep.violation("end to end: the binary's TCP listener counts lines / over-long lines / connections differently from the listener model",
                          dict(stream=repr(x[:300]) + ("..." if len(x) > 300 else ""), stream_hex=vf.hexs(x), observed=f, predicted=want,
                               sender_pause=None if k not in stalls else dict(after_bytes=stalls[k][0], milliseconds=stalls[k][1]),
                               how="statsd_exporter --statsd.listen-tcp, the stream written on one connection which is then closed"))
    rep.extra["e2e_tcp_streams"] = len(streams)
    rep.extra["e2e_tcp_sender_pauses_ms"] = sorted(ms for _, ms in stalls.values())
    overflowed = 0
    for b, o in zip(bursts, obs):
        o = o[0]
        rep.count(1)
        if not o.startswith("B sent="):
            rep.violation("end to end UDP burst could not be run", dict(case="B %d %d %d" % b, observed=o), no_input=True); continue
        f = {k: int(v) for k, v in (x.split("=") for x in o.split()[1:])}
        payload = dict(queue_size=b[0], datagrams=b[1], lines_per_datagram=b[2], observed=f,
                       how="statsd_exporter --statsd.udp-packet-queue-size=%d, %d datagrams of %d 'zzburst:1|c' lines sent back to back over UDP" % b)
        if f["drops"]:
            overflowed += 1
            rep.nontrivial(("burst", b))
        if f["packets"] > f["sent"]:
            rep.violation("end to end: more UDP packets counted than were sent", payload)
        elif f["lines"] % f["per"] or f["packets"] != f["lines"] // f["per"] + f["drops"]:
            rep.violation("end to end: a UDP datagram was neither processed nor counted as dropped (packets != processed + drops)", payload)
        elif f["counter"] != f["lines"]:
            rep.violation("end to end: lines of processed datagrams were lost or parsed twice (counter != lines received)", payload)
    for (tr, p_, pl), o in zip(relays, obs[len(bursts):]):
        o = o[0]
        rep.count(1)
        if not o.startswith("R relayed="):
            rep.violation("end to end relay scenario could not be run", dict(transport=tr, observed=o), no_input=True); continue
        f = dict(x.split("=") for x in o.split()[1:])
        got = [] if f["relayed"] == "-" else [vf.unhex(x) for x in f["relayed"].split(",")]
        if tr == "tcp":
            want = [l[:-1] if l.endswith(b"\r") else l for l in (p_ + b"\n").split(b"\n")[:-1]]
        else:
            want = p_.split(b"\n")
        want = [l for l in want if l]
        nlong = 0
        if pl is not None:
            nlong = sum(1 for l in want if len(l) > pl - 1)
            want = [l for l in want if len(l) <= pl - 1]
        rep.nontrivial(("relay", tr, p_, pl))
        dg = [] if f.get("dgrams", "-") == "-" else [vf.unhex(x) for x in f["dgrams"].split(",")]
        if pl is not None and (any(len(x) > pl for x in dg) or any(not x.endswith(b"\n") for x in dg) or int(f.get("long", 0)) != nlong):
            rep.violation("end to end: a relayed datagram exceeds --statsd.relay.packet-length, splits a line, or over-long lines are miscounted",
                          dict(transport=tr, packet_length=pl, datagram_sizes=[len(x) for x in dg], long_counter=f.get("long"), expected_long=nlong))
        elif got != want or int(f["relayed_total"]) != len(want):
            rep.violation("end to end: lines received over %s are not relayed exactly once, in order" % tr,
                          dict(transport=tr, payload=repr(p_), relayed=[repr(x) for x in got], expected=[repr(x) for x in want], relay_counter=f["relayed_total"],
                               how="statsd_exporter --statsd.relay.address=<local sink>, payload sent once over %s, sink read for 2.5 s" % tr))
    rep.extra["e2e_bursts"] = len(bursts)
    rep.extra["e2e_bursts_that_overflowed"] = overflowed
    rep.extra["e2e_relay_runs"] = len(relays)


def run_liveness(rep, pid, items, limit, seed):
    """C19 end to end: the binary is started with each configuration the library loads, fed lines that hit its rules,
    scraped, reloaded with the same file (by /-/reload or SIGHUP) and scraped again: it must stay up, every scrape
    must succeed and the reload must be counted as successful.  items: [(load op, [lines], readable yaml)]"""
    ok, out = build_binary()
    if not ok:
        rep.violation("the statsd_exporter binary does not build from /repo", dict(log=out[-3000:]), no_input=True)
        return
    rnd = random.Random(seed * 131 + 7)
    items = items[:limit]
    cases, meta = [], []
    for item in items:
        lop, lines, text = item[:3]
        tr, hup = rnd.choice(["tcp", "udp", "unixgram"]), rnd.random() < 0.5
        ops = [lop] + [PE.I(l) for l in lines if b"\n" not in l][:25] + ["G", lop, "G"]
        cases.append(" | ".join([f"15 none 0 {tr}" + (" sighup" if hup else "")] + ops))
        meta.append((tr, hup, text, ops, item[3] if len(item) > 3 else None))
    obs = run_e2e(pid, cases, par=8, tag="liveness")
    bad = 0
    for (tr, hup, text, ops, kf), o in zip(meta, obs):
        rep.count(len(ops))
        what = None
        if o and o[0] == "L err exit":
            what = "the binary refuses to start with (or dies at once on) a configuration that the mapper loads and --check-config accepts"
        elif len(o) != len(ops) or any(x.startswith(("START-FAILED", "I fail", "G fail", "L fail", "L ?")) for x in o):
            what = "the binary stopped answering while running a configuration that loads"
        elif not o[-1].startswith("G ok") or not [x for x in o if x.startswith("G")][0].startswith("G ok"):
            what = "a scrape of the binary fails under a configuration that loads"
        elif not [x for x in o if x.startswith("L ")][-1].startswith("L ok"):
            what = "reloading the file the binary was started with is not counted as a successful reload"
        if what and kf and rep.known(kf):
            continue
        if what:
            bad += 1
            if len(rep.violations) < 5:
                rep.violation("end to end: " + what, dict(yaml=text, transport=tr, reload_by=("SIGHUP" if hup else "/-/reload"),
                                                          observed=[x[:300] for x in o[-6:]], lines=[repr(vf.unhex(x[2:])) for x in ops if x.startswith("I ")][:25]))
    rep.extra["e2e_liveness_runs"] = len(items)
    rep.extra["e2e_liveness_failures"] = bad


def run_relay_latency(rep, pid):
    """C17's real-time clause against the built binary: a buffered line leaves at the relay's next one-second tick"""
    ok, out = build_binary()
    if not ok:
        rep.violation("the statsd_exporter binary does not build from /repo", dict(log=out[-3000:]), no_input=True)
        return
    lat = run_e2e(pid, ["RT 7 300"], par=1, tag="relay_latency")[0][0]
    rep.count(1)
    if not lat.startswith("RT latencies_ms="):
        rep.violation("end to end relay latency scenario could not be run", dict(observed=lat), no_input=True)
        return
    ms = [int(x) for x in lat.split("=")[1].split(",")]
    rep.extra["e2e_relay_latencies_ms"] = ms
    if any(x < 0 for x in ms) or max(ms) > 1500:
        rep.violation("end to end: a buffered line is not forwarded at the relay's next one-second tick",
                      dict(latencies_ms=ms, how="statsd_exporter --statsd.relay.address=<local sink>; 7 lines sent 300 ms apart over UDP; each must arrive within a second "
                                           "(1.5 s allowed); -1 = never arrived within 2.5 s of the last send"))


def run_tcp_pauses(rep, pid, seed, pauses):
    """TCP streams whose sender falls silent in the middle (mostly mid-line) for each of the given numbers of milliseconds:
    the lines the binary counts must be the listener model's.  True when a violation was reported."""
    ok, out = build_binary()
    if not ok:
        return False
    rnd = random.Random(seed * 131 + 7)
    streams = []
    while len(streams) < len(pauses):
        x = gen_stream(rnd)
        if len(x) > 1 and len(x) < 3000:
            streams.append(x)
    cuts = [rnd.randrange(1, len(x)) for x in streams]
    cases = ["F %s %s %d" % (vf.hexs(x[:c]), vf.hexs(x[c:]), ms) for x, c, ms in zip(streams, cuts, pauses)]
    obs = run_e2e(pid, cases, par=len(cases), tag="tcp_pauses")
    d = vf.tmpdir(pid)
    vf.write_lines(f"{d}/tcp_pauses.cases", ["T %s 1 0" % vf.hexs(x) for x in streams])
    tmodel = vf.run_model("listener", f"{d}/tcp_pauses.cases")
    bad = False
    for x, c, ms, o, m in zip(streams, cuts, pauses, obs, tmodel):
        rep.count(1)
        o = o[0]
        if not o.startswith("F lines="):
            continue
        f = {k: int(v) for k, v in (y.split("=") for y in o.split()[1:])}
        mm = dict(y.split("=", 1) for y in m.split())
        want = dict(lines=int(mm["L"]), toolong=int(mm["toolong"]), conns=1, errors=0)
        if f != want:
            bad = True
            rep.violation("end to end: a TCP sender that pauses in the middle of its stream has its lines framed differently (lines lost, cut in two, or the connection closed)",
                          dict(stream=repr(x[:300]), stream_hex=vf.hexs(x), sender_pause=dict(after_bytes=c, milliseconds=ms), observed=f, predicted=want,
                               how="statsd_exporter --statsd.listen-tcp; the first part of the stream, the pause, the rest, then the connection is closed"))
    rep.extra["tcp_pause_search_ms"] = list(pauses)
    return bad


def run_tcp_concurrent(rep, pid, tier, seed):
    """C18 end to end: many TCP connections at once, each with its own lines in random segments; some send an over-long line
    half-way (that connection is closed, and only that one).  Per connection the listener model says how many lines arrive."""
    ok, out = build_binary()
    if not ok:
        return
    rnd = random.Random(seed * 77 + 3)
    scen = [(40, 30, 7), (rnd.choice([200, 300]), 8, 0)] if tier == "quick" else \
           [(40, 30, 7), (300, 8, 0), (600, 6, 5), (100, 200, 3), (1000, 3, 0), (50, 1000, 9)]
    cases = ["CT %d %d %d %d" % (n, k, ev, rnd.randrange(1000)) for n, k, ev in scen]
    obs = run_e2e(pid, cases, par=2, tag="tcp_concurrent")
    d = vf.tmpdir(pid)
    for (n, k, ev), c, o in zip(scen, cases, obs):
        rep.count(n)
        o = o[0]
        streams = []
        for i in range(n):
            p = b""
            for j in range(k):
                if ev > 0 and i % ev == 0 and j == k // 2:
                    p += b"z" * 5000 + b"\n"
                p += b"ct%d:1|c\n" % i
            streams.append(p)
        # the model, once per shape of stream (offender / not)
        shapes = [streams[0]] + ([streams[1]] if ev and n > 1 else [])
        vf.write_lines(f"{d}/tcp_conc.cases", ["T %s 1 0" % vf.hexs(x) for x in shapes])
        ms = [dict(y.split("=", 1) for y in m.split()) for m in vf.run_model("listener", f"{d}/tcp_conc.cases")]
        def pred(i):
            m = ms[0] if (not ev or i % ev == 0) else ms[1]
            return int(m["L"]), int(m["toolong"])
        want_per = [pred(i)[0] for i in range(n)]
        want = dict(lines=sum(want_per), toolong=sum(pred(i)[1] for i in range(n)), conns=n, errors=0)
        if not o.startswith("CT lines="):
            rep.violation("end to end scenario with concurrent TCP connections could not be run", dict(case=c, observed=o), no_input=True); continue
        f = dict(y.split("=", 1) for y in o.split()[1:])
        got = dict(lines=int(f["lines"]), toolong=int(f["toolong"]), conns=int(f["conns"]), errors=int(f["errors"]))
        per = [int(x) for x in f["per"].split(",")]
        if ev:
            rep.nontrivial(("tcp-concurrent", c))
        if got != want or per != want_per:
            bad = [(i, per[i], want_per[i]) for i in range(n) if per[i] != want_per[i]][:10]
            rep.violation("end to end: with many TCP connections at once, lines are lost, doubled or attributed wrongly, or an over-long line on one connection affects another",
                          dict(connections=n, lines_per_connection=k, every_kth_connection_sends_5000_byte_line=ev, observed=got, predicted=want,
                               connections_that_differ=[dict(connection=i, lines_arrived=a, predicted=b) for i, a, b in bad],
                               how="statsd_exporter --statsd.listen-tcp; connection i writes k lines 'ct<i>:1|c' in random segments of 1-40 bytes; offenders insert one 5000-byte line half-way"))
    rep.extra["e2e_tcp_concurrent_scenarios"] = scen
