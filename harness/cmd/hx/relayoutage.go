package main

import (
	"fmt"
	"net"
	"strconv"
	"strings"
	"time"

	"github.com/prometheus/common/promslog"

	"github.com/prometheus/statsd_exporter/pkg/clock"
	"github.com/prometheus/statsd_exporter/pkg/relay"
)

func init() { engines["relayoutage"] = engineRelayOutage }

// The relay target goes away and comes back (a restart of the downstream statsd): what is flushed while it is down is
// lost on the wire - UDP - but every line flushed while it is up must arrive, exactly once, also right after an outage.
// case "<packet length> <outages> <lines per phase>": phases up, down, up, down, ..., up; in every phase the given number
// of lines, each followed by a tick.  Output: per up-phase line, how many datagrams carried it.
func relayOutageCase(c string) string {
	f := strings.Fields(c)
	plen, _ := strconv.ParseUint(f[0], 10, 64)
	outages, _ := strconv.Atoi(f[1])
	per, _ := strconv.Atoi(f[2])
	recv, err := net.ListenUDP("udp", &net.UDPAddr{IP: net.IPv4(127, 0, 0, 1)})
	if err != nil {
		return "ERR listen " + err.Error()
	}
	addr := recv.LocalAddr().(*net.UDPAddr)
	clk := &clock.Clock{Instant: time.Unix(0, 0), TickerCh: make(chan time.Time)}
	clock.ClockInstance = clk
	r, err := relay.NewRelay(promslog.NewNopLogger(), addr.String(), uint(plen))
	if err != nil {
		recv.Close()
		return "ERR relay " + err.Error()
	}
	tick := func() bool {
		select {
		case clk.TickerCh <- time.Unix(0, 0):
			return true
		case <-time.After(3 * time.Second):
			return false
		}
	}
	got := map[string]int{}
	drain := func() {
		buf := make([]byte, 65536)
		for {
			recv.SetReadDeadline(time.Now().Add(5 * time.Millisecond))
			n, _, err := recv.ReadFromUDP(buf)
			if err != nil {
				return
			}
			for _, l := range strings.Split(string(buf[:n]), "\n") {
				if l != "" {
					got[l]++
				}
			}
		}
	}
	var want []string
	note := ""
	for phase := 0; phase <= 2*outages && note == ""; phase++ {
		up := phase%2 == 0
		if !up {
			recv.Close()
		} else if phase > 0 {
			recv, err = net.ListenUDP("udp", addr)
			if err != nil {
				return "SKIP port taken " + err.Error() // another process took the port meanwhile: nothing can be said
			}
		}
		for k := 0; k < per; k++ {
			l := fmt.Sprintf("p%dl%d:1|c", phase, k)
			if up {
				want = append(want, l)
			}
			r.RelayLine(l)
			deadline := time.Now().Add(3 * time.Second)
			for r.VerifPending() > 0 && time.Now().Before(deadline) {
				time.Sleep(20 * time.Microsecond)
			}
			// two ticks: the second is accepted only after the first was processed completely
			if !tick() || !tick() {
				note = "SENDER-DEAD"
				break
			}
			time.Sleep(2 * time.Millisecond) // lets the kernel deliver an ICMP error for a datagram sent to the closed port
		}
		if up {
			drain()
		}
	}
	recv.Close()
	var parts []string
	for _, l := range want {
		parts = append(parts, fmt.Sprintf("%s=%d", l, got[l]))
	}
	if note == "" {
		note = "-"
	}
	return "arrived " + strings.Join(parts, ",") + " notes=" + note
}

func engineRelayOutage(cases string) {
	eachLine(cases, func(c string) { fmt.Fprintln(out, relayOutageCase(c)) })
}
