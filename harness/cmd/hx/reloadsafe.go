package main

import (
	"fmt"
	"strconv"
	"strings"
	"sync"
	"sync/atomic"
	"time"

	"github.com/prometheus/client_golang/prometheus"
	"github.com/prometheus/common/promslog"

	"github.com/prometheus/statsd_exporter/pkg/event"
	"github.com/prometheus/statsd_exporter/pkg/exporter"
	"github.com/prometheus/statsd_exporter/pkg/line"
)

func init() { engines["reloadsafe"] = engineReloadSafe }

// Two configurations that load, differing in what the defaults make of a timer. While a reloader alternates between
// them as fast as it can (what SIGHUP / POST /-/reload do on the live mapper), the exporter goroutine processes timers
// carrying the labels the client library reserves ("le" on histograms, "quantile" on summaries).  Whatever the
// interleaving, each event is judged against ONE configuration: it is either dropped as reserved_label or observed;
// the exporter goroutine never panics.
const safeCfgA = `
defaults:
  observer_type: summary
  summary_options:
    age_buckets: 1
    buf_cap: 16
mappings:
- match: "rs.mapped.*"
  name: "rs_mapped"
  labels: {hh: "$1"}
`
const safeCfgB = `
defaults:
  observer_type: histogram
  histogram_options:
    buckets: [0.01, 0.1, 1]
mappings:
- match: "rs.mapped.*"
  name: "rs_mapped"
  labels: {hh: "$1"}
`

// case "<millis> <batch>"
func reloadSafeCase(c string) string {
	f := strings.Fields(c)
	ms, _ := strconv.Atoi(f[0])
	batch, _ := strconv.Atoi(f[1])
	m := newMapper("none", 0)
	if err := m.InitFromYAMLString(safeCfgA); err != nil {
		return "ERR " + err.Error()
	}
	var stop atomic.Bool
	var reloads atomic.Int64
	var wg sync.WaitGroup
	wg.Add(1)
	go func() {
		defer wg.Done()
		for !stop.Load() {
			for _, cfg := range []string{safeCfgB, safeCfgA} {
				if err := m.InitFromYAMLString(cfg); err != nil {
					return
				}
				reloads.Add(1)
			}
		}
	}()
	mk := func(n string, l ...string) *prometheus.CounterVec {
		return prometheus.NewCounterVec(prometheus.CounterOpts{Name: n}, l)
	}
	p := line.NewParser()
	p.EnableDogstatsdParsing()
	se := mk("se", "reason")
	cn := prometheus.NewCounter(prometheus.CounterOpts{Name: "x"})
	deadline := time.Now().Add(time.Duration(ms) * time.Millisecond)
	events, panics, first := 0, 0, ""
	for time.Now().Before(deadline) && panics == 0 {
		reg := prometheus.NewRegistry()
		ex := exporter.NewExporter(reg, m, promslog.NewNopLogger(), mk("a", "action"), prometheus.NewCounter(prometheus.CounterOpts{Name: "u"}),
			mk("e", "reason"), mk("s", "type"), mk("c", "type", "metric_name"), prometheus.NewGaugeVec(prometheus.GaugeOpts{Name: "m"}, []string{"type"}))
		var evs event.Events
		for i := 0; i < batch; i++ {
			tag := "le"
			if i%2 == 1 {
				tag = "quantile"
			}
			evs = append(evs, p.LineToEvents(fmt.Sprintf("rs.t%d:12|ms|#%s:0.5", events+i, tag), *se, cn, cn, cn, promslog.NewNopLogger())...)
		}
		ch := make(chan event.Events, 1)
		ch <- evs
		close(ch)
		func() {
			defer func() {
				if r := recover(); r != nil {
					panics++
					first = strings.ReplaceAll(fmt.Sprint(r), "\n", "/")
				}
			}()
			ex.Listen(ch)
		}()
		events += len(evs)
	}
	stop.Store(true)
	wg.Wait()
	if len(first) > 200 {
		first = first[:200]
	}
	return fmt.Sprintf("events=%d reloads=%d panics=%d first=%q", events, reloads.Load(), panics, first)
}

func engineReloadSafe(cases string) {
	eachLine(cases, func(c string) { fmt.Fprintln(out, reloadSafeCase(c)) })
}
