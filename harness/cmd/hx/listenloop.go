package main

// listenloop engine: Exporter.Listen's own select loop (events channel + one-second sweep ticker) with a BACKLOG of
// event batches waiting when the sweep tick arrives.  Case: "<k>" = number of batches pre-loaded into the (buffered)
// events channel.  A series whose ttl elapsed long ago must be gone once the tick has been taken and the backlog
// drained, whatever order the select chose; every backlog event must have been applied.

import (
	"fmt"
	"strconv"
	"strings"
	"time"

	"github.com/prometheus/common/promslog"

	"github.com/prometheus/statsd_exporter/pkg/clock"
	"github.com/prometheus/statsd_exporter/pkg/event"
)

func init() { engines["listenloop"] = engineListenLoop }

func listenLoopCase(c string) (res string) {
	defer func() {
		if r := recover(); r != nil {
			res = fmt.Sprintf("PANIC %v", r)
		}
	}()
	k, _ := strconv.Atoi(strings.Fields(c)[0])
	clk := &clock.Clock{Instant: time.Unix(1700000000, 0), TickerCh: make(chan time.Time)}
	clock.ClockInstance = clk
	defer func() { clock.ClockInstance = nil }()
	p := newPipe(15, "none", 0)
	if err := p.m.InitFromYAMLString("defaults:\n  ttl: 1s\n"); err != nil {
		return "ERR " + err.Error()
	}
	p.input("stale:7|g")
	clk.Instant = clk.Instant.Add(10 * time.Second)
	ch := make(chan event.Events, k+1)
	for i := 0; i < k; i++ {
		ch <- newParser(15).LineToEvents(fmt.Sprintf("busy%d:1|c", i), *p.sampleErrors, p.samples, p.tagErrors, p.tagsRecv, promslog.NewNopLogger())
	}
	tickTaken := make(chan struct{})
	go func() { clk.TickerCh <- clk.Instant; close(tickTaken) }()
	done := make(chan struct{})
	go func() { p.ex.Listen(ch); close(done) }()
	select {
	case <-tickTaken:
	case <-time.After(10 * time.Second):
		return "TICK-NOT-TAKEN"
	}
	close(ch)
	select {
	case <-done:
	case <-time.After(10 * time.Second):
		return "LISTEN-DID-NOT-RETURN"
	}
	mfs, err := p.reg.Gather()
	if err != nil {
		return "GATHER-ERR " + strings.ReplaceAll(err.Error(), " ", "_")
	}
	stale, busy := 0, 0
	for _, mf := range mfs {
		if mf.GetName() == "stale" {
			stale = len(mf.Metric)
		}
		if strings.HasPrefix(mf.GetName(), "busy") {
			busy++
		}
	}
	return fmt.Sprintf("stale=%d busy=%d", stale, busy)
}

func engineListenLoop(cases string) {
	eachLine(cases, func(c string) { fmt.Fprintln(out, listenLoopCase(c)) })
}
