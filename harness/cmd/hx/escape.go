package main

import (
	"fmt"

	"github.com/prometheus/statsd_exporter/pkg/mapper"
)

func init() { engines["escape"] = engineEscape }

func escapeOne(s string) (res string) {
	defer func() {
		if r := recover(); r != nil {
			res = "PANIC"
		}
	}()
	return "OK " + hx(mapper.EscapeMetricName(s))
}

func engineEscape(cases string) {
	eachLine(cases, func(line string) {
		fmt.Fprintln(out, escapeOne(unhex(line)))
	})
}
