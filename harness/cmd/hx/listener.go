package main

import (
	"fmt"
	"log/slog"
	"math/rand"
	"net"
	"strconv"
	"strings"
	"time"

	"github.com/prometheus/client_golang/prometheus"
	"github.com/prometheus/common/promslog"

	"github.com/prometheus/statsd_exporter/pkg/clock"
	"github.com/prometheus/statsd_exporter/pkg/event"
	"github.com/prometheus/statsd_exporter/pkg/listener"
	"github.com/prometheus/statsd_exporter/pkg/relay"
)

func init() { engines["listener"] = engineListener }

// recParser records every line it is asked to parse and returns one event named after the line
type recParser struct{ lines []string }

func (p *recParser) LineToEvents(line string, _ prometheus.CounterVec, _ prometheus.Counter, _ prometheus.Counter, _ prometheus.Counter, _ *slog.Logger) event.Events {
	p.lines = append(p.lines, line)
	if line == "" {
		return event.Events{}
	}
	return event.Events{&event.CounterEvent{CMetricName: line, CValue: 1}}
}

type recHandler struct{ calls []string }

func (h *recHandler) Queue(evs event.Events) {
	names := make([]string, len(evs))
	for i, e := range evs {
		names[i] = hx(e.MetricName())
	}
	if len(names) == 0 {
		h.calls = append(h.calls, "e")
	} else {
		h.calls = append(h.calls, strings.Join(names, "+"))
	}
}

type counters struct {
	lines, udp, drops, conns, tcpErr, tooLong, unixgram prometheus.Counter
}

func newCounters() *counters {
	mk := func(n string) prometheus.Counter { return prometheus.NewCounter(prometheus.CounterOpts{Name: n}) }
	return &counters{mk("l"), mk("u"), mk("d"), mk("c"), mk("e"), mk("t"), mk("x")}
}

func hexList(l []string) string {
	if len(l) == 0 {
		return "none"
	}
	out := make([]string, len(l))
	for i, s := range l {
		out[i] = hx(s)
	}
	return strings.Join(out, ",")
}

// a relay whose datagrams we can read back: returns (relay, function that flushes and returns the relayed lines)
func observedRelay() (*relay.Relay, func() string) {
	recv, err := net.ListenUDP("udp", &net.UDPAddr{IP: net.IPv4(127, 0, 0, 1)})
	if err != nil {
		return nil, func() string { return "ERR" }
	}
	recv.SetReadBuffer(8 << 20)
	clk := &clock.Clock{Instant: time.Unix(0, 0), TickerCh: make(chan time.Time)}
	clock.ClockInstance = clk
	r, err := relay.NewRelay(promslog.NewNopLogger(), recv.LocalAddr().String(), 60000)
	if err != nil {
		return nil, func() string { return "ERR" }
	}
	return r, func() string {
		defer recv.Close()
		deadline := time.Now().Add(3 * time.Second)
		for r.VerifPending() > 0 && time.Now().Before(deadline) {
			time.Sleep(20 * time.Microsecond)
		}
		for k := 0; k < 2; k++ {
			select {
			case clk.TickerCh <- time.Unix(0, 0):
			case <-time.After(3 * time.Second):
				return "SENDER-DEAD"
			}
		}
		var all []byte
		buf := make([]byte, 65536)
		for {
			recv.SetReadDeadline(time.Now().Add(3 * time.Millisecond))
			n, _, err := recv.ReadFromUDP(buf)
			if err != nil {
				break
			}
			all = append(all, buf[:n]...)
		}
		if len(all) == 0 {
			return "none"
		}
		ls := strings.Split(strings.TrimSuffix(string(all), "\n"), "\n")
		return hexList(ls)
	}
}

func cv(c prometheus.Counter) int { return counterValue(c) }

// case: "<kind> <args...>"
//
//	U <payloadhex> <relay 0/1>           UDP HandlePacket
//	X <payloadhex> <relay 0/1>           Unixgram HandlePacket
//	T <payloadhex> <seed> <relay 0/1>    TCP HandleConn over loopback with random segmentation
//	P <cap> <op,op,...>                  UDP packet queue with a REUSED read buffer: op = R<hex> | D
func listenerCase(c string) string {
	f := strings.Fields(c)
	p := &recParser{}
	h := &recHandler{}
	cs := newCounters()
	logger := promslog.NewNopLogger()
	var rel *relay.Relay
	relayed := func() string { return "off" }
	useRelay := func(flag string) {
		if flag == "1" {
			rel, relayed = observedRelay()
		}
	}
	switch f[0] {
	case "U":
		useRelay(f[2])
		l := &listener.StatsDUDPListener{EventHandler: h, Logger: logger, LineParser: p, UDPPackets: cs.udp, UDPPacketDrops: cs.drops, LinesReceived: cs.lines, Relay: rel}
		l.HandlePacket([]byte(unhex(f[1])))
	case "X":
		useRelay(f[2])
		l := &listener.StatsDUnixgramListener{EventHandler: h, Logger: logger, LineParser: p, UnixgramPackets: cs.unixgram, LinesReceived: cs.lines, Relay: rel}
		l.HandlePacket([]byte(unhex(f[1])))
	case "T":
		useRelay(f[3])
		payload := []byte(unhex(f[1]))
		seed, _ := strconv.Atoi(f[2])
		ln, err := net.ListenTCP("tcp", &net.TCPAddr{IP: net.IPv4(127, 0, 0, 1)})
		if err != nil {
			return "ERR " + err.Error()
		}
		defer ln.Close()
		go func() {
			conn, err := net.DialTCP("tcp", nil, ln.Addr().(*net.TCPAddr))
			if err != nil {
				return
			}
			conn.SetNoDelay(true)
			rnd := rand.New(rand.NewSource(int64(seed)))
			for len(payload) > 0 {
				n := 1 + rnd.Intn(len(payload))
				if rnd.Intn(3) == 0 && n > 7 {
					n = 1 + rnd.Intn(7)
				}
				conn.Write(payload[:n])
				payload = payload[n:]
				if rnd.Intn(4) == 0 {
					time.Sleep(time.Duration(rnd.Intn(300)) * time.Microsecond)
				}
			}
			conn.Close()
		}()
		conn, err := ln.AcceptTCP()
		if err != nil {
			return "ERR " + err.Error()
		}
		l := &listener.StatsDTCPListener{EventHandler: h, Logger: logger, LineParser: p, LinesReceived: cs.lines, TCPConnections: cs.conns, TCPErrors: cs.tcpErr, TCPLineTooLong: cs.tooLong, Relay: rel}
		l.HandleConn(conn)
	case "P":
		capacity, _ := strconv.Atoi(f[1])
		q := make(chan []byte, capacity)
		l := &listener.StatsDUDPListener{EventHandler: h, Logger: logger, LineParser: p, UDPPackets: cs.udp, UDPPacketDrops: cs.drops, LinesReceived: cs.lines, UdpPacketQueue: q}
		buf := make([]byte, 65535) // one read buffer, reused for every datagram, as in Listen()
		for _, op := range strings.Split(f[2], ",") {
			if op == "D" {
				select {
				case pkt := <-q:
					l.HandlePacket(pkt)
				default:
				}
			} else {
				d := unhex(op[1:])
				for i := range buf[:len(d)+8] {
					buf[i] = 0xee
				}
				n := copy(buf, d)
				l.EnqueueUdpPacket(buf, n)
			}
		}
		return fmt.Sprintf("lines=%s calls=%s L=%d udp=%d drops=%d queued=%d", hexList(p.lines), strings.Join(h.calls, ","), cv(cs.lines), cv(cs.udp), cv(cs.drops), len(q))
	}
	calls := "-"
	if len(h.calls) > 0 {
		calls = strings.Join(h.calls, ",")
	}
	return fmt.Sprintf("lines=%s calls=%s L=%d toolong=%d tcperr=%d relayed=%s", hexList(p.lines), calls, cv(cs.lines), cv(cs.tooLong), cv(cs.tcpErr), relayed())
}

func engineListener(cases string) {
	eachLine(cases, func(c string) { fmt.Fprintln(out, listenerCase(c)) })
}
