package main

import (
	"fmt"
	"hash/fnv"
	"regexp"
	"sort"
	"strconv"
	"strings"
	"unicode"

	"github.com/prometheus/common/promslog"

	"github.com/prometheus/statsd_exporter/pkg/mapper"
	"github.com/prometheus/statsd_exporter/pkg/mappercache/lru"
	"github.com/prometheus/statsd_exporter/pkg/mappercache/randomreplacement"
)

func init() { engines["mapper"] = engineMapper }

func errClass(err error) string {
	if err == nil {
		return "ok"
	}
	m := err.Error()
	switch {
	case strings.HasPrefix(m, "invalid label key"):
		return "ELabelKey"
	case strings.Contains(m, "didn't set a metric name"):
		return "ENoName"
	case strings.Contains(m, "doesn't match regex"):
		return "EBadName"
	case strings.HasPrefix(m, "invalid match:"):
		return "EBadMatch"
	case strings.HasPrefix(m, "invalid regex"):
		return "EBadRegex"
	case strings.HasPrefix(m, "cannot use quantiles in both"):
		return "EBothQuantiles"
	case strings.HasPrefix(m, "cannot use buckets in both"):
		return "EBothBuckets"
	case strings.HasPrefix(m, "cannot use histogram observer and summary options"):
		return "EHistWithSummaryOpts"
	case strings.HasPrefix(m, "cannot use summary observer and histogram options"):
		return "ESummWithHistOpts"
	case strings.Contains(m, "histogram buckets must be in increasing order"):
		return "EBadBuckets"
	case strings.Contains(m, "summary quantile"), strings.Contains(m, "summary max_age"):
		return "EBadSummary"
	case strings.HasPrefix(m, "invalid metric type"), strings.HasPrefix(m, "invalid match type"),
		strings.HasPrefix(m, "invalid observer type"), strings.HasPrefix(m, "invalid action type"):
		return "EEnum"
	}
	return "EYaml"
}

func mappingString(m *mapper.MetricMapping, labels map[string]string) string {
	ot := "d"
	switch m.ObserverType {
	case mapper.ObserverTypeHistogram:
		ot = "h"
	case mapper.ObserverTypeSummary:
		ot = "s"
	}
	drop := 0
	if m.Action == mapper.ActionTypeDrop {
		drop = 1
	}
	honor := 0
	if m.HonorLabels {
		honor = 1
	}
	scale := "-"
	if m.Scale.Set {
		scale = fbits(m.Scale.Val)
	}
	hb := "-"
	if m.HistogramOptions != nil {
		var p []string
		for _, b := range m.HistogramOptions.Buckets {
			p = append(p, fbits(b))
		}
		hb = "[" + strings.Join(p, ",") + "]"
	}
	sq := "-"
	if m.SummaryOptions != nil {
		var p []string
		for _, q := range m.SummaryOptions.Quantiles {
			p = append(p, fbits(q.Quantile)+":"+fbits(q.Error))
		}
		sq = fmt.Sprintf("[%s]/%d/%d/%d", strings.Join(p, ","), int64(m.SummaryOptions.MaxAge), m.SummaryOptions.AgeBuckets, m.SummaryOptions.BufCap)
	}
	return fmt.Sprintf("Q %s %s %s ttl=%d drop=%d ot=%s honor=%d scale=%s hb=%s sq=%s mmt=%s", hx(m.HelpText), hx(m.Name),
		labelsString(labels), int64(m.Ttl), drop, ot, honor, scale, hb, sq, hx(string(m.MatchMetricType)))
}

func groupsString(re *regexp.Regexp, s string) string {
	idx := re.FindStringSubmatchIndex(s)
	if len(idx) == 0 {
		return "N"
	}
	var g []string
	for i := 0; i+1 < len(idx); i += 2 {
		if idx[i] < 0 {
			g = append(g, "!")
		} else {
			g = append(g, hx(s[idx[i]:idx[i+1]]))
		}
	}
	return strings.Join(g, ",")
}

type cre struct {
	src string
	re  *regexp.Regexp
}

// mctx keeps what the oracles need across the ops of one case
type mctx struct {
	m       *mapper.MetricMapper
	regexes []cre
	seenM   map[string]bool
}

// loadOp executes "L <yamlhex> <regexes> <runes> <ast...>" and returns the result and oracle tokens
func (c *mctx) loadOp(f []string, oi int) (string, []string) {
	var oracle []string
	yaml := unhex(f[1])
	var pending []cre
	if f[2] != "-" {
		for _, h := range strings.Split(f[2], ",") {
			src := unhex(h)
			re, err := regexp.Compile(src)
			ok := "1"
			if err != nil {
				ok = "0"
			}
			oracle = append(oracle, "C:"+h+":"+ok)
			pending = append(pending, cre{src, re})
		}
	}
	if f[3] != "-" {
		for _, cp := range strings.Split(f[3], ",") {
			n, _ := strconv.Atoi(cp)
			w := "0"
			if unicode.IsLetter(rune(n)) || unicode.IsDigit(rune(n)) {
				w = "1"
			}
			oracle = append(oracle, "W:"+cp+":"+w)
		}
	}
	err := c.m.InitFromYAMLString(yaml)
	if err == nil {
		c.regexes = pending
		c.seenM = map[string]bool{}
		bt := "0"
		if c.m.FSM != nil && c.m.FSM.BacktrackingNeeded {
			bt = "1"
		}
		oracle = append(oracle, fmt.Sprintf("B:%d:%s", oi, bt))
	}
	return "L " + errClass(err), oracle
}

// matchOracle records what every current regex answers for a metric name
func (c *mctx) matchOracle(name string) []string {
	var oracle []string
	for _, r := range c.regexes {
		if r.re == nil {
			continue
		}
		key := r.src + "\x00" + name
		if !c.seenM[key] {
			c.seenM[key] = true
			oracle = append(oracle, "M:"+hx(r.src)+":"+hx(name)+":"+groupsString(r.re, name))
		}
	}
	return oracle
}

// every third mapper is the zero value a library user may start from (no logger set), every third one logs at debug level
var mapperSerial int

func newMapper(cache string, size int) *mapper.MetricMapper {
	m := &mapper.MetricMapper{}
	switch mapperSerial % 3 {
	case 1:
		m.Logger = promslog.NewNopLogger()
	case 2:
		m.Logger = debugLogger
	}
	mapperSerial++
	switch cache {
	case "lru":
		c, _ := lru.NewMetricMapperLRUCache(nil, size)
		m.UseCache(c)
	case "rr":
		c, _ := randomreplacement.NewMetricMapperRRCache(nil, size)
		m.UseCache(c)
	}
	return m
}

func mapperCase(c string) (res string) {
	ops := strings.Split(c, " | ")
	var results, oracle []string
	defer func() {
		if r := recover(); r != nil {
			results = append(results, "PANIC")
			res = strings.Join(results, " | ") + "\t" + strings.Join(oracle, " ")
		}
	}()
	hdr := strings.Fields(ops[0])
	size, _ := strconv.Atoi(hdr[1])
	ctx := &mctx{m: newMapper(hdr[0], size), seenM: map[string]bool{}}
	m := ctx.m
	for oi, op := range ops[1:] {
		f := strings.Fields(op)
		switch f[0] {
		case "L":
			r, o := ctx.loadOp(f, oi)
			results = append(results, r)
			oracle = append(oracle, o...)
		case "D":
			// digest of the answers for every name x metric type
			h := fnv.New64a()
			for _, nh := range strings.Split(f[1], ",") {
				name := unhex(nh)
				oracle = append(oracle, ctx.matchOracle(name)...)
				for _, ty := range []string{"counter", "gauge", "observer"} {
					mp, labels, present := m.GetMapping(name, mapper.MetricType(ty))
					if !present {
						h.Write([]byte("Q -;"))
					} else {
						h.Write([]byte(mappingString(mp, labels) + ";"))
					}
				}
			}
			results = append(results, fmt.Sprintf("D %016x", h.Sum64()))
		case "Q":
			name := unhex(f[2])
			oracle = append(oracle, ctx.matchOracle(name)...)
			mp, labels, present := m.GetMapping(name, mapper.MetricType(f[1]))
			if !present {
				results = append(results, "Q -")
			} else {
				results = append(results, mappingString(mp, labels))
			}
		}
	}
	return strings.Join(results, " | ") + "\t" + strings.Join(oracle, " ")
}

func engineMapper(cases string) {
	eachLine(cases, func(c string) {
		fmt.Fprintln(out, mapperCase(c))
	})
}

var _ = sort.Strings
