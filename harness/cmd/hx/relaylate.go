package main

// relaylate engine: the relay's sender goroutine arrives LATE - a tick and a backlog of lines are both pending when it
// first runs (one OS thread, the tick pre-queued, NewRelay, then the lines).  Case: "<packetLength> <n> <lineLength>".
// Whatever the sender does first, no datagram may exceed the packet length or split a line, and every line arrives once.

import (
	"fmt"
	"net"
	"runtime"
	"strconv"
	"strings"
	"time"

	"github.com/prometheus/common/promslog"

	"github.com/prometheus/statsd_exporter/pkg/clock"
	"github.com/prometheus/statsd_exporter/pkg/relay"
)

func init() { engines["relaylate"] = engineRelayLate }

func relayLateCase(c string) string {
	f := strings.Fields(c)
	plen, _ := strconv.Atoi(f[0])
	n, _ := strconv.Atoi(f[1])
	ll, _ := strconv.Atoi(f[2])
	recv, err := net.ListenUDP("udp", &net.UDPAddr{IP: net.IPv4(127, 0, 0, 1)})
	if err != nil {
		return "ERR listen"
	}
	defer recv.Close()
	recv.SetReadBuffer(8 << 20)
	clk := &clock.Clock{Instant: time.Unix(0, 0), TickerCh: make(chan time.Time, 1)}
	clock.ClockInstance = clk
	defer func() { clock.ClockInstance = nil }()
	old := runtime.GOMAXPROCS(1)
	clk.TickerCh <- time.Unix(0, 0) // the tick is waiting before the sender exists
	r, err := relay.NewRelay(promslog.NewNopLogger(), recv.LocalAddr().String(), uint(plen))
	if err != nil {
		runtime.GOMAXPROCS(old)
		return "ERR relay"
	}
	var want []string
	for k := 0; k < n; k++ {
		l := fmt.Sprintf("m%02d:", k)
		for len(l) < ll {
			l += "0"
		}
		want = append(want, l)
		r.RelayLine(l) // with one P the sender does not run until this goroutine blocks
	}
	runtime.GOMAXPROCS(old)
	deadline := time.Now().Add(3 * time.Second)
	for r.VerifPending() > 0 && time.Now().Before(deadline) {
		time.Sleep(100 * time.Microsecond)
	}
	for k := 0; k < 2; k++ { // flush what is buffered
		select {
		case clk.TickerCh <- time.Unix(0, 0):
		case <-time.After(2 * time.Second):
		}
	}
	time.Sleep(5 * time.Millisecond)
	var sizes []string
	var got []string
	buf := make([]byte, 65536)
	for {
		recv.SetReadDeadline(time.Now().Add(20 * time.Millisecond))
		m, _, err := recv.ReadFromUDP(buf)
		if err != nil {
			break
		}
		sizes = append(sizes, strconv.Itoa(m))
		d := string(buf[:m])
		if !strings.HasSuffix(d, "\n") {
			got = append(got, "<SPLIT:"+d+">")
			continue
		}
		got = append(got, strings.Split(strings.TrimSuffix(d, "\n"), "\n")...)
	}
	ok := len(got) == len(want)
	for k := 0; ok && k < len(want); k++ {
		ok = got[k] == want[k]
	}
	return fmt.Sprintf("sizes=%s complete=%v", strings.Join(sizes, ","), ok)
}

func engineRelayLate(cases string) {
	eachLine(cases, func(c string) { fmt.Fprintln(out, relayLateCase(c)) })
}
