package main

import (
	"fmt"
	"net"
	"strconv"
	"strings"
	"time"

	"github.com/prometheus/client_golang/prometheus"
	"github.com/prometheus/common/promslog"

	"github.com/prometheus/statsd_exporter/pkg/clock"
	"github.com/prometheus/statsd_exporter/pkg/relay"
)

func init() { engines["relay"] = engineRelay }

// the relay counters are global vectors keyed by target: ports get reused, so report deltas
func relayCounterValues(target string) map[string]int {
	mfs, _ := prometheus.DefaultGatherer.Gather()
	vals := map[string]int{}
	for _, mf := range mfs {
		if !strings.HasPrefix(mf.GetName(), "statsd_exporter_relay_") {
			continue
		}
		for _, m := range mf.Metric {
			for _, lp := range m.Label {
				if lp.GetName() == "target" && lp.GetValue() == target {
					vals[mf.GetName()] = int(m.Counter.GetValue())
				}
			}
		}
	}
	return vals
}

func relayCounters(target string, base map[string]int) string {
	vals := relayCounterValues(target)
	d := func(k string) int { return vals[k] - base[k] }
	return fmt.Sprintf("relayed=%d long=%d packets=%d", d("statsd_exporter_relay_lines_relayed_total"),
		d("statsd_exporter_relay_long_lines_total"), d("statsd_exporter_relay_packets_total"))
}

// once the sender goroutine has been found dead or stuck in a few cases, the remaining ones are not run
// (every op would wait for its watchdog); the check reports the first ones
var relayDeadCases int

// case: "<packetLength> | R <linehex> | T | F | ..."   (F = from now on every send fails)
func relayCase(c string) string {
	if relayDeadCases >= 3 {
		return "sent=- relayed=0 long=0 packets=0 notes=NOT-RUN"
	}
	ops := strings.Split(c, " | ")
	plen, _ := strconv.ParseUint(strings.Fields(ops[0])[0], 10, 64)
	recv, err := net.ListenUDP("udp", &net.UDPAddr{IP: net.IPv4(127, 0, 0, 1)})
	if err != nil {
		return "ERR listen " + err.Error()
	}
	defer recv.Close()
	recv.SetReadBuffer(8 << 20)
	target := recv.LocalAddr().String()
	base := relayCounterValues(target)
	clk := &clock.Clock{Instant: time.Unix(0, 0), TickerCh: make(chan time.Time)}
	clock.ClockInstance = clk
	// who listens to the log must not change what is relayed: half of the cases run with the debug level enabled
	lg := promslog.NewNopLogger()
	if len(c)%2 == 0 {
		lg = debugLogger
	}
	r, err := relay.NewRelay(lg, target, uint(plen))
	if err != nil {
		return "ERR relay " + err.Error()
	}
	tick := func() bool {
		select {
		case clk.TickerCh <- time.Unix(0, 0):
			return true
		case <-time.After(3 * time.Second):
			return false
		}
	}
	var notes []string
	for _, op := range ops[1:] {
		if len(notes) > 0 {
			break // the sender is gone: the rest of the history would only wait for watchdogs
		}
		f := strings.Fields(op)
		switch f[0] {
		case "R":
			l := unhex(f[1])
			done := make(chan struct{})
			go func() { r.RelayLine(l); close(done) }()
			select {
			case <-done:
			case <-time.After(3 * time.Second):
				notes = append(notes, "BLOCKED")
			}
			deadline := time.Now().Add(3 * time.Second)
			for r.VerifPending() > 0 && time.Now().Before(deadline) {
				time.Sleep(20 * time.Microsecond)
			}
			if r.VerifPending() > 0 {
				notes = append(notes, "SENDER-STUCK")
			}
		case "B":
			// a burst: n lines handed to RelayLine back to back, without waiting for the sender in between
			n, _ := strconv.Atoi(f[1])
			done := make(chan struct{})
			go func() {
				for k := 0; k < n; k++ {
					r.RelayLine(fmt.Sprintf("b%d:1|c", k))
				}
				close(done)
			}()
			select {
			case <-done:
			case <-time.After(20 * time.Second):
				notes = append(notes, "BLOCKED")
			}
			deadline := time.Now().Add(5 * time.Second)
			for r.VerifPending() > 0 && time.Now().Before(deadline) {
				time.Sleep(50 * time.Microsecond)
			}
			if r.VerifPending() > 0 {
				notes = append(notes, "SENDER-STUCK")
			}
		case "T":
			// two ticks: the second one is accepted only after the first was processed completely
			if !tick() || !tick() {
				notes = append(notes, "SENDER-DEAD")
			}
		case "F":
			r.VerifCloseConn()
		}
	}
	if len(notes) == 0 && (!tick() || !tick()) {
		notes = append(notes, "SENDER-DEAD")
	}
	if len(notes) > 0 {
		relayDeadCases++
	}
	var dgrams []string
	buf := make([]byte, 65536)
	for {
		recv.SetReadDeadline(time.Now().Add(3 * time.Millisecond))
		n, _, err := recv.ReadFromUDP(buf)
		if err != nil {
			break
		}
		dgrams = append(dgrams, hx(string(buf[:n])))
	}
	d := "-"
	if len(dgrams) > 0 {
		d = strings.Join(dgrams, ",")
	}
	n := "-"
	if len(notes) > 0 {
		n = strings.Join(notes, ",")
	}
	return fmt.Sprintf("sent=%s %s notes=%s", d, relayCounters(target, base), n)
}

func engineRelay(cases string) {
	eachLine(cases, func(c string) { fmt.Fprintln(out, relayCase(c)) })
}
