// hx <engine> <casefile>: runs the implementation (built from /repo's working tree) on a case
// file and prints one canonical observation line per case.
package main

import (
	"bufio"
	"encoding/hex"
	"fmt"
	"os"
	"strings"
)

var out *bufio.Writer

func unhex(h string) string {
	if h == "-" {
		return ""
	}
	b, err := hex.DecodeString(h)
	if err != nil {
		panic("bad hex: " + h)
	}
	return string(b)
}

func hx(s string) string {
	if s == "" {
		return "-"
	}
	return hex.EncodeToString([]byte(s))
}

func eachLine(path string, f func(line string)) {
	fh, err := os.Open(path)
	if err != nil {
		fmt.Fprintln(os.Stderr, err)
		os.Exit(2)
	}
	defer fh.Close()
	sc := bufio.NewScanner(fh)
	sc.Buffer(make([]byte, 1<<20), 1<<28)
	for sc.Scan() {
		f(sc.Text())
	}
}

var engines = map[string]func(cases string){}

func main() {
	if len(os.Args) < 3 {
		fmt.Fprintln(os.Stderr, "usage: hx <engine> <casefile>")
		os.Exit(2)
	}
	out = bufio.NewWriterSize(os.Stdout, 1<<20)
	defer out.Flush()
	e, ok := engines[os.Args[1]]
	if !ok {
		fmt.Fprintln(os.Stderr, "unknown engine", os.Args[1], "have", strings.Join(keys(), ","))
		os.Exit(2)
	}
	e(os.Args[2])
}

func keys() []string {
	var k []string
	for n := range engines {
		k = append(k, n)
	}
	return k
}
