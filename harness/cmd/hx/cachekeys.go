package main

// cachekeys engine: which key does the mapper hand to its cache for a (metric type, name) lookup?  The cache
// interface is public, so a recording implementation observes it without a hook.  The model's format_key is
// injective (C13_format_key_inj); this ties the implementation's key to it byte for byte.

import (
	"fmt"
	"strings"

	"github.com/prometheus/common/promslog"

	"github.com/prometheus/statsd_exporter/pkg/mapper"
)

func init() { engines["cachekeys"] = engineCacheKeys }

type recordingCache struct {
	gets, adds []string
	resets     int
}

func (c *recordingCache) Get(k string) (interface{}, bool) {
	c.gets = append(c.gets, k)
	return nil, false
}
func (c *recordingCache) Add(k string, _ interface{}) { c.adds = append(c.adds, k) }
func (c *recordingCache) Reset()                      { c.resets++ }

func engineCacheKeys(cases string) {
	rc := &recordingCache{}
	m := &mapper.MetricMapper{Logger: promslog.NewNopLogger()}
	m.UseCache(rc)
	if err := m.InitFromYAMLString("mappings:\n- match: \"zz.*\"\n  name: \"zz_$1\"\n"); err != nil {
		panic(err)
	}
	eachLine(cases, func(c string) {
		f := strings.Fields(c)
		if f[0] == "RELOAD" {
			// "RELOAD <yaml hex>": how often is the cache reset by this (re)load?  (the model: once when it succeeds, never when it fails)
			rc.resets = 0
			err := m.InitFromYAMLString(unhex(f[1]))
			fmt.Fprintf(out, "RELOAD ok=%v resets=%d\n", err == nil, rc.resets)
			return
		}
		rc.gets, rc.adds = nil, nil
		m.GetMapping(unhex(f[1]), mapper.MetricType(f[0]))
		var g, a []string
		for _, k := range rc.gets {
			g = append(g, hx(k))
		}
		for _, k := range rc.adds {
			a = append(a, hx(k))
		}
		fmt.Fprintf(out, "G=%s A=%s\n", strings.Join(g, ","), strings.Join(a, ","))
	})
}
