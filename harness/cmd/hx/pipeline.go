package main

import (
	"fmt"
	"log/slog"
	"math"
	"sort"
	"strconv"
	"strings"
	"time"

	"github.com/prometheus/client_golang/prometheus"
	dto "github.com/prometheus/client_model/go"
	"github.com/prometheus/common/expfmt"
	"github.com/prometheus/common/promslog"

	"github.com/prometheus/statsd_exporter/pkg/clock"
	"github.com/prometheus/statsd_exporter/pkg/event"
	"github.com/prometheus/statsd_exporter/pkg/exporter"
	"github.com/prometheus/statsd_exporter/pkg/mapper"
)

func init() { engines["pipeline"] = enginePipeline }

// stand-ins for collectors the binary registers itself (same names, types and help)
var builtinNames = map[string]bool{"statsd_exporter_lines_total": true, "statsd_exporter_loaded_mappings": true, "go_goroutines": true}

func registerBuiltins(reg *prometheus.Registry) {
	reg.MustRegister(prometheus.NewCounter(prometheus.CounterOpts{Name: "statsd_exporter_lines_total", Help: "The total number of StatsD lines received."}))
	reg.MustRegister(prometheus.NewGauge(prometheus.GaugeOpts{Name: "statsd_exporter_loaded_mappings", Help: "The current number of configured metric mappings."}))
	reg.MustRegister(prometheus.NewGauge(prometheus.GaugeOpts{Name: "go_goroutines", Help: "Number of goroutines that currently exist."}))
}

type pipe struct {
	reg          *prometheus.Registry
	m            *mapper.MetricMapper
	ex           *exporter.Exporter
	flags        int
	corrupt      bool
	logger       *slog.Logger
	eventsAct    *prometheus.CounterVec
	unmapped     prometheus.Counter
	errStats     *prometheus.CounterVec
	eventStats   *prometheus.CounterVec
	conflict     *prometheus.CounterVec
	metricsCount *prometheus.GaugeVec
	sampleErrors *prometheus.CounterVec
	samples      prometheus.Counter
	tagErrors    prometheus.Counter
	tagsRecv     prometheus.Counter
}

func vecDump(c prometheus.Collector) string {
	ch := make(chan prometheus.Metric, 1024)
	go func() { c.Collect(ch); close(ch) }()
	var parts []string
	for m := range ch {
		var d dto.Metric
		m.Write(&d)
		var ls []string
		for _, lp := range d.Label {
			ls = append(ls, hx(lp.GetValue()))
		}
		v := 0.0
		if d.Counter != nil {
			v = d.Counter.GetValue()
		} else if d.Gauge != nil {
			v = d.Gauge.GetValue()
		}
		if v != 0 {
			parts = append(parts, strings.Join(ls, "/")+":"+strconv.FormatInt(int64(v), 10))
		}
	}
	sort.Strings(parts)
	if len(parts) == 0 {
		return "-"
	}
	return strings.Join(parts, ",")
}

func (p *pipe) telemetry() string {
	return fmt.Sprintf("T events=%s actions=%s unmapped=%s errors=%s conflicts=%s metrics=%s", vecDump(p.eventStats), vecDump(p.eventsAct),
		vecDump(p.unmapped), vecDump(p.errStats), vecDump(p.conflict), vecDump(p.metricsCount))
}

func labelPairs(m *dto.Metric, skip string) string {
	var parts []string
	for _, lp := range m.Label {
		if lp.GetName() == skip {
			continue
		}
		parts = append(parts, hx(lp.GetName())+"="+hx(lp.GetValue()))
	}
	sort.Strings(parts)
	if len(parts) == 0 {
		return "-"
	}
	return strings.Join(parts, "&")
}

func gatherClass(err error) string {
	classes := map[string]bool{}
	errs, ok := err.(prometheus.MultiError)
	if !ok {
		errs = prometheus.MultiError{err}
	}
	for _, e := range errs {
		m := e.Error()
		switch {
		case strings.Contains(m, "is not a valid metric name"):
			classes["invalid-name"] = true
		case strings.Contains(m, "is not a valid label name"), strings.Contains(m, "label with an invalid name"), strings.Contains(m, "duplicate label names"):
			classes["invalid-label"] = true
		case strings.Contains(m, "has help"):
			classes["help-mismatch"] = true
		case strings.Contains(m, "should be a"), strings.Contains(m, "is not a"):
			classes["type-mismatch"] = true
		case strings.Contains(m, "collides with previously collected"):
			classes["suffix-collision"] = true
		case strings.Contains(m, "was collected before with the same name and label values"):
			classes["duplicate-series"] = true
		default:
			classes["other:"+m] = true
		}
	}
	var l []string
	for c := range classes {
		l = append(l, c)
	}
	sort.Strings(l)
	return strings.Join(l, "+")
}

func (p *pipe) gather() string {
	mfs, err := p.reg.Gather()
	if err != nil {
		return "G err " + strings.ReplaceAll(gatherClass(err), " ", "_")
	}
	textOK := "1"
	// the text exposition must parse back
	var sb strings.Builder
	enc := expfmt.NewEncoder(&sb, expfmt.NewFormat(expfmt.TypeTextPlain))
	for _, mf := range mfs {
		if e := enc.Encode(mf); e != nil {
			textOK = "0"
		}
	}
	var parser expfmt.TextParser
	back, perr := parser.TextToMetricFamilies(strings.NewReader(sb.String()))
	if perr != nil || len(back) != len(mfs) {
		textOK = "0"
	}
	return formatFamilies(mfs, func(n string) bool { return builtinNames[n] }, textOK)
}

// canonical rendering of gathered families (shared with the end-to-end engine, which parses /metrics)
func formatFamilies(mfs []*dto.MetricFamily, skip func(string) bool, textOK string) string {
	var fams []string
	for _, mf := range mfs {
		if skip(mf.GetName()) {
			continue
		}
		t := "?"
		var series []string
		for _, m := range mf.Metric {
			switch mf.GetType() {
			case dto.MetricType_COUNTER:
				t = "c"
				series = append(series, labelPairs(m, "")+"@"+fbits(m.Counter.GetValue()))
			case dto.MetricType_GAUGE:
				t = "g"
				series = append(series, labelPairs(m, "")+"@"+fbits(m.Gauge.GetValue()))
			case dto.MetricType_HISTOGRAM:
				t = "h"
				var bs []string
				for _, b := range m.Histogram.Bucket {
					if math.IsInf(b.GetUpperBound(), 1) {
						continue // implicit in a gathered family, explicit in the text exposition
					}
					bs = append(bs, fbits(b.GetUpperBound())+":"+strconv.FormatUint(b.GetCumulativeCount(), 10))
				}
				series = append(series, fmt.Sprintf("%s@%d/%s/%s", labelPairs(m, ""), m.Histogram.GetSampleCount(), fbits(m.Histogram.GetSampleSum()), strings.Join(bs, ",")))
			case dto.MetricType_SUMMARY:
				t = "s"
				var qs []string
				for _, q := range m.Summary.Quantile {
					qs = append(qs, fbits(q.GetQuantile()))
				}
				series = append(series, fmt.Sprintf("%s@%d/%s/%s", labelPairs(m, ""), m.Summary.GetSampleCount(), fbits(m.Summary.GetSampleSum()), strings.Join(qs, ",")))
			}
		}
		sort.Strings(series)
		fams = append(fams, fmt.Sprintf("F:%s:%s:%s:%s", hx(mf.GetName()), t, hx(mf.GetHelp()), strings.Join(series, ";")))
	}
	sort.Strings(fams)
	if len(fams) == 0 {
		return "G ok text=" + textOK
	}
	return "G ok text=" + textOK + " " + strings.Join(fams, " ")
}

func newPipe(flags int, cache string, size int) *pipe {
	p := &pipe{flags: flags}
	p.reg = prometheus.NewRegistry()
	registerBuiltins(p.reg)
	p.m = newMapper(cache, size)
	p.eventsAct = prometheus.NewCounterVec(prometheus.CounterOpts{Name: "a"}, []string{"action"})
	p.unmapped = prometheus.NewCounter(prometheus.CounterOpts{Name: "u"})
	p.errStats = prometheus.NewCounterVec(prometheus.CounterOpts{Name: "e"}, []string{"reason"})
	p.eventStats = prometheus.NewCounterVec(prometheus.CounterOpts{Name: "s"}, []string{"type"})
	p.conflict = prometheus.NewCounterVec(prometheus.CounterOpts{Name: "c"}, []string{"type", "metric_name"})
	p.metricsCount = prometheus.NewGaugeVec(prometheus.GaugeOpts{Name: "m"}, []string{"type"})
	p.sampleErrors = prometheus.NewCounterVec(prometheus.CounterOpts{Name: "se"}, []string{"reason"})
	p.samples = prometheus.NewCounter(prometheus.CounterOpts{Name: "sa"})
	p.tagErrors = prometheus.NewCounter(prometheus.CounterOpts{Name: "te"})
	p.tagsRecv = prometheus.NewCounter(prometheus.CounterOpts{Name: "tr"})
	lg := promslog.NewNopLogger()
	if (flags+size)%2 == 1 {
		lg = debugLogger
	}
	p.logger = lg
	p.ex = exporter.NewExporter(p.reg, p.m, lg, p.eventsAct, p.unmapped, p.errStats, p.eventStats, p.conflict, p.metricsCount)
	return p
}

func (p *pipe) input(l string) (res string) {
	defer func() {
		if r := recover(); r != nil {
			res = "I PANIC"
		}
	}()
	evs := newParser(p.flags).LineToEvents(l, *p.sampleErrors, p.samples, p.tagErrors, p.tagsRecv, p.logger)
	if p.corrupt {
		for _, e := range evs {
			for k, v := range e.Labels() {
				e.Labels()[k] = strings.ReplaceAll(v, "!ff", "\xff")
			}
		}
	}
	ch := make(chan event.Events, 1)
	ch <- evs
	close(ch)
	p.ex.Listen(ch)
	return "I ok"
}

// eventNames parses the line with throw-away counters to learn which metric names will be looked up
func (p *pipe) eventNames(l string) (names []string) {
	defer func() { recover() }()
	se := prometheus.NewCounterVec(prometheus.CounterOpts{Name: "x"}, []string{"reason"})
	c := prometheus.NewCounter(prometheus.CounterOpts{Name: "y"})
	seen := map[string]bool{}
	for _, e := range newParser(p.flags).LineToEvents(l, *se, c, c, c, promslog.NewNopLogger()) {
		if !seen[e.MetricName()] {
			seen[e.MetricName()] = true
			names = append(names, e.MetricName())
		}
	}
	return names
}

// a stall is a verdict too: an operation that does not return within the limit is reported as HANG and the rest of the
// history is abandoned (the goroutine cannot be stopped); after three such cases the remaining ones are not run
var pipelineHangs int

func withWatchdog(limit time.Duration, f func() string) string {
	ch := make(chan string, 1)
	go func() {
		defer func() {
			if r := recover(); r != nil {
				ch <- "PANIC"
			}
		}()
		ch <- f()
	}()
	select {
	case r := <-ch:
		return r
	case <-time.After(limit):
		return "HANG"
	}
}

func pipelineCase(c string) (res string) {
	if pipelineHangs >= 3 {
		return "NOT-RUN\t"
	}
	ops := strings.Split(c, " | ")
	hdr := strings.Fields(ops[0])
	flags, _ := strconv.Atoi(hdr[0])
	size, _ := strconv.Atoi(hdr[2])
	clk := &clock.Clock{Instant: time.Unix(1700000000, 0)}
	clock.ClockInstance = clk
	defer func() { clock.ClockInstance = nil }()
	p := newPipe(flags, hdr[1], size)
	var results, oracle []string
	ctx := &mctx{m: p.m, seenM: map[string]bool{}}
	floatSeen := map[string]bool{}
	abandoned := false
	for oi, op := range ops[1:] {
		if abandoned {
			break
		}
		f := strings.Fields(op)
		switch f[0] {
		case "L":
			r, o := ctx.loadOp(f, oi)
			results = append(results, r)
			oracle = append(oracle, o...)
		case "I", "X":
			// X: the events of the line reach the exporter without having come through the parser's validity check - in every
			// label value the three characters "!ff" stand for the byte 0xff (not valid UTF-8)
			l := unhex(f[1])
			p.corrupt = f[0] == "X"
			for _, tok := range strings.Fields(floatOracle(l)) {
				if !floatSeen[tok] {
					floatSeen[tok] = true
					oracle = append(oracle, "F:"+tok)
				}
			}
			for _, name := range p.eventNames(l) {
				oracle = append(oracle, ctx.matchOracle(name)...)
			}
			r := withWatchdog(20*time.Second, func() string { return p.input(l) })
			if r == "HANG" {
				pipelineHangs++
				results = append(results, "I HANG")
				return strings.Join(results, " | ") + "\t" + strings.Join(oracle, " ")
			}
			if r == "PANIC" {
				r = "I PANIC"
			}
			results = append(results, r)
		case "A":
			ns, _ := strconv.ParseInt(f[1], 10, 64)
			clk.Instant = clk.Instant.Add(time.Duration(ns))
			results = append(results, "A")
		case "S":
			func() {
				defer func() {
					if r := recover(); r != nil {
						results = append(results, "S PANIC")
					}
				}()
				p.ex.Registry.RemoveStaleMetrics()
				results = append(results, "S")
			}()
		case "G":
			func() {
				defer func() {
					if r := recover(); r != nil {
						results = append(results, "G PANIC")
					}
				}()
				r := withWatchdog(20*time.Second, func() string { return p.gather() + " " + p.telemetry() })
				if r == "PANIC" {
					panic("gather")
				}
				results = append(results, map[bool]string{true: "G HANG", false: r}[r == "HANG"])
				if r == "HANG" {
					pipelineHangs++
					abandoned = true
				}
			}()
		}
	}
	return strings.Join(results, " | ") + "\t" + strings.Join(oracle, " ")
}

func enginePipeline(cases string) {
	eachLine(cases, func(c string) {
		fmt.Fprintln(out, pipelineCase(c))
	})
}
