package main

import (
	"fmt"
	"math/rand"
	"strconv"
	"strings"
	"sync"
	"time"

	"github.com/prometheus/client_golang/prometheus"

	"github.com/prometheus/statsd_exporter/pkg/clock"
	"github.com/prometheus/statsd_exporter/pkg/event"
)

func init() {
	engines["queue"] = engineQueue
	engines["queuestress"] = engineQueueStress
}

func mkEvents(next *int, k int) event.Events {
	evs := make(event.Events, 0, k)
	for i := 0; i < k; i++ {
		evs = append(evs, &event.CounterEvent{CMetricName: "e", CValue: float64(*next)})
		*next++
	}
	return evs
}

func batchString(b event.Events) string {
	if len(b) == 0 {
		return "e"
	}
	ids := make([]string, len(b))
	for i, e := range b {
		ids[i] = strconv.Itoa(int(e.Value()))
	}
	return strings.Join(ids, ",")
}

// deterministic: "<threshold> | Q k | T | ..." ; after every op the batches that arrived and Len()
func queueCase(c string) string {
	ops := strings.Split(c, " | ")
	threshold, _ := strconv.Atoi(strings.Fields(ops[0])[0])
	clk := &clock.Clock{Instant: time.Unix(0, 0), TickerCh: make(chan time.Time)}
	clock.ClockInstance = clk
	ch := make(chan event.Events, 100000)
	eq := event.NewEventQueue(ch, threshold, time.Hour, prometheus.NewCounter(prometheus.CounterOpts{Name: "f"}))
	clock.ClockInstance = nil
	next := 0
	// the consumer keeps the batches it received and looks at their content only after the whole history:
	// a batch that shares its backing array with the queue's buffer is then seen overwritten
	type opResult struct {
		batches []event.Events
		timeout bool
		pending int
	}
	var results []opResult
	// the consumer owns what it is handed, the spare capacity of the slice included, for as long as it likes: after every
	// operation it scribbles over the part of every received batch's backing array that lies beyond its length (an idle
	// batch that still shares its array with the queue's buffer then corrupts what is queued next); the content itself
	// is looked at only after the whole history
	var received []event.Events
	scribble := func() {
		for _, b := range received {
			full := b[:cap(b)]
			for i := len(b); i < len(full); i++ {
				full[i] = &event.CounterEvent{CMetricName: "consumer", CValue: -2}
			}
		}
	}
	drain := func() []event.Events {
		var bs []event.Events
		for {
			select {
			case b := <-ch:
				received = append(received, b)
				bs = append(bs, b)
			default:
				return bs
			}
		}
	}
	for _, op := range ops[1:] {
		f := strings.Fields(op)
		var r opResult
		switch f[0] {
		case "Q":
			k, _ := strconv.Atoi(f[1])
			evs := mkEvents(&next, k)
			eq.Queue(evs)
			// the producer recycles its slice as soon as Queue has returned (the read-loop idiom buf = buf[:0]):
			// the queue must have taken the events out of it, not kept the slice
			for i := range evs {
				evs[i] = &event.CounterEvent{CMetricName: "recycled", CValue: -1}
			}
			r.batches = drain()
		case "T":
			clk.TickerCh <- time.Unix(0, 0)
			select {
			case b := <-ch:
				received = append(received, b)
				r.batches = append(r.batches, b)
			case <-time.After(5 * time.Second):
				r.timeout = true
			}
			r.batches = append(r.batches, drain()...)
		}
		r.pending = eq.Len()
		results = append(results, r)
		scribble()
	}
	var out []string
	for _, r := range results {
		var bs []string
		for _, b := range r.batches {
			bs = append(bs, batchString(b))
		}
		if r.timeout {
			bs = append([]string{"TIMEOUT"}, bs...)
		}
		out = append(out, fmt.Sprintf("%s len=%d", strings.Join(bs, ";"), r.pending))
	}
	return strings.Join(out, " | ")
}

func engineQueue(cases string) {
	eachLine(cases, func(c string) { fmt.Fprintln(out, queueCase(c)) })
}

// stress: "<threshold> <cap> <producers> <callsPerProducer> <maxBatch> <ticks> <slowConsumer 0/1> <seed>"
// output: delivered batches in consumer order, events as producer:seq
func queueStressCase(c string) string {
	f := strings.Fields(c)
	iv := func(i int) int { v, _ := strconv.Atoi(f[i]); return v }
	threshold, capacity, producers, calls, maxBatch, ticks, slow, seed := iv(0), iv(1), iv(2), iv(3), iv(4), iv(5), iv(6), iv(7)
	clk := &clock.Clock{Instant: time.Unix(0, 0), TickerCh: make(chan time.Time)}
	clock.ClockInstance = clk
	ch := make(chan event.Events, capacity)
	eq := event.NewEventQueue(ch, threshold, time.Hour, prometheus.NewCounter(prometheus.CounterOpts{Name: "f"}))
	clock.ClockInstance = nil
	var delivered []string
	done := make(chan struct{})
	stop := make(chan struct{})
	go func() {
		rnd := rand.New(rand.NewSource(int64(seed) + 99))
		for {
			select {
			case b := <-ch:
				ids := make([]string, len(b))
				for i, e := range b {
					ids[i] = e.MetricName()
				}
				if len(ids) == 0 {
					delivered = append(delivered, "e")
				} else {
					delivered = append(delivered, strings.Join(ids, ","))
				}
				if slow == 1 && rnd.Intn(4) == 0 {
					time.Sleep(time.Duration(rnd.Intn(200)) * time.Microsecond)
				}
			case <-stop:
				close(done)
				return
			}
		}
	}()
	var wg sync.WaitGroup
	for p := 0; p < producers; p++ {
		wg.Add(1)
		go func(p int) {
			defer wg.Done()
			rnd := rand.New(rand.NewSource(int64(seed)*31 + int64(p)))
			seq := 0
			for k := 0; k < calls; k++ {
				n := rnd.Intn(maxBatch + 1)
				evs := make(event.Events, 0, n)
				for i := 0; i < n; i++ {
					evs = append(evs, &event.CounterEvent{CMetricName: fmt.Sprintf("%d:%d", p, seq)})
					seq++
				}
				eq.Queue(evs)
				for i := range evs {
					evs[i] = &event.CounterEvent{CMetricName: "recycled"} // the producer recycles its slice
				}
				if rnd.Intn(3) == 0 {
					time.Sleep(time.Duration(rnd.Intn(50)) * time.Microsecond)
				}
			}
		}(p)
	}
	tickDone := make(chan struct{})
	go func() {
		rnd := rand.New(rand.NewSource(int64(seed) + 7))
		for i := 0; i < ticks; i++ {
			time.Sleep(time.Duration(rnd.Intn(100)) * time.Microsecond)
			clk.TickerCh <- time.Unix(0, 0)
		}
		close(tickDone)
	}()
	wg.Wait()
	<-tickDone
	clk.TickerCh <- time.Unix(0, 0) // final flush tick: everything queued must be out after it
	deadline := time.Now().Add(5 * time.Second)
	for eq.Len() > 0 && time.Now().Before(deadline) {
		time.Sleep(100 * time.Microsecond)
	}
	for len(ch) > 0 && time.Now().Before(deadline) {
		time.Sleep(100 * time.Microsecond)
	}
	time.Sleep(2 * time.Millisecond)
	close(stop)
	<-done
	return fmt.Sprintf("len=%d %s", eq.Len(), strings.Join(delivered, ";"))
}

func engineQueueStress(cases string) {
	eachLine(cases, func(c string) { fmt.Fprintln(out, queueStressCase(c)) })
}
