package main

// End-to-end engine: the statsd_exporter BINARY built from /repo (path in $VERIF_BIN), driven over its real
// sockets (TCP, UDP or unixgram), reloaded through /-/reload, observed through /metrics.  Cases and
// output have the format of the pipeline engine (ops L, I, G only; no clock control, so TTL-free
// configurations), so that the same model run predicts both.

import (
	"bufio"
	"bytes"
	"fmt"
	"io"
	"math/rand"
	"net"
	"net/http"
	"os"
	"os/exec"
	"path/filepath"
	"sort"
	"strconv"
	"strings"
	"sync"
	"syscall"
	"time"

	dto "github.com/prometheus/client_model/go"
	"github.com/prometheus/common/expfmt"
)

func init() { engines["e2e"] = engineE2E }

func freePort() int {
	l, err := net.Listen("tcp", "127.0.0.1:0")
	if err != nil {
		return 0
	}
	defer l.Close()
	return l.Addr().(*net.TCPAddr).Port
}

type e2e struct {
	cmd       *exec.Cmd
	dir       string
	web       string
	cfgPath   string
	transport string
	tcpAddr   string
	udpAddr   string
	unixPath  string
	tcp       net.Conn
	sent      int
	stderr    bytes.Buffer
	settle    time.Duration
	version   int
	extraArgs []string
	exitedCh  chan error
	dead      bool
	inplace   bool // the mapping file is a regular file rewritten in place, its modification time put back after each rewrite
}

func builtinFamily(n string) bool {
	return strings.HasPrefix(n, "go_") || strings.HasPrefix(n, "process_") || strings.HasPrefix(n, "promhttp_") || strings.HasPrefix(n, "statsd_exporter_") ||
		strings.HasPrefix(n, "statsd_metric_mapper_")
}

func (e *e2e) scrape() (map[string]*dto.MetricFamily, int, string, error) {
	c := http.Client{Timeout: 5 * time.Second}
	resp, err := c.Get("http://" + e.web + "/metrics")
	if err != nil {
		return nil, 0, "", err
	}
	defer resp.Body.Close()
	body, _ := io.ReadAll(resp.Body)
	if resp.StatusCode != 200 {
		return nil, resp.StatusCode, string(body), nil
	}
	var parser expfmt.TextParser
	mfs, perr := parser.TextToMetricFamilies(bytes.NewReader(body))
	if perr != nil {
		return nil, 200, string(body), perr
	}
	return mfs, 200, string(body), nil
}

// negotiation: what the endpoint answers to a scraper that asks for another exposition format.  The tie covers the text
// format 0.0.4 (parsed above) and its protobuf rendering (must decode to the same families); OpenMetrics is not served by
// the unchanged handler - if it is, the body must at least keep one TYPE / HELP per family and one line per series.
// Returns: answered in OpenMetrics?, duplicate TYPE/HELP/series lines in it, answered in protobuf?, protobuf families equal to text ones?
func (e *e2e) negotiation(textFams string) (om, omdup, pb, pbsame int) {
	get := func(accept string) (*http.Response, error) {
		req, _ := http.NewRequest("GET", "http://"+e.web+"/metrics", nil)
		req.Header.Set("Accept", accept)
		c := http.Client{Timeout: 10 * time.Second}
		return c.Do(req)
	}
	if resp, err := get("application/openmetrics-text;version=1.0.0,application/openmetrics-text;version=0.0.1;q=0.75,text/plain;version=0.0.4;q=0.5,*/*;q=0.1"); err == nil {
		body, _ := io.ReadAll(resp.Body)
		resp.Body.Close()
		if strings.Contains(resp.Header.Get("Content-Type"), "openmetrics") {
			om = 1
			seen := map[string]bool{}
			for _, ln := range strings.Split(string(body), "\n") {
				key := ""
				switch {
				case strings.HasPrefix(ln, "# TYPE "), strings.HasPrefix(ln, "# HELP "):
					f := strings.Fields(ln)
					if len(f) >= 3 {
						if builtinFamily(f[2]) {
							continue
						}
						key = f[1] + " " + f[2]
					}
				case ln == "" || strings.HasPrefix(ln, "#"):
					continue
				default:
					if i := strings.LastIndex(ln, "}"); i >= 0 {
						key = ln[:i+1]
					} else if i := strings.Index(ln, " "); i >= 0 {
						key = ln[:i]
					}
					if builtinFamily(key) {
						continue
					}
				}
				if key != "" && seen[key] {
					omdup++
				}
				seen[key] = true
			}
		}
	}
	if resp, err := get("application/vnd.google.protobuf;proto=io.prometheus.client.MetricFamily;encoding=delimited"); err == nil {
		defer resp.Body.Close()
		if strings.Contains(resp.Header.Get("Content-Type"), "protobuf") {
			pb = 1
			dec := expfmt.NewDecoder(resp.Body, expfmt.NewFormat(expfmt.TypeProtoDelim))
			var list []*dto.MetricFamily
			for {
				mf := &dto.MetricFamily{}
				if err := dec.Decode(mf); err != nil {
					break
				}
				list = append(list, mf)
			}
			sort.Slice(list, func(i, j int) bool { return list[i].GetName() < list[j].GetName() })
			// the text exposition writes -0 as "0": the sign of a zero is not observable there (the comparison with the model
			// makes the same allowance)
			negz := func(x string) string { return strings.ReplaceAll(x, "8000000000000000", "0000000000000000") }
			if negz(formatFamilies(list, builtinFamily, "1")) == negz(textFams) {
				pbsame = 1
			}
		}
	}
	return
}

func famValue(mfs map[string]*dto.MetricFamily, name string) float64 {
	mf := mfs[name]
	t := 0.0
	if mf == nil {
		return 0
	}
	for _, m := range mf.Metric {
		if m.Counter != nil {
			t += m.Counter.GetValue()
		} else if m.Gauge != nil {
			t += m.Gauge.GetValue()
		}
	}
	return t
}

func famDump(mfs map[string]*dto.MetricFamily, name string) string {
	mf := mfs[name]
	if mf == nil {
		return "-"
	}
	var parts []string
	for _, m := range mf.Metric {
		var ls []string
		for _, lp := range m.Label {
			ls = append(ls, hx(lp.GetValue()))
		}
		v := 0.0
		if m.Counter != nil {
			v = m.Counter.GetValue()
		} else if m.Gauge != nil {
			v = m.Gauge.GetValue()
		}
		if v != 0 {
			parts = append(parts, strings.Join(ls, "/")+":"+strconv.FormatInt(int64(v), 10))
		}
	}
	sort.Strings(parts)
	if len(parts) == 0 {
		return "-"
	}
	return strings.Join(parts, ",")
}

// the non-runtime part of a scrape, for the "nothing moves any more" test
func stableView(body string) string {
	var keep []string
	for _, ln := range strings.Split(body, "\n") {
		if strings.HasPrefix(ln, "#") || strings.HasPrefix(ln, "go_") || strings.HasPrefix(ln, "process_") || strings.HasPrefix(ln, "promhttp_") ||
			strings.HasPrefix(ln, "statsd_exporter_event_queue_flushed_total") {
			continue
		}
		keep = append(keep, ln)
	}
	return strings.Join(keep, "\n")
}

func (e *e2e) start(flags int, cache string, size int, cfg string, hasCfg bool) error {
	var err error
	e.dir, err = os.MkdirTemp("", "e2e")
	if err != nil {
		return err
	}
	// the mapping file is reached through a symbolic link that every reload re-points (the ConfigMap / release-directory pattern)
	e.cfgPath = filepath.Join(e.dir, "mapping.yml")
	lvl := "error"
	var extra []string
	for _, a := range e.extraArgs {
		if a == "--log.level=debug" {
			lvl = "debug"
		} else {
			extra = append(extra, a)
		}
	}
	e.extraArgs = extra
	args := []string{"--log.level=" + lvl, "--web.enable-lifecycle", "--statsd.event-flush-interval=5ms", "--statsd.event-flush-threshold=7"}
	if hasCfg {
		e.writeConfig(cfg)
		args = append(args, "--statsd.mapping-config="+e.cfgPath)
	}
	onoff := func(name string, bit int) {
		if flags&bit != 0 {
			args = append(args, "--"+name)
		} else {
			args = append(args, "--no-"+name)
		}
	}
	onoff("statsd.parse-dogstatsd-tags", 1)
	onoff("statsd.parse-influxdb-tags", 2)
	onoff("statsd.parse-librato-tags", 4)
	onoff("statsd.parse-signalfx-tags", 8)
	switch cache {
	case "lru":
		args = append(args, "--statsd.cache-type=lru", "--statsd.cache-size="+strconv.Itoa(size))
	case "rr":
		args = append(args, "--statsd.cache-type=random", "--statsd.cache-size="+strconv.Itoa(size))
	default:
		args = append(args, "--statsd.cache-size=0")
	}
	args = append(args, e.extraArgs...)
	for attempt := 0; attempt < 5; attempt++ {
		wp, sp := freePort(), freePort()
		e.web = fmt.Sprintf("127.0.0.1:%d", wp)
		a := append([]string(nil), args...)
		a = append(a, "--web.listen-address="+e.web)
		switch e.transport {
		case "tcp":
			e.tcpAddr = fmt.Sprintf("127.0.0.1:%d", sp)
			a = append(a, "--statsd.listen-tcp="+e.tcpAddr, "--statsd.listen-udp=")
		case "udp":
			e.udpAddr = fmt.Sprintf("127.0.0.1:%d", sp)
			a = append(a, "--statsd.listen-udp="+e.udpAddr, "--statsd.listen-tcp=")
		case "udp6":
			// the listener on the wildcard address, as with the default flags (dual stack); the sender comes in over IPv6
			e.udpAddr = fmt.Sprintf("[::1]:%d", sp)
			a = append(a, fmt.Sprintf("--statsd.listen-udp=:%d", sp), "--statsd.listen-tcp=")
		case "unixgram@":
			// a socket in the abstract namespace (Linux): no file, nothing to chmod or remove
			e.unixPath = fmt.Sprintf("@verif_e2e_%d_%d", os.Getpid(), sp)
			a = append(a, "--statsd.listen-unixgram="+e.unixPath, "--statsd.listen-udp=", "--statsd.listen-tcp=")
		default:
			e.unixPath = filepath.Join(e.dir, "statsd.sock")
			os.Remove(e.unixPath)
			a = append(a, "--statsd.listen-unixgram="+e.unixPath, "--statsd.listen-udp=", "--statsd.listen-tcp=")
		}
		e.stderr.Reset()
		e.cmd = exec.Command(os.Getenv("VERIF_BIN"), a...)
		e.cmd.Stderr = &e.stderr
		e.cmd.Stdout = &e.stderr
		if err = e.cmd.Start(); err != nil {
			return err
		}
		exited := make(chan error, 1)
		e.exitedCh = exited
		go func(c *exec.Cmd) { exited <- c.Wait() }(e.cmd)
		deadline := time.Now().Add(10 * time.Second)
		for time.Now().Before(deadline) {
			select {
			case werr := <-exited:
				e.cmd = nil
				if strings.Contains(e.stderr.String(), "address already in use") {
					goto retry
				}
				return fmt.Errorf("exited: %v", werr)
			default:
			}
			c := http.Client{Timeout: time.Second}
			if resp, gerr := c.Get("http://" + e.web + "/-/ready"); gerr == nil {
				resp.Body.Close()
				if resp.StatusCode == 200 {
					return nil
				}
			}
			time.Sleep(5 * time.Millisecond)
		}
		e.stop()
		return fmt.Errorf("not ready after 10s")
	retry:
	}
	return fmt.Errorf("no free port")
}

func (e *e2e) writeConfig(cfg string) {
	if e.inplace {
		// same inode; the modification time of the first version is restored (cp -p, rsync -t, reproducible unpacks)
		st, err := os.Stat(e.cfgPath)
		os.WriteFile(e.cfgPath, []byte(cfg), 0o644)
		if err == nil {
			os.Chtimes(e.cfgPath, st.ModTime(), st.ModTime())
		}
		return
	}
	e.version++
	target := filepath.Join(e.dir, fmt.Sprintf("mapping-v%d.yml", e.version))
	os.WriteFile(target, []byte(cfg), 0o644)
	tmp := filepath.Join(e.dir, "mapping.yml.new")
	os.Remove(tmp)
	os.Symlink(target, tmp)
	os.Rename(tmp, e.cfgPath)
}

func (e *e2e) stop() {
	if e.tcp != nil {
		e.tcp.Close()
		e.tcp = nil
	}
	if e.cmd != nil && e.cmd.Process != nil {
		if !e.gone() {
			e.cmd.Process.Signal(syscall.SIGTERM)
			select {
			case <-e.exitedCh:
			case <-time.After(3 * time.Second):
				e.cmd.Process.Kill()
			}
		}
	}
	if e.dir != "" {
		os.RemoveAll(e.dir)
	}
}

func (e *e2e) send(l string) error {
	e.sent++
	switch e.transport {
	case "tcp":
		if e.tcp == nil {
			c, err := net.DialTimeout("tcp", e.tcpAddr, 3*time.Second)
			if err != nil {
				return err
			}
			e.tcp = c
		}
		_, err := e.tcp.Write([]byte(l + "\n"))
		return err
	case "udp", "udp6":
		c, err := net.Dial("udp", e.udpAddr)
		if err != nil {
			return err
		}
		defer c.Close()
		c.SetWriteDeadline(time.Now().Add(3 * time.Second))
		_, err = c.Write([]byte(l))
		return err
	default:
		c, err := net.Dial("unixgram", e.unixPath)
		if err != nil {
			return err
		}
		defer c.Close()
		// a listener that never reads lets the kernel's queue fill up: the send must fail rather than wait for ever
		c.SetWriteDeadline(time.Now().Add(3 * time.Second))
		_, err = c.Write([]byte(l))
		return err
	}
}

func (e *e2e) sendPacket(pkt string, nlines int) error {
	e.sent += nlines - 1
	return e.send(pkt)
}

// wait until every line sent has been counted and nothing moves any more
// has the process gone away by itself?
func (e *e2e) gone() bool {
	if e.dead {
		return true
	}
	select {
	case <-e.exitedCh:
		e.dead = true
	default:
	}
	return e.dead
}

func (e *e2e) quiesce() {
	// long runs (tens of thousands of lines, thousands of series) get more time, and are scraped less often
	deadline := time.Now().Add(8*time.Second + time.Duration(e.sent/2000)*time.Second)
	prev, same := "", 0
	var reached time.Time
	pause := 15 * time.Millisecond
	for time.Now().Before(deadline) {
		if e.gone() {
			return
		}
		t0 := time.Now()
		mfs, code, body, err := e.scrape()
		if d := 2 * time.Since(t0); d > pause {
			pause = d
		}
		if err == nil && code == 200 {
			if int(famValue(mfs, "statsd_exporter_lines_total")) >= e.sent {
				if reached.IsZero() {
					reached = time.Now()
				}
				v := stableView(body)
				if v == prev {
					same++
				} else {
					same = 0
				}
				prev = v
				if same >= 2 && time.Since(reached) >= e.settle {
					return
				}
			}
		} else if code == 500 {
			// a failing gather does not get better by waiting: give the queue time to drain, then stop
			if reached.IsZero() {
				reached = time.Now()
			}
			if time.Since(reached) >= e.settle+200*time.Millisecond {
				return
			}
		}
		time.Sleep(pause)
	}
}

func (e *e2e) gather() string {
	e.quiesce()
	mfs, code, body, err := e.scrape()
	if err != nil {
		return "G fail " + strings.ReplaceAll(err.Error(), " ", "_")
	}
	if code != 200 {
		return "G err http=" + strconv.Itoa(code) + " " + strings.ReplaceAll(strings.ReplaceAll(body[:min(len(body), 300)], " ", "_"), "\n", "/")
	}
	var list []*dto.MetricFamily
	for _, mf := range mfs {
		list = append(list, mf)
	}
	tel := fmt.Sprintf("T events=%s actions=%s unmapped=%s errors=%s conflicts=%s metrics=%s", famDump(mfs, "statsd_exporter_events_total"),
		famDump(mfs, "statsd_exporter_events_actions_total"), famDump(mfs, "statsd_exporter_events_unmapped_total"),
		famDump(mfs, "statsd_exporter_events_error_total"), famDump(mfs, "statsd_exporter_events_conflict_total"), famDump(mfs, "statsd_exporter_metrics_total"))
	wiring := fmt.Sprintf("W samples=%d tag_errors=%d tags=%d serr=%s lines=%d loaded=%d reload_ok=%d reload_fail=%d tcp=%d udp=%d unixgram=%d",
		int(famValue(mfs, "statsd_exporter_samples_total")), int(famValue(mfs, "statsd_exporter_tag_errors_total")), int(famValue(mfs, "statsd_exporter_tags_total")),
		famDump(mfs, "statsd_exporter_sample_errors_total"), int(famValue(mfs, "statsd_exporter_lines_total")),
		int(famValue(mfs, "statsd_exporter_loaded_mappings")), reloadCount(mfs, "success"), reloadCount(mfs, "failure"),
		int(famValue(mfs, "statsd_exporter_tcp_connections_total")), int(famValue(mfs, "statsd_exporter_udp_packets_total")), int(famValue(mfs, "statsd_exporter_unixgram_packets_total")))
	fams := formatFamilies(list, builtinFamily, "1")
	om, omdup, pb, pbsame := e.negotiation(fams)
	wiring += fmt.Sprintf(" neg_om=%d omdup=%d neg_pb=%d pbsame=%d", om, omdup, pb, pbsame)
	return fams + " " + tel + " " + wiring
}

func reloadCount(mfs map[string]*dto.MetricFamily, outcome string) int {
	mf := mfs["statsd_exporter_config_reloads_total"]
	if mf == nil {
		return 0
	}
	for _, m := range mf.Metric {
		for _, lp := range m.Label {
			if lp.GetName() == "outcome" && lp.GetValue() == outcome {
				return int(m.Counter.GetValue())
			}
		}
	}
	return 0
}

func (e *e2e) reload(cfg string, sighup bool) string {
	before, _, _, err := e.scrape()
	if err != nil || before == nil {
		// the scrape itself may be failing (inconsistent registry): reload blind
		before = map[string]*dto.MetricFamily{}
	}
	e.writeConfig(cfg)
	var after map[string]*dto.MetricFamily
	if sighup {
		e.cmd.Process.Signal(syscall.SIGHUP)
		deadline := time.Now().Add(5 * time.Second)
		for time.Now().Before(deadline) && !e.gone() {
			after, _, _, err = e.scrape()
			if err == nil && after != nil && reloadCount(after, "success")+reloadCount(after, "failure") > reloadCount(before, "success")+reloadCount(before, "failure") {
				break
			}
			time.Sleep(10 * time.Millisecond)
		}
	} else {
		c := http.Client{Timeout: 10 * time.Second}
		resp, err := c.Post("http://"+e.web+"/-/reload", "text/plain", nil)
		if err != nil {
			return "L fail"
		}
		io.ReadAll(resp.Body)
		resp.Body.Close()
		after, _, _, err = e.scrape()
	}
	if err != nil || after == nil {
		return "L ?"
	}
	switch {
	case reloadCount(after, "success") == reloadCount(before, "success")+1:
		return "L ok"
	case reloadCount(after, "failure") == reloadCount(before, "failure")+1:
		return "L err"
	}
	return "L ?"
}

func e2eCase(c string, settle time.Duration) string {
	ops := strings.Split(c, " | ")
	hdr := strings.Fields(ops[0])
	flags, _ := strconv.Atoi(hdr[0])
	size, _ := strconv.Atoi(hdr[2])
	transport := "tcp"
	if len(hdr) > 3 {
		transport = hdr[3]
	}
	sighup := len(hdr) > 4 && strings.Contains(hdr[4], "sighup")
	e := &e2e{transport: transport, settle: settle, inplace: len(hdr) > 4 && strings.Contains(hdr[4], "inplace")}
	if len(hdr) > 4 && strings.Contains(hdr[4], "debuglog") {
		// who listens to the log must not change what the exporter does
		e.extraArgs = append(e.extraArgs, "--log.level=debug")
	}
	defer e.stop()
	var results []string
	started := false
	for _, op := range ops[1:] {
		f := strings.Fields(op)
		if !started {
			cfg, has := "", false
			if f[0] == "L" {
				cfg, has = unhex(f[1]), true
			}
			if err := e.start(flags, hdr[1], size, cfg, has); err != nil {
				if has && strings.HasPrefix(err.Error(), "exited") {
					results = append(results, "L err exit")
					return strings.Join(results, " | ")
				}
				return "START-FAILED " + strings.ReplaceAll(err.Error()+" "+e.stderr.String(), "\n", "/")
			}
			started = true
			if has {
				results = append(results, "L ok")
				continue
			}
		}
		if e.gone() {
			results = append(results, "DEAD the statsd_exporter process exited: "+strings.ReplaceAll(lastLines(e.stderr.String(), 3), " ", "_"))
			break
		}
		switch f[0] {
		case "L":
			e.quiesce()
			results = append(results, e.reload(unhex(f[1]), sighup))
		case "A":
			// real time passes (the pipeline engine advances its mock clock by the same amount)
			ns, _ := strconv.ParseInt(f[1], 10, 64)
			e.quiesce()
			time.Sleep(time.Duration(ns))
			results = append(results, "A")
		case "S":
			results = append(results, "S") // the exporter sweeps by itself once a second
		case "I":
			if err := e.send(unhex(f[1])); err != nil {
				results = append(results, "I fail")
			} else {
				results = append(results, "I ok")
			}
		case "P":
			// several lines in ONE datagram (or one TCP write): one result per contained line
			pkt := unhex(f[1])
			n := len(strings.Split(pkt, "\n"))
			r := "I ok"
			if err := e.sendPacket(pkt, n); err != nil {
				r = "I fail"
			}
			for k := 0; k < n; k++ {
				results = append(results, r)
			}
		case "G":
			results = append(results, e.gather())
		default:
			results = append(results, "SKIP")
		}
	}
	return strings.Join(results, " | ")
}

func lastLines(s string, n int) string {
	ls := strings.Split(strings.TrimSpace(s), "\n")
	if len(ls) > n {
		ls = ls[len(ls)-n:]
	}
	return strings.Join(ls, "/")
}

// check-config mode: "K <yaml hex>" -> "K ok" / "K err"
// "KB <MiB> <0|1>": --check-config on a mapping file of that many MiB (one good rule, comment lines, then a last rule that is
// valid (0) or uses an unknown observer type (1)): the verdict is about the WHOLE file
func checkBigConfig(c string) string {
	f := strings.Fields(c)
	mib, _ := strconv.Atoi(f[1])
	dir, err := os.MkdirTemp("", "e2ebig")
	if err != nil {
		return "KB fail " + err.Error()
	}
	defer os.RemoveAll(dir)
	p := filepath.Join(dir, "big.yml")
	fh, err := os.Create(p)
	if err != nil {
		return "KB fail " + err.Error()
	}
	w := bufio.NewWriterSize(fh, 1<<20)
	w.WriteString("mappings:\n- match: \"good.*\"\n  name: \"good\"\n")
	line := "# " + strings.Repeat("padding ", 127) + "\n"
	for n := 0; n < mib<<20; n += len(line) {
		w.WriteString(line)
	}
	if f[2] == "1" {
		w.WriteString("- match: \"bad.*\"\n  name: \"bad\"\n  observer_type: nonsense\n")
	} else {
		w.WriteString("- match: \"fine.*\"\n  name: \"fine\"\n")
	}
	w.Flush()
	fh.Close()
	cmd := exec.Command(os.Getenv("VERIF_BIN"), "--check-config", "--log.level=error", "--statsd.mapping-config="+p)
	code := 0
	if err := cmd.Run(); err != nil {
		code = 1
		if ee, ok := err.(*exec.ExitError); ok {
			code = ee.ExitCode()
		}
	}
	return fmt.Sprintf("KB exit=%d", code)
}

func checkConfig(yaml string) string {
	dir, err := os.MkdirTemp("", "e2ek")
	if err != nil {
		return "K fail"
	}
	defer os.RemoveAll(dir)
	p := filepath.Join(dir, "m.yml")
	os.WriteFile(p, []byte(yaml), 0o644)
	cmd := exec.Command(os.Getenv("VERIF_BIN"), "--check-config", "--log.level=error", "--statsd.mapping-config="+p)
	if err := cmd.Run(); err != nil {
		if _, ok := err.(*exec.ExitError); ok {
			return "K err"
		}
		return "K fail"
	}
	return "K ok"
}

// "B <queue size> <datagrams> <lines per datagram>": a UDP burst against a tiny packet queue.
// Every datagram is either processed (all its lines counted and aggregated) or counted as dropped.
func burstCase(c string) string {
	f := strings.Fields(c)
	qsize, _ := strconv.Atoi(f[1])
	nd, _ := strconv.Atoi(f[2])
	per, _ := strconv.Atoi(f[3])
	e := &e2e{transport: "udp", settle: 100 * time.Millisecond, extraArgs: []string{"--statsd.udp-packet-queue-size=" + strconv.Itoa(qsize)}}
	defer e.stop()
	if err := e.start(15, "none", 0, "", false); err != nil {
		return "START-FAILED " + strings.ReplaceAll(err.Error()+" "+e.stderr.String(), "\n", "/")
	}
	var sb strings.Builder
	for k := 0; k < per; k++ {
		if k > 0 {
			sb.WriteByte('\n')
		}
		sb.WriteString("zzburst:1|c")
	}
	pkt := []byte(sb.String())
	conn, err := net.Dial("udp", e.udpAddr)
	if err != nil {
		return "B fail dial"
	}
	defer conn.Close()
	for k := 0; k < nd; k++ {
		conn.Write(pkt)
		if k%8 == 7 {
			time.Sleep(200 * time.Microsecond)
		}
	}
	// quiet: the counters stop moving
	prev, same := "", 0
	var mfs map[string]*dto.MetricFamily
	for t := 0; t < 400 && same < 4; t++ {
		time.Sleep(25 * time.Millisecond)
		m, code, body, err := e.scrape()
		if err != nil || code != 200 {
			continue
		}
		mfs = m
		v := stableView(body)
		if v == prev {
			same++
		} else {
			same = 0
		}
		prev = v
	}
	if mfs == nil {
		return "B fail scrape"
	}
	return fmt.Sprintf("B sent=%d per=%d packets=%d drops=%d lines=%d counter=%d", nd, per, int(famValue(mfs, "statsd_exporter_udp_packets_total")),
		int(famValue(mfs, "statsd_exporter_udp_packet_drops_total")), int(famValue(mfs, "statsd_exporter_lines_total")), int(famValue(mfs, "zzburst")))
}

// "R <transport> <payload hex>": the binary with --statsd.relay.address pointing at a local sink; the payload is sent once.
// Reports the lines the sink received (in order), the relay's own counter and the lines counter.
func relayE2ECase(c string) string {
	f := strings.Fields(c)
	sink, err := net.ListenUDP("udp", &net.UDPAddr{IP: net.IPv4(127, 0, 0, 1)})
	if err != nil {
		return "R fail sink"
	}
	defer sink.Close()
	extra := []string{"--statsd.relay.address=" + sink.LocalAddr().String()}
	if len(f) > 3 {
		extra = append(extra, "--statsd.relay.packet-length="+f[3])
	}
	e := &e2e{transport: f[1], settle: 100 * time.Millisecond, extraArgs: extra}
	defer e.stop()
	if err := e.start(15, "none", 0, "", false); err != nil {
		return "START-FAILED " + strings.ReplaceAll(err.Error()+" "+e.stderr.String(), "\n", "/")
	}
	payload := unhex(f[2])
	if err := e.sendPacket(payload, 1); err != nil {
		return "R fail send"
	}
	if e.tcp != nil {
		e.tcp.Close() // an unterminated last line is delivered at end of stream
		e.tcp = nil
	}
	var got, dgrams []string
	buf := make([]byte, 65536)
	deadline := time.Now().Add(2500 * time.Millisecond) // the relay flushes once a second
	for time.Now().Before(deadline) {
		sink.SetReadDeadline(time.Now().Add(100 * time.Millisecond))
		n, _, err := sink.ReadFromUDP(buf)
		if err != nil {
			continue
		}
		dgrams = append(dgrams, hx(string(buf[:n])))
		for _, l := range strings.Split(strings.TrimSuffix(string(buf[:n]), "\n"), "\n") {
			got = append(got, hx(l))
		}
	}
	mfs, _, _, _ := e.scrape()
	g := "-"
	if len(got) > 0 {
		g = strings.Join(got, ",")
	}
	dg := "-"
	if len(dgrams) > 0 {
		dg = strings.Join(dgrams, ",")
	}
	return fmt.Sprintf("R relayed=%s relayed_total=%d lines=%d long=%d dgrams=%s", g, int(famValue(mfs, "statsd_exporter_relay_lines_relayed_total")),
		int(famValue(mfs, "statsd_exporter_lines_total")), int(famValue(mfs, "statsd_exporter_relay_long_lines_total")), dg)
}

// "RT <n> <gap ms>": relay latency. n lines are sent gap ms apart; each must reach the sink at the relay's next
// one-second tick, i.e. within a second (the check allows 1.5 s).  Reports the latency of every line in ms (-1 = never).
func relayLatencyCase(c string) string {
	f := strings.Fields(c)
	n, _ := strconv.Atoi(f[1])
	gap, _ := strconv.Atoi(f[2])
	sink, err := net.ListenUDP("udp", &net.UDPAddr{IP: net.IPv4(127, 0, 0, 1)})
	if err != nil {
		return "RT fail sink"
	}
	defer sink.Close()
	e := &e2e{transport: "udp", settle: 100 * time.Millisecond, extraArgs: []string{"--statsd.relay.address=" + sink.LocalAddr().String()}}
	defer e.stop()
	if err := e.start(15, "none", 0, "", false); err != nil {
		return "START-FAILED " + strings.ReplaceAll(err.Error()+" "+e.stderr.String(), "\n", "/")
	}
	sentAt := make([]time.Time, n)
	arrived := make([]time.Duration, n)
	for k := range arrived {
		arrived[k] = -1
	}
	var mu sync.Mutex
	stop := make(chan struct{})
	done := make(chan struct{})
	go func() {
		defer close(done)
		buf := make([]byte, 65536)
		for {
			select {
			case <-stop:
				return
			default:
			}
			sink.SetReadDeadline(time.Now().Add(50 * time.Millisecond))
			m, _, err := sink.ReadFromUDP(buf)
			if err != nil {
				continue
			}
			now := time.Now()
			for _, l := range strings.Split(string(buf[:m]), "\n") {
				var k int
				if _, err := fmt.Sscanf(l, "zzrt%d:1|c", &k); err == nil && k >= 0 && k < n {
					mu.Lock()
					if arrived[k] < 0 {
						arrived[k] = now.Sub(sentAt[k])
					}
					mu.Unlock()
				}
			}
		}
	}()
	for k := 0; k < n; k++ {
		mu.Lock()
		sentAt[k] = time.Now()
		mu.Unlock()
		e.send(fmt.Sprintf("zzrt%d:1|c", k))
		time.Sleep(time.Duration(gap) * time.Millisecond)
	}
	time.Sleep(2500 * time.Millisecond)
	close(stop)
	<-done
	var parts []string
	for k := 0; k < n; k++ {
		if arrived[k] < 0 {
			parts = append(parts, "-1")
		} else {
			parts = append(parts, strconv.Itoa(int(arrived[k]/time.Millisecond)))
		}
	}
	return "RT latencies_ms=" + strings.Join(parts, ",")
}

// "F <stream hex>": the bytes written on one TCP connection, which is then closed.
func tcpFramingCase(c string) string {
	f := strings.Fields(c)
	e := &e2e{transport: "tcp", settle: 100 * time.Millisecond}
	defer e.stop()
	if err := e.start(15, "none", 0, "", false); err != nil {
		return "START-FAILED " + strings.ReplaceAll(err.Error()+" "+e.stderr.String(), "\n", "/")
	}
	conn, err := net.DialTimeout("tcp", e.tcpAddr, 3*time.Second)
	if err != nil {
		return "F fail dial"
	}
	conn.Write([]byte(unhex(f[1])))
	if len(f) >= 4 {
		// "F <hex> <hex2> <ms>": the sender pauses in the middle of the stream (possibly mid-line)
		ms, _ := strconv.Atoi(f[3])
		time.Sleep(time.Duration(ms) * time.Millisecond)
		conn.Write([]byte(unhex(f[2])))
	}
	conn.Close()
	prev, same := "", 0
	var mfs map[string]*dto.MetricFamily
	for t := 0; t < 200 && same < 4; t++ {
		time.Sleep(25 * time.Millisecond)
		m, code, body, err := e.scrape()
		if err != nil || code != 200 {
			continue
		}
		mfs = m
		v := stableView(body)
		if v == prev {
			same++
		} else {
			same = 0
		}
		prev = v
	}
	if mfs == nil {
		return "F fail scrape"
	}
	return fmt.Sprintf("F lines=%d toolong=%d conns=%d errors=%d", int(famValue(mfs, "statsd_exporter_lines_total")), int(famValue(mfs, "statsd_exporter_tcp_too_long_lines_total")),
		int(famValue(mfs, "statsd_exporter_tcp_connections_total")), int(famValue(mfs, "statsd_exporter_tcp_connection_errors_total")))
}

// "CT <connections> <lines per connection> <every k-th connection sends an over-long line (0 = none)> <seed>":
// that many TCP connections at once, each writing its own lines in random segments with short pauses; an offender sends a
// line of 5000 bytes after half of its lines (closing that connection only).  Output: the counters and, per connection,
// how many of its lines arrived (a counter series of its own per connection).
func tcpConcurrentCase(c string) string {
	f := strings.Fields(c)
	nconn, _ := strconv.Atoi(f[1])
	nlines, _ := strconv.Atoi(f[2])
	every, _ := strconv.Atoi(f[3])
	seed, _ := strconv.Atoi(f[4])
	e := &e2e{transport: "tcp", settle: 150 * time.Millisecond}
	defer e.stop()
	if err := e.start(15, "none", 0, "", false); err != nil {
		return "START-FAILED " + strings.ReplaceAll(err.Error()+" "+e.stderr.String(), "\n", "/")
	}
	var wg sync.WaitGroup
	fails := make([]string, nconn)
	for i := 0; i < nconn; i++ {
		wg.Add(1)
		go func(i int) {
			defer wg.Done()
			rnd := rand.New(rand.NewSource(int64(seed*1000 + i)))
			conn, err := net.DialTimeout("tcp", e.tcpAddr, 5*time.Second)
			if err != nil {
				fails[i] = "dial"
				return
			}
			defer conn.Close()
			var payload []byte
			for k := 0; k < nlines; k++ {
				if every > 0 && i%every == 0 && k == nlines/2 {
					payload = append(payload, []byte(strings.Repeat("z", 5000)+"\n")...)
				}
				payload = append(payload, []byte(fmt.Sprintf("ct%d:1|c\n", i))...)
			}
			for len(payload) > 0 {
				n := 1 + rnd.Intn(40)
				if n > len(payload) {
					n = len(payload)
				}
				if _, err := conn.Write(payload[:n]); err != nil {
					return // the exporter closed an offender's connection: expected
				}
				payload = payload[n:]
				if rnd.Intn(8) == 0 {
					time.Sleep(time.Duration(rnd.Intn(3)) * time.Millisecond)
				}
			}
		}(i)
	}
	wg.Wait()
	for _, x := range fails {
		if x != "" {
			return "CT fail " + x
		}
	}
	prev, same := "", 0
	var mfs map[string]*dto.MetricFamily
	for t := 0; t < 400 && same < 5; t++ {
		time.Sleep(30 * time.Millisecond)
		m, code, body, err := e.scrape()
		if err != nil || code != 200 {
			continue
		}
		mfs = m
		v := stableView(body)
		if v == prev {
			same++
		} else {
			same = 0
		}
		prev = v
	}
	if mfs == nil {
		return "CT fail scrape"
	}
	per := make([]string, nconn)
	for i := 0; i < nconn; i++ {
		per[i] = strconv.Itoa(int(famValue(mfs, fmt.Sprintf("ct%d", i))))
	}
	return fmt.Sprintf("CT lines=%d toolong=%d conns=%d errors=%d per=%s", int(famValue(mfs, "statsd_exporter_lines_total")), int(famValue(mfs, "statsd_exporter_tcp_too_long_lines_total")),
		int(famValue(mfs, "statsd_exporter_tcp_connections_total")), int(famValue(mfs, "statsd_exporter_tcp_connection_errors_total")), strings.Join(per, ","))
}

func engineE2E(cases string) {
	settle := 60 * time.Millisecond
	if s := os.Getenv("VERIF_E2E_SETTLE_MS"); s != "" {
		if n, err := strconv.Atoi(s); err == nil {
			settle = time.Duration(n) * time.Millisecond
		}
	}
	var lines []string
	eachLine(cases, func(c string) { lines = append(lines, c) })
	res := make([]string, len(lines))
	par := 6
	if s := os.Getenv("VERIF_E2E_PAR"); s != "" {
		if n, err := strconv.Atoi(s); err == nil && n > 0 {
			par = n
		}
	}
	sem := make(chan struct{}, par)
	done := make(chan int, len(lines))
	for i, c := range lines {
		sem <- struct{}{}
		go func(i int, c string) {
			defer func() { <-sem; done <- i }()
			if strings.HasPrefix(c, "KB ") {
				res[i] = checkBigConfig(c)
			} else if strings.HasPrefix(c, "K ") {
				res[i] = checkConfig(unhex(strings.Fields(c)[1]))
			} else if strings.HasPrefix(c, "B ") {
				res[i] = burstCase(c)
			} else if strings.HasPrefix(c, "RT ") {
				res[i] = relayLatencyCase(c)
			} else if strings.HasPrefix(c, "R ") {
				res[i] = relayE2ECase(c)
			} else if strings.HasPrefix(c, "CT ") {
				res[i] = tcpConcurrentCase(c)
			} else if strings.HasPrefix(c, "F ") {
				res[i] = tcpFramingCase(c)
			} else {
				res[i] = e2eCase(c, settle)
			}
		}(i, c)
	}
	for range lines {
		<-done
	}
	for _, r := range res {
		fmt.Fprintln(out, r)
	}
}
