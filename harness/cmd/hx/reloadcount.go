package main

import (
	"fmt"
	"strconv"
	"strings"

	"github.com/prometheus/statsd_exporter/pkg/mapper"
)

func init() { engines["reloadcount"] = engineReloadCount }

// Long uptime of the mapper: N successful reloads in one process, a sentinel name looked up exactly once at a chosen
// distance before the end (255, 256, 257, 65535, 65536, 65537, ... reloads ago) and again after the last reload.  Whatever
// was cached for it belongs to a configuration that many reloads old; the answer must be the one a mapper without cache
// gives under the configuration loaded last.
// case "<cache> <size> <reloads> <unordered 0|1> <gap,gap,...>"
func reloadCountCase(c string) string {
	f := strings.Fields(c)
	size, _ := strconv.Atoi(f[1])
	n, _ := strconv.Atoi(f[2])
	unordered := f[3] == "1"
	var gaps []int
	for _, g := range strings.Split(f[4], ",") {
		k, _ := strconv.Atoi(g)
		gaps = append(gaps, k)
	}
	cfg := func(k int) string {
		// four configurations in a cycle of three plus a last one: the same names map differently in each
		d := ""
		if unordered {
			d = "defaults:\n  glob_disable_ordering: true\n"
		}
		switch {
		case k == n:
			return d + "mappings:\n- match: \"*.*\"\n  name: \"last_any\"\n- match: \"svc.*\"\n  name: \"last_svc\"\n  labels: {who: \"$1\"}\n"
		case k%3 == 0:
			return d + "mappings:\n- match: \"svc.*\"\n  name: \"zero_svc\"\n  labels: {who: \"$1\"}\n- match: \"*.b\"\n  name: \"zero_b\"\n"
		case k%3 == 1:
			return d + "mappings:\n- match: \"*.*\"\n  name: \"one_any\"\n"
		default:
			return d + "mappings:\n- match: \"svc.*\"\n  name: \"two_svc\"\n  labels: {other: \"$1\"}\n"
		}
	}
	answer := func(m *mapper.MetricMapper, name string) string {
		mp, labels, ok := m.GetMapping(name, mapper.MetricTypeCounter)
		if !ok || mp == nil {
			return "-"
		}
		var ls []string
		for k, v := range labels {
			ls = append(ls, k+"="+v)
		}
		return mp.Name + "{" + strings.Join(ls, ",") + "}"
	}
	m := newMapper(f[0], size)
	if err := m.InitFromYAMLString(cfg(0)); err != nil {
		return "ERR " + err.Error()
	}
	at := map[int]string{}
	for _, g := range gaps {
		if g <= n {
			at[n-g] = fmt.Sprintf("svc.g%d", g)
		}
	}
	for k := 0; k <= n; k++ {
		if k > 0 {
			if err := m.InitFromYAMLString(cfg(k)); err != nil {
				return "ERR " + err.Error()
			}
		}
		if name, ok := at[k]; ok && k < n {
			answer(m, name) // cached under the configuration of this moment, not touched again until the end
		}
		answer(m, "svc.busy") // ordinary traffic
	}
	fresh := newMapper("none", 0)
	if err := fresh.InitFromYAMLString(cfg(n)); err != nil {
		return "ERR " + err.Error()
	}
	var parts []string
	for _, g := range gaps {
		if g > n {
			continue
		}
		name := fmt.Sprintf("svc.g%d", g)
		parts = append(parts, fmt.Sprintf("%d:%s:%s", g, answer(m, name), answer(fresh, name)))
	}
	return "reloads=" + strconv.Itoa(n) + " " + strings.Join(parts, " ")
}

func engineReloadCount(cases string) {
	eachLine(cases, func(c string) { fmt.Fprintln(out, reloadCountCase(c)) })
}
