package main

// massexpiry engine: very many series become stale for the same sweep.  Case "<families> <series per family> <ttl0 series>":
// every series is sampled at t=0 under a rule with a ttl of 2s (plus some series of a rule without ttl); the sweep at t=1s
// must keep all of them, ONE sweep at t=3s must remove every series with a ttl and none of the others, and a sample
// afterwards recreates its series from that sample alone.  No model run (the list-based model is quadratic here): the
// property's own reading is evaluated on what the registry exposes.

import (
	"fmt"
	"strconv"
	"strings"
	"time"

	"github.com/prometheus/statsd_exporter/pkg/clock"
)

func init() { engines["massexpiry"] = engineMassExpiry }

func massExpiryCase(c string) (res string) {
	defer func() {
		if r := recover(); r != nil {
			res = fmt.Sprintf("PANIC %v", r)
		}
	}()
	f := strings.Fields(c)
	fams, _ := strconv.Atoi(f[0])
	per, _ := strconv.Atoi(f[1])
	keep, _ := strconv.Atoi(f[2])
	clk := &clock.Clock{Instant: time.Unix(1700000000, 0), TickerCh: make(chan time.Time)}
	clock.ClockInstance = clk
	defer func() { clock.ClockInstance = nil }()
	p := newPipe(15, "none", 0)
	// (a rule ttl of 0 inherits the defaults' ttl, so the immortal series are the ones of the rule-less defaults)
	if err := p.m.InitFromYAMLString("mappings:\n- match: \"mass.*\"\n  name: \"mass$1\"\n  ttl: 2s\n- match: \"keep.*\"\n  name: \"keep\"\n  labels: {id: \"$1\"}\n"); err != nil {
		return "ERR " + err.Error()
	}
	for a := 0; a < fams; a++ {
		for b := 0; b < per; b++ {
			p.input(fmt.Sprintf("mass.%d:1|c|#id:%d", a, b))
		}
	}
	for k := 0; k < keep; k++ {
		p.input(fmt.Sprintf("keep.%d:1|g", k))
	}
	count := func() (mass, kept int, err error) {
		mfs, err := p.reg.Gather()
		if err != nil {
			return 0, 0, err
		}
		for _, mf := range mfs {
			if strings.HasPrefix(mf.GetName(), "mass") {
				mass += len(mf.Metric)
			}
			if mf.GetName() == "keep" {
				kept = len(mf.Metric)
			}
		}
		return mass, kept, nil
	}
	clk.Instant = clk.Instant.Add(1 * time.Second)
	p.ex.Registry.RemoveStaleMetrics()
	m1, k1, err := count()
	if err != nil {
		return "GATHER-ERR " + strings.ReplaceAll(err.Error(), " ", "_")
	}
	clk.Instant = clk.Instant.Add(2 * time.Second)
	p.ex.Registry.RemoveStaleMetrics()
	m2, k2, err := count()
	if err != nil {
		return "GATHER-ERR " + strings.ReplaceAll(err.Error(), " ", "_")
	}
	p.input("mass.0:5|c|#id:0")
	again := -1.0
	mfs, _ := p.reg.Gather()
	for _, mf := range mfs {
		if mf.GetName() == "mass0" && len(mf.Metric) == 1 {
			again = mf.Metric[0].GetCounter().GetValue()
		}
	}
	return fmt.Sprintf("before=%d/%d after=%d/%d recreated=%v", m1, k1, m2, k2, again)
}

func engineMassExpiry(cases string) {
	eachLine(cases, func(c string) { fmt.Fprintln(out, massExpiryCase(c)) })
}
