package main

import (
	"fmt"
	"io"
	"log/slog"
	"math"
	"sort"
	"strconv"
	"strings"

	"github.com/prometheus/client_golang/prometheus"
	dto "github.com/prometheus/client_model/go"
	"github.com/prometheus/common/promslog"

	"github.com/prometheus/statsd_exporter/pkg/event"
	"github.com/prometheus/statsd_exporter/pkg/line"
)

func init() { engines["line"] = engineLine }

var reasons = []string{"malformed_line", "mixed_tagging_styles", "not_enough_parts_after_colon",
	"invalid_extended_aggregate_type", "malformed_component", "malformed_value",
	"invalid_sample_factor", "illegal_event"}

func fbits(v float64) string {
	if math.IsNaN(v) {
		return "7ff8000000000000"
	}
	return fmt.Sprintf("%016x", math.Float64bits(v))
}

func counterValue(c prometheus.Counter) int {
	var m dto.Metric
	c.Write(&m)
	return int(m.GetCounter().GetValue())
}

func labelsString(l map[string]string) string {
	keys := make([]string, 0, len(l))
	for k := range l {
		keys = append(keys, k)
	}
	sort.Strings(keys)
	parts := make([]string, 0, len(l))
	for _, k := range keys {
		parts = append(parts, hx(k)+"="+hx(l[k]))
	}
	if len(parts) == 0 {
		return "-"
	}
	return strings.Join(parts, "&")
}

func eventString(e event.Event) string {
	kind := "?"
	switch ev := e.(type) {
	case *event.CounterEvent:
		kind = "c"
	case *event.GaugeEvent:
		kind = "g"
		if ev.GRelative {
			kind = "g+"
		}
	case *event.ObserverEvent:
		kind = "o"
	}
	return kind + "," + hx(e.MetricName()) + "," + fbits(e.Value()) + "," + labelsString(e.Labels())
}

// debugLogger writes nowhere but has the debug level enabled: what a parser does must not depend on who listens
var debugLogger = func() *slog.Logger {
	lvl := promslog.NewLevel()
	lvl.Set("debug")
	return promslog.New(&promslog.Config{Level: lvl, Writer: io.Discard})
}()

// The parser's four switches can be set by the Enable methods (what main() does) or by assigning the exported fields
// (what a library user may do), in any order; the result must be the same parser.  style: bit i set = flag i is set through
// its field; bit 4 set = the flags are set in reverse order.
func newParserStyled(flags, style int) *line.Parser {
	p := line.NewParser()
	order := []int{0, 1, 2, 3}
	if style&16 != 0 {
		order = []int{3, 2, 1, 0}
	}
	for _, i := range order {
		if flags&(1<<i) == 0 {
			continue
		}
		field := style&(1<<i) != 0
		switch i {
		case 0:
			if field {
				p.DogstatsdTagsEnabled = true
			} else {
				p.EnableDogstatsdParsing()
			}
		case 1:
			if field {
				p.InfluxdbTagsEnabled = true
			} else {
				p.EnableInfluxdbParsing()
			}
		case 2:
			if field {
				p.LibratoTagsEnabled = true
			} else {
				p.EnableLibratoParsing()
			}
		case 3:
			if field {
				p.SignalFXTagsEnabled = true
			} else {
				p.EnableSignalFXParsing()
			}
		}
	}
	return p
}

// how this line's parser is built and which logger it gets: a function of the line, so that a case replays exactly
func lineStyle(l string) (style int, logger *slog.Logger) {
	h := len(l) * 7
	for i := 0; i < len(l) && i < 4; i++ {
		h = h*31 + int(l[i])
	}
	logger = promslog.NewNopLogger()
	if h%3 == 0 {
		logger = debugLogger
	}
	return (h / 3) & 31, logger
}

func newParser(flags int) *line.Parser {
	p := line.NewParser()
	if flags&1 != 0 {
		p.EnableDogstatsdParsing()
	}
	if flags&2 != 0 {
		p.EnableInfluxdbParsing()
	}
	if flags&4 != 0 {
		p.EnableLibratoParsing()
	}
	if flags&8 != 0 {
		p.EnableSignalFXParsing()
	}
	return p
}

// floatOracle lists what strconv.ParseFloat answers for every token the parser could ask about.
func floatOracle(l string) string {
	seen := map[string]bool{}
	var toks []string
	add := func(t string) {
		if !seen[t] {
			seen[t] = true
			toks = append(toks, t)
		}
	}
	for _, seg := range strings.Split(l, "|") {
		add(seg)
		if strings.HasPrefix(seg, "@") {
			add(seg[1:])
		}
		for _, sub := range strings.Split(seg, ":") {
			add(sub)
			if strings.HasPrefix(sub, "@") {
				add(sub[1:])
			}
		}
	}
	parts := make([]string, 0, len(toks))
	for _, t := range toks {
		v, err := strconv.ParseFloat(t, 64)
		e := "0"
		if err != nil {
			e = "1"
		}
		parts = append(parts, hx(t)+":"+fbits(v)+":"+e)
	}
	return strings.Join(parts, " ")
}

func lineOne(flags int, l string) (res string) {
	defer func() {
		if r := recover(); r != nil {
			res = "PANIC"
		}
	}()
	style, logger := lineStyle(l)
	p := newParserStyled(flags, style)
	sampleErrors := prometheus.NewCounterVec(prometheus.CounterOpts{Name: "e"}, []string{"reason"})
	samples := prometheus.NewCounter(prometheus.CounterOpts{Name: "s"})
	tagErrors := prometheus.NewCounter(prometheus.CounterOpts{Name: "te"})
	tagsReceived := prometheus.NewCounter(prometheus.CounterOpts{Name: "tr"})
	evs := p.LineToEvents(l, *sampleErrors, samples, tagErrors, tagsReceived, logger)
	es := make([]string, 0, len(evs))
	for _, e := range evs {
		es = append(es, eventString(e))
	}
	var errs []string
	for _, r := range reasons {
		if n := counterValue(sampleErrors.WithLabelValues(r)); n > 0 {
			errs = append(errs, fmt.Sprintf("%s:%d", r, n))
		}
	}
	evstr := "-"
	if len(es) > 0 {
		evstr = strings.Join(es, ";")
	}
	errstr := "-"
	if len(errs) > 0 {
		errstr = strings.Join(errs, ",")
	}
	return fmt.Sprintf("OK E=%s S=%d TE=%d TR=%d ERR=%s", evstr, counterValue(samples),
		counterValue(tagErrors), counterValue(tagsReceived), errstr)
}

// case line: "<flags 0..15> <hex line>"; output: "<observation>\t<oracle>"
func engineLine(cases string) {
	eachLine(cases, func(c string) {
		f := strings.Fields(c)
		flags, _ := strconv.Atoi(f[0])
		l := unhex(f[1])
		fmt.Fprintf(out, "%s\t%s\n", lineOne(flags, l), floatOracle(l))
	})
}
