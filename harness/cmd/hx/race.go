package main

import (
	"fmt"
	"strconv"
	"strings"
	"sync"
	"time"

	"github.com/prometheus/client_golang/prometheus"
	"github.com/prometheus/common/promslog"

	"github.com/prometheus/statsd_exporter/pkg/event"
	"github.com/prometheus/statsd_exporter/pkg/exporter"
	"github.com/prometheus/statsd_exporter/pkg/line"
	"github.com/prometheus/statsd_exporter/pkg/mapper"
)

func init() { engines["race"] = engineRace }

const raceCfgA = `
defaults:
  ttl: 1s
  observer_type: histogram
  histogram_options:
    buckets: [0.1, 1, 10]
mappings:
- match: "a.*"
  name: "A_$1"
  labels: {cfg: "A"}
- match: "t.*"
  name: "T_$1"
  observer_type: summary
`
const raceCfgB = `
defaults:
  ttl: 2s
  observer_type: summary
mappings:
- match: "a.*"
  name: "B_$1"
  labels: {cfg: "B"}
  ttl: 5s
- match: "(.*)\\.z"
  match_type: regex
  name: "Z_$1"
`

// scenario "mapper <cache> <size> <goroutines> <millis>": N concurrent GetMapping callers + a reloader.
// Every answer must come entirely from configuration A or entirely from B, and once a reload has returned
// every lookup must be answered by the configuration it installed (stale = answers that were not).
// scenario "pipeline <millis>": parser -> event queue -> exporter goroutine, scrapers, reloader.
func raceCase(c string) string {
	f := strings.Fields(c)
	switch f[0] {
	case "mapper":
		size, _ := strconv.Atoi(f[2])
		n, _ := strconv.Atoi(f[3])
		ms, _ := strconv.Atoi(f[4])
		m := newMapper(f[1], size)
		cfgA, cfgB := raceCfgA, raceCfgB
		if len(f) > 5 && f[5] == "unordered" {
			// glob_disable_ordering: the search hands its capture slice out without copying it
			cfgA = strings.Replace(cfgA, "defaults:\n", "defaults:\n  glob_disable_ordering: true\n", 1)
			cfgB = strings.Replace(cfgB, "defaults:\n", "defaults:\n  glob_disable_ordering: true\n", 1)
		}
		if err := m.InitFromYAMLString(cfgA); err != nil {
			return "ERR " + err.Error()
		}
		stop := make(chan struct{})
		var wg sync.WaitGroup
		var mu sync.Mutex
		mixed, lookups, stale := 0, 0, 0
		for g := 0; g < n; g++ {
			wg.Add(1)
			go func(g int) {
				defer wg.Done()
				k := 0
				for {
					select {
					case <-stop:
						return
					default:
					}
					name := fmt.Sprintf("a.x%d", (g+k)%7)
					mp, labels, ok := m.GetMapping(name, mapper.MetricTypeCounter)
					k++
					bad := false
					if !ok || mp == nil {
						bad = true
					} else {
						cfg := labels["cfg"]
						if mp.Name != cfg+"_"+strings.TrimPrefix(name, "a.") || (cfg != "A" && cfg != "B") {
							bad = true // the name must be built from THIS lookup's capture
						}
						if (cfg == "A" && mp.Ttl != time.Second) || (cfg == "B" && mp.Ttl != 5*time.Second) {
							bad = true
						}
					}
					mu.Lock()
					lookups++
					if bad {
						mixed++
					}
					mu.Unlock()
				}
			}(g)
		}
		deadline := time.Now().Add(time.Duration(ms) * time.Millisecond)
		reloads := 0
		for time.Now().Before(deadline) {
			cfg := cfgA
			if reloads%2 == 0 {
				cfg = cfgB
			}
			if err := m.InitFromYAMLString(cfg); err != nil {
				return "ERR reload " + err.Error()
			}
			reloads++
			// the reload has returned: every lookup from now on is answered by the configuration just installed
			want := "A"
			if reloads%2 == 1 {
				want = "B"
			}
			for k := 0; k < 7; k++ {
				if _, labels, ok := m.GetMapping(fmt.Sprintf("a.x%d", k), mapper.MetricTypeCounter); !ok || labels["cfg"] != want {
					stale++
				}
			}
			if reloads%5 == 0 {
				m.InitFromYAMLString("mappings:\n- match: 'a..b'\n  name: x\n") // invalid: must change nothing
			}
		}
		close(stop)
		wg.Wait()
		return fmt.Sprintf("lookups=%d mixed=%d stale=%d reloads=%d", lookups, mixed, stale, reloads)
	case "pipeline":
		ms, _ := strconv.Atoi(f[1])
		reg := prometheus.NewRegistry()
		m := newMapper("lru", 100)
		m.InitFromYAMLString(raceCfgA)
		mk := func(n string, l ...string) *prometheus.CounterVec {
			return prometheus.NewCounterVec(prometheus.CounterOpts{Name: n}, l)
		}
		ex := exporter.NewExporter(reg, m, promslog.NewNopLogger(), mk("a", "action"), prometheus.NewCounter(prometheus.CounterOpts{Name: "u"}),
			mk("e", "reason"), mk("s", "type"), mk("c", "type", "metric_name"), prometheus.NewGaugeVec(prometheus.GaugeOpts{Name: "m"}, []string{"type"}))
		events := make(chan event.Events, 16)
		eq := event.NewEventQueue(events, 5, 2*time.Millisecond, prometheus.NewCounter(prometheus.CounterOpts{Name: "f"}))
		done := make(chan struct{})
		go func() { ex.Listen(events); close(done) }()
		stop := make(chan struct{})
		var wg sync.WaitGroup
		for g := 0; g < 3; g++ {
			wg.Add(1)
			go func(g int) {
				defer wg.Done()
				p := line.NewParser()
				p.EnableDogstatsdParsing()
				se := mk("se", "reason")
				cn := prometheus.NewCounter(prometheus.CounterOpts{Name: "x"})
				k := 0
				for {
					select {
					case <-stop:
						return
					default:
					}
					l := fmt.Sprintf("a.x%d:1|c|#g:%d\nt.y:%d|ms\nu%d:2|g", k%5, g, k%9, k%3)
					for _, ln := range strings.Split(l, "\n") {
						eq.Queue(p.LineToEvents(ln, *se, cn, cn, cn, promslog.NewNopLogger()))
					}
					k++
				}
			}(g)
		}
		for g := 0; g < 2; g++ {
			wg.Add(1)
			go func() {
				defer wg.Done()
				for {
					select {
					case <-stop:
						return
					default:
					}
					reg.Gather()
					time.Sleep(200 * time.Microsecond)
				}
			}()
		}
		deadline := time.Now().Add(time.Duration(ms) * time.Millisecond)
		k := 0
		for time.Now().Before(deadline) {
			if k%2 == 0 {
				m.InitFromYAMLString(raceCfgB)
			} else {
				m.InitFromYAMLString(raceCfgA)
			}
			k++
			time.Sleep(300 * time.Microsecond)
		}
		close(stop)
		wg.Wait()
		eq.Flush()
		time.Sleep(5 * time.Millisecond)
		_, err := reg.Gather()
		return fmt.Sprintf("reloads=%d gather_err=%v", k, err != nil)
	}
	return "BADCASE"
}

func engineRace(cases string) {
	eachLine(cases, func(c string) { fmt.Fprintln(out, raceCase(c)) })
}
