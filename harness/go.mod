module verif/harness

go 1.23.0

toolchain go1.23.5

require (
	github.com/prometheus/client_golang v1.22.0
	github.com/prometheus/client_model v0.6.1
	github.com/prometheus/common v0.63.0
	github.com/prometheus/statsd_exporter v0.0.0
)

require (
	github.com/beorn7/perks v1.0.1 // indirect
	github.com/cespare/xxhash/v2 v2.3.0 // indirect
	github.com/golang/groupcache v0.0.0-20210331224755-41bb18bfe9da // indirect
	github.com/munnerz/goautoneg v0.0.0-20191010083416-a7dc8b61c822 // indirect
	github.com/prometheus/procfs v0.15.1 // indirect
	golang.org/x/sys v0.31.0 // indirect
	google.golang.org/protobuf v1.36.5 // indirect
	gopkg.in/yaml.v2 v2.4.0 // indirect
)

replace github.com/prometheus/statsd_exporter => /repo
