(* Run-time panics are values: nothing is totalised with defaults. *)
Inductive res (A : Type) : Type :=
| Ok (a : A)
| Panic.
Arguments Ok {A} a.
Arguments Panic {A}.

Definition bind {A B} (r : res A) (f : A -> res B) : res B :=
  match r with Ok a => f a | Panic => Panic end.

Notation "'let!' x ':=' r 'in' k" := (bind r (fun x => k))
  (at level 200, x pattern, r at level 100, k at level 200).

Definition is_ok {A} (r : res A) : bool :=
  match r with Ok _ => true | Panic => false end.
