(* Go strings are byte sequences: [list byte]. Slicing panics are explicit. *)
From Coq Require Export List NArith ZArith Arith Lia Bool.
From Coq.Strings Require Export Byte.
From Coq Require Import ZifyN ZifyNat ZifyBool.
From SE Require Export Base.Result.
Export ListNotations.

Ltac Zify.zify_post_hook ::= Z.div_mod_to_equations.

Definition bytes := list byte.

Definition bN (b : byte) : N := Byte.to_N b.

Lemma bN_bound b : (bN b <= 255)%N.
Proof. apply Byte.to_N_bounded. Qed.

Lemma bN_inj a b : bN a = bN b -> a = b.
Proof.
  unfold bN; intros H.
  pose proof (Byte.of_to_N a) as Ha. pose proof (Byte.of_to_N b) as Hb.
  rewrite H in Ha. congruence.
Qed.

Definition beq (a b : byte) : bool := (bN a =? bN b)%N.

Lemma beq_eq a b : beq a b = true <-> a = b.
Proof.
  unfold beq; split; intros H.
  - apply N.eqb_eq in H. now apply bN_inj.
  - subst. apply N.eqb_refl.
Qed.

Lemma beq_refl a : beq a a = true.
Proof. now apply beq_eq. Qed.

Lemma beq_neq a b : beq a b = false <-> a <> b.
Proof.
  split; intros H.
  - intros E. apply beq_eq in E. congruence.
  - destruct (beq a b) eqn:E; [apply beq_eq in E; contradiction | reflexivity].
Qed.

Lemma beq_spec a b : reflect (a = b) (beq a b).
Proof.
  destruct (beq a b) eqn:E; constructor.
  - now apply beq_eq. - now apply beq_neq.
Qed.

Fixpoint bytes_eqb (a b : bytes) : bool :=
  match a, b with
  | [], [] => true
  | x :: a', y :: b' => beq x y && bytes_eqb a' b'
  | _, _ => false
  end.

Lemma bytes_eqb_eq a b : bytes_eqb a b = true <-> a = b.
Proof.
  revert b; induction a as [|x a IH]; intros [|y b]; simpl; split; intros H;
    try reflexivity; try discriminate.
  - apply andb_true_iff in H as [H1 H2]. apply beq_eq in H1. apply IH in H2. congruence.
  - inversion H; subst. rewrite beq_refl. simpl. now apply IH.
Qed.

Lemma bytes_eqb_refl a : bytes_eqb a a = true.
Proof. now apply bytes_eqb_eq. Qed.

Lemma bytes_eqb_neq a b : bytes_eqb a b = false <-> a <> b.
Proof.
  split; intros H.
  - intros E. apply bytes_eqb_eq in E. congruence.
  - destruct (bytes_eqb a b) eqn:E; [apply bytes_eqb_eq in E; contradiction | reflexivity].
Qed.

(* s[lo:hi] with Go's bounds check *)
Definition slice (s : bytes) (lo hi : nat) : res bytes :=
  if (lo <=? hi) && (hi <=? length s) then Ok (firstn (hi - lo) (skipn lo s)) else Panic.

(* s[lo:] *)
Definition slice_from (s : bytes) (lo : nat) : res bytes :=
  if lo <=? length s then Ok (skipn lo s) else Panic.
