From Coq Require Import List Arith Lia.
Import ListNotations.

Section L.
Context {A : Type}.
Implicit Types s t : list A.

Lemma skipn_skipn' n m s : skipn n (skipn m s) = skipn (m + n) s.
Proof.
  revert s; induction m as [|m IH]; intros s; simpl; [reflexivity|].
  destruct s as [|a s]; [now rewrite skipn_nil | apply IH].
Qed.

Definition sub s (a b : nat) : list A := firstn (b - a) (skipn a s).

Lemma sub_nil s a : sub s a a = [].
Proof. unfold sub. now rewrite Nat.sub_diag. Qed.

Lemma sub_split s o i : o <= i -> skipn o s = sub s o i ++ skipn i s.
Proof.
  intros H. unfold sub.
  rewrite <- (firstn_skipn (i - o) (skipn o s)) at 1.
  f_equal. rewrite skipn_skipn'. f_equal. lia.
Qed.

Lemma sub_snoc s o i b t : o <= i -> skipn i s = b :: t -> sub s o (S i) = sub s o i ++ [b].
Proof.
  intros H E. unfold sub.
  rewrite (sub_split s o i H), E. unfold sub.
  assert (Hl : length (skipn i s) = length s - i) by apply skipn_length.
  rewrite E in Hl. simpl in Hl.
  assert (L : length (firstn (i - o) (skipn o s)) = i - o).
  { rewrite firstn_length, skipn_length. lia. }
  rewrite !firstn_app, L.
  replace (S i - o - (i - o)) with 1 by lia.
  replace (i - o - (i - o)) with 0 by lia.
  cbn [firstn]. rewrite app_nil_r.
  rewrite (firstn_all2 (n := S i - o)) by lia.
  rewrite (firstn_all2 (n := i - o) (firstn (i - o) (skipn o s))) by lia. reflexivity.
Qed.

Lemma skipn_S_cons s i b t : skipn i s = b :: t -> skipn (S i) s = t.
Proof.
  intros E. replace (S i) with (i + 1) by lia.
  rewrite <- skipn_skipn', E. reflexivity.
Qed.

Lemma skipn_cons_lt s i b t : skipn i s = b :: t -> i < length s.
Proof.
  intros E. assert (length (skipn i s) = length s - i) by apply skipn_length.
  rewrite E in H. simpl in H. lia.
Qed.

Lemma sub_full s : sub s 0 (length s) = s.
Proof. unfold sub. simpl. rewrite Nat.sub_0_r. apply firstn_all. Qed.

Lemma sub_to_end s o : o <= length s -> sub s o (length s) = skipn o s.
Proof.
  intros H. unfold sub. apply firstn_all2. rewrite skipn_length. lia.
Qed.
End L.
