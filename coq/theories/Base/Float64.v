(* IEEE-754 binary64 from Flocq (Binary.binary_float 53 1024, round-to-nearest-even), as Go's
   float64.  NaN payloads are not observable in the exporter; comparisons canonicalise them. *)
From Coq Require Import ZArith Bool.
From Flocq Require Import Core.Raux IEEE754.BinarySingleNaN IEEE754.Binary IEEE754.Bits.

Definition F64 := binary64.

Definition f_add (x y : F64) : F64 := b64_plus mode_NE x y.
Definition f_sub (x y : F64) : F64 := b64_minus mode_NE x y.
Definition f_mul (x y : F64) : F64 := b64_mult mode_NE x y.
Definition f_div (x y : F64) : F64 := b64_div mode_NE x y.
Definition f_cmp (x y : F64) : option comparison := b64_compare x y.
Definition f_eqb (x y : F64) : bool := match f_cmp x y with Some Eq => true | _ => false end.
Definition f_ltb (x y : F64) : bool := match f_cmp x y with Some Lt => true | _ => false end.
Definition f_leb (x y : F64) : bool := match f_cmp x y with Some Lt | Some Eq => true | _ => false end.
Definition f_is_nan (x : F64) : bool := Binary.is_nan 53 1024 x.

Definition f_of_bits (z : Z) : F64 := b64_of_bits z.
Definition f_to_bits (x : F64) : Z :=
  if f_is_nan x then 9221120237041090560%Z (* 0x7FF8000000000000 *) else bits_of_b64 x.

Definition f_zero : F64 := B754_zero 53 1024 false.
Definition f_one : F64 := f_of_bits 4607182418800017408.      (* 0x3FF0000000000000 *)
Definition f_1000 : F64 := f_of_bits 4652007308841189376.     (* 0x408F400000000000 *)

(* Go's int(x) for float64 x on amd64 (CVTTSD2SQ): truncation; NaN, infinities and values
   outside int64 give -2^63. *)
Definition min_int64 : Z := (-9223372036854775808)%Z.
Definition f_to_int (x : F64) : Z :=
  match x with
  | B754_nan _ _ _ _ _ => min_int64
  | B754_infinity _ _ _ => min_int64
  | _ => let z := Binary.Btrunc 53 1024 x in
         if (Z.leb min_int64 z && Z.ltb z 9223372036854775808)%bool then z else min_int64
  end.

(* exact conversion of an unsigned 64-bit integer, rounded to nearest even: float64(uint64) *)
Definition f_of_Z (z : Z) : F64 :=
  Binary.binary_normalize 53 1024 (eq_refl _) (eq_refl _) mode_NE z 0 false.
