(* Go map[string]string as a key-sorted, key-unique association list: equal maps are equal lists. *)
From SE Require Export Base.Strings.

Definition lmap := list (bytes * bytes).

Fixpoint lm_set (k v : bytes) (m : lmap) : lmap :=
  match m with
  | [] => [(k, v)]
  | (k', v') :: r =>
    if bytes_eqb k k' then (k, v) :: r
    else if bytes_ltb k k' then (k, v) :: m
    else (k', v') :: lm_set k v r
  end.

Fixpoint lm_get (k : bytes) (m : lmap) : option bytes :=
  match m with
  | [] => None
  | (k', v') :: r => if bytes_eqb k k' then Some v' else lm_get k r
  end.

Definition lm_mem (k : bytes) (m : lmap) : bool :=
  match lm_get k m with Some _ => true | None => false end.

Definition lm_keys (m : lmap) : list bytes := map fst m.
Definition lm_vals (m : lmap) : list bytes := map snd m.
