(* Go's unicode/utf8: DecodeRuneInString, RuneLen, ValidString, and [for i, c := range s]. *)
From SE Require Export Base.Bytes.
Local Open Scope N_scope.

Definition rune := N.
Definition rune_error : rune := 65533.

Definition in_range (lo hi : N) (b : byte) : bool := (lo <=? bN b) && (bN b <=? hi).
Definition is_cont (b : byte) : bool := in_range 128 191 b.

(* utf8.DecodeRuneInString: (rune, width) *)
Definition decode (s : bytes) : rune * nat :=
  match s with
  | [] => (rune_error, 0%nat)
  | b0 :: t =>
    let n0 := bN b0 in
    if n0 <? 128 then (n0, 1%nat)
    else if n0 <? 194 then (rune_error, 1%nat)
    else if n0 <? 224 then
      match t with
      | b1 :: _ =>
        if is_cont b1 then ((n0 - 192) * 64 + (bN b1 - 128), 2%nat) else (rune_error, 1%nat)
      | _ => (rune_error, 1%nat)
      end
    else if n0 <? 240 then
      let lo := if n0 =? 224 then 160 else 128 in
      let hi := if n0 =? 237 then 159 else 191 in
      match t with
      | b1 :: b2 :: _ =>
        if in_range lo hi b1 && is_cont b2
        then ((n0 - 224) * 4096 + (bN b1 - 128) * 64 + (bN b2 - 128), 3%nat)
        else (rune_error, 1%nat)
      | _ => (rune_error, 1%nat)
      end
    else if n0 <? 245 then
      let lo := if n0 =? 240 then 144 else 128 in
      let hi := if n0 =? 244 then 143 else 191 in
      match t with
      | b1 :: b2 :: b3 :: _ =>
        if in_range lo hi b1 && is_cont b2 && is_cont b3
        then ((n0 - 240) * 262144 + (bN b1 - 128) * 4096 + (bN b2 - 128) * 64 + (bN b3 - 128), 4%nat)
        else (rune_error, 1%nat)
      | _ => (rune_error, 1%nat)
      end
    else (rune_error, 1%nat)
  end.

(* utf8.RuneLen *)
Definition rune_len (r : rune) : Z :=
  if r <? 128 then 1%Z
  else if r <? 2048 then 2%Z
  else if (55296 <=? r) && (r <=? 57343) then (-1)%Z
  else if r <? 65536 then 3%Z
  else if r <=? 1114111 then 4%Z
  else (-1)%Z.

(* [for i, c := range s]: list of (byte index, rune, width) *)
Fixpoint range_aux (s : bytes) (i : nat) (skip : nat) : list (nat * rune * nat) :=
  match s with
  | [] => []
  | b :: t =>
    match skip with
    | S k => range_aux t (S i) k
    | O => let '(r, w) := decode (b :: t) in (i, r, w) :: range_aux t (S i) (w - 1)
    end
  end.

Definition range_runes (s : bytes) : list (nat * rune * nat) := range_aux s 0 0.

(* utf8.ValidString *)
Fixpoint valid_aux (s : bytes) (skip : nat) : bool :=
  match s with
  | [] => true
  | b :: t =>
    match skip with
    | S k => valid_aux t k
    | O => let '(r, w) := decode (b :: t) in
           if (r =? rune_error) && (w =? 1)%nat then false else valid_aux t (w - 1)
    end
  end.

Definition valid_string (s : bytes) : bool := valid_aux s 0.
