(* Go's strings package on byte lists: Index, Contains, Split, SplitN, Cut, HasPrefix/Suffix. *)
From SE Require Export Base.Bytes.

(* index of the first occurrence of byte c *)
Fixpoint index_byte (c : byte) (s : bytes) : option nat :=
  match s with
  | [] => None
  | b :: t => if beq b c then Some 0 else option_map S (index_byte c t)
  end.

(* strings.Cut(s, [c]) : (before, after, found) *)
Fixpoint cut_byte (c : byte) (s : bytes) : bytes * bytes * bool :=
  match s with
  | [] => ([], [], false)
  | b :: t => if beq b c then ([], t, true)
              else let '(x, y, f) := cut_byte c t in (b :: x, y, f)
  end.

(* strings.Split(s, [c]) : never empty *)
Fixpoint split_byte (c : byte) (s : bytes) : list bytes :=
  match s with
  | [] => [[]]
  | b :: t =>
    if beq b c then [] :: split_byte c t
    else match split_byte c t with
         | [] => [[b]]                (* unreachable: split is never empty *)
         | x :: r => (b :: x) :: r
         end
  end.

(* strings.SplitN(s, [c], n) for n >= 1 *)
Fixpoint splitn_byte (c : byte) (n : nat) (s : bytes) : list bytes :=
  match n with
  | O => []
  | S O => [s]
  | S n' =>
    match cut_byte c s with
    | (x, y, true) => x :: splitn_byte c n' y
    | (_, _, false) => [s]
    end
  end.

Fixpoint has_prefix (p s : bytes) : bool :=
  match p, s with
  | [], _ => true
  | a :: p', b :: s' => beq a b && has_prefix p' s'
  | _ :: _, [] => false
  end.

Fixpoint contains (p s : bytes) : bool :=
  has_prefix p s || match s with [] => false | _ :: t => contains p t end.

Definition has_suffix (p s : bytes) : bool := has_prefix (rev p) (rev s).

(* strings.TrimSuffix *)
Definition trim_suffix (p s : bytes) : bytes :=
  if has_suffix p s then firstn (length s - length p) s else s.

(* strings.Join *)
Fixpoint join (sep : bytes) (l : list bytes) : bytes :=
  match l with
  | [] => []
  | [x] => x
  | x :: r => x ++ sep ++ join sep r
  end.

(* lexicographic byte order (Go's string <) *)
Fixpoint bytes_ltb (a b : bytes) : bool :=
  match a, b with
  | _, [] => false
  | [], _ :: _ => true
  | x :: a', y :: b' => (bN x <? bN y)%N || (beq x y && bytes_ltb a' b')
  end.
