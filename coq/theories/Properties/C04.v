(* C04 - Ordered glob mapping: the first matching rule wins.
   Model: Model/Fsm.v (pkg/mapper/fsm/fsm.go after the FSM fixes), Model/Mapper.v.
   Specification: Spec/MatchSpec.v (glob_match, first_match, spec_lookup). *)
From SE Require Import Spec.MapperSpec Proofs.FsmProofs Proofs.MapperProofs.

(* The FSM search with backtracking, for ALL rule lists, names and types, returns the first rule
   in configuration order whose pattern matches component by component and whose type filter
   admits the type, with the wildcard captures. *)
Theorem C04_fsm_first_match : stmt_fsm_first_match.
Proof. exact fsm_first_match_ok. Qed.
Print Assumptions C04_fsm_first_match.

(* The whole lookup of any configuration that loads: glob rules first (first match, or most
   specific when ordering is disabled), otherwise the first matching regex rule, otherwise
   unmapped. *)
Theorem C04_lookup_is_spec : forall uni_word re_match heur_bt re_compiles,
  stmt_lookup_is_spec uni_word re_match heur_bt re_compiles.
Proof.
  intros. apply lookup_is_spec_ok; [exact fsm_first_match_ok | exact fsm_most_specific_ok].
Qed.
Print Assumptions C04_lookup_is_spec.

(* Rules that do not match the metric never change the outcome (inserted or removed anywhere) ... *)
Theorem C04_irrelevant_rule : stmt_irrelevant_rule.
Proof. exact irrelevant_rule_ok. Qed.
Print Assumptions C04_irrelevant_rule.
(* ... and neither do the rules after the first match. *)
Theorem C04_later_rules_irrelevant : stmt_later_rules_irrelevant.
Proof. exact later_rules_irrelevant_ok. Qed.
Print Assumptions C04_later_rules_irrelevant.

(* Non-vacuity: the two former defects, on the model. rules a.b.c , a.b ; lookup a.b -> rule 1 *)
Example C04_prefix_rule :
  fsm_get_mapping [ {| g_prio := 0; g_fields := [[x61];[x62];[x63]]; g_mmt := [] |};
                    {| g_prio := 1; g_fields := [[x61];[x62]]; g_mmt := [] |} ]
                  true false [x61;x2e;x62] s_counter = Some (1, []).
Proof. vm_compute. reflexivity. Qed.
