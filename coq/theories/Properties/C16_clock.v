(* C16: the queue model (Model/EventQueue.v) sees time only as the tick of its flush ticker.
   Generated obligation: the only thing pkg/event asks the clock is that ticker. *)
From Coq Require Import List String Bool.
Import ListNotations.
From SE Require Import Model.Concurrency Generated.AccessTable.
Open Scope string_scope.

Theorem C16_queue_time_is_the_flush_ticker :
  clock_only clock_table "pkg/event." ["clock.NewTicker"] = true.
Proof. vm_compute. reflexivity. Qed.
Print Assumptions C16_queue_time_is_the_flush_ticker.
