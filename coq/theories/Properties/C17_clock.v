(* C17: the relay model (Model/Relay.v) sees time only as the tick of its flush ticker.
   Generated obligation: the only thing pkg/relay asks the clock is that ticker. *)
From Coq Require Import List String Bool.
Import ListNotations.
From SE Require Import Model.Concurrency Generated.AccessTable.
Open Scope string_scope.

Theorem C17_relay_time_is_the_flush_ticker :
  clock_only clock_table "pkg/relay." ["clock.NewTicker"] = true.
Proof. vm_compute. reflexivity. Qed.
Print Assumptions C17_relay_time_is_the_flush_ticker.
