(* C03 - Every scrape succeeds and is a consistent exposition.
   gather_ok (Model/ClientGolang.v) models the checks Registry.Gather applies to unchecked
   collectors: legal names, one help and one type per family, no _sum/_count/_bucket collisions,
   legal and unique label names, no duplicate series.  The text encode -> parse round trip is
   executed by the harness on every scrape (not modelled). *)
From SE Require Import Spec.PipelineSpec Spec.ExpositionSpec Proofs.PipelineProofs Proofs.ExpositionProofs.

(* After ANY history, with any sound mapping cache, every scrape succeeds - provided the binary's
   own collectors are consistent and no exposed series uses one of their names (known finding
   builtin-collector-name-collision). *)
Theorem C03_scrape_ok : forall pf uni_word re_match heur_bt re_compiles CS c_get c_add c_reset builtins,
  stmt_scrape_ok pf uni_word re_match heur_bt re_compiles CS c_get c_add c_reset builtins.
Proof. intros. unfold stmt_scrape_ok. intros. eapply scrape_ok_ok; eauto. Qed.
Print Assumptions C03_scrape_ok.

(* What "succeeds" means, in the words of the property.  For every collected set on which gather_ok
   holds (hence, by C03_scrape_ok, for every scrape after every history):
   every metric and label name is legal and no label name occurs twice in a series ... *)
Theorem C03_names_legal : stmt_gather_ok_names_legal.
Proof. exact gather_ok_names_legal_ok. Qed.
Print Assumptions C03_names_legal.
(* ... each family has one help string and one type ... *)
Theorem C03_one_help_one_type_per_family : stmt_gather_ok_one_help_one_type.
Proof. exact gather_ok_one_help_one_type_ok. Qed.
Print Assumptions C03_one_help_one_type_per_family.
(* ... no two series share a name and a label set ... *)
Theorem C03_series_distinct : stmt_gather_ok_series_distinct.
Proof. exact gather_ok_series_distinct_ok. Qed.
Print Assumptions C03_series_distinct.
(* ... and a histogram / summary family is never exposed next to a family named like one of its own
   exposition lines (X_count, X_sum, X_bucket) *)
Theorem C03_no_companion_clash : stmt_gather_ok_no_companion_clash.
Proof. exact gather_ok_no_companion_clash_ok. Qed.
Print Assumptions C03_no_companion_clash.

(* the premise is satisfiable: without built-in collectors it is vacuous *)
Example C03_no_builtins : gather_ok [] = true.
Proof. reflexivity. Qed.
