(* C03 - Every scrape succeeds and is a consistent exposition.
   gather_ok (Model/ClientGolang.v) models the checks Registry.Gather applies to unchecked
   collectors: legal names, one help and one type per family, no _sum/_count/_bucket collisions,
   legal and unique label names, no duplicate series.  The text encode -> parse round trip is
   executed by the harness on every scrape (not modelled). *)
From SE Require Import Spec.PipelineSpec Proofs.PipelineProofs.

(* After ANY history, with any sound mapping cache, every scrape succeeds - provided the binary's
   own collectors are consistent and no exposed series uses one of their names (known finding
   builtin-collector-name-collision). *)
Theorem C03_scrape_ok : forall pf uni_word re_match heur_bt re_compiles CS c_get c_add c_reset builtins,
  stmt_scrape_ok pf uni_word re_match heur_bt re_compiles CS c_get c_add c_reset builtins.
Proof. intros. unfold stmt_scrape_ok. intros. eapply scrape_ok_ok; eauto. Qed.
Print Assumptions C03_scrape_ok.

(* the premise is satisfiable: without built-in collectors it is vacuous *)
Example C03_no_builtins : gather_ok [] = true.
Proof. reflexivity. Qed.
