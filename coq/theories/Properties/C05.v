(* C05 - Labels come only from the event's own tags and its own rule. *)
From SE Require Import Spec.PipelineSpec Proofs.PipelineProofs.

(* the label set handleEvent computes is a function of the event's tags and the matched rule's
   labels alone (no exporter state, no other event, no cache content) ... *)
Theorem C05_labels_local : stmt_labels_local.
Proof. exact labels_local_ok. Qed.
Print Assumptions C05_labels_local.

(* ... merged as documented: the rule's value wins unless honor_labels, then the tag's ... *)
Theorem C05_merge_semantics : stmt_merge_semantics.
Proof. exact merge_semantics_ok. Qed.
Print Assumptions C05_merge_semantics.

(* ... and the registry updates exactly the series with that name and those label values. *)
Theorem C05_series_identity : stmt_series_identity.
Proof. exact series_identity_ok. Qed.
Print Assumptions C05_series_identity.
(* That the mapping answer itself ([mapped]) is the rule the configuration prescribes, whatever the
   cache holds, is C13_cache_invisible; that tag keys are escaped is C09 (sem_single). *)

Example C05_merge_example :
  merge_labels false [([x6b], [x74])] [([x6b], [x72])] = [([x6b], [x72])] /\
  merge_labels true  [([x6b], [x74])] [([x6b], [x72])] = [([x6b], [x74])].
Proof. vm_compute. auto. Qed.
