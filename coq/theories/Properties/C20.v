(* C20 - The concurrent pipeline is free of data races (on the tracked shared fields).
   Generated/AccessTable.v is regenerated from /repo's working tree by tools/accessgen on every
   run; the theorems below are re-checked against what the code says now.
   partial: the theorem is about the abstraction the translator extracts (straight-line walk of
   each function, syntactic lock tracking, tracked struct fields only, channels as ownership
   transfer, client library / standard library internals trusted to be thread-safe); the race
   engine (race-instrumented harness) corroborates at run time. *)
From Coq Require Import List String.
Import ListNotations.
From SE Require Import Model.Concurrency Generated.AccessTable.

(* general: sites sharing a lock (one side exclusive) exclude each other in every trace *)
Theorem C20_lockset_sound : forall (a b : site) tr s t1 t2,
  common_lock a b = true -> lrun [] tr = Some s -> t1 <> t2 ->
  (forall r, In r (s_locks a) -> holds s t1 r) ->
  (forall r, In r (s_locks b) -> holds s t2 r) -> False.
Proof. exact lockset_sound. Qed.
Print Assumptions C20_lockset_sound.

(* the generated table: every conflicting pair of sites of concurrently running roles is protected *)
Theorem C20_access_table_race_free : check_table access_table = true.
Proof. vm_compute. reflexivity. Qed.
Print Assumptions C20_access_table_race_free.

(* every goroutine the translator found is a known role *)
Theorem C20_go_statements_covered : go_statements_covered go_statements = true.
Proof. vm_compute. reflexivity. Qed.
Print Assumptions C20_go_statements_covered.

(* hence, for all schedules: two different threads never occupy conflicting sites at once *)
Theorem C20_no_race : forall a b tr s t1 t2,
  In a access_table -> In b access_table -> conflict a b = true ->
  lrun [] tr = Some s -> t1 <> t2 ->
  (forall r, In r (s_locks a) -> holds s t1 r) ->
  (forall r, In r (s_locks b) -> holds s t2 r) -> False.
Proof.
  intros a b tr s t1 t2 Ia Ib K R Ht Ha Hb.
  exact (check_table_sound access_table a b tr s t1 t2 C20_access_table_race_free Ia Ib K R Ht Ha Hb).
Qed.
Print Assumptions C20_no_race.

(* main's start-up section: whatever main.main touches (itself or through calls) after it has started a goroutine is
   protected against what that goroutine touches; what it touches before is ordered by the go statement
   (--debug.dump-fsm reads the FSM without the lock: only sound because no reloader exists yet) *)
Theorem C20_main_startup_ordered : main_ok main_table access_table = true.
Proof. vm_compute. reflexivity. Qed.
Print Assumptions C20_main_startup_ordered.

(* non-vacuity: the table contains conflicting pairs that the locks do protect *)
Example C20_has_conflicts :
  existsb (fun a => existsb (fun b => conflict a b) access_table) access_table = true.
Proof. vm_compute. reflexivity. Qed.
