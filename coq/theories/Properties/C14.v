(* C14 - Configuration reload is all-or-nothing (sequential part; the atomicity of the swap under
   concurrent lookups is the generated lock obligation of Properties/C20.v).
   Specification: Spec/MapperSpec.v - spec_step: an invalid configuration changes nothing
   (LErr leaves the state), a valid one replaces the whole state, lookups are answered by
   spec_lookup of the last configuration that loaded (the same function a fresh mapper uses). *)
From SE Require Import Spec.MapperSpec Proofs.FsmProofs Proofs.MapperProofs.

Theorem C14_reload_all_or_nothing : forall uni_word re_match heur_bt re_compiles CS c_get c_add c_reset,
  forall holds, cache_sound CS c_get c_add c_reset holds ->
  forall (cache0 : option CS), (forall s, cache0 = Some s -> forall k v, ~ holds s k v) ->
  forall ops, forallb valid_op ops = true ->
  impl_run uni_word re_match heur_bt re_compiles CS c_get c_add c_reset (new_mapper CS cache0) ops
  = spec_run uni_word re_match re_compiles None ops.
Proof.
  intros. eapply mapper_refines_spec_from_fsm; eauto using fsm_first_match_ok, fsm_most_specific_ok.
Qed.
Print Assumptions C14_reload_all_or_nothing.

(* corollary on the specification: after a successful reload the answers depend on the new file
   only - exactly those of a freshly started mapper *)
Theorem C14_fresh_after_reload : forall uni_word re_match re_compiles st ast c ops,
  load re_compiles ast = LOk c ->
  spec_run uni_word re_match re_compiles st (OReload ast :: ops)
  = spec_run uni_word re_match re_compiles None (OReload ast :: ops).
Proof. intros. cbn [spec_run spec_step]. rewrite H. reflexivity. Qed.
Print Assumptions C14_fresh_after_reload.

(* ... and a failed reload is a no-op *)
Theorem C14_failed_reload_noop : forall uni_word re_match re_compiles st ast e ops,
  load re_compiles ast = LErr e ->
  spec_run uni_word re_match re_compiles st (OReload ast :: ops)
  = OutLoad (Some e) :: spec_run uni_word re_match re_compiles st ops.
Proof. intros. cbn [spec_run spec_step]. rewrite H. reflexivity. Qed.
Print Assumptions C14_failed_reload_noop.

Example C14_invalid_configs_exist :
  load (fun _ => true) Unparsable = LErr EYaml.
Proof. reflexivity. Qed.
