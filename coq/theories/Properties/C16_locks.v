(* C16: the generated lock obligation behind the model's atomic critical sections. *)
From Coq Require Import List String Bool.
Import ListNotations.
From SE Require Import Model.Concurrency Generated.AccessTable.
Open Scope string_scope.

(* C16: every access to the event queue's pending slice happens under eq.m *)
Theorem C16_queue_fields_locked :
  locked access_table ["pkg/event.EventQueue.q"] "EventQueue.m" = true.
Proof. vm_compute. reflexivity. Qed.
Print Assumptions C16_queue_fields_locked.


(* C16: taking the pending batch, handing it over on the channel and starting a new batch happen in
   ONE exclusive critical section of eq.m, in the timer's flush and in Queue's threshold flush alike
   (critical_section_exclusive: no producer can slip a newer batch in between, which is what keeps
   per-producer order and the "no event in two batches" clause of the model's atomic steps) *)
Theorem C16_timer_flush_one_critical_section :
  one_section section_table "pkg/event.EventQueue.Flush" ["pkg/event.EventQueue.q"; "pkg/event.EventQueue.C"] "EventQueue.m" true = true.
Proof. vm_compute. reflexivity. Qed.
Print Assumptions C16_timer_flush_one_critical_section.

Theorem C16_queue_one_critical_section :
  one_section section_table "pkg/event.EventQueue.Queue" ["pkg/event.EventQueue.q"; "pkg/event.EventQueue.C"] "EventQueue.m" true = true.
Proof. vm_compute. reflexivity. Qed.
Print Assumptions C16_queue_one_critical_section.

(* the hand-off is there at all (fail closed if the send moves somewhere the translator cannot see) *)
Theorem C16_flush_sends :
  existsb (fun a => String.eqb (ss_entry a) "pkg/event.EventQueue.Flush" && String.eqb (ss_loc a) "pkg/event.EventQueue.C" && ss_write a) section_table = true.
Proof. vm_compute. reflexivity. Qed.
Print Assumptions C16_flush_sends.
