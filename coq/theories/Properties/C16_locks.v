(* C16: the generated lock obligation behind the model's atomic critical sections. *)
From Coq Require Import List String.
Import ListNotations.
From SE Require Import Model.Concurrency Generated.AccessTable.
Open Scope string_scope.

(* C16: every access to the event queue's pending slice happens under eq.m *)
Theorem C16_queue_fields_locked :
  locked access_table ["pkg/event.EventQueue.q"] "EventQueue.m" = true.
Proof. vm_compute. reflexivity. Qed.
Print Assumptions C16_queue_fields_locked.

