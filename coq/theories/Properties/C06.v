(* C06 - Exposed counters never decrease and never become NaN.
   partial: holds as long as the integral increments of a series stay below 2^64 in total - the
   client library accumulates them in a uint64 that wraps (known finding counter-uint64-wrap,
   witnessed by C06_wrap_refuted). *)
From SE Require Import Spec.PipelineSpec Spec.CounterSpec Proofs.PipelineProofs Proofs.CounterProofs.

(* increments that are negative or NaN after sampling and scaling are never applied *)
Theorem C06_counter_guard : stmt_counter_guard.
Proof. exact counter_guard_ok. Qed.
Print Assumptions C06_counter_guard.
Theorem C06_guard_is_nonneg : stmt_guard_is_nonneg.
Proof. exact guard_is_nonneg_ok. Qed.
Print Assumptions C06_guard_is_nonneg.

(* one admitted increment never lowers the exposed value and never makes it NaN *)
Theorem C06_counter_add_monotone_partial : stmt_counter_add_monotone.
Proof. exact counter_add_monotone_ok. Qed.
Print Assumptions C06_counter_add_monotone_partial.

(* whole histories of a series: the exposed values are non-decreasing and never NaN *)
Theorem C06_counter_history_monotone_partial : stmt_counter_history_monotone.
Proof. exact counter_history_monotone_ok. Qed.
Print Assumptions C06_counter_history_monotone_partial.

(* without the no-wrap hypothesis the statement is false: 1e19 twice *)
Theorem C06_wrap_refuted : stmt_counter_wrap_refuted.
Proof. exact counter_wrap_refuted_ok. Qed.
Print Assumptions C06_wrap_refuted.
(* a series that expired and was recreated starts again from zero: C07_sample_sets_clock *)
