(* C10 - Multi-sample and extended-aggregation lines decompose sample by sample.
   Model: Model/Line.v (pkg/line/line.go).  Statements: Spec/LineSpec.v. *)
From SE Require Import Spec.LineSpec Proofs.LineMultiProofs.

Theorem C10_multi_decomposes : stmt_multi_decomposes. Proof. exact multi_decomposes_ok. Qed.
Print Assumptions C10_multi_decomposes.
Theorem C10_extagg_decomposes : stmt_extagg_decomposes. Proof. exact extagg_decomposes_ok. Qed.
Print Assumptions C10_extagg_decomposes.
Theorem C10_extagg_bad_type : stmt_extagg_bad_type. Proof. exact extagg_bad_type_ok. Qed.
Print Assumptions C10_extagg_bad_type.
(* partial: the "bad sampling factor" class of malformed samples is a known finding (the event is
   still produced at rate 1; pinned by an existing unit test), witnessed below. *)
Theorem C10_malformed_no_event_partial : stmt_malformed_no_event. Proof. exact malformed_no_event_ok. Qed.
Print Assumptions C10_malformed_no_event_partial.

Definition pf_bar (s : bytes) : F64 * bool :=
  match s with [x31] => (f_one, false) | _ => (f_zero, true) end.
(* foo:1|c|@bar : an error tick AND an event *)
Definition bad_rate_witness : bool :=
  let '(evs, _, ticks) := do_sample pf_bar all_on [x66] [x31; x7c; x63; x7c; x40; x62; x61; x72] [] in
  (length evs =? 1)%nat && existsb (fun t => match t with TErr InvalidSampleFactor => true | _ => false end) ticks.
Example C10_bad_rate_refuted : bad_rate_witness = true.
Proof. vm_compute. reflexivity. Qed.

Example C10_hyp_satisfiable :
  clean_multi [x66] [[x31; x7c; x63]; [x78]; [x32; x7c; x67; x7c; x40; x31]] = true /\
  clean_extagg [x66] [[x31]; [x32]] [x6d; x73; x7c; x23; x61; x3a; x62] = true.
Proof. vm_compute. auto. Qed.
