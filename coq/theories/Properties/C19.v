(* C19 - A configuration that loads is safe to run; one that is invalid is rejected. *)
From SE Require Import Spec.PipelineSpec Proofs.PipelineProofs.

(* everything [load] lets through has increasing buckets, quantiles in [0,1], non-negative ages,
   legal label keys, a legal name template and a legal glob match *)
Theorem C19_load_valid : stmt_load_valid.
Proof. exact load_valid_ok. Qed.
Print Assumptions C19_load_valid.

(* and with only such configurations ever installed, no input makes the pipeline panic ... *)
Theorem C19_loaded_never_panics : forall pf uni_word re_match heur_bt re_compiles CS c_get c_add c_reset builtins,
  stmt_pipeline_no_panic pf uni_word re_match heur_bt re_compiles CS c_get c_add c_reset builtins.
Proof. exact pipeline_no_panic_ok. Qed.
Print Assumptions C19_loaded_never_panics.
(* ... also when the event overlaps a reload: the rule it was matched by may come from one
   configuration, the defaults it is classified with from another and the defaults the registry
   takes the bucket / quantile options from a third (three separate critical sections of the
   mapper's lock: handle_event2 in Spec/PipelineSpec.v); whatever moments of the system's life
   they and the registry are taken from, handling the event does not panic *)
Theorem C19_event_across_reload_never_panics : forall pf uni_word re_match heur_bt re_compiles CS c_get c_add c_reset builtins,
  stmt_event_across_reload_no_panic pf uni_word re_match heur_bt re_compiles CS c_get c_add c_reset builtins.
Proof. exact event_across_reload_no_panic_ok. Qed.
Print Assumptions C19_event_across_reload_never_panics.
(* (with both readings of the defaults equal, handle_event2 is the model's handle_event) *)
Theorem C19_handle_event2_same : stmt_handle_event2_same.
Proof. exact handle_event2_same_ok. Qed.
Print Assumptions C19_handle_event2_same.
(* ... nor a scrape fail (reserved rule labels are refused per event, C03_scrape_ok) *)
Theorem C19_loaded_scrapes_ok : forall pf uni_word re_match heur_bt re_compiles CS c_get c_add c_reset builtins,
  stmt_scrape_ok pf uni_word re_match heur_bt re_compiles CS c_get c_add c_reset builtins.
Proof. intros. unfold stmt_scrape_ok. intros. eapply scrape_ok_ok; eauto. Qed.
Print Assumptions C19_loaded_scrapes_ok.

(* the rejected classes: illegal label key, illegal metric name, malformed glob match, regex that
   does not compile, unknown enum value, contradictory legacy/new options, YAML errors *)
Theorem C19_load_rejects : stmt_load_rejects.
Proof. exact load_rejects_ok. Qed.
Print Assumptions C19_load_rejects.
Theorem C19_load_rejects_unparsable : stmt_load_rejects_unparsable.
Proof. exact load_rejects_unparsable_ok. Qed.
Print Assumptions C19_load_rejects_unparsable.
