(* placeholder until the theorems are integrated *)
From SE Require Import Spec.RelaySpec.
