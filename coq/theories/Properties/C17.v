(* C17 - The relay forwards every line once, intact, in packets within the limit.
   Model: Model/Relay.v (pkg/relay/relay.go after the relay fix).  Statements: Spec/RelaySpec.v,
   for all packet lengths, line sequences, tick placements and send results. *)
From SE Require Import Spec.RelaySpec Proofs.RelayProofs.

Theorem C17_stream : stmt_relay_stream.            Proof. exact relay_stream_ok. Qed.
Print Assumptions C17_stream.
Theorem C17_no_split : stmt_relay_no_split.        Proof. exact relay_no_split_ok. Qed.
Print Assumptions C17_no_split.
Theorem C17_packet_bound : stmt_relay_packet_bound. Proof. exact relay_packet_bound_ok. Qed.
Print Assumptions C17_packet_bound.
Theorem C17_tick_drains : stmt_relay_tick_drains.  Proof. exact relay_tick_drains_ok. Qed.
Print Assumptions C17_tick_drains.
Theorem C17_line_cases : stmt_relay_line_cases.    Proof. exact relay_line_cases_ok. Qed.
Print Assumptions C17_line_cases.
Theorem C17_never_stuck : stmt_relay_never_stuck.  Proof. exact relay_never_stuck_ok. Qed.
Print Assumptions C17_never_stuck.

Example C17_example :
  r_sent (rrun (new_relay 6) [RLine [x61;x62]; RRecv true; RLine [x63;x64]; RRecv true; RLine [x65]; RRecv true; RTick true])
  = [[x61;x62;x0a;x63;x64;x0a]; [x65;x0a]].
Proof. vm_compute. reflexivity. Qed.
