(* placeholder until the theorems are stated *)
From SE Require Import Model.Line.
