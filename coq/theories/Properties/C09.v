(* C09 - The four tagging syntaxes are equivalent; disabled ones are inert.
   Model: Model/Line.v (pkg/line/line.go).  Statements: Spec/LineSpec.v. *)
From SE Require Import Spec.LineSpec Proofs.LineSyntaxProofs.

(* Each name-side syntax yields exactly [sem_single]: the labels are those of the well-formed
   tags (keys escaped), every malformed tag is one tag error, then the sample is processed. *)
Theorem C09_librato : stmt_librato.   Proof. exact librato_ok. Qed.
Print Assumptions C09_librato.
Theorem C09_influx : stmt_influx.     Proof. exact influx_ok. Qed.
Print Assumptions C09_influx.
Theorem C09_signalfx : stmt_signalfx. Proof. exact signalfx_ok. Qed.
Print Assumptions C09_signalfx.
(* DogStatsD: same events, same counter totals. *)
Theorem C09_dogstatsd : stmt_dogstatsd. Proof. exact dogstatsd_ok. Qed.
Print Assumptions C09_dogstatsd.
(* Disabled syntaxes are inert. *)
Theorem C09_disabled_nameside : stmt_disabled_nameside. Proof. exact disabled_nameside_ok. Qed.
Print Assumptions C09_disabled_nameside.
Theorem C09_disabled_dog : stmt_disabled_dog. Proof. exact disabled_dog_ok. Qed.
Print Assumptions C09_disabled_dog.
(* Mixed styles are rejected as a whole and counted. *)
Theorem C09_mixed_rejected : stmt_mixed_rejected. Proof. exact mixed_rejected_ok. Qed.
Print Assumptions C09_mixed_rejected.

(* Non-vacuity: a datum satisfying hyp_c09 (unicode key, malformed tags, '=' in a value). *)
Example C09_hyp_satisfiable :
  hyp_c09 [x66;x6f] [x6f] [WKV [x6b] [x76]; WBare [x7a]; WKV [] [x76]; WKV [x61;x2e;xc3;xa9] [x3d;x31]]
          [x31] [x6d;x73] (Some [x30;x2e;x35]) = true.
Proof. vm_compute. reflexivity. Qed.
