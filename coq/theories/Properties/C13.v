(* C13 - The mapping cache is invisible.
   Model: Model/Mapper.v (get_mapping with abstract cache operations), Model/Cache.v.
   Specification: Spec/MapperSpec.v (spec_run: the last loaded configuration answers). *)
From SE Require Import Spec.MapperSpec Proofs.FsmProofs Proofs.MapperProofs.

(* For EVERY sound cache - any replacement policy, any size - and for no cache at all, any
   sequence of lookups and reloads yields exactly the outputs of the cache-free specification:
   same rule, name, labels and matched flag; nothing cached under a previous configuration
   survives a reload. *)
Theorem C13_cache_invisible : forall uni_word re_match heur_bt re_compiles CS c_get c_add c_reset,
  forall holds, cache_sound CS c_get c_add c_reset holds ->
  forall (cache0 : option CS), (forall s, cache0 = Some s -> forall k v, ~ holds s k v) ->
  forall ops, forallb valid_op ops = true ->
  impl_run uni_word re_match heur_bt re_compiles CS c_get c_add c_reset (new_mapper CS cache0) ops
  = spec_run uni_word re_match re_compiles None ops.
Proof.
  intros. eapply mapper_refines_spec_from_fsm; eauto using fsm_first_match_ok, fsm_most_specific_ok.
Qed.
Print Assumptions C13_cache_invisible.

(* The shipped caches are sound: LRU (groupcache list semantics) for every capacity ... *)
Theorem C13_lru_sound : stmt_lru_sound.
Proof. exact lru_sound_ok. Qed.
Print Assumptions C13_lru_sound.
(* ... and random replacement for every capacity and every eviction choice. *)
Theorem C13_rr_sound : stmt_rr_sound.
Proof. exact rr_sound_ok. Qed.
Print Assumptions C13_rr_sound.

(* a metric name seen as one type never answers for another type *)
Theorem C13_format_key_inj : stmt_format_key_inj.
Proof. exact format_key_inj_ok. Qed.
Print Assumptions C13_format_key_inj.

Example C13_empty_lru_satisfies_premise :
  forall k v, ~ lru_holds {| lru_max := 2; lru_items := [] |} k v.
Proof. intros k v H. discriminate H. Qed.
