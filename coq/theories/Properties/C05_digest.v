(* C05 / C01 / C13 / C09 / C15: identity is by full strings.  In Model/Registry.v a series is found by
   the names and the values of its labels, in Model/Mapper.v and Model/Cache.v a cached answer by the
   (type, name) key, in Model/Escape.v and Model/Line.v nothing is memoised.  Generated obligation:
   the source calls no digest function anywhere in main or pkg/ - except for the constructor call
   that fills the registry's exported, no longer used Hasher field (kept for API compatibility by
   fix 7f99985; a use of that hasher would show up as a call of hash.Hash64.Sum64 / Write). *)
From Coq Require Import List String Bool.
Import ListNotations.
From SE Require Import Model.Concurrency Generated.AccessTable.
Open Scope string_scope.

Theorem C05_no_identity_by_digest :
  digest_only digest_table [("pkg/registry.NewRegistry", "hash/fnv.New64a")] = true.
Proof. vm_compute. reflexivity. Qed.
Print Assumptions C05_no_identity_by_digest.
