(* C07 - TTL expiry removes exactly the stale series.
   The registry's expiry bookkeeping (LastRegisteredAt, TTL, VecKey, remembered Labels, Delete on
   the vector) refines the flat account of Spec/SeriesSpec.v, in which the property can be read
   off directly:
     - a sample that is applied sets last := now and ttl := the ttl its mapping has NOW
       (C07_sample_sets_clock; after a reload the next sample installs the new ttl);
     - the sweep removes a series iff ttl <> 0 and last + ttl < now - never earlier, and ttl 0
       never expires (C07_sweep_exact);
     - a series created after expiry starts from the zero value updated by that sample alone. *)
From SE Require Import Spec.SeriesSpec Proofs.SeriesProofs.

Theorem C07_registry_refines_flat : stmt_registry_refines_flat.
Proof. exact registry_refines_flat_ok. Qed.
Print Assumptions C07_registry_refines_flat.

Theorem C07_sweep_exact : stmt_sweep_exact.
Proof. exact sweep_exact_ok. Qed.
Print Assumptions C07_sweep_exact.

Theorem C07_sample_sets_clock : stmt_sample_sets_clock.
Proof. exact sample_sets_clock_ok. Qed.
Print Assumptions C07_sample_sets_clock.

(* over whole histories of sweeps: never earlier than last sample + ttl, never with ttl 0 ... *)
Theorem C07_not_before_ttl : stmt_not_before_ttl.
Proof. exact not_before_ttl_ok. Qed.
Print Assumptions C07_not_before_ttl.

(* ... gone at the first sweep after that, for good (until a sample recreates it) ... *)
Theorem C07_gone_after_ttl : stmt_gone_after_ttl.
Proof. exact gone_after_ttl_ok. Qed.
Print Assumptions C07_gone_after_ttl.

(* ... and sweeps only ever remove series: nothing appears, no claim on a name changes *)
Theorem C07_sweeps_only_remove : stmt_sweeps_only_remove.
Proof. exact sweeps_only_remove_ok. Qed.
Print Assumptions C07_sweeps_only_remove.

(* Non-vacuity: ttl 2, sample at 0, sweeps at 2 (kept: not older than the ttl) and 3 (removed). *)
Definition c07_event : event := {| e_kind := KGauge false; e_name := [x67]; e_value := f_zero; e_labels := [] |}.
Definition c07_defaults : defaults :=
  {| df_observer := ObsDefault; df_disable_ordering := false; df_ttl := 2;
     df_summary := df_summary zero_defaults; df_buckets := [] |}.
Definition c07_witness : bool :=
  match flat_run fx0 [XEvent c07_defaults 0%Z c07_event None; XSweep 2%Z] with
  | Some a =>
    match flat_run a [XSweep 3%Z] with
    | Some b => match flat_lookup (fx_state a) [x67] [] [], flat_lookup (fx_state b) [x67] [] [] with
                | Some _, None => true | _, _ => false end
    | None => false end
  | None => false
  end.
Example C07_example : c07_witness = true.
Proof. vm_compute. reflexivity. Qed.
