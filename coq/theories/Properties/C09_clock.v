(* C09 / C10 / C01: line_to_events is a function of the line's bytes and the flag set (Model/Line.v).
   Generated obligation: no function of pkg/line asks the clock anything. *)
From Coq Require Import List String Bool.
Import ListNotations.
From SE Require Import Model.Concurrency Generated.AccessTable.
Open Scope string_scope.

Theorem C09_parser_does_not_depend_on_time :
  clock_free clock_table ["pkg/line."] = true.
Proof. vm_compute. reflexivity. Qed.
Print Assumptions C09_parser_does_not_depend_on_time.
