(* C07 / C06: in Model/System.v time enters in two places only - the value [now] the registry reads
   when it stores, finds or sweeps a series, and the sweep tick of the exporter loop - and both come
   from pkg/clock, which the harness controls.  Generated obligations. *)
From Coq Require Import List String Bool.
Import ListNotations.
From SE Require Import Model.Concurrency Generated.AccessTable.
Open Scope string_scope.

Theorem C07_registry_time_is_now :
  clock_only clock_table "pkg/registry." ["clock.Now"] = true.
Proof. vm_compute. reflexivity. Qed.
Print Assumptions C07_registry_time_is_now.

Theorem C07_exporter_time_is_the_sweep_ticker :
  clock_only clock_table "pkg/exporter." ["clock.NewTicker"] = true.
Proof. vm_compute. reflexivity. Qed.
Print Assumptions C07_exporter_time_is_the_sweep_ticker.

(* the wall clock is reached through pkg/clock only (so a mocked clock controls all of it) *)
Theorem C07_wall_clock_only_through_pkg_clock :
  forallb (fun r => prefix "pkg/clock." (fst r) || prefix "clock." (snd r)) clock_table = true.
Proof. vm_compute. reflexivity. Qed.
Print Assumptions C07_wall_clock_only_through_pkg_clock.

(* pkg/clock itself only reads the clock and makes tickers: it does not turn an instant into one that has lost its monotonic
   reading (Time.UTC / Local / In / Round / Truncate / Unix...), so ages measured between two of its instants do not follow
   steps of the system clock - the model's [now] is one scalar that never jumps *)
Theorem C07_clock_keeps_the_monotonic_reading :
  clock_only clock_table "pkg/clock." ["time.Now"; "time.NewTicker"] = true.
Proof. vm_compute. reflexivity. Qed.
Print Assumptions C07_clock_keeps_the_monotonic_reading.

(* not vacuous: the registry does read the clock, the exporter loop does own a ticker *)
Theorem C07_clock_is_used :
  existsb (fun r => prefix "pkg/registry." (fst r)) clock_table && existsb (fun r => prefix "pkg/exporter." (fst r)) clock_table = true.
Proof. vm_compute. reflexivity. Qed.
