(* C18 - Listeners frame lines identically on every transport and account for all of them.
   Model: Model/Listener.v (pkg/listener/listener.go; bufio.Reader.ReadLine modelled).
   Statements: Spec/ListenerSpec.v. *)
From SE Require Import Spec.ListenerSpec Proofs.ListenerProofs.

Theorem C18_tcp_framing : stmt_tcp_framing.          Proof. exact tcp_framing_ok. Qed.
Print Assumptions C18_tcp_framing.
Theorem C18_tcp_too_long : stmt_tcp_too_long.        Proof. exact tcp_too_long_ok. Qed.
Print Assumptions C18_tcp_too_long.
Theorem C18_framing_agree : stmt_framing_agree.      Proof. exact framing_agree_ok. Qed.
Print Assumptions C18_framing_agree.
Theorem C18_empty_line_inert : stmt_empty_line_inert. Proof. exact empty_line_inert_ok. Qed.
Print Assumptions C18_empty_line_inert.
Theorem C18_crlf_agree : stmt_crlf_agree.            Proof. exact crlf_agree_ok. Qed.
Print Assumptions C18_crlf_agree.
Theorem C18_packet_lines_join : stmt_packet_lines_join. Proof. exact packet_lines_join_ok. Qed.
Print Assumptions C18_packet_lines_join.
Theorem C18_pq_accounting : stmt_pq_accounting.      Proof. exact pq_accounting_ok. Qed.
Print Assumptions C18_pq_accounting.
Theorem C18_pq_no_spurious_drop : stmt_pq_no_spurious_drop. Proof. exact pq_no_spurious_drop_ok. Qed.
Print Assumptions C18_pq_no_spurious_drop.

Example C18_example :
  tcp_lines [x61; x0d; x0a; x0a; x62] = ([[x61]; []; [x62]], false) /\
  packet_lines [x61; x0d; x0a; x0a; x62] = [[x61; x0d]; []; [x62]].
Proof. vm_compute. auto. Qed.
