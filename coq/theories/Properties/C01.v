(* C01 - StatsD lines aggregate to exactly the predicted Prometheus series.
   Implementation model: Model/System.v (line parser -> mapper with FSM and cache -> exporter ->
   registry with client-library vectors -> scrape).  Specification: Spec/SystemSpec.v - the last
   loaded configuration answers by spec_lookup (first match / most specific / regex), and the
   registry is the flat account of Spec/SeriesSpec.v (claim, shape, series functions).
   What a line means as events is C09/C10 (Spec/LineSpec.v: sem_single, decomposition).
   The numeric accumulation inside a series is the client library's (modelled, Model/ClientGolang.v:
   counter sum, gauge set/add, histogram count/sum/buckets, summary count/sum). *)
From SE Require Import Spec.SystemSpec Proofs.SystemProofs Proofs.SeriesProofs.
From SE Require Import Spec.SampleSpec Proofs.SampleProofs.
From SE Require Import Spec.BinarySpec Proofs.BinaryProofs.

(* For every sound mapping cache and every history of lines, reloads, clock advances, sweeps and
   scrapes, the implementation model and the specification answer alike, and the registry then
   exposes, for EVERY series key, exactly what the flat account holds: same type, help, value,
   no series more and none less. *)
Theorem C01_system_refines_spec : forall pf uni_word re_match heur_bt re_compiles CS c_get c_add c_reset builtins,
  stmt_system_refines_spec pf uni_word re_match heur_bt re_compiles CS c_get c_add c_reset builtins.
Proof. exact system_refines_spec_ok. Qed.
Print Assumptions C01_system_refines_spec.

(* the exporter/registry layer on its own, for arbitrary events and mapping answers *)
Theorem C01_registry_refines_flat : stmt_registry_refines_flat.
Proof. exact registry_refines_flat_ok. Qed.
Print Assumptions C01_registry_refines_flat.

(* a scrape lists exactly the series of the lookup function, each once *)
Theorem C01_samples_are_lookups : stmt_samples_are_lookups.
Proof. exact samples_are_lookups_ok. Qed.
Print Assumptions C01_samples_are_lookups.

(* the protocol reading of one well-formed sample, for every flag set, name and label map:
   c -> one counter event of v/r; g -> one gauge event (relative iff signed, rate ignored);
   ms -> floor(1/r) observations of v/1000; h, d -> floor(1/r) observations of v;
   labels untouched, one sample counted, no error *)
Theorem C01_sample_semantics : forall pf, stmt_sample_semantics pf.
Proof. exact sample_semantics_ok. Qed.
Print Assumptions C01_sample_semantics.

(* The running program with one listener goroutine IS the line-at-a-time system of the theorems
   above: (1) whatever the flush threshold, the channel capacity and the interleaving with the
   flush ticker and the consumer, the event queue hands the exporter exactly the events of the
   listener's Queue calls, in order; (2) how they are cut into batches does not matter to the
   exporter's loop; (3) datagrams split into lines, parsed, and handled as one stream give the
   state that System.step reaches line by line. *)
Theorem C01_single_listener_delivery : stmt_single_producer_delivery.
Proof. exact single_producer_delivery_ok. Qed.
Print Assumptions C01_single_listener_delivery.

Theorem C01_batching_irrelevant : forall uni_word re_match CS c_get c_add,
  stmt_batching_irrelevant uni_word re_match CS c_get c_add.
Proof. exact batching_irrelevant_ok. Qed.
Print Assumptions C01_batching_irrelevant.

Theorem C01_binary_is_system : forall pf uni_word re_match CS c_get c_add,
  stmt_binary_is_system pf uni_word re_match CS c_get c_add.
Proof. exact binary_is_system_ok. Qed.
Print Assumptions C01_binary_is_system.

(* Non-vacuity of (1): two Queue calls ([a; b] and [c]), threshold 2, a tick for the remainder. *)
Example C01_delivery_example :
  exists s, qrun (qinit 2 1 [number_calls [[tt; tt]; [tt]] 0])
                 [LAcquire 0; LAppend 0; LAppend 0; LSend 0; LRecv; LRelease 0;
                  LAcquire 0; LAppend 0; LRelease 0; LTickAcquire; LTickSend; LTickRelease; LRecv] = Some s
            /\ all_done s = true /\ q_chan s = [] /\ q_pending s = [] /\ concat (q_delivered s) = [0; 1; 2].
Proof. eexists. split; [vm_compute; reflexivity|]. repeat split; reflexivity. Qed.

(* Non-vacuity: an unmapped gauge sample creates exactly one series in the flat account. *)
Definition c01_event : event := {| e_kind := KGauge false; e_name := [x67]; e_value := f_zero; e_labels := [] |}.
Definition c01_witness : bool :=
  match flat_step fx0 (XEvent zero_defaults 0%Z c01_event None) with
  | Some fx => match flat_lookup (fx_state fx) [x67] [] [], flat_lookup (fx_state fx) [x68] [] [] with
               | Some (MGauge, _, _, _, _), None => true | _, _ => false end
  | None => false
  end.
Example C01_example : c01_witness = true.
Proof. vm_compute. reflexivity. Qed.
