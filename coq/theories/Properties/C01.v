(* C01 - StatsD lines aggregate to exactly the predicted Prometheus series.
   Implementation model: Model/System.v (line parser -> mapper with FSM and cache -> exporter ->
   registry with client-library vectors -> scrape).  Specification: Spec/SystemSpec.v - the last
   loaded configuration answers by spec_lookup (first match / most specific / regex), and the
   registry is the flat account of Spec/SeriesSpec.v (claim, shape, series functions).
   What a line means as events is C09/C10 (Spec/LineSpec.v: sem_single, decomposition).
   The numeric accumulation inside a series is the client library's (modelled, Model/ClientGolang.v:
   counter sum, gauge set/add, histogram count/sum/buckets, summary count/sum). *)
From SE Require Import Spec.SystemSpec Proofs.SystemProofs Proofs.SeriesProofs.

(* For every sound mapping cache and every history of lines, reloads, clock advances, sweeps and
   scrapes, the implementation model and the specification answer alike, and the registry then
   exposes, for EVERY series key, exactly what the flat account holds: same type, help, value,
   no series more and none less. *)
Theorem C01_system_refines_spec : forall pf uni_word re_match heur_bt re_compiles CS c_get c_add c_reset builtins,
  stmt_system_refines_spec pf uni_word re_match heur_bt re_compiles CS c_get c_add c_reset builtins.
Proof. exact system_refines_spec_ok. Qed.
Print Assumptions C01_system_refines_spec.

(* the exporter/registry layer on its own, for arbitrary events and mapping answers *)
Theorem C01_registry_refines_flat : stmt_registry_refines_flat.
Proof. exact registry_refines_flat_ok. Qed.
Print Assumptions C01_registry_refines_flat.

(* a scrape lists exactly the series of the lookup function, each once *)
Theorem C01_samples_are_lookups : stmt_samples_are_lookups.
Proof. exact samples_are_lookups_ok. Qed.
Print Assumptions C01_samples_are_lookups.

(* Non-vacuity: an unmapped gauge sample creates exactly one series in the flat account. *)
Definition c01_event : event := {| e_kind := KGauge false; e_name := [x67]; e_value := f_zero; e_labels := [] |}.
Definition c01_witness : bool :=
  match flat_step fx0 (XEvent zero_defaults 0%Z c01_event None) with
  | Some fx => match flat_lookup (fx_state fx) [x67] [] [], flat_lookup (fx_state fx) [x68] [] [] with
               | Some (MGauge, _, _, _, _), None => true | _, _ => false end
  | None => false
  end.
Example C01_example : c01_witness = true.
Proof. vm_compute. reflexivity. Qed.
