(* C16 - The event queue delivers every event exactly once, in order, in bounded batches.
   Model: Model/EventQueue.v (pkg/event/event.go as a transition system).  Statements:
   Spec/QueueSpec.v - every one holds for ALL traces: any number of producers with any programs,
   any channel capacity, any threshold >= 1, any interleaving with ticker and consumer. *)
From SE Require Import Spec.QueueSpec Proofs.QueueProofs.

Theorem C16_mutex : forall threshold cap programs, stmt_q_mutex threshold cap programs.
Proof. exact q_mutex_ok. Qed.
Print Assumptions C16_mutex.
Theorem C16_conservation : forall threshold cap programs, stmt_q_conservation threshold cap programs.
Proof. exact q_conservation_ok. Qed.
Print Assumptions C16_conservation.
Theorem C16_producer_order : forall threshold cap programs, stmt_q_producer_order threshold cap programs.
Proof. exact q_producer_order_ok. Qed.
Print Assumptions C16_producer_order.
Theorem C16_complete : forall threshold cap programs, stmt_q_complete threshold cap programs.
Proof. exact q_complete_ok. Qed.
Print Assumptions C16_complete.
Theorem C16_batch_bound : forall threshold cap programs, stmt_q_batch_bound threshold cap programs.
Proof. exact q_batch_bound_ok. Qed.
Print Assumptions C16_batch_bound.
Theorem C16_tick_flushes : forall threshold cap programs, stmt_q_tick_flushes threshold cap programs.
Proof. exact q_tick_flushes_ok. Qed.
Print Assumptions C16_tick_flushes.
Theorem C16_progress : forall threshold cap programs, stmt_q_progress threshold cap programs.
Proof. exact q_progress_ok. Qed.
Print Assumptions C16_progress.

(* Non-vacuity: two producers, threshold 2, a tick in the middle - a reachable state. *)
Example C16_trace :
  exists s, qrun (qinit 2 1 [[[1; 2; 3]]; [[4]]])
                 [LAcquire 0; LAppend 0; LAppend 0; LSend 0; LRecv; LAppend 0; LRelease 0;
                  LTickAcquire; LTickSend; LTickRelease; LAcquire 1; LAppend 1; LRelease 1; LRecv] = Some s
            /\ q_delivered s = [[1; 2]; [3]] /\ q_pending s = [4].
Proof. eexists. split; [vm_compute; reflexivity|]. split; reflexivity. Qed.
