(* C02 - No network input can crash or stall the exporter.
   Models: Model/Line.v (parser), Model/Listener.v (framing), Model/System.v (pipeline).
   "Stall": every model function is total (structural recursion, no fuel); the amount of work per
   line is bounded by the number of events, which a tiny sampling rate can make huge - that is the
   known finding sampling-rate-amplification, not excluded by any theorem here. *)
From SE Require Import Spec.PipelineSpec Spec.LineSpec Spec.HostileSpec Proofs.PipelineProofs Proofs.LineSyntaxProofs Proofs.HostileProofs.

(* no byte string makes the line parser panic, under any flag set *)
Theorem C02_parser_no_panic : stmt_l2e_no_panic.
Proof. exact l2e_no_panic_ok. Qed.
Print Assumptions C02_parser_no_panic.

(* no history of lines, reloads (only configurations that load are installed), clock advances,
   sweeps and scrapes makes any pipeline step panic - for every cache behaviour whatsoever *)
Theorem C02_pipeline_no_panic : forall pf uni_word re_match heur_bt re_compiles CS c_get c_add c_reset builtins,
  stmt_pipeline_no_panic pf uni_word re_match heur_bt re_compiles CS c_get c_add c_reset builtins.
Proof. exact pipeline_no_panic_ok. Qed.
Print Assumptions C02_pipeline_no_panic.

(* "well-formed lines that follow a malformed or hostile line (in the same packet, the same
   connection or later) are still processed": whatever bytes precede a newline in a datagram, the
   piece after it is framed as a line of its own ... *)
Theorem C02_line_after_hostile_bytes_datagram : stmt_hostile_prefix_datagram.
Proof. exact hostile_prefix_datagram_ok. Qed.
Print Assumptions C02_line_after_hostile_bytes_datagram.

(* ... and on a TCP connection too, unless a raw line of the prefix reaches the 4096-byte buffer
   (which closes that connection and no other: C18_tcp_too_long) *)
Theorem C02_line_after_hostile_bytes_tcp : stmt_hostile_prefix_tcp.
Proof. exact hostile_prefix_tcp_ok. Qed.
Print Assumptions C02_line_after_hostile_bytes_tcp.

(* its events are those it yields on its own bytes, appended to whatever the prefix produced *)
Theorem C02_events_after_hostile_bytes : forall pf, stmt_hostile_prefix_events pf.
Proof. exact hostile_prefix_events_ok. Qed.
Print Assumptions C02_events_after_hostile_bytes.

(* and the exporter handles it exactly as if it had arrived alone, from whatever state the hostile
   prefix left behind - for every state, configuration, cache behaviour and flag set.  Together with
   C02_pipeline_no_panic (that state is never "crashed") and C03 / C08 (what the prefix can have
   done to the registry is confined to the names it claimed) this is the whole clause. *)
Theorem C02_good_line_handled_as_if_alone : forall pf uni_word re_match CS c_get c_add,
  stmt_hostile_then_good pf uni_word re_match CS c_get c_add.
Proof. exact hostile_then_good_ok. Qed.
Print Assumptions C02_good_line_handled_as_if_alone.

(* later packets are handled by the same function from the state the earlier ones left *)
Theorem C02_later_packets : forall pf uni_word re_match CS c_get c_add,
  stmt_packets_sequential pf uni_word re_match CS c_get c_add.
Proof. exact packets_sequential_ok. Qed.
Print Assumptions C02_later_packets.

(* lines are independent: a line is a pure function of its own bytes (line_to_events takes no
   state), so a hostile line cannot affect how a later line is parsed; what it can do to the
   exporter state is bounded by C03 (scrapes keep succeeding) and C08 (conflicts are isolated). *)

Example C02_former_crash_inputs :
  (forall pf, line_to_events pf all_on [x61; x5d; x62; x5b; x63; x3a; x31; x7c; x63] <> Panic).
Proof. intros pf. apply l2e_no_panic_ok. Qed.
