(* C02 - No network input can crash or stall the exporter.
   Models: Model/Line.v (parser), Model/Listener.v (framing), Model/System.v (pipeline).
   "Stall": every model function is total (structural recursion, no fuel); the amount of work per
   line is bounded by the number of events, which a tiny sampling rate can make huge - that is the
   known finding sampling-rate-amplification, not excluded by any theorem here. *)
From SE Require Import Spec.PipelineSpec Spec.LineSpec Proofs.PipelineProofs Proofs.LineSyntaxProofs.

(* no byte string makes the line parser panic, under any flag set *)
Theorem C02_parser_no_panic : stmt_l2e_no_panic.
Proof. exact l2e_no_panic_ok. Qed.
Print Assumptions C02_parser_no_panic.

(* no history of lines, reloads (only configurations that load are installed), clock advances,
   sweeps and scrapes makes any pipeline step panic - for every cache behaviour whatsoever *)
Theorem C02_pipeline_no_panic : forall pf uni_word re_match heur_bt re_compiles CS c_get c_add c_reset builtins,
  stmt_pipeline_no_panic pf uni_word re_match heur_bt re_compiles CS c_get c_add c_reset builtins.
Proof. exact pipeline_no_panic_ok. Qed.
Print Assumptions C02_pipeline_no_panic.

(* lines are independent: a line is a pure function of its own bytes (line_to_events takes no
   state), so a hostile line cannot affect how a later line is parsed; what it can do to the
   exporter state is bounded by C03 (scrapes keep succeeding) and C08 (conflicts are isolated). *)

Example C02_former_crash_inputs :
  (forall pf, line_to_events pf all_on [x61; x5d; x62; x5b; x63; x3a; x31; x7c; x63] <> Panic).
Proof. intros pf. apply l2e_no_panic_ok. Qed.
