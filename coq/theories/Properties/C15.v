(* C15 - Name escaping always yields a legal, stable Prometheus name.
   Model: Model/Escape.v (pkg/mapper/escape.go).  Spec: Spec/EscapeSpec.v. *)
From SE Require Import Spec.EscapeSpec Proofs.EscapeProofs Proofs.EscapeSpecProofs.

(* The code never panics and computes the specification, for ALL byte strings. *)
Theorem C15_escape_total_correct : forall s : bytes, escape_metric_name s = Ok (escape_spec s).
Proof. exact escape_total_correct_lemma. Qed.
Print Assumptions C15_escape_total_correct.

(* ... whose result is a legal name [a-zA-Z_][a-zA-Z0-9_]* for every non-empty input, *)
Theorem C15_legal : forall s : bytes, s <> [] -> legal_name (escape_spec s) = true.
Proof. exact spec_legal_name. Qed.
Print Assumptions C15_legal.

(* keeps the ASCII letters and digits in order and adds none (underscores are the replacement
   character, see escape_spec itself for "one underscore per other rune / run of dashes"), *)
Theorem C15_keeps_alnum : forall s : bytes, filter alnum_byte (escape_spec s) = filter alnum_byte s.
Proof. exact spec_keeps_alnum. Qed.
Print Assumptions C15_keeps_alnum.

(* gains a leading underscore exactly when the input starts with a digit, *)
Theorem C15_leading_underscore : forall b t,
  escape_spec (b :: t) =
    (if is_digit_n (bN b) then [underscore] else []) ++ spec_runes (runes_of (b :: t)) 0%N.
Proof. exact spec_leading_underscore. Qed.
Print Assumptions C15_leading_underscore.

(* is the identity on legal names, and idempotent. *)
Theorem C15_identity_on_legal : forall n : bytes, legal_name n = true -> escape_spec n = n.
Proof. exact spec_identity_on_legal. Qed.
Print Assumptions C15_identity_on_legal.

Theorem C15_idempotent : forall s : bytes, escape_spec (escape_spec s) = escape_spec s.
Proof. exact spec_idempotent. Qed.
Print Assumptions C15_idempotent.

(* Non-vacuity: the former crash input "a\xffb-" and a multi-byte rune. *)
Example C15_ex1 : escape_metric_name [x61; xff; x62; x2d] = Ok [x61; x5f; x62; x5f].
Proof. vm_compute. reflexivity. Qed.
Example C15_ex2 : escape_metric_name [x39; x2d; x2d; xe2; x82; xac; x2e; x7a] = Ok [x5f; x39; x5f; x5f; x5f; x7a].
Proof. vm_compute. reflexivity. Qed.
