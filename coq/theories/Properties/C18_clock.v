(* C18: the listener model (Model/Listener.v) frames a byte stream with no time input: however the
   sender spaces its segments or datagrams, the lines are the same.  Generated obligation: no
   function of pkg/listener or of package main (the accept / read loops) asks the clock anything -
   no wall-clock read, no timer, no I/O deadline. *)
From Coq Require Import List String Bool.
Import ListNotations.
From SE Require Import Model.Concurrency Generated.AccessTable.
Open Scope string_scope.

Theorem C18_listeners_do_not_depend_on_time :
  clock_free clock_table ["pkg/listener."; "."; "main."] = true.
Proof. vm_compute. reflexivity. Qed.
Print Assumptions C18_listeners_do_not_depend_on_time.
