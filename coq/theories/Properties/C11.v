(* C11 - Capture references in names and labels expand as documented.
   Model: Model/Template.v (pkg/mapper/fsm/formatter.go after the formatter fix, and Go's
   regexp Expand which it calls).  Statements: Spec/ExpandSpec.v. *)
From SE Require Import Spec.ExpandSpec Proofs.ExpandProofs.

(* $n and ${n} (n >= 1) are replaced by the n-th capture, empty when out of range (and for n = 0);
   every other character is copied literally - for every tokenised template, capture count and
   capture list, and for every behaviour of unicode.IsLetter/IsDigit on non-ASCII runes. *)
Theorem C11_format_tokens : forall uni_word, stmt_format_tokens uni_word.
Proof. exact format_tokens_ok. Qed.
Print Assumptions C11_format_tokens.

(* A glob rule and its regex translation (whole metric as group 0, the same captures as groups
   1..n) expand every template that does not refer to group 0 identically. *)
Theorem C11_glob_regex_agree : forall uni_word, stmt_glob_regex_agree uni_word.
Proof. exact glob_regex_agree_ok. Qed.
Print Assumptions C11_glob_regex_agree.

(* Text without '$' is copied unchanged whatever it contains (%, :, spaces, any bytes). *)
Theorem C11_expand_literal : forall uni_word, stmt_expand_literal uni_word.
Proof. exact expand_literal_ok. Qed.
Print Assumptions C11_expand_literal.

(* Non-vacuity: "a%$1$11 _${2}_x$0$3<e-acute>" is a well-formed token list. *)
Example C11_wf_example :
  wf_toks (fun _ => false)
    [TLit [x61;x25]; TRef [x31]; TRef [x31;x31]; TLit [x20;x5f]; TBrace [x32]; TLit [x5f;x78];
     TRef [x30]; TRef [x33]; TLit [xc3;xa9]] = true.
Proof. vm_compute. reflexivity. Qed.
