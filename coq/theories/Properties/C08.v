(* C08 - A conflicting event is dropped alone and harms nothing else. *)
From SE Require Import Spec.PipelineSpec Spec.SeriesSpec Proofs.PipelineProofs Proofs.SeriesProofs.

(* a sample whose name is claimed by another type, or that would share a _bucket/_count/_sum
   series with a histogram or summary (in either direction), is refused ... *)
Theorem C08_conflict_detected : stmt_conflict_detected.
Proof. exact conflict_detected_ok. Qed.
Print Assumptions C08_conflict_detected.

(* ... and a refused sample leaves every name, vector, series, value and clock untouched *)
Theorem C08_conflict_isolated : stmt_conflict_isolated.
Proof. exact conflict_isolated_ok. Qed.
Print Assumptions C08_conflict_isolated.
Theorem C08_flat_conflict_isolated : stmt_flat_conflict_isolated.
Proof. exact flat_conflict_isolated_ok. Qed.
Print Assumptions C08_flat_conflict_isolated.

(* later samples are applied as if the refused one had never arrived (the state is the same), and
   the conflict rule is complete: everything the registry lets through keeps scrapes succeeding *)
Theorem C08_scrapes_keep_succeeding : forall pf uni_word re_match heur_bt re_compiles CS c_get c_add c_reset builtins,
  stmt_scrape_ok pf uni_word re_match heur_bt re_compiles CS c_get c_add c_reset builtins.
Proof. intros. unfold stmt_scrape_ok. intros. eapply scrape_ok_ok; eauto. Qed.
Print Assumptions C08_scrapes_keep_succeeding.
