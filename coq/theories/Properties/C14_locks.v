(* C14, concurrent clause: the generated lock obligation (table regenerated from /repo on every run). *)
From Coq Require Import List String.
Import ListNotations.
From SE Require Import Model.Concurrency Generated.AccessTable.
Open Scope string_scope.

(* C14: the fields swapped by a reload are read under the mapper's lock and written under it exclusively *)
Theorem C14_mapper_fields_locked :
  locked access_table
    ["pkg/mapper.MetricMapper.Defaults"; "pkg/mapper.MetricMapper.Mappings"; "pkg/mapper.MetricMapper.FSM";
     "pkg/mapper.MetricMapper.doFSM"; "pkg/mapper.MetricMapper.doRegex"; "pkg/mapper.MetricMapper.cache"]
    "MetricMapper.mutex" = true.
Proof. vm_compute. reflexivity. Qed.
Print Assumptions C14_mapper_fields_locked.


Definition reload_state : list string :=
  ["pkg/mapper.MetricMapper.Defaults"; "pkg/mapper.MetricMapper.Mappings"; "pkg/mapper.MetricMapper.FSM";
   "pkg/mapper.MetricMapper.doFSM"; "pkg/mapper.MetricMapper.doRegex"; "pkg/mapper.MetricMapper.cache";
   "pkg/mappercache/lru.lruCache.cache"; "pkg/mappercache/randomreplacement.metricMapperRRCache.items"].

(* C14: a reload clears the cache and swaps defaults, mappings and matcher inside ONE exclusive
   critical section of the mapper's lock (so that, by critical_section_exclusive, no lookup runs
   between the reset and the swap) ... *)
Theorem C14_reload_one_critical_section :
  one_section section_table "pkg/mapper.MetricMapper.InitFromYAMLString" reload_state "MetricMapper.mutex" true = true.
Proof. vm_compute. reflexivity. Qed.
Print Assumptions C14_reload_one_critical_section.

(* ... a lookup reads the configuration, consults the cache and stores its answer inside ONE
   section of the same lock (so no reload falls between computing an answer and caching it) ... *)
Theorem C14_lookup_one_critical_section :
  one_section section_table "pkg/mapper.MetricMapper.GetMapping" reload_state "MetricMapper.mutex" false = true.
Proof. vm_compute. reflexivity. Qed.
Print Assumptions C14_lookup_one_critical_section.

(* ... and nothing else changes the cache's content outside the mapper's lock *)
Theorem C14_cache_changes_inside_mapper_lock :
  writes_inside access_table
    ["pkg/mappercache/lru.lruCache.cache"; "pkg/mappercache/randomreplacement.metricMapperRRCache.items"]
    "MetricMapper.mutex" = true.
Proof. vm_compute. reflexivity. Qed.
Print Assumptions C14_cache_changes_inside_mapper_lock.

Theorem C14_critical_section_exclusive : forall tr s l t1 t2 e,
  lrun [] tr = Some s -> In (l, t1, true) s -> In (l, t2, e) s -> t1 = t2.
Proof. exact critical_section_exclusive. Qed.
Print Assumptions C14_critical_section_exclusive.

(* trace-level reading: critical sections of one lock are not interleaved when one of them is exclusive *)
From SE Require Import Spec.SectionSpec Proofs.SectionProofs.
Theorem C14_exclusive_section_uninterrupted : stmt_exclusive_section_uninterrupted.
Proof. exact exclusive_section_uninterrupted_ok. Qed.
Print Assumptions C14_exclusive_section_uninterrupted.

Theorem C14_shared_section_no_writer : stmt_shared_section_no_writer.
Proof. exact shared_section_no_writer_ok. Qed.
Print Assumptions C14_shared_section_no_writer.
