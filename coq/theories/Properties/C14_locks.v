(* C14, concurrent clause: the generated lock obligation (table regenerated from /repo on every run). *)
From Coq Require Import List String.
Import ListNotations.
From SE Require Import Model.Concurrency Generated.AccessTable.
Open Scope string_scope.

(* C14: the fields swapped by a reload are read under the mapper's lock and written under it exclusively *)
Theorem C14_mapper_fields_locked :
  locked access_table
    ["pkg/mapper.MetricMapper.Defaults"; "pkg/mapper.MetricMapper.Mappings"; "pkg/mapper.MetricMapper.FSM";
     "pkg/mapper.MetricMapper.doFSM"; "pkg/mapper.MetricMapper.doRegex"; "pkg/mapper.MetricMapper.cache"]
    "MetricMapper.mutex" = true.
Proof. vm_compute. reflexivity. Qed.
Print Assumptions C14_mapper_fields_locked.

