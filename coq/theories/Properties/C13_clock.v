(* C13 (and C04, C11, C12, C14, C15): a lookup is a function of the loaded configuration, the name,
   the type and the cache contents (Model/Mapper.v, Model/Cache.v) - cache entries do not age.
   Generated obligation: no function of pkg/mapper, pkg/mapper/fsm or pkg/mappercache/* asks the
   clock anything. *)
From Coq Require Import List String Bool.
Import ListNotations.
From SE Require Import Model.Concurrency Generated.AccessTable.
Open Scope string_scope.

Theorem C13_mapper_and_caches_do_not_depend_on_time :
  clock_free clock_table ["pkg/mapper"; "pkg/mappercache"] = true.
Proof. vm_compute. reflexivity. Qed.
Print Assumptions C13_mapper_and_caches_do_not_depend_on_time.
