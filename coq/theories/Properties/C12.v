(* C12 - Unordered glob mode: complete, and the most specific rule wins.
   Model: Model/Fsm.v.  Specification: Spec/MatchSpec.v (most_specific). *)
From SE Require Import Spec.MatchSpec Proofs.FsmProofs.

(* With ordering disabled the search returns the most specific matching rule whenever
   backtracking is on, or no state has both a wildcard and a literal transition (which is what
   the repaired TestIfNeedBacktracking guarantees: Model/Mapper.v build_fsm). *)
Theorem C12_fsm_most_specific : stmt_fsm_most_specific.
Proof. exact fsm_most_specific_ok. Qed.
Print Assumptions C12_fsm_most_specific.

(* complete: mapped whenever at least one rule matches *)
Theorem C12_complete : stmt_most_specific_complete.
Proof. exact most_specific_complete_ok. Qed.
Print Assumptions C12_complete.

(* independent of the order in which rules are written *)
Theorem C12_order_independent : stmt_most_specific_order_independent.
Proof. exact most_specific_order_independent_ok. Qed.
Print Assumptions C12_order_independent.

(* Non-vacuity: the former defect a.*.* + a.b.c, lookup a.b.d, without the legacy heuristic. *)
Example C12_backtracks :
  let rules := [ {| g_prio := 0; g_fields := [[x61];[x2a];[x2a]]; g_mmt := [] |};
                 {| g_prio := 1; g_fields := [[x61];[x62];[x63]]; g_mmt := [] |} ] in
  has_ambiguous_wildcard (map g_fields rules) = true /\
  fsm_get_mapping rules true true [x61;x2e;x62;x2e;x64] s_counter = Some (0, [[x62];[x64]]).
Proof. vm_compute. auto. Qed.
