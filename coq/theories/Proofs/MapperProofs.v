From SE Require Import Spec.MapperSpec.

(* ====================================================================== *)
(* Association-list lemmas shared by both caches                           *)
(* ====================================================================== *)
Section CacheLemmas.
Variable V : Type.

Lemma c_find_remove_other (k k' : bytes) (l : entries V) :
  k' <> k -> c_find V k' (c_remove V k l) = c_find V k' l.
Proof.
  intros Hne. induction l as [|[k0 v0] r IH]; simpl; [reflexivity|].
  destruct (bytes_eqb k k0) eqn:E.
  - apply bytes_eqb_eq in E. subst k0.
    apply bytes_eqb_neq in Hne. rewrite Hne. reflexivity.
  - simpl. rewrite IH. reflexivity.
Qed.

Lemma c_find_cons (k k' : bytes) (v : V) (l : entries V) (v' : V) :
  c_find V k' ((k, v) :: l) = Some v' -> (k' = k /\ v' = v) \/ (k' <> k /\ c_find V k' l = Some v').
Proof.
  simpl. destruct (bytes_eqb k' k) eqn:E; intros H.
  - apply bytes_eqb_eq in E. left. split; congruence.
  - apply bytes_eqb_neq in E. right. split; assumption.
Qed.

Lemma c_find_removelast (k : bytes) (l : entries V) (v : V) :
  c_find V k (removelast l) = Some v -> c_find V k l = Some v.
Proof.
  induction l as [|[k0 v0] r IH]; [simpl; intros H; exact H|].
  destruct r as [|y r'].
  - simpl. discriminate.
  - change (removelast ((k0, v0) :: y :: r')) with ((k0, v0) :: removelast (y :: r')).
    change (c_find V k ((k0, v0) :: removelast (y :: r'))) with
      (if bytes_eqb k k0 then Some v0 else c_find V k (removelast (y :: r'))).
    change (c_find V k ((k0, v0) :: y :: r')) with
      (if bytes_eqb k k0 then Some v0 else c_find V k (y :: r')).
    destruct (bytes_eqb k k0); [intros H; exact H | exact IH].
Qed.

Lemma c_find_In (k : bytes) (l : entries V) (v : V) :
  c_find V k l = Some v -> In (k, v) l.
Proof.
  induction l as [|[k0 v0] r IH]; simpl; [discriminate|].
  destruct (bytes_eqb k k0) eqn:E; intros H.
  - apply bytes_eqb_eq in E. left. congruence.
  - right. apply IH, H.
Qed.

Lemma c_remove_incl (k : bytes) (l : entries V) x : In x (c_remove V k l) -> In x l.
Proof.
  induction l as [|[k0 v0] r IH]; simpl; [tauto|].
  destruct (bytes_eqb k k0); simpl; [tauto|]. intros [H|H]; [left; exact H | right; apply IH, H].
Qed.

Lemma remove_nth_incl (n : nat) (l : entries V) x : In x (remove_nth V n l) -> In x l.
Proof.
  revert n; induction l as [|y r IH]; intros n; simpl; [destruct n; tauto|].
  destruct n; simpl; [tauto|]. intros [H|H]; [left; exact H | right; eapply IH, H].
Qed.
End CacheLemmas.

(* ====================================================================== *)
(* LRU                                                                      *)
(* ====================================================================== *)
Lemma lru_sound_ok : stmt_lru_sound.
Proof.
  unfold stmt_lru_sound, lru_holds. constructor.
  - intros s k v s'. unfold lru_get.
    destruct (c_find _ k (lru_items _ s)) eqn:E; intros H; inversion H; subst; reflexivity.
  - intros s k k' v'. unfold lru_get.
    destruct (c_find _ k (lru_items _ s)) eqn:E; simpl; [|intros H; exact H].
    intros H. apply c_find_cons in H as [[-> ->]|[Hne H]]; [exact E|].
    rewrite c_find_remove_other in H by assumption. exact H.
  - intros s k v k' v'. unfold lru_add.
    destruct (c_find _ k (lru_items _ s)) eqn:E; cbn [lru_items lru_max].
    + intros H. apply c_find_cons in H as [[-> ->]|[Hne H]]; [left; split; reflexivity|].
      right. rewrite c_find_remove_other in H by assumption. exact H.
    + intros H.
      assert (H' : c_find _ k' ((k, v) :: lru_items _ s) = Some v').
      { destruct (negb (lru_max _ s =? 0) && (lru_max _ s <? length ((k, v) :: lru_items _ s)));
          [apply c_find_removelast, H | exact H]. }
      apply c_find_cons in H' as [[-> ->]|[_ H']]; [left; split; reflexivity | right; exact H'].
  - intros s k v. simpl. discriminate.
Qed.

(* ====================================================================== *)
(* Random replacement                                                       *)
(* ====================================================================== *)
(* rr_holds is "some binding of k is v".  (With "the first binding" the statement is false on
   lists with a duplicated key: evicting the first of two bindings uncovers the second.) *)
Lemma rr_sound_ok : stmt_rr_sound.
Proof.
  intros choose. unfold rr_holds. constructor.
  - intros s k v s'. unfold rr_get. intros H. inversion H; subst. apply c_find_In. assumption.
  - intros s k k' v'. simpl. intros H; exact H.
  - intros s k v k' v'. unfold rr_add. cbn [rr_items rr_size].
    set (l := match c_find _ k (rr_items _ s) with
              | Some _ => (k, v) :: c_remove _ k (rr_items _ s)
              | None => (k, v) :: rr_items _ s end).
    intros H.
    assert (H' : In (k', v') l).
    { destruct (rr_size _ s <? length l); [eapply remove_nth_incl, H | exact H]. }
    subst l. destruct (c_find _ k (rr_items _ s)); destruct H' as [H'|H'].
    + left. inversion H'. split; reflexivity.
    + right. eapply c_remove_incl, H'.
    + left. inversion H'. split; reflexivity.
    + right. exact H'.
  - intros s k v. simpl. tauto.
Qed.

(* Not needed for rr_sound_ok, kept for reference: the reachable states have unique keys (rr_reset
   gives [], rr_add/rr_get preserve it), and under that invariant "some binding" and "first
   binding" coincide, so cs_add also holds for the c_find reading. *)
Section RRUnique.
Variable V : Type.
Definition keys_unique (l : entries V) : Prop := NoDup (map fst l).

Lemma c_find_none_notin (k : bytes) (l : entries V) :
  c_find V k l = None -> ~ In k (map fst l).
Proof.
  induction l as [|[k0 v0] r IH]; simpl; [tauto|].
  destruct (bytes_eqb k k0) eqn:E; [discriminate|]. apply bytes_eqb_neq in E.
  intros H [H1|H1]; [congruence | exact (IH H H1)].
Qed.

Lemma c_remove_keys_incl (k : bytes) (l : entries V) x :
  In x (map fst (c_remove V k l)) -> In x (map fst l).
Proof.
  induction l as [|[k0 v0] r IH]; simpl; [tauto|].
  destruct (bytes_eqb k k0); simpl; [tauto|]. intros [H|H]; [left; exact H | right; apply IH, H].
Qed.

Lemma c_remove_unique (k : bytes) (l : entries V) :
  keys_unique l -> keys_unique (c_remove V k l) /\ ~ In k (map fst (c_remove V k l)).
Proof.
  unfold keys_unique. induction l as [|[k0 v0] r IH]; simpl; intros H.
  - split; [constructor | tauto].
  - inversion H as [|? ? Hn Hd]; subst.
    destruct (bytes_eqb k k0) eqn:E.
    + apply bytes_eqb_eq in E. subst k0. split; assumption.
    + apply bytes_eqb_neq in E. destruct (IH Hd) as [IH1 IH2]. simpl. split.
      * constructor; [|exact IH1]. intros Hin. apply Hn. eapply c_remove_keys_incl, Hin.
      * intros [H1|H1]; [congruence | exact (IH2 H1)].
Qed.

Lemma remove_nth_keys_incl (n : nat) (l : entries V) x :
  In x (map fst (remove_nth V n l)) -> In x (map fst l).
Proof.
  revert n; induction l as [|y r IH]; intros n; simpl; [destruct n; tauto|].
  destruct n; simpl; [tauto|]. intros [H|H]; [left; exact H | right; eapply IH, H].
Qed.

Lemma remove_nth_unique (n : nat) (l : entries V) :
  keys_unique l -> keys_unique (remove_nth V n l).
Proof.
  unfold keys_unique. revert n; induction l as [|y r IH]; intros n H; simpl.
  - destruct n; constructor.
  - inversion H as [|? ? Hn Hd]; subst. destruct n; [exact Hd|]. simpl. constructor.
    + intros Hin. apply Hn. eapply remove_nth_keys_incl, Hin.
    + apply IH, Hd.
Qed.

Lemma c_find_remove_nth (n : nat) (k : bytes) (l : entries V) (v : V) :
  keys_unique l -> c_find V k (remove_nth V n l) = Some v -> c_find V k l = Some v.
Proof.
  unfold keys_unique. revert n; induction l as [|[k0 v0] r IH]; intros n Hu; simpl.
  - destruct n; exact (fun H => H).
  - inversion Hu as [|? ? Hn Hd]; subst. destruct n.
    + intros H. destruct (bytes_eqb k k0) eqn:E; [|exact H].
      apply bytes_eqb_eq in E. subst k0. exfalso. apply Hn.
      apply c_find_In in H. apply (in_map fst) in H. exact H.
    + simpl. destruct (bytes_eqb k k0); [exact (fun H => H) | apply IH, Hd].
Qed.

Variable choose : entries V -> nat.

Lemma rr_add_unique (c : rr V) k v :
  keys_unique (rr_items V c) -> keys_unique (rr_items V (rr_add V choose c k v)).
Proof.
  intros Hu. unfold rr_add. cbn [rr_items rr_size].
  set (l := match c_find V k (rr_items V c) with
            | Some _ => (k, v) :: c_remove V k (rr_items V c)
            | None => (k, v) :: rr_items V c end).
  assert (Hl : keys_unique l).
  { subst l. destruct (c_find V k (rr_items V c)) eqn:E; unfold keys_unique; simpl; constructor.
    - apply c_remove_unique, Hu. - apply c_remove_unique, Hu.
    - apply c_find_none_notin, E. - exact Hu. }
  destruct (rr_size V c <? length l); [apply remove_nth_unique, Hl | exact Hl].
Qed.

Lemma rr_get_unique (c : rr V) k :
  keys_unique (rr_items V c) -> keys_unique (rr_items V (snd (rr_get V c k))).
Proof. intros H; exact H. Qed.

Lemma rr_reset_unique (c : rr V) : keys_unique (rr_items V (rr_reset V c)).
Proof. constructor. Qed.

(* cs_add for the first-binding rr_holds, under the uniqueness invariant *)
Lemma rr_add_sound_unique (c : rr V) k v k' v' :
  keys_unique (rr_items V c) ->
  c_find V k' (rr_items V (rr_add V choose c k v)) = Some v' ->
  (k' = k /\ v' = v) \/ c_find V k' (rr_items V c) = Some v'.
Proof.
  intros Hu H. pose proof (rr_add_unique c k v Hu) as Hu'. revert H Hu'.
  unfold rr_add. cbn [rr_items rr_size].
  set (l := match c_find V k (rr_items V c) with
            | Some _ => (k, v) :: c_remove V k (rr_items V c)
            | None => (k, v) :: rr_items V c end).
  intros H _.
  assert (Hl : keys_unique l).
  { subst l. destruct (c_find V k (rr_items V c)) eqn:E; unfold keys_unique; simpl; constructor.
    - apply c_remove_unique, Hu. - apply c_remove_unique, Hu.
    - apply c_find_none_notin, E. - exact Hu. }
  assert (H' : c_find V k' l = Some v').
  { destruct (rr_size V c <? length l); [eapply c_find_remove_nth; eassumption | exact H]. }
  subst l. destruct (c_find V k (rr_items V c));
    apply c_find_cons in H' as [[-> ->]|[Hne H']]; try (left; split; reflexivity); right.
  - rewrite c_find_remove_other in H' by assumption. exact H'.
  - exact H'.
Qed.
End RRUnique.

(* ====================================================================== *)
(* formatKey                                                                *)
(* ====================================================================== *)
Lemma valid_type_cases ty : valid_type ty = true -> ty = s_counter \/ ty = s_gauge \/ ty = s_observer.
Proof.
  unfold valid_type. intros H.
  apply orb_true_iff in H as [H|H]; [apply orb_true_iff in H as [H|H]|];
    apply bytes_eqb_eq in H; auto.
Qed.

Lemma format_key_inj_ok : stmt_format_key_inj.
Proof.
  intros m1 t1 m2 t2 H1 H2.
  apply valid_type_cases in H1. apply valid_type_cases in H2.
  unfold format_key.
  destruct H1 as [-> | [-> | ->]]; destruct H2 as [-> | [-> | ->]];
    unfold s_counter, s_gauge, s_observer, str; simpl; intros H;
    try discriminate H; injection H as E; subst; split; reflexivity.
Qed.

(* ====================================================================== *)
(* A freshly loaded configuration answers like the specification            *)
(* ====================================================================== *)
Fixpoint gro (rs : list rule) (prio : nat) : list grule :=
  match rs with
  | [] => []
  | r :: t => if ru_is_regex r then gro t prio
              else {| g_prio := prio; g_fields := split_byte c_dot (ru_match r); g_mmt := ru_mmt r |} :: gro t (S prio)
  end.

Lemma glob_rules_of_gro rs : glob_rules_of rs = gro rs 0.
Proof. reflexivity. Qed.

Lemma gro_prios rs : forall n, prios_from (gro rs n) n.
Proof.
  induction rs as [|r t IH]; intros n; simpl; [exact I|].
  destruct (ru_is_regex r); [apply IH|]. simpl. split; [reflexivity | apply IH].
Qed.

Lemma gro_no_glob rs : existsb (fun r => negb (ru_is_regex r)) rs = false -> forall n, gro rs n = [].
Proof.
  induction rs as [|r t IH]; intros H n; simpl in *; [reflexivity|].
  apply orb_false_iff in H as [H1 H2]. destruct (ru_is_regex r); [apply IH, H2 | discriminate].
Qed.

Lemma regex_lookup_no_regex uni_word re_match rs :
  existsb ru_is_regex rs = false ->
  forall idx metric ty, regex_lookup uni_word re_match rs idx metric ty = None.
Proof.
  induction rs as [|r t IH]; intros H idx metric ty; simpl in *; [reflexivity|].
  apply orb_false_iff in H as [H1 H2]. rewrite H1. simpl. apply IH, H2.
Qed.

Lemma load_flags re_compiles ast c :
  load re_compiles ast = LOk c ->
  cf_do_fsm c = existsb (fun r => negb (ru_is_regex r)) (cf_rules c) /\
  cf_do_regex c = existsb ru_is_regex (cf_rules c).
Proof.
  unfold load. destruct ast as [|d rules]; [discriminate|].
  repeat match goal with
  | |- lbind ?r _ = _ -> _ => destruct r eqn:?; cbn [lbind]; [|discriminate]
  end.
  intros H. injection H as <-. simpl. split; reflexivity.
Qed.

Lemma fsm_is_glob_answer heur_bt c metric ty :
  stmt_fsm_first_match -> stmt_fsm_most_specific ->
  fsm_get_mapping (fs_rules (build_fsm heur_bt c)) (fs_bt (build_fsm heur_bt c))
                  (fs_ordering_disabled (build_fsm heur_bt c)) metric ty
  = glob_answer c metric ty.
Proof.
  intros HF HM. unfold build_fsm, glob_answer. cbn [fs_rules fs_bt fs_ordering_disabled].
  pose proof (gro_prios (cf_rules c) 0) as HP. rewrite <- glob_rules_of_gro in HP.
  destruct (df_disable_ordering (cf_defaults c)).
  - apply HM; [exact HP|]. cbn [negb orb].
    destruct (heur_bt _ true); [left; reflexivity|]. cbn [orb].
    destruct (has_ambiguous_wildcard _); [left | right]; reflexivity.
  - cbn [negb orb]. apply HF, HP.
Qed.

Lemma lookup_is_spec_ok : forall uni_word re_match heur_bt re_compiles,
  stmt_fsm_first_match -> stmt_fsm_most_specific ->
  stmt_lookup_is_spec uni_word re_match heur_bt re_compiles.
Proof.
  intros uni_word re_match heur_bt re_compiles HF HM ast c metric ty HL.
  apply load_flags in HL as [Hfsm Hre].
  unfold lookup_uncached, spec_lookup.
  destruct (cf_do_fsm c) eqn:Edo.
  - rewrite (fsm_is_glob_answer heur_bt c metric ty HF HM).
    destruct (glob_answer c metric ty) as [[prio caps]|].
    + destruct (nth_glob_rule (cf_rules c) prio) as [[idx r]|]; reflexivity.
    + destruct (cf_do_regex c) eqn:Ere; [reflexivity|].
      symmetry. apply regex_lookup_no_regex. rewrite <- Hre. reflexivity.
  - assert (HG : glob_answer c metric ty = None).
    { unfold glob_answer. rewrite glob_rules_of_gro, gro_no_glob by (rewrite <- Hfsm; reflexivity).
      destruct (df_disable_ordering (cf_defaults c)); reflexivity. }
    rewrite HG. reflexivity.
Qed.

(* ====================================================================== *)
(* The mapper with any sound cache refines the specification                *)
(* ====================================================================== *)
Section Refines.
Variable uni_word : rune -> bool.
Variable re_match : bytes -> bytes -> option (list (option bytes)).
Variable heur_bt : list bytes -> bool -> bool.
Variable re_compiles : bytes -> bool.
Variable CS : Type.
Variable c_get : CS -> bytes -> option (option mresult) * CS.
Variable c_add : CS -> bytes -> option mresult -> CS.
Variable c_reset : CS -> CS.

Hypothesis HSpec : stmt_lookup_is_spec uni_word re_match heur_bt re_compiles.
Variable holds : CS -> bytes -> option mresult -> Prop.
Hypothesis HSound : cache_sound CS c_get c_add c_reset holds.

(* the specification's answer in state st *)
Definition ans (st : option config) (metric ty : bytes) : option mresult :=
  match st with Some c => spec_lookup uni_word re_match c metric ty | None => None end.

Definition rules_inv (m : mapper CS) (st : option config) : Prop :=
  match st with
  | None => m_rules CS m = [] /\ m_do_fsm CS m = false
  | Some c =>
    (exists ast, load re_compiles ast = LOk c) /\
    m_rules CS m = cf_rules c /\ m_do_fsm CS m = cf_do_fsm c /\
    (cf_do_fsm c = true -> m_fsm CS m = build_fsm heur_bt c /\ m_do_regex CS m = cf_do_regex c)
  end.

Definition cache_inv (cache : option CS) (st : option config) : Prop :=
  forall s, cache = Some s -> forall k v, holds s k v ->
  exists metric ty, valid_type ty = true /\ k = format_key metric ty /\ v = ans st metric ty.

Definition inv (m : mapper CS) (st : option config) : Prop :=
  rules_inv m st /\ cache_inv (m_cache CS m) st.

Lemma uncached_is_ans m st metric ty :
  rules_inv m st ->
  lookup_uncached uni_word re_match (m_rules CS m) (m_fsm CS m) (m_do_fsm CS m) (m_do_regex CS m) metric ty
  = ans st metric ty.
Proof.
  unfold rules_inv, ans. destruct st as [c|].
  - intros [[ast HL] [Hr [Hf Hx]]]. rewrite <- (HSpec ast c metric ty HL).
    rewrite Hr, Hf. destruct (cf_do_fsm c) eqn:E.
    + destruct (Hx eq_refl) as [-> ->]. reflexivity.
    + reflexivity.
  - intros [-> ->]. reflexivity.
Qed.

Lemma step_ok m st o :
  inv m st -> valid_op o = true ->
  fst (impl_step uni_word re_match heur_bt re_compiles CS c_get c_add c_reset m o)
  = fst (spec_step uni_word re_match re_compiles st o) /\
  inv (snd (impl_step uni_word re_match heur_bt re_compiles CS c_get c_add c_reset m o))
      (snd (spec_step uni_word re_match re_compiles st o)).
Proof.
  intros [HR HC] HV. destruct o as [metric ty|ast]; simpl in HV.
  - (* lookup *)
    unfold impl_step, spec_step, get_mapping. fold (ans st metric ty).
    pose proof (uncached_is_ans m st metric ty HR) as HU.
    destruct (m_cache CS m) as [s|] eqn:EC.
    + destruct (c_get s (format_key metric ty)) as [[r|] s'] eqn:EG; cbn [fst snd].
      * (* hit *)
        pose proof (cs_get _ _ _ _ _ HSound _ _ _ _ EG) as Hh.
        destruct (HC s eq_refl _ _ Hh) as [metric' [ty' [Hv' [Hk ->]]]].
        destruct (format_key_inj_ok metric ty metric' ty' HV Hv' Hk) as [-> ->].
        split; [reflexivity|]. split; [exact HR|].
        intros s0 Hs0 k v Hkv. cbn [m_cache] in Hs0. injection Hs0 as <-.
        apply (HC s eq_refl).
        apply (cs_get_mono _ _ _ _ _ HSound s (format_key metric' ty')). rewrite EG. exact Hkv.
      * (* miss *)
        rewrite HU. split; [reflexivity|]. split; [exact HR|].
        intros s0 Hs0 k v Hkv. cbn [m_cache option_map] in Hs0. injection Hs0 as <-.
        apply (cs_add _ _ _ _ _ HSound) in Hkv as [[-> ->]|Hkv].
        -- exists metric, ty. repeat split; assumption.
        -- apply (HC s eq_refl).
           apply (cs_get_mono _ _ _ _ _ HSound s (format_key metric ty)). rewrite EG. exact Hkv.
    + cbn [fst snd]. rewrite HU. split; [reflexivity|]. split; [exact HR|].
      intros s0 Hs0. cbn [m_cache option_map] in Hs0. discriminate.
  - (* reload *)
    unfold impl_step, spec_step, init_from_yaml.
    destruct (load re_compiles ast) as [n|e] eqn:EL; cbn [fst snd].
    + split; [reflexivity|]. split.
      * unfold rules_inv, install. cbn [m_rules m_do_fsm m_fsm m_do_regex].
        split; [exists ast; exact EL|]. split; [reflexivity|]. split; [reflexivity|].
        intros ->. split; reflexivity.
      * intros s0 Hs0 k v Hkv. unfold install in Hs0. cbn [m_cache] in Hs0.
        destruct (m_cache CS m) as [s|]; [|discriminate]. cbn [option_map] in Hs0.
        injection Hs0 as <-. exfalso. exact (cs_reset _ _ _ _ _ HSound _ _ _ Hkv).
    + split; [reflexivity|]. split; assumption.
Qed.

Lemma run_ok ops : forall m st,
  inv m st -> forallb valid_op ops = true ->
  impl_run uni_word re_match heur_bt re_compiles CS c_get c_add c_reset m ops
  = spec_run uni_word re_match re_compiles st ops.
Proof.
  induction ops as [|o r IH]; intros m st HI HV; [reflexivity|].
  simpl in HV. apply andb_true_iff in HV as [HV1 HV2].
  destruct (step_ok m st o HI HV1) as [Hout Hinv].
  cbn [impl_run spec_run].
  destruct (impl_step uni_word re_match heur_bt re_compiles CS c_get c_add c_reset m o) as [out m'].
  destruct (spec_step uni_word re_match re_compiles st o) as [out' st'].
  cbn [fst snd] in Hout, Hinv. subst out'. f_equal. apply IH; assumption.
Qed.

Lemma refines_section (cache0 : option CS) :
  (forall s, cache0 = Some s -> forall k v, ~ holds s k v) ->
  forall ops, forallb valid_op ops = true ->
  impl_run uni_word re_match heur_bt re_compiles CS c_get c_add c_reset (new_mapper CS cache0) ops
  = spec_run uni_word re_match re_compiles None ops.
Proof.
  intros H0 ops HV. apply run_ok; [|exact HV]. split.
  - split; reflexivity.
  - intros s Hs k v Hkv. cbn [new_mapper m_cache] in Hs. exfalso. exact (H0 s Hs k v Hkv).
Qed.
End Refines.

Lemma mapper_refines_spec_ok : forall uni_word re_match heur_bt re_compiles CS c_get c_add c_reset,
  stmt_mapper_refines_spec uni_word re_match heur_bt re_compiles CS c_get c_add c_reset.
Proof.
  intros uni_word re_match heur_bt re_compiles CS c_get c_add c_reset HSpec holds HSound cache0 H0 ops HV.
  eapply refines_section; eassumption.
Qed.

(* the premise of stmt_mapper_refines_spec discharged from the two FSM theorems, and the shipped
   LRU plugged in *)
Corollary mapper_refines_spec_from_fsm : forall uni_word re_match heur_bt re_compiles CS c_get c_add c_reset,
  stmt_fsm_first_match -> stmt_fsm_most_specific ->
  forall holds, cache_sound CS c_get c_add c_reset holds ->
  forall (cache0 : option CS), (forall s, cache0 = Some s -> forall k v, ~ holds s k v) ->
  forall ops, forallb valid_op ops = true ->
  impl_run uni_word re_match heur_bt re_compiles CS c_get c_add c_reset (new_mapper CS cache0) ops
  = spec_run uni_word re_match re_compiles None ops.
Proof.
  intros. eapply mapper_refines_spec_ok; try eassumption. apply lookup_is_spec_ok; assumption.
Qed.

Print Assumptions lru_sound_ok.
Print Assumptions rr_sound_ok.
Print Assumptions format_key_inj_ok.
Print Assumptions mapper_refines_spec_ok.
Print Assumptions lookup_is_spec_ok.
