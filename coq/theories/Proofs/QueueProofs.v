From SE Require Import Spec.QueueSpec.
From Coq Require Import Permutation.

(* C16 proofs: one inductive invariant QInv of the transition system of Model/EventQueue.v,
   preserved by every enabled step, lifted along qrun; the seven statements of Spec/QueueSpec.v
   are consequences. *)

(* ---------- generic list lemmas ---------- *)
Section ListLemmas.
Context {A : Type}.

Lemma upd_nth_eq : forall (l : list A) i p, i < length l ->
  nth_error (firstn i l ++ p :: skipn (S i) l) i = Some p.
Proof.
  induction l; intros [|i] p H; simpl in *; try lia; auto. apply IHl; lia.
Qed.

Lemma upd_nth_neq : forall (l : list A) i j p, i < length l -> j <> i ->
  nth_error (firstn i l ++ p :: skipn (S i) l) j = nth_error l j.
Proof.
  induction l; intros [|i] [|j] p H Hn; simpl in *; try lia; auto. apply IHl; lia.
Qed.

Lemma upd_length : forall (l : list A) i p, i < length l ->
  length (firstn i l ++ p :: skipn (S i) l) = length l.
Proof.
  induction l; intros [|i] p H; simpl in *; try lia; auto. rewrite IHl; auto; lia.
Qed.

Lemma split_nth : forall (l : list A) i p, nth_error l i = Some p ->
  firstn i l ++ p :: skipn (S i) l = l.
Proof.
  induction l; intros [|i] p H; simpl in *; try discriminate.
  - inversion H; auto.
  - f_equal. apply IHl; auto.
Qed.

Lemma upd_flat {B} (f : A -> list B) : forall (l : list A) i p,
  flat_map f (firstn i l ++ p :: skipn (S i) l)
  = flat_map f (firstn i l) ++ f p ++ flat_map f (skipn (S i) l).
Proof. intros. rewrite flat_map_app. reflexivity. Qed.

Lemma flat_split {B} (f : A -> list B) : forall (l : list A) i p, nth_error l i = Some p ->
  flat_map f l = flat_map f (firstn i l) ++ f p ++ flat_map f (skipn (S i) l).
Proof. intros l i p H. rewrite <- upd_flat. f_equal. symmetry. apply split_nth; auto. Qed.

Lemma filter_none (f : A -> bool) : forall l, (forall x, In x l -> f x = false) -> filter f l = [].
Proof.
  induction l; intros H; simpl; auto.
  rewrite (H a) by (left; auto). apply IHl. intros; apply H; right; auto.
Qed.

Lemma filter_le1 (f : A -> bool) : forall l,
  (forall i j p q, nth_error l i = Some p -> nth_error l j = Some q ->
                   f p = true -> f q = true -> i = j) ->
  length (filter f l) <= 1.
Proof.
  induction l; intros H; simpl; [lia|]. destruct (f a) eqn:Fa.
  - rewrite filter_none; [simpl; lia|]. intros x Hin. destruct (f x) eqn:Fx; auto.
    apply In_nth_error in Hin. destruct Hin as [j Hj].
    specialize (H 0 (S j) a x eq_refl Hj Fa Fx). discriminate.
  - apply IHl. intros i j p q Hi Hj Fp Fq.
    specialize (H (S i) (S j) p q Hi Hj Fp Fq). lia.
Qed.

Lemma forallb_false_nth (f : A -> bool) : forall l, forallb f l = false ->
  exists i p, nth_error l i = Some p /\ f p = false.
Proof.
  induction l; simpl; intros H; try discriminate.
  destruct (f a) eqn:Fa.
  - simpl in H. destruct (IHl H) as (i & p & Hi & Hp). exists (S i), p; auto.
  - exists 0, a; auto.
Qed.

Lemma NoDup_app_disj : forall (l l' : list A) x, NoDup (l ++ l') -> In x l -> In x l' -> False.
Proof.
  induction l; simpl; intros l' x H Hin Hin'; [auto|].
  inversion H; subst. destruct Hin as [->|Hin].
  - apply H2. apply in_or_app; auto.
  - eapply IHl; eauto.
Qed.

Lemma NoDup_app_l : forall (l l' : list A), NoDup (l ++ l') -> NoDup l.
Proof.
  induction l; simpl; intros l' H; [constructor|].
  inversion H; subst. constructor.
  - intro Hin. apply H2. apply in_or_app; auto.
  - eapply IHl; eauto.
Qed.

Lemma NoDup_app_r : forall (l l' : list A), NoDup (l ++ l') -> NoDup l'.
Proof.
  induction l; simpl; intros l' H; auto. inversion H; subst. auto.
Qed.

Lemma firstn_length_app : forall (l l' : list A), firstn (length l) (l ++ l') = l.
Proof.
  induction l; simpl; intros; auto. f_equal; auto.
Qed.
End ListLemmas.

(* ---------- model-specific definitions ---------- *)
Definition current (p : producer) : list ev :=
  match p_phase p with PIdle => [] | PLocked r => r | PFlushing r => r end.
Definition remaining (p : producer) : list ev := current p ++ concat (p_calls p).

Definition all_idle (ps : list producer) : Prop :=
  forall i p, nth_error ps i = Some p -> p_phase p = PIdle.
Definition excl (ps : list producer) : Prop :=
  forall i j p q, nth_error ps i = Some p -> nth_error ps j = Some q ->
    p_phase p <> PIdle -> p_phase q <> PIdle -> i = j.
Definition no_flushing (ps : list producer) : Prop :=
  forall i p r, nth_error ps i = Some p -> p_phase p <> PFlushing r.

Record QInv (threshold : nat) (programs : list (list (list ev))) (s : qstate) : Prop := {
  inv_thr : q_threshold s = threshold;
  inv_len : length (q_producers s) = length programs;
  inv_excl : excl (q_producers s);
  inv_tick : q_ticker s <> TIdle -> all_idle (q_producers s);
  inv_cons : concat (q_delivered s) ++ concat (q_chan s) ++ q_pending s = q_log s;
  inv_perm : Permutation (q_log s ++ flat_map remaining (q_producers s)) (concat (concat programs));
  inv_prog : forall i p prog, nth_error (q_producers s) i = Some p -> nth_error programs i = Some prog ->
     filter (mine prog) (q_log s) ++ remaining p = concat prog;
  inv_batch : Forall (fun b => length b <= threshold) (q_delivered s ++ q_chan s);
  inv_pend : length (q_pending s) <= threshold;
  inv_pend2 : no_flushing (q_producers s) -> length (q_pending s) < threshold
}.

Lemma lock_free_spec s : lock_free s = true <-> all_idle (q_producers s) /\ q_ticker s = TIdle.
Proof.
  unfold lock_free, all_idle. rewrite andb_true_iff, forallb_forall. split.
  - intros [H1 H2]. split.
    + intros i p Hn. apply nth_error_In in Hn. apply H1 in Hn. destruct (p_phase p); congruence.
    + destruct (q_ticker s); congruence.
  - intros [H1 H2]. split.
    + intros p Hin. apply In_nth_error in Hin. destruct Hin as [i Hi]. rewrite (H1 _ _ Hi). reflexivity.
    + rewrite H2. reflexivity.
Qed.

Lemma mine_In prog e : mine prog e = true <-> In e (concat prog).
Proof.
  unfold mine. rewrite existsb_exists. split.
  - intros (x & Hin & Heq). apply Nat.eqb_eq in Heq. subst; auto.
  - intros Hin. exists e. split; auto. apply Nat.eqb_refl.
Qed.

Lemma all_idle_no_flushing ps : all_idle ps -> no_flushing ps.
Proof. intros H i p r Hn. rewrite (H _ _ Hn). discriminate. Qed.

Lemma locked_no_flushing ps i p r0 : excl ps -> nth_error ps i = Some p -> p_phase p = PLocked r0 ->
  no_flushing ps.
Proof.
  intros Hex Hi Hp j q r Hj Hq.
  assert (j = i).
  { eapply Hex; eauto; congruence. }
  subst j. congruence.
Qed.

Lemma upd_excl ps i p p' : excl ps -> nth_error ps i = Some p ->
  (p_phase p <> PIdle \/ all_idle ps) ->
  excl (firstn i ps ++ p' :: skipn (S i) ps).
Proof.
  intros Hex Hi Hor.
  assert (Hlt : i < length ps) by (apply nth_error_Some; congruence).
  assert (K : forall k q, nth_error (firstn i ps ++ p' :: skipn (S i) ps) k = Some q ->
                          p_phase q <> PIdle -> k = i).
  { intros k q Hk Hq. destruct (Nat.eq_dec k i) as [|Hne]; auto.
    rewrite upd_nth_neq in Hk by auto. destruct Hor as [Hb|Hid].
    - eapply Hex; eauto.
    - exfalso. apply Hq. eapply Hid; eauto. }
  intros a b q1 q2 Ha Hb H1 H2. rewrite (K _ _ Ha H1), (K _ _ Hb H2). reflexivity.
Qed.

Lemma upd_flat_same ps i p p' : nth_error ps i = Some p -> remaining p' = remaining p ->
  flat_map remaining (firstn i ps ++ p' :: skipn (S i) ps) = flat_map remaining ps.
Proof.
  intros Hi Hr. rewrite upd_flat, (flat_split remaining ps i p Hi), Hr. reflexivity.
Qed.

Lemma upd_prog_same (programs : list (list (list ev))) ps i p p' log :
  nth_error ps i = Some p -> remaining p' = remaining p ->
  (forall k q prog, nth_error ps k = Some q -> nth_error programs k = Some prog ->
     filter (mine prog) log ++ remaining q = concat prog) ->
  forall k q prog, nth_error (firstn i ps ++ p' :: skipn (S i) ps) k = Some q ->
     nth_error programs k = Some prog ->
     filter (mine prog) log ++ remaining q = concat prog.
Proof.
  intros Hi Hr H k q prog Hk Hp.
  assert (Hlt : i < length ps) by (apply nth_error_Some; congruence).
  destruct (Nat.eq_dec k i) as [->|Hne].
  - rewrite upd_nth_eq in Hk by auto. inversion Hk; subst q. rewrite Hr. eauto.
  - rewrite upd_nth_neq in Hk by auto. eauto.
Qed.

Lemma nth_in_concat2 : forall (L : list (list (list ev))) j b e,
  nth_error L j = Some b -> In e (concat b) -> In e (concat (concat L)).
Proof.
  intros L j b e Hj Hin. apply nth_error_In in Hj.
  apply in_concat in Hin. destruct Hin as (c & Hc & He).
  apply in_concat. exists c. split; auto. apply in_concat. exists b; auto.
Qed.

Lemma progs_disjoint : forall (L : list (list (list ev))), NoDup (concat (concat L)) ->
  forall i j a b e, nth_error L i = Some a -> nth_error L j = Some b -> i <> j ->
    In e (concat a) -> In e (concat b) -> False.
Proof.
  induction L as [|x L IH]; intros Hnd i j a b e Hi Hj Hne Ha Hb.
  - destruct i; discriminate.
  - simpl in Hnd. rewrite concat_app in Hnd.
    destruct i as [|i], j as [|j]; simpl in Hi, Hj; try lia.
    + inversion Hi; subst x. eapply NoDup_app_disj; [exact Hnd | exact Ha |].
      eapply nth_in_concat2; eauto.
    + inversion Hj; subst x. eapply NoDup_app_disj; [exact Hnd | exact Hb |].
      eapply nth_in_concat2; eauto.
    + eapply (IH (NoDup_app_r _ _ Hnd) i j); eauto.
Qed.

(* ---------- the invariant holds initially ---------- *)
Lemma init_flat : forall programs,
  flat_map remaining (map (fun cs => {| p_calls := cs; p_phase := PIdle |}) programs)
  = concat (concat programs).
Proof.
  induction programs as [|a l IH]; simpl; auto.
  rewrite concat_app, IH. reflexivity.
Qed.

Lemma init_inv threshold cap programs : 1 <= threshold ->
  QInv threshold programs (qinit threshold cap programs).
Proof.
  intros Hthr.
  assert (Hidle : all_idle (q_producers (qinit threshold cap programs))).
  { intros i p Hn. simpl in Hn. rewrite nth_error_map in Hn.
    destruct (nth_error programs i); simpl in Hn; inversion Hn; reflexivity. }
  constructor; simpl; auto.
  - apply map_length.
  - intros i j p q Hi Hj Hp. exfalso. apply Hp. eapply Hidle; simpl; eauto.
  - rewrite init_flat. apply Permutation_refl.
  - intros i p prog Hn Hp. rewrite nth_error_map, Hp in Hn. simpl in Hn.
    inversion Hn; subst p. reflexivity.
  - lia.
Qed.

(* ---------- every enabled step preserves the invariant ---------- *)
Section Step.
Variables (threshold : nat) (programs : list (list (list ev))).
Hypothesis Hthr : 1 <= threshold.
Hypothesis Hnd : NoDup (concat (concat programs)).

Ltac qsimpl := unfold with_, set_producer;
  cbn [q_threshold q_cap q_pending q_chan q_delivered q_producers q_ticker q_log].

Lemma step_inv s l s' : QInv threshold programs s -> qstep s l = Some s' -> QInv threshold programs s'.
Proof.
  intros [Ithr Ilen Iexcl Itick Icons Iperm Iprog Ibatch Ipend Ipend2] Hstep.
  destruct l as [i|i|i|i| | | |]; unfold qstep in Hstep.
  - (* LAcquire *)
    destruct (nth_error (q_producers s) i) as [[calls phase]|] eqn:E; try discriminate.
    destruct calls as [|c cs]; try discriminate. destruct phase; try discriminate.
    destruct (lock_free s) eqn:LF; try discriminate.
    apply lock_free_spec in LF. destruct LF as [Hidle Htk].
    inversion Hstep; subst s'; clear Hstep.
    assert (Hi : i < length (q_producers s)) by (apply nth_error_Some; congruence).
    constructor; qsimpl; auto; try (simpl; lia).
    + rewrite upd_length; auto.
    + eapply upd_excl; eauto.
    + intros Hne; congruence.
    + rewrite (upd_flat_same _ _ _ _ E); auto.
    + eapply upd_prog_same; eauto.
    + intros _. apply Ipend2. apply all_idle_no_flushing; auto.
  - (* LAppend *)
    destruct (nth_error (q_producers s) i) as [[calls phase]|] eqn:E; try discriminate.
    destruct phase as [|[|e rest]|]; try discriminate.
    inversion Hstep; subst s'; clear Hstep.
    assert (Hi : i < length (q_producers s)) by (apply nth_error_Some; congruence).
    assert (Hnf : no_flushing (q_producers s)) by (eapply locked_no_flushing; eauto; reflexivity).
    specialize (Ipend2 Hnf).
    remember (if q_threshold s <=? length (q_pending s ++ [e]) then PFlushing rest else PLocked rest) as ph.
    assert (Hph : ph = PFlushing rest \/ (ph = PLocked rest /\ length (q_pending s ++ [e]) < q_threshold s)).
    { subst ph. destruct (Nat.leb_spec (q_threshold s) (length (q_pending s ++ [e]))); auto. }
    assert (Hrem : remaining {| p_calls := calls; p_phase := ph |} = rest ++ concat calls).
    { unfold remaining, current; simpl. destruct Hph as [->|[-> _]]; reflexivity. }
    assert (Hpi : exists prog, nth_error programs i = Some prog).
    { destruct (nth_error programs i) eqn:Ep; eauto.
      apply nth_error_None in Ep. lia. }
    destruct Hpi as [progi Hprogi].
    assert (Hei : In e (concat progi)).
    { rewrite <- (Iprog _ _ _ E Hprogi). apply in_or_app. right.
      unfold remaining, current; simpl. left; reflexivity. }
    clear Heqph.
    constructor; qsimpl; auto; try (simpl; lia).
    + rewrite upd_length; auto.
    + eapply upd_excl; eauto. left; simpl; discriminate.
    + intros Hne. specialize (Itick Hne _ _ E). simpl in Itick. discriminate.
    + rewrite <- Icons, <- !app_assoc. reflexivity.
    + rewrite upd_flat, Hrem.
      rewrite (flat_split remaining _ _ _ E) in Iperm.
      eapply Permutation_trans; [|exact Iperm].
      rewrite <- app_assoc. apply Permutation_app_head. simpl.
      unfold remaining at 3, current; simpl.
      apply Permutation_middle.
    + intros k q prog Hk Hp. rewrite filter_app. simpl.
      destruct (Nat.eq_dec k i) as [->|Hne].
      * rewrite upd_nth_eq in Hk by auto. inversion Hk; subst q. rewrite Hrem.
        assert (prog = progi) by congruence. subst prog.
        rewrite (proj2 (mine_In progi e) Hei).
        rewrite <- (Iprog _ _ _ E Hprogi). unfold remaining, current; simpl.
        rewrite <- app_assoc. reflexivity.
      * rewrite upd_nth_neq in Hk by auto.
        destruct (mine prog e) eqn:Hm.
        { exfalso. apply mine_In in Hm.
          eapply (progs_disjoint programs Hnd k i); eauto. }
        rewrite app_nil_r. eauto.
    + rewrite app_length; simpl; lia.
    + intros Hnf'. destruct Hph as [Hf|[_ Hlt]]; [|lia].
      exfalso. eapply (Hnf' i _ rest); [apply upd_nth_eq; auto|]. simpl. exact Hf.
  - (* LSend *)
    destruct (nth_error (q_producers s) i) as [[calls phase]|] eqn:E; try discriminate.
    destruct phase as [| |rest]; try discriminate.
    destruct (room s) eqn:Hroom; try discriminate.
    inversion Hstep; subst s'; clear Hstep.
    assert (Hi : i < length (q_producers s)) by (apply nth_error_Some; congruence).
    constructor; qsimpl; auto; try (simpl; lia).
    + rewrite upd_length; auto.
    + eapply upd_excl; eauto. left; simpl; discriminate.
    + intros Hne. specialize (Itick Hne _ _ E). simpl in Itick. discriminate.
    + rewrite concat_app. simpl. rewrite !app_nil_r. exact Icons.
    + rewrite (upd_flat_same _ _ _ _ E); auto.
    + eapply upd_prog_same; eauto.
    + rewrite app_assoc. apply Forall_app. split; auto.
  - (* LRelease *)
    destruct (nth_error (q_producers s) i) as [[calls phase]|] eqn:E; try discriminate.
    destruct phase as [|[|e rest]|]; try discriminate.
    inversion Hstep; subst s'; clear Hstep.
    assert (Hi : i < length (q_producers s)) by (apply nth_error_Some; congruence).
    assert (Hnf : no_flushing (q_producers s)) by (eapply locked_no_flushing; eauto; reflexivity).
    constructor; qsimpl; auto; try (simpl; lia).
    + rewrite upd_length; auto.
    + eapply upd_excl; eauto. left; simpl; discriminate.
    + intros Hne. specialize (Itick Hne _ _ E). simpl in Itick. discriminate.
    + rewrite (upd_flat_same _ _ _ _ E); auto.
    + eapply upd_prog_same; eauto.
  - (* LTickAcquire *)
    destruct (lock_free s) eqn:LF; try discriminate.
    apply lock_free_spec in LF. destruct LF as [Hidle Htk].
    inversion Hstep; subst s'; clear Hstep.
    constructor; qsimpl; auto; try (simpl; lia).
  - (* LTickSend *)
    destruct (q_ticker s) eqn:Et; try discriminate.
    destruct (room s) eqn:Hroom; try discriminate.
    inversion Hstep; subst s'; clear Hstep.
    constructor; qsimpl; auto; try (simpl; lia).
    + intros _. apply Itick. discriminate.
    + rewrite concat_app. simpl. rewrite !app_nil_r. exact Icons.
    + rewrite app_assoc. apply Forall_app. split; auto.
  - (* LTickRelease *)
    destruct (q_ticker s) eqn:Et; try discriminate.
    inversion Hstep; subst s'; clear Hstep.
    constructor; qsimpl; auto; try (simpl; lia).
  - (* LRecv *)
    destruct (q_chan s) as [|b r] eqn:Ec; try discriminate.
    inversion Hstep; subst s'; clear Hstep.
    constructor; qsimpl; auto; try (simpl; lia).
    + rewrite concat_app. simpl in *. rewrite app_nil_r. rewrite <- Icons, <- !app_assoc. reflexivity.
    + rewrite <- app_assoc. simpl. exact Ibatch.
Qed.

Lemma run_inv : forall ls s s', QInv threshold programs s -> qrun s ls = Some s' -> QInv threshold programs s'.
Proof.
  induction ls as [|l ls IH]; simpl; intros s s' Hinv Hrun.
  - inversion Hrun; subst; auto.
  - destruct (qstep s l) as [s1|] eqn:Hs; try discriminate.
    eapply IH; [|exact Hrun]. eapply step_inv; eauto.
Qed.
End Step.

Lemma reach_inv threshold cap programs s : pre threshold programs -> reachable threshold cap programs s ->
  QInv threshold programs s.
Proof.
  intros [Hthr Hnd] [ls Hrun].
  eapply run_inv; eauto. apply init_inv; auto.
Qed.

(* ---------- the seven statements ---------- *)
Lemma q_mutex_ok : forall threshold cap programs, stmt_q_mutex threshold cap programs.
Proof.
  intros threshold cap programs Hpre s Hr.
  destruct (reach_inv _ _ _ _ Hpre Hr) as [_ _ Iexcl Itick _ _ _ _ _ _].
  unfold holders.
  destruct (q_ticker s) eqn:Et.
  - rewrite Nat.add_0_r. apply filter_le1.
    intros i j p q Hi Hj Hp Hq. eapply Iexcl; eauto.
    + intro Hc; rewrite Hc in Hp; discriminate.
    + intro Hc; rewrite Hc in Hq; discriminate.
  - rewrite filter_none; [simpl; lia|]. intros x Hin.
    apply In_nth_error in Hin. destruct Hin as [i Hi].
    rewrite (Itick ltac:(discriminate) _ _ Hi). reflexivity.
  - rewrite filter_none; [simpl; lia|]. intros x Hin.
    apply In_nth_error in Hin. destruct Hin as [i Hi].
    rewrite (Itick ltac:(discriminate) _ _ Hi). reflexivity.
Qed.

Lemma q_conservation_ok : forall threshold cap programs, stmt_q_conservation threshold cap programs.
Proof.
  intros threshold cap programs Hpre s Hr.
  destruct (reach_inv _ _ _ _ Hpre Hr) as [_ _ _ _ Icons Iperm _ _ _ _].
  split; auto. destruct Hpre as [_ Hnd].
  eapply NoDup_app_l. eapply Permutation_NoDup; [apply Permutation_sym; exact Iperm | exact Hnd].
Qed.

Lemma q_producer_order_ok : forall threshold cap programs, stmt_q_producer_order threshold cap programs.
Proof.
  intros threshold cap programs Hpre s i prog Hr Hp.
  destruct (reach_inv _ _ _ _ Hpre Hr) as [_ Ilen _ _ _ _ Iprog _ _ _].
  destruct (nth_error (q_producers s) i) as [p|] eqn:E.
  - exists (length (filter (mine prog) (q_log s))).
    rewrite <- (Iprog _ _ _ E Hp). rewrite firstn_length_app. reflexivity.
  - exfalso. apply nth_error_None in E.
    assert (i < length programs) by (apply nth_error_Some; congruence). lia.
Qed.

Lemma all_done_flat : forall ps,
  forallb (fun p => match p_calls p, p_phase p with [], PIdle => true | _, _ => false end) ps = true ->
  flat_map remaining ps = [].
Proof.
  induction ps as [|[calls phase] ps IH]; simpl; intros H; auto.
  apply andb_true_iff in H. destruct H as [H1 H2].
  destruct calls; try discriminate. destruct phase; try discriminate.
  simpl. apply IH; auto.
Qed.

Lemma q_complete_ok : forall threshold cap programs, stmt_q_complete threshold cap programs.
Proof.
  intros threshold cap programs Hpre s Hr Hdone.
  destruct (reach_inv _ _ _ _ Hpre Hr) as [_ _ _ _ _ Iperm _ _ _ _].
  unfold all_done in Hdone. rewrite (all_done_flat _ Hdone), app_nil_r in Iperm. exact Iperm.
Qed.

Lemma q_batch_bound_ok : forall threshold cap programs, stmt_q_batch_bound threshold cap programs.
Proof.
  intros threshold cap programs Hpre s Hr.
  destruct (reach_inv _ _ _ _ Hpre Hr) as [_ _ _ _ _ _ _ Ibatch Ipend Ipend2].
  repeat split; auto.
  intros LF. apply lock_free_spec in LF. destruct LF as [Hidle _].
  apply Ipend2. apply all_idle_no_flushing; auto.
Qed.

Lemma q_tick_flushes_ok : forall threshold cap programs, stmt_q_tick_flushes threshold cap programs.
Proof.
  intros threshold cap programs Hpre s s' Hr Hstep.
  destruct (reach_inv _ _ _ _ Hpre Hr) as [_ _ _ _ Icons _ _ _ _ _].
  unfold qstep in Hstep.
  destruct (q_ticker s); try discriminate. destruct (room s); try discriminate.
  inversion Hstep; subst s'; clear Hstep. unfold with_; simpl. split; auto.
  rewrite concat_app. simpl. rewrite app_nil_r. exact Icons.
Qed.

Lemma room_false_chan s : room s = false -> exists b r, q_chan s = b :: r.
Proof.
  unfold room. intros H. apply Nat.ltb_ge in H.
  destruct (q_chan s) as [|b r]; eauto.
  pose proof (Nat.le_max_l 1 (q_cap s)). cbn [length] in H. lia.
Qed.

Lemma q_progress_ok : forall threshold cap programs, stmt_q_progress threshold cap programs.
Proof.
  intros threshold cap programs Hpre s Hr. split.
  - intros LF. unfold lock_free in LF. apply andb_false_iff in LF. destruct LF as [LF|LF].
    + apply forallb_false_nth in LF. destruct LF as (i & [calls phase] & Hi & Hp). simpl in Hp.
      destruct phase as [|[|e rest]|rest]; try discriminate.
      * exists (LRelease i). unfold qstep. rewrite Hi. eauto.
      * exists (LAppend i). unfold qstep. rewrite Hi. eauto.
      * destruct (room s) eqn:Hroom.
        { exists (LSend i). unfold qstep. rewrite Hi, Hroom. eauto. }
        { destruct (room_false_chan _ Hroom) as (b & r & Hc).
          exists LRecv. unfold qstep. rewrite Hc. eauto. }
    + destruct (q_ticker s) eqn:Et; try discriminate.
      * destruct (room s) eqn:Hroom.
        { exists LTickSend. unfold qstep. rewrite Et, Hroom. eauto. }
        { destruct (room_false_chan _ Hroom) as (b & r & Hc).
          exists LRecv. unfold qstep. rewrite Hc. eauto. }
      * exists LTickRelease. unfold qstep. rewrite Et. eauto.
  - intros Hne. unfold qstep. destruct (q_chan s); [congruence|eauto].
Qed.

Print Assumptions q_mutex_ok.
Print Assumptions q_conservation_ok.
Print Assumptions q_producer_order_ok.
Print Assumptions q_complete_ok.
Print Assumptions q_batch_bound_ok.
Print Assumptions q_tick_flushes_ok.
Print Assumptions q_progress_ok.
