(* The registry invariant and its preservation by get_series / update_series / remove_stale. *)
From SE Require Import Spec.PipelineSpec Proofs.PipeBase.
From Coq Require Import ZArith.

(* ---------- the four maps as instances of the generic association list ---------- *)
Lemma name_find_In n v l : name_find n l = Some v -> In (n, v) l.
Proof. exact (afind_In bytes_eqb bytes_eqb_eq n v l). Qed.
Lemma In_name_find n v l : NoDup (map fst l) -> In (n, v) l -> name_find n l = Some v.
Proof. exact (In_afind bytes_eqb bytes_eqb_eq n v l). Qed.
Lemma name_find_set n v l n' : name_find n' (name_set n v l) = if bytes_eqb n' n then Some v else name_find n' l.
Proof. exact (afind_aset bytes_eqb bytes_eqb_eq n v l n'). Qed.
Lemma NoDup_name_set n v l : NoDup (map fst l) -> NoDup (map fst (name_set n v l)).
Proof. exact (NoDup_aset bytes_eqb bytes_eqb_eq n v l). Qed.

Lemma vecs_find_In n v l : vecs_find n l = Some v -> In (n, v) l.
Proof. exact (afind_In list_bytes_eqb' lbe_eq n v l). Qed.
Lemma In_vecs_find n v l : NoDup (map fst l) -> In (n, v) l -> vecs_find n l = Some v.
Proof. exact (In_afind list_bytes_eqb' lbe_eq n v l). Qed.
Lemma vecs_find_set n v l n' : vecs_find n' (vecs_set n v l) = if list_bytes_eqb' n' n then Some v else vecs_find n' l.
Proof. exact (afind_aset list_bytes_eqb' lbe_eq n v l n'). Qed.
Lemma NoDup_vecs_set n v l : NoDup (map fst l) -> NoDup (map fst (vecs_set n v l)).
Proof. exact (NoDup_aset list_bytes_eqb' lbe_eq n v l). Qed.

Lemma child_find_In n v l : child_find n l = Some v -> In (n, v) l.
Proof. exact (afind_In list_bytes_eqb' lbe_eq n v l). Qed.
Lemma In_child_find n v l : NoDup (map fst l) -> In (n, v) l -> child_find n l = Some v.
Proof. exact (In_afind list_bytes_eqb' lbe_eq n v l). Qed.
Lemma child_find_set n v l n' : child_find n' (child_set n v l) = if list_bytes_eqb' n' n then Some v else child_find n' l.
Proof. exact (afind_aset list_bytes_eqb' lbe_eq n v l n'). Qed.
Lemma NoDup_child_set n v l : NoDup (map fst l) -> NoDup (map fst (child_set n v l)).
Proof. exact (NoDup_aset list_bytes_eqb' lbe_eq n v l). Qed.
Lemma child_find_del n l n' : NoDup (map fst l) ->
  child_find n' (child_del n l) = if list_bytes_eqb' n' n then None else child_find n' l.
Proof. exact (afind_adel list_bytes_eqb' lbe_eq n l n'). Qed.
Lemma NoDup_child_del n l : NoDup (map fst l) -> NoDup (map fst (child_del n l)).
Proof. exact (NoDup_adel list_bytes_eqb' n l). Qed.

Lemma rm_find_In n v l : rm_find n l = Some v -> In (n, v) l.
Proof. exact (afind_In key2_eqb key2_eq n v l). Qed.
Lemma In_rm_find n v l : NoDup (map fst l) -> In (n, v) l -> rm_find n l = Some v.
Proof. exact (In_afind key2_eqb key2_eq n v l). Qed.
Lemma rm_find_set n v l n' : rm_find n' (rm_set n v l) = if key2_eqb n' n then Some v else rm_find n' l.
Proof. exact (afind_aset key2_eqb key2_eq n v l n'). Qed.
Lemma NoDup_rm_set n v l : NoDup (map fst l) -> NoDup (map fst (rm_set n v l)).
Proof. exact (NoDup_aset key2_eqb key2_eq n v l). Qed.
Lemma rm_find_filter p k l : NoDup (map fst l) ->
  rm_find k (filter p l) = match rm_find k l with Some v => if p (k, v) then Some v else None | None => None end.
Proof. exact (afind_filter key2_eqb key2_eq p k l). Qed.
Lemma NoDup_rm_filter (p : (list bytes * list bytes) * rmetric -> bool) l :
  NoDup (map fst l) -> NoDup (map fst (filter p l)).
Proof. exact (NoDup_filter_keys p l). Qed.

(* ---------- the invariant ---------- *)
Definition val_type_ok (t : mtype) (c : mvalue) : Prop :=
  match t, c with
  | MCounter, VCounter _ _ | MGauge, VGauge _ | MHistogram, VHist _ _ _ _ | MSummary, VSumm _ _ _ => True
  | _, _ => False
  end.

Definition upd_ok (t : mtype) (upd : mvalue -> res mvalue) : Prop :=
  forall c, val_type_ok t c -> exists c', upd c = Ok c' /\ val_type_ok t c'.

Definition with_children (v : vec) (ch : list (list bytes * mvalue)) : vec :=
  {| vc_names := vc_names v; vc_help := vc_help v; vc_type := vc_type v; vc_bounds := vc_bounds v;
     vc_objs := vc_objs v; vc_max_age := vc_max_age v; vc_children := ch |}.

Lemma new_child_with_children v ch : new_child (with_children v ch) = new_child v.
Proof. reflexivity. Qed.

Lemma new_child_type v c : new_child v = Ok c -> val_type_ok (vc_type v) c.
Proof.
  unfold new_child. destruct (vc_type v).
  - intros H; inversion H; exact I.
  - intros H; inversion H; exact I.
  - destruct (existsb _ _); [discriminate|]. destruct (_ <? _)%Z; [discriminate|].
    intros H; inversion H; exact I.
  - destruct (existsb _ _); [discriminate|]. destruct (hist_bounds _); [|discriminate].
    cbn [bind]. intros H; inversion H; exact I.
Qed.

Section Inv.
Variable Q : bytes -> Prop.          (* what is known about every label name *)

Definition names_ok (t : mtype) (names : list bytes) : Prop :=
  NoDup names /\ (forall k, In k names -> Q k) /\
  (t = MSummary -> existsb (bytes_eqb s_quantile) names = false).

Definition children_ok (t : mtype) (n : nat) (ch : list (list bytes * mvalue)) : Prop :=
  NoDup (map fst ch) /\
  forall key c, child_find key ch = Some c ->
    length key = n /\ forallb valid_string key = true /\ val_type_ok t c.

Definition vec_ok (t : mtype) (help : bytes) (names : list bytes) (v : vec) : Prop :=
  vc_names v = names /\ vc_type v = t /\ vc_help v = help /\ names_ok t names /\
  new_child v <> Panic /\ children_ok t (length names) (vc_children v).

Definition has_child (vs : list (list bytes * vec)) (names values : list bytes) : Prop :=
  exists v c, vecs_find names vs = Some v /\ child_find values (vc_children v) = Some c.

Definition rm_ok (vs : list (list bytes * vec)) (key : list bytes * list bytes) (rm : rmetric) : Prop :=
  rm_veckey rm = fst key /\ lm_keys (rm_labels rm) = fst key /\ lm_vals (rm_labels rm) = snd key /\
  has_child vs (fst key) (snd key).

Definition pre_ok (t : mtype) (h : bytes) (vs : list (list bytes * vec))
           (ms : list ((list bytes * list bytes) * rmetric)) : Prop :=
  NoDup (map fst vs) /\
  (forall names v, vecs_find names vs = Some v -> vec_ok t h names v) /\
  NoDup (map fst ms) /\
  (forall key rm, rm_find key ms = Some rm -> rm_ok vs key rm).

Definition rn_ok (rn : rname) : Prop :=
  rn_help rn <> [] /\ pre_ok (rn_type rn) (rn_help rn) (rn_vecs rn) (rn_metrics rn).

Definition type_of (l : list (bytes * rname)) (n : bytes) : option mtype :=
  option_map rn_type (name_find n l).

Definition suffixes : list bytes := [s_bucket; s_count; s_sum].

Definition coll_free (ty : bytes -> option mtype) : Prop :=
  forall n suffix t, ty n = Some t -> In suffix suffixes ->
    (t = MHistogram \/ (t = MSummary /\ suffix <> s_bucket)) -> ty (n ++ suffix) = None.

Definition RegInv (rg : registry) : Prop :=
  NoDup (map fst (rg_names rg)) /\
  (forall name rn, name_find name (rg_names rg) = Some rn -> metric_name_valid name = true /\ rn_ok rn) /\
  coll_free (type_of (rg_names rg)).

Lemma RegInv_empty : RegInv empty_registry.
Proof.
  split; [constructor|]. split; [intros ? ? H; discriminate|].
  intros n suffix t H; discriminate.
Qed.

(* ---------- vectors ---------- *)
Lemma vec_ok_children t h names v ch :
  vec_ok t h names v -> children_ok t (length names) ch -> vec_ok t h names (with_children v ch).
Proof.
  intros (H1 & H2 & H3 & H4 & H5 & _) Hc.
  unfold vec_ok. rewrite new_child_with_children. cbn [with_children vc_names vc_type vc_help vc_children].
  exact (conj H1 (conj H2 (conj H3 (conj H4 (conj H5 Hc))))).
Qed.

Lemma children_ok_set t n ch key c :
  children_ok t n ch -> length key = n -> forallb valid_string key = true -> val_type_ok t c ->
  children_ok t n (child_set key c ch).
Proof.
  intros [Hnd Hall] Hl Hv Ht. split; [now apply NoDup_child_set|].
  intros key' c'. rewrite child_find_set. destruct (list_bytes_eqb' key' key) eqn:E.
  - apply lbe_eq in E. subst. intros H; inversion H; subst. auto.
  - apply Hall.
Qed.

Lemma children_ok_del t n ch key :
  children_ok t n ch -> children_ok t n (child_del key ch).
Proof.
  intros [Hnd Hall]. split; [now apply NoDup_child_del|].
  intros key' c'. rewrite child_find_del by exact Hnd.
  destruct (list_bytes_eqb' key' key); [discriminate | apply Hall].
Qed.

(* children only grow: every key of v is a key of v1 *)
Definition child_mono (v v1 : vec) : Prop :=
  forall k c, child_find k (vc_children v) = Some c -> exists c', child_find k (vc_children v1) = Some c'.

Lemma get_metric_with_ok t h names v labels :
  vec_ok t h names v -> length (lm_vals labels) = length names ->
  match get_metric_with v labels with
  | VPanic => False
  | VErr => True
  | VOk v1 => vec_ok t h names v1 /\ child_mono v v1 /\
              exists c, child_find (lm_vals labels) (vc_children v1) = Some c
  end.
Proof.
  intros Hv Hl. unfold get_metric_with.
  destruct (forallb valid_string (lm_vals labels)) eqn:Eval; cbn [negb]; [|exact I].
  destruct (child_find (lm_vals labels) (vc_children v)) as [c|] eqn:Ec.
  - split; [exact Hv|]. split; [intros k c' H; eauto | eauto].
  - pose proof Hv as (H1 & H2 & H3 & H4 & H5 & H6).
    destruct (new_child v) as [c|] eqn:Enc; [|congruence].
    change (vec_ok t h names (with_children v (child_set (lm_vals labels) c (vc_children v))) /\
            child_mono v (with_children v (child_set (lm_vals labels) c (vc_children v))) /\
            exists c0, child_find (lm_vals labels)
                         (vc_children (with_children v (child_set (lm_vals labels) c (vc_children v)))) = Some c0).
    cbn [with_children vc_children]. split; [|split].
    + apply vec_ok_children; [exact Hv|]. apply children_ok_set; try assumption.
      rewrite <- H2. now apply new_child_type.
    + intros k c' Hk. cbn [with_children vc_children]. rewrite child_find_set.
      destruct (list_bytes_eqb' k (lm_vals labels)); eauto.
    + rewrite child_find_set. assert (E : list_bytes_eqb' (lm_vals labels) (lm_vals labels) = true) by now apply lbe_eq.
      rewrite E. eauto.
Qed.

Lemma vec_update_ok t h names v values upd c :
  vec_ok t h names v -> child_find values (vc_children v) = Some c -> upd_ok t upd ->
  exists v', vec_update v values upd = Ok v' /\ vec_ok t h names v' /\ child_mono v v'.
Proof.
  intros Hv Hc Hu. unfold vec_update. rewrite Hc.
  pose proof Hv as (H1 & H2 & H3 & H4 & H5 & H6).
  destruct (proj2 H6 _ _ Hc) as (Hl & Hval & Hty).
  destruct (Hu c Hty) as (c' & Eu & Hty'). rewrite Eu. cbn [bind].
  exists (with_children v (child_set values c' (vc_children v))). split; [reflexivity|]. split.
  - apply vec_ok_children; [exact Hv|]. now apply children_ok_set.
  - intros k c0 Hk. cbn [with_children vc_children]. rewrite child_find_set.
    destruct (list_bytes_eqb' k values); eauto.
Qed.

Lemma vec_delete_ok t h names v labels :
  vec_ok t h names v -> vec_ok t h names (vec_delete v labels).
Proof.
  intros Hv. unfold vec_delete. destruct (list_bytes_eqb' _ _); [|exact Hv].
  change (vec_ok t h names (with_children v (child_del (lm_vals labels) (vc_children v)))).
  apply vec_ok_children; [exact Hv|]. apply children_ok_del. apply Hv.
Qed.

(* ---------- one name ---------- *)
Lemma has_child_set vs names v1 n' vals' :
  (forall v, vecs_find names vs = Some v -> child_mono v v1) ->
  (vecs_find names vs = None -> True) ->
  has_child vs n' vals' -> has_child (vecs_set names v1 vs) n' vals'.
Proof.
  intros Hmono _ (v & c & Hv & Hc). unfold has_child. rewrite vecs_find_set.
  destruct (list_bytes_eqb' n' names) eqn:E.
  - apply lbe_eq in E. subst n'. destruct (Hmono v Hv _ _ Hc) as [c' Hc']. eauto.
  - eauto.
Qed.

Lemma pre_ok_vecs_set t h vs ms names v1 :
  pre_ok t h vs ms -> vec_ok t h names v1 ->
  (forall v, vecs_find names vs = Some v -> child_mono v v1) ->
  pre_ok t h (vecs_set names v1 vs) ms.
Proof.
  intros (H1 & H2 & H3 & H4) Hv Hmono. split; [now apply NoDup_vecs_set|]. split; [|split; [exact H3|]].
  - intros names' v. rewrite vecs_find_set. destruct (list_bytes_eqb' names' names) eqn:E.
    + apply lbe_eq in E. subst. intros H; inversion H; subst. exact Hv.
    + apply H2.
  - intros key rm Hf. destruct (H4 key rm Hf) as (A & B & C & D).
    split; [exact A|]. split; [exact B|]. split; [exact C|].
    apply has_child_set; auto.
Qed.

Lemma pre_ok_rm_set t h vs ms key rm :
  pre_ok t h vs ms -> rm_ok vs key rm -> pre_ok t h vs (rm_set key rm ms).
Proof.
  intros (H1 & H2 & H3 & H4) Hrm. split; [exact H1|]. split; [exact H2|].
  split; [now apply NoDup_rm_set|].
  intros key' rm'. rewrite rm_find_set. destruct (key2_eqb key' key) eqn:E.
  - apply key2_eq in E. subst. intros H; inversion H; subst. exact Hrm.
  - apply H4.
Qed.

(* RemoveStaleMetrics on one name *)
Definition stale_at (now : Z) (e : (list bytes * list bytes) * rmetric) : bool :=
  negb (rm_ttl (snd e) =? 0)%Z && (rm_last (snd e) + rm_ttl (snd e) <? now)%Z.

Definition sweep_step (now : Z) (vs : list (list bytes * vec)) (e : (list bytes * list bytes) * rmetric) :=
  if stale_at now e then
    match vecs_find (rm_veckey (snd e)) vs with
    | Some v => vecs_set (rm_veckey (snd e)) (vec_delete v (rm_labels (snd e))) vs
    | None => vs
    end
  else vs.

Lemma sweep_name_eq now rn :
  sweep_name now rn =
  {| rn_type := rn_type rn; rn_help := rn_help rn;
     rn_vecs := fold_left (sweep_step now) (rn_metrics rn) (rn_vecs rn);
     rn_metrics := filter (fun e => negb (stale_at now e)) (rn_metrics rn) |}.
Proof. reflexivity. Qed.

Definition sweep_P (now : Z) t h ms (vs : list (list bytes * vec)) : Prop :=
  NoDup (map fst vs) /\
  (forall names v, vecs_find names vs = Some v -> vec_ok t h names v) /\
  (forall key rm, rm_find key ms = Some rm -> stale_at now (key, rm) = false ->
                  has_child vs (fst key) (snd key)).

Lemma sweep_step_P now t h ms vs e :
  NoDup (map fst ms) ->
  (forall key rm, rm_find key ms = Some rm ->
     rm_veckey rm = fst key /\ lm_keys (rm_labels rm) = fst key /\ lm_vals (rm_labels rm) = snd key) ->
  In e ms -> sweep_P now t h ms vs -> sweep_P now t h ms (sweep_step now vs e).
Proof.
  intros Hnd Hfields Hin (P1 & P2 & P3). unfold sweep_step.
  destruct (stale_at now e) eqn:Est; [|exact (conj P1 (conj P2 P3))].
  destruct e as [key rm]. cbn [snd].
  pose proof (In_rm_find _ _ _ Hnd Hin) as Hf.
  destruct (Hfields _ _ Hf) as (F1 & F2 & F3).
  destruct (vecs_find (rm_veckey rm) vs) as [v|] eqn:Ev; [|exact (conj P1 (conj P2 P3))].
  rewrite F1 in *.
  split; [now apply NoDup_vecs_set|]. split.
  - intros names v'. rewrite vecs_find_set. destruct (list_bytes_eqb' names (fst key)) eqn:E.
    + apply lbe_eq in E. subst. intros H; inversion H; subst. apply vec_delete_ok. now apply P2.
    + apply P2.
  - intros key' rm' Hf' Hns.
    destruct (P3 key' rm' Hf' Hns) as (v' & c' & Hv' & Hc').
    unfold has_child. rewrite vecs_find_set.
    destruct (list_bytes_eqb' (fst key') (fst key)) eqn:E; [|eauto].
    apply lbe_eq in E. rewrite E in Hv'. rewrite Ev in Hv'. inversion Hv'; subst v'.
    exists (vec_delete v (rm_labels rm)), c'. split; [reflexivity|].
    unfold vec_delete. destruct (list_bytes_eqb' (lm_keys (rm_labels rm)) (vc_names v)); [|exact Hc'].
    cbn [vc_children]. rewrite child_find_del by (apply (P2 _ _ Ev)).
    rewrite F3.
    destruct (list_bytes_eqb' (snd key') (snd key)) eqn:E2; [|exact Hc'].
    apply lbe_eq in E2. exfalso.
    assert (key' = key) by (destruct key, key'; cbn in *; congruence). subst key'.
    rewrite Hf in Hf'. inversion Hf'; subst rm'. congruence.
Qed.

Lemma sweep_fold_P now t h ms l : forall vs,
  NoDup (map fst ms) ->
  (forall key rm, rm_find key ms = Some rm ->
     rm_veckey rm = fst key /\ lm_keys (rm_labels rm) = fst key /\ lm_vals (rm_labels rm) = snd key) ->
  (forall e, In e l -> In e ms) -> sweep_P now t h ms vs ->
  sweep_P now t h ms (fold_left (sweep_step now) l vs).
Proof.
  induction l as [|e l IH]; intros vs Hnd Hf Hsub HP; [exact HP|].
  cbn [fold_left]. apply IH; try assumption.
  - intros e' He'. apply Hsub. now right.
  - apply sweep_step_P; try assumption. apply Hsub. now left.
Qed.

Lemma rn_ok_sweep now rn : rn_ok rn -> rn_ok (sweep_name now rn).
Proof.
  intros [Hh (H1 & H2 & H3 & H4)]. rewrite sweep_name_eq. split; [exact Hh|].
  cbn [rn_type rn_help rn_vecs rn_metrics].
  assert (HP : sweep_P now (rn_type rn) (rn_help rn) (rn_metrics rn)
                       (fold_left (sweep_step now) (rn_metrics rn) (rn_vecs rn))).
  { apply sweep_fold_P; try assumption.
    - intros key rm Hf. destruct (H4 key rm Hf) as (A & B & C & _). auto.
    - auto.
    - split; [exact H1|]. split; [exact H2|]. intros key rm Hf _. apply (H4 key rm Hf). }
  destruct HP as (P1 & P2 & P3).
  split; [exact P1|]. split; [exact P2|]. split; [now apply NoDup_rm_filter|].
  intros key rm. rewrite rm_find_filter by exact H3.
  destruct (rm_find key (rn_metrics rn)) as [rm0|] eqn:Ef; [|discriminate].
  destruct (negb (stale_at now (key, rm0))) eqn:Es; [|discriminate].
  intros H; inversion H; subst rm0. apply negb_true_iff in Es.
  destruct (H4 key rm Ef) as (A & B & C & _).
  split; [exact A|]. split; [exact B|]. split; [exact C|]. now apply (P3 key rm).
Qed.

(* ---------- the registry ---------- *)
Lemma type_of_set n rn l n' :
  type_of (name_set n rn l) n' = if bytes_eqb n' n then Some (rn_type rn) else type_of l n'.
Proof. unfold type_of. rewrite name_find_set. destruct (bytes_eqb n' n); reflexivity. Qed.

Lemma RegInv_update rg name rn rn' cr :
  RegInv rg -> name_find name (rg_names rg) = Some rn -> rn_type rn' = rn_type rn -> rn_ok rn' ->
  RegInv {| rg_names := name_set name rn' (rg_names rg); rg_created := cr |}.
Proof.
  intros (H1 & H2 & H3) Hf Ht Hok. cbn [RegInv rg_names]. unfold RegInv. cbn [rg_names].
  split; [now apply NoDup_name_set|]. split.
  - intros n r. rewrite name_find_set. destruct (bytes_eqb n name) eqn:E.
    + apply bytes_eqb_eq in E. subst. intros H; inversion H; subst. split; [|exact Hok].
      apply (H2 _ _ Hf).
    + apply H2.
  - assert (Hty : forall n, type_of (name_set name rn' (rg_names rg)) n = type_of (rg_names rg) n).
    { intros n. rewrite type_of_set. destruct (bytes_eqb n name) eqn:E; [|reflexivity].
      apply bytes_eqb_eq in E. subst. unfold type_of. rewrite Hf. cbn. now rewrite Ht. }
    intros n suffix t. rewrite !Hty. apply H3.
Qed.

Lemma suffix_nonempty suffix : In suffix suffixes -> suffix <> [].
Proof. intros [<-|[<-|[<-|[]]]]; discriminate. Qed.

Lemma app_neq_self (n suffix : bytes) : suffix <> [] -> n ++ suffix <> n.
Proof.
  intros Hs H. apply (f_equal (@length byte)) in H. rewrite app_length in H.
  destruct suffix; [congruence|]. cbn in H. lia.
Qed.

Lemma collision_base_hit rg name t suffix n rn :
  check_name_collision rg name t = false ->
  In suffix suffixes -> name = n ++ suffix -> name_find n (rg_names rg) = Some rn ->
  (rn_type rn = MHistogram \/ (rn_type rn = MSummary /\ suffix <> s_bucket)) -> False.
Proof.
  unfold check_name_collision. intros Hc Hs -> Hf Hcond.
  apply orb_false_iff in Hc as [Hc _]. apply orb_false_iff in Hc as [Hc Hsum].
  apply orb_false_iff in Hc as [Hbucket Hcount].
  assert (Hsuf : has_suffix suffix (n ++ suffix) = true) by (apply has_suffix_app; now exists n).
  destruct Hs as [<-|[<-|[<-|[]]]].
  - rewrite Hsuf, trim_suffix_app, Hf in Hbucket.
    destruct Hcond as [E|[E E']]; [rewrite E in Hbucket; discriminate | congruence].
  - rewrite Hsuf, trim_suffix_app, Hf in Hcount.
    destruct Hcond as [E|[E E']]; rewrite E in Hcount; discriminate.
  - rewrite Hsuf, trim_suffix_app, Hf in Hsum.
    destruct Hcond as [E|[E E']]; rewrite E in Hsum; discriminate.
Qed.

Lemma collision_new_base rg name t suffix :
  check_name_collision rg name t = false -> In suffix suffixes ->
  (t = MHistogram \/ (t = MSummary /\ suffix <> s_bucket)) ->
  name_find (name ++ suffix) (rg_names rg) = None.
Proof.
  unfold check_name_collision. intros Hc Hs Hcond.
  apply orb_false_iff in Hc as [_ Hc].
  assert (forall x : option rname, opt_some x = false -> x = None) as Hn
    by (intros [x|]; [discriminate | reflexivity]).
  destruct Hcond as [->|[-> Hne]].
  - apply orb_false_iff in Hc as [Hc H3]. apply orb_false_iff in Hc as [H1 H2].
    destruct Hs as [<-|[<-|[<-|[]]]]; auto.
  - apply orb_false_iff in Hc as [H2 H3].
    destruct Hs as [<-|[<-|[<-|[]]]]; auto. congruence.
Qed.

Lemma RegInv_add rg name rn' cr :
  RegInv rg -> name_find name (rg_names rg) = None ->
  check_name_collision rg name (rn_type rn') = false ->
  metric_name_valid name = true -> rn_ok rn' ->
  RegInv {| rg_names := name_set name rn' (rg_names rg); rg_created := cr |}.
Proof.
  intros (H1 & H2 & H3) Hf Hc Hn Hok. unfold RegInv. cbn [rg_names].
  split; [now apply NoDup_name_set|]. split.
  - intros n r. rewrite name_find_set. destruct (bytes_eqb n name) eqn:E.
    + apply bytes_eqb_eq in E. subst. intros H; inversion H; subst. auto.
    + apply H2.
  - intros n suffix t. rewrite !type_of_set. intros Hty Hs Hcond.
    destruct (bytes_eqb n name) eqn:E.
    + apply bytes_eqb_eq in E. subst n. inversion Hty; subst t.
      destruct (bytes_eqb (name ++ suffix) name) eqn:E2.
      * apply bytes_eqb_eq in E2. exfalso. revert E2. apply app_neq_self. now apply suffix_nonempty.
      * unfold type_of. now rewrite (collision_new_base _ _ _ _ Hc Hs Hcond).
    + destruct (bytes_eqb (n ++ suffix) name) eqn:E2.
      * apply bytes_eqb_eq in E2. exfalso.
        unfold type_of in Hty. destruct (name_find n (rg_names rg)) as [rn|] eqn:Efn; [|discriminate].
        cbn in Hty. inversion Hty; subst t.
        eapply collision_base_hit; eauto.
      * now apply (H3 n suffix t).
Qed.

Lemma name_find_map_sweep now l n :
  name_find n (map (fun kv => (fst kv, sweep_name now (snd kv))) l) = option_map (sweep_name now) (name_find n l).
Proof. exact (afind_map_val bytes_eqb (sweep_name now) n l). Qed.

Lemma RegInv_remove_stale rg now : RegInv rg -> RegInv (remove_stale rg now).
Proof.
  intros (H1 & H2 & H3). unfold RegInv, remove_stale. cbn [rg_names].
  split; [|split].
  - rewrite (keys_map_val (sweep_name now)). exact H1.
  - intros n r. rewrite name_find_map_sweep.
    destruct (name_find n (rg_names rg)) as [rn|] eqn:E; [|discriminate].
    cbn. intros H; inversion H; subst. destruct (H2 _ _ E) as [A B]. split; [exact A|].
    now apply rn_ok_sweep.
  - assert (Hty : forall n, type_of (map (fun kv => (fst kv, sweep_name now (snd kv))) (rg_names rg)) n
                            = type_of (rg_names rg) n).
    { intros n. unfold type_of. rewrite name_find_map_sweep.
      destruct (name_find n (rg_names rg)); reflexivity. }
    intros n suffix t. rewrite !Hty. apply H3.
Qed.

Lemma fresh_vec_ok t h names hb ob age :
  names_ok t names ->
  (t = MHistogram -> existsb (bytes_eqb s_le) names = false /\ hist_bounds hb <> Panic) ->
  (t = MSummary -> (age <? 0)%Z = false) ->
  vec_ok t h names
    {| vc_names := names; vc_help := h; vc_type := t;
       vc_bounds := match t with MHistogram => hb | _ => [] end;
       vc_objs := match t with MSummary => ob | _ => [] end;
       vc_max_age := match t with MSummary => age | _ => 0%Z end;
       vc_children := [] |}.
Proof.
  intros Hn Hh Hs. unfold vec_ok. cbn [vc_names vc_type vc_help vc_children].
  split; [reflexivity|]. split; [reflexivity|]. split; [reflexivity|]. split; [exact Hn|]. split.
  - unfold new_child. cbn [vc_names vc_type vc_bounds vc_objs vc_max_age]. destruct t.
    + discriminate.
    + discriminate.
    + destruct Hn as (_ & _ & Hq). rewrite (Hq eq_refl), (Hs eq_refl). discriminate.
    + destruct (Hh eq_refl) as [Hle Hb]. rewrite Hle. destruct (hist_bounds hb); [discriminate|congruence].
  - split; [constructor|]. intros key c H; discriminate.
Qed.

Lemma new_vec_panics_false t names : names_ok t names -> new_vec_panics t names = false.
Proof. intros (_ & _ & Hq). unfold new_vec_panics. destruct t; auto. Qed.

Lemma help_match (x h : bytes) : h <> [] -> match h with [] => x | b :: l => b :: l end = h.
Proof. destruct h; congruence. Qed.

Lemma get_series_inv rg d rule_ now t name labels help ttl :
  RegInv rg ->
  metric_name_valid name = true -> help <> [] ->
  names_ok t (lm_keys labels) ->
  (t = MHistogram -> existsb (bytes_eqb s_le) (lm_keys labels) = false /\
                     hist_bounds (hist_buckets_for d rule_) <> Panic) ->
  (t = MSummary -> (summ_max_age_for d rule_ <? 0)%Z = false) ->
  match get_series rg d rule_ now t name labels help ttl with
  | GPanic => False
  | GConflict rg' => RegInv rg'
  | GOk rg' n vk vals =>
    RegInv rg' /\ exists rn, name_find n (rg_names rg') = Some rn /\ rn_type rn = t /\
                             has_child (rn_vecs rn) vk vals
  end.
Proof.
  intros HI Hname Hhelp Hnames Hhist Hsumm.
  assert (Hlen : length (lm_vals labels) = length (lm_keys labels))
    by (unfold lm_vals, lm_keys; now rewrite !map_length).
  assert (Hkk : key2_eqb (lm_keys labels, lm_vals labels) (lm_keys labels, lm_vals labels) = true)
    by now apply key2_eq.
  assert (Hnn : bytes_eqb name name = true) by apply bytes_eqb_refl.
  assert (Hll : list_bytes_eqb' (lm_keys labels) (lm_keys labels) = true) by now apply lbe_eq.
  pose proof HI as (I1 & I2 & I3).
  unfold get_series.
  destruct (name_find name (rg_names rg)) as [rn|] eqn:Enf.
  - destruct (I2 _ _ Enf) as [_ [Hh (P1 & P2 & P3 & P4)]].
    destruct (mtype_eqb (rn_type rn) t) eqn:Et.
    + apply mtype_eqb_eq in Et.
      assert (Hmc : metric_conflicts rg name t = false).
      { unfold metric_conflicts. rewrite Enf. subst t. destruct (rn_type rn); reflexivity. }
      destruct (rm_find (lm_keys labels, lm_vals labels) (rn_metrics rn)) as [rm|] eqn:Erm.
      * (* hit *)
        destruct (P4 _ _ Erm) as (A & B & C & D). cbn [fst snd] in *.
        split.
        -- eapply RegInv_update; eauto. split; [exact Hh|]. cbn [rn_type rn_help rn_vecs rn_metrics].
           apply pre_ok_rm_set; [exact (conj P1 (conj P2 (conj P3 P4)))|].
           split; [exact A|]. split; [exact B|]. split; [exact C|]. exact D.
        -- eexists. cbn [rg_names]. rewrite name_find_set, Hnn. split; [reflexivity|].
           cbn [rn_type rn_vecs]. split; [exact Et|]. rewrite A. exact D.
      * rewrite Hmc.
        destruct (check_name_collision rg name t) eqn:Ecc; [exact HI|].
        destruct (vecs_find (lm_keys labels) (rn_vecs rn)) as [v|] eqn:Ev; cbv beta iota zeta.
        -- (* the vector exists *)
           cbn [andb].
           pose proof (get_metric_with_ok (rn_type rn) (rn_help rn) (lm_keys labels) v labels (P2 _ _ Ev) Hlen) as G.
           destruct (get_metric_with v labels) as [v1| |]; [|exact HI|exact G].
           destruct G as (G1 & G2 & c & G3).
           rewrite Enf.
           split.
           ++ eapply RegInv_update; eauto. split; cbn [rn_type rn_help rn_vecs rn_metrics];
                rewrite !(help_match _ _ Hh); [exact Hh|].
              apply pre_ok_rm_set.
              ** apply pre_ok_vecs_set; [exact (conj P1 (conj P2 (conj P3 P4)))|exact G1|].
                 intros v' Hv'. rewrite Ev in Hv'. inversion Hv'; subst v'. exact G2.
              ** split; [reflexivity|]. split; [reflexivity|]. split; [reflexivity|].
                 cbn [fst snd]. exists v1, c. rewrite vecs_find_set, Hll. auto.
           ++ eexists. cbn [rg_names]. rewrite name_find_set, Hnn. split; [reflexivity|].
              cbn [rn_type rn_vecs]. split; [exact Et|].
              exists v1, c. rewrite vecs_find_set, Hll. auto.
        -- (* a new vector under an existing name *)
           rewrite (new_vec_panics_false _ _ Hnames). cbn [andb].
           rewrite !(help_match _ _ Hh).
           match goal with |- context [get_metric_with ?v0 labels] =>
             assert (Hv0 : vec_ok (rn_type rn) (rn_help rn) (lm_keys labels) v0) end.
           { rewrite Et. apply fresh_vec_ok; assumption. }
           pose proof (get_metric_with_ok _ _ _ _ labels Hv0 Hlen) as G.
           match goal with |- context [get_metric_with ?v0 labels] => destruct (get_metric_with v0 labels) as [v1| |] end;
             [|exact HI|exact G].
           destruct G as (G1 & G2 & c & G3).
           cbn [rg_names rg_created]. rewrite Enf.
           split.
           ++ eapply RegInv_update; eauto. split; cbn [rn_type rn_help rn_vecs rn_metrics];
                rewrite !(help_match _ _ Hh); [exact Hh|].
              apply pre_ok_rm_set.
              ** apply pre_ok_vecs_set; [exact (conj P1 (conj P2 (conj P3 P4)))|exact G1|].
                 intros v' Hv'. rewrite Ev in Hv'. discriminate.
              ** split; [reflexivity|]. split; [reflexivity|]. split; [reflexivity|].
                 cbn [fst snd]. exists v1, c. rewrite vecs_find_set, Hll. auto.
           ++ eexists. cbn [rg_names]. rewrite name_find_set, Hnn. split; [reflexivity|].
              cbn [rn_type rn_vecs]. split; [exact Et|].
              exists v1, c. rewrite vecs_find_set, Hll. auto.
    + assert (Hmc : metric_conflicts rg name t = true).
      { unfold metric_conflicts. now rewrite Enf, Et. }
      rewrite Hmc. exact HI.
  - assert (Hmc : metric_conflicts rg name t = false).
    { unfold metric_conflicts. now rewrite Enf. }
    rewrite Hmc.
    destruct (check_name_collision rg name t) eqn:Ecc; [exact HI|].
    cbv beta iota zeta.
    rewrite (new_vec_panics_false _ _ Hnames). cbn [andb].
    match goal with |- context [get_metric_with ?v0 labels] =>
      assert (Hv0 : vec_ok t help (lm_keys labels) v0) end.
    { apply fresh_vec_ok; assumption. }
    pose proof (get_metric_with_ok _ _ _ _ labels Hv0 Hlen) as G.
    match goal with |- context [get_metric_with ?v0 labels] => destruct (get_metric_with v0 labels) as [v1| |] end;
      [|exact HI|exact G].
    destruct G as (G1 & G2 & c & G3).
    cbn [rg_names rg_created]. rewrite Enf. cbn [rn_type rn_help rn_vecs rn_metrics vecs_set rm_set].
    split.
    + apply RegInv_add; auto.
      split; cbn [rn_type rn_help rn_vecs rn_metrics]; [exact Hhelp|].
      split; [cbn; constructor; [intros []|constructor]|]. split; [|split].
      * intros names v. cbn [vecs_find]. destruct (list_bytes_eqb' names (lm_keys labels)) eqn:E; [|discriminate].
        apply lbe_eq in E. subst. intros H; inversion H; subst. exact G1.
      * cbn; constructor; [intros []|constructor].
      * intros key rm. cbn [rm_find]. destruct (key2_eqb key (lm_keys labels, lm_vals labels)) eqn:E; [|discriminate].
        apply key2_eq in E. subst. intros H; inversion H; subst.
        split; [reflexivity|]. split; [reflexivity|]. split; [reflexivity|].
        cbn [fst snd]. exists v1, c. cbn [vecs_find]. rewrite Hll. auto.
    + eexists. cbn [rg_names]. rewrite name_find_set, Hnn. split; [reflexivity|].
      cbn [rn_type rn_vecs]. split; [reflexivity|].
      exists v1, c. cbn [vecs_find]. rewrite Hll. auto.
Qed.

Lemma update_series_inv rg n vk vals upd rn :
  RegInv rg -> name_find n (rg_names rg) = Some rn -> has_child (rn_vecs rn) vk vals ->
  upd_ok (rn_type rn) upd ->
  exists rg', update_series rg n vk vals upd = Ok rg' /\ RegInv rg'.
Proof.
  intros HI Hf (v & c & Hv & Hc) Hu. unfold update_series. rewrite Hf, Hv.
  destruct HI as (I1 & I2 & I3).
  destruct (I2 _ _ Hf) as [_ [Hh (P1 & P2 & P3 & P4)]].
  destruct (vec_update_ok _ _ _ _ _ _ _ (P2 _ _ Hv) Hc Hu) as (v' & E & Hv' & Hmono).
  rewrite E. cbn [bind]. eexists. split; [reflexivity|].
  eapply RegInv_update; [exact (conj I1 (conj I2 I3))|exact Hf|reflexivity|].
  split; [exact Hh|]. cbn [rn_type rn_help rn_vecs rn_metrics].
  apply pre_ok_vecs_set; [exact (conj P1 (conj P2 (conj P3 P4)))|exact Hv'|].
  intros v0 Hv0. rewrite Hv in Hv0. inversion Hv0; subst. exact Hmono.
Qed.
End Inv.
