From SE Require Import Base.ListLemmas Spec.EscapeSpec.
From Coq Require Import ZifyN ZifyNat ZifyBool.
Local Open Scope N_scope.

(* ---------- decoding facts ---------- *)

Lemma decode_cons_width b t r w :
  decode (b :: t) = (r, w) -> (1 <= w <= length (b :: t))%nat.
Proof.
  unfold decode, is_cont, in_range. intros H.
  repeat match type of H with
  | (if ?c then _ else _) = _ => destruct c eqn:?
  | (match ?l with [] => _ | _ :: _ => _ end) = _ => destruct l
  end; inversion H; subst; simpl; lia.
Qed.

Ltac byte_bounds :=
  repeat match goal with
  | x : byte |- _ => lazymatch goal with
                     | _ : (bN x <= 255) |- _ => fail
                     | _ => pose proof (bN_bound x)
                     end
  end.

Ltac decode_cases H :=
  repeat match type of H with
  | (if ?c then _ else _) = _ => destruct c eqn:?
  | (match ?l with [] => _ | _ :: _ => _ end) = _ => destruct l
  end; byte_bounds.

Ltac split_ifs :=
  repeat match goal with
  | H : context [if ?c then _ else _] |- _ => destruct c eqn:?
  | |- context [if ?c then _ else _] => destruct c eqn:?
  end.

Lemma decode_ascii b t r w :
  decode (b :: t) = (r, w) -> r < 128 -> r = bN b /\ w = 1%nat.
Proof.
  unfold decode, is_cont, in_range, rune_error. intros H Hr.
  decode_cases H; inversion H; subst; clear H; try (split; reflexivity); split_ifs; lia.
Qed.

Lemma decode_rune_len b t r w :
  decode (b :: t) = (r, w) -> r <> rune_error -> rune_len r = Z.of_nat w.
Proof.
  unfold decode, is_cont, in_range, rune_error, rune_len. intros H Hr.
  decode_cases H; inversion H; subst; clear H; try congruence; split_ifs; lia.
Qed.

Lemma legal_lt_128 c : is_legal_rune c = true -> c < 128.
Proof. unfold is_legal_rune, is_digit_n. lia. Qed.

Lemma legal_not_dash c : is_legal_rune c = true -> (c =? dash_rune) = false.
Proof. unfold is_legal_rune, is_digit_n, dash_rune. lia. Qed.

Lemma byte_of_rune_bN b : byte_of_rune (bN b) = b.
Proof. unfold byte_of_rune, bN. now rewrite Byte.of_to_N. Qed.

(* ---------- range ---------- *)

Lemma range_aux_skip s i k :
  (k <= length s)%nat -> range_aux s i k = range_aux (skipn k s) (i + k) 0.
Proof.
  revert i k; induction s as [|b t IH]; intros i k Hk.
  - destruct k; simpl in *; [reflexivity | lia].
  - destruct k as [|k].
    + rewrite Nat.add_0_r. reflexivity.
    + simpl in Hk. cbn [range_aux skipn]. rewrite IH by lia. f_equal. lia.
Qed.

Lemma range_aux_cons b t i r w :
  decode (b :: t) = (r, w) ->
  range_aux (b :: t) i 0 = (i, r, w) :: range_aux (skipn w (b :: t)) (i + w) 0.
Proof.
  intros H. pose proof (decode_cons_width _ _ _ _ H) as Hw.
  cbn [range_aux]. rewrite H. f_equal.
  rewrite range_aux_skip by (simpl in *; lia).
  destruct w as [|w]; [lia|]. cbn [skipn]. rewrite Nat.sub_succ, Nat.sub_0_r.
  f_equal. lia.
Qed.

(* ---------- the loop invariant ---------- *)

Section Loop.
Variable s : bytes.

Definition cur (st : esc_state) (i : nat) : bytes := es_sb st ++ sub s (es_offset st) i.

Record Inv (st : esc_state) (i : nat) : Prop := {
  inv_le : (es_offset st <= i <= length s)%nat;
  inv_legal : forallb legal_byte (sub s (es_offset st) i) = true;
  inv_lazy : es_escaped st = false -> es_sb st = [] /\ es_offset st = 0%nat;
  inv_dash : es_prev st = dash_rune -> es_offset st = i /\ es_escaped st = true }.

Lemma loop_correct n : forall i st,
  (n = length s - i)%nat -> Inv st i ->
  exists st', esc_loop s st (range_aux (skipn i s) i 0) = Ok st' /\
              Inv st' (length s) /\
              cur st' (length s) =
                cur st i ++ spec_runes (map (fun irw => snd (fst irw)) (range_aux (skipn i s) i 0)) (es_prev st).
Proof.
  induction n as [n IHn] using lt_wf_ind. intros i st Hn HI.
  destruct (skipn i s) as [|b t] eqn:Esk.
  - (* end of string *)
    assert (i = length s).
    { destruct HI as [[_ Hle] _ _ _].
      assert (length (skipn i s) = length s - i)%nat by apply skipn_length.
      rewrite Esk in H. simpl in H. lia. }
    subst i. exists st. simpl. rewrite app_nil_r. auto.
  - destruct (decode (b :: t)) as [c w] eqn:Ed.
    pose proof (decode_cons_width _ _ _ _ Ed) as Hw.
    pose proof (skipn_cons_lt _ _ _ _ Esk) as Hlt.
    assert (Hlen : length (b :: t) = (length s - i)%nat).
    { rewrite <- Esk. apply skipn_length. }
    rewrite (range_aux_cons _ _ _ _ _ Ed).
    assert (Esk' : skipn w (b :: t) = skipn (i + w) s).
    { rewrite <- Esk. apply skipn_skipn'. }
    rewrite Esk'.
    cbn [esc_loop map fst snd spec_runes].
    destruct HI as [Hle Hleg Hlazy Hdash].
    unfold esc_step.
    destruct (is_legal_rune c) eqn:Elegal.
    + (* legal ASCII character *)
      destruct (decode_ascii _ _ _ _ Ed (legal_lt_128 _ Elegal)) as [-> ->].
      cbn [bind].
      set (st1 := {| es_sb := es_sb st; es_offset := es_offset st; es_prev := bN b;
                     es_escaped := es_escaped st |}).
      destruct (IHn (length s - (i + 1))%nat ltac:(lia) (i + 1)%nat st1 eq_refl) as (st' & HL & HI' & Hc).
      { constructor; cbn.
        - lia.
        - replace (i + 1)%nat with (S i) by lia.
          rewrite (sub_snoc _ _ _ _ _ (proj1 Hle) Esk), forallb_app, Hleg. cbn.
          unfold legal_byte. now rewrite Elegal.
        - exact Hlazy.
        - intros E. pose proof (legal_not_dash _ Elegal). unfold dash_rune in *. lia. }
      exists st'. split; [exact HL|]. split; [exact HI'|].
      rewrite Hc. unfold cur. cbn.
      replace (i + 1)%nat with (S i) by lia.
      rewrite (sub_snoc _ _ _ _ _ (proj1 Hle) Esk), byte_of_rune_bN, <- !app_assoc. reflexivity.
    + destruct ((c =? dash_rune) && (es_prev st =? dash_rune)) eqn:Edd.
      * (* second dash of a run *)
        assert (Ec : c = dash_rune) by lia. assert (Ep : es_prev st = dash_rune) by lia.
        subst c.
        destruct (decode_ascii _ _ _ _ Ed ltac:(unfold dash_rune; lia)) as [Eb ->].
        destruct (Hdash Ep) as [Eo Ees].
        cbn [bind].
        set (st1 := {| es_sb := es_sb st; es_offset := Z.to_nat (Z.of_nat i + rune_len dash_rune);
                       es_prev := es_prev st; es_escaped := es_escaped st |}).
        assert (Eo1 : es_offset st1 = (i + 1)%nat).
        { cbn. unfold rune_len, dash_rune. cbn. lia. }
        destruct (IHn (length s - (i + 1))%nat ltac:(lia) (i + 1)%nat st1 eq_refl) as (st' & HL & HI' & Hc).
        { constructor; rewrite ?Eo1.
          - lia.
          - now rewrite sub_nil.
          - cbn. intros E. congruence.
          - cbn. auto. }
        exists st'. split; [exact HL|]. split; [exact HI'|].
        rewrite Hc. unfold cur. rewrite Eo1, Eo, !sub_nil. reflexivity.
      * (* a character to replace *)
        unfold slice.
        replace ((es_offset st <=? i)%nat && (i <=? length s)%nat) with true by lia.
        cbn [bind].
        assert (Eadv : advance_width s i c = Z.of_nat w).
        { unfold advance_width. rewrite Esk.
          destruct (c =? rune_error) eqn:Ere.
          - rewrite Ed. reflexivity.
          - apply (decode_rune_len _ _ _ _ Ed). lia. }
        rewrite Eadv.
        replace (Z.to_nat (Z.of_nat i + Z.of_nat w)) with (i + w)%nat by lia.
        set (st1 := {| es_sb := es_sb st ++ firstn (i - es_offset st) (skipn (es_offset st) s) ++ [underscore];
                       es_offset := (i + w)%nat; es_prev := c; es_escaped := true |}).
        destruct (IHn (length s - (i + w))%nat ltac:(lia) (i + w)%nat st1 eq_refl) as (st' & HL & HI' & Hc).
        { constructor; cbn.
          - lia.
          - now rewrite sub_nil.
          - discriminate.
          - intros E. subst c.
            destruct (decode_ascii _ _ _ _ Ed ltac:(unfold dash_rune; lia)) as [_ ->]. auto. }
        exists st'. split; [exact HL|]. split; [exact HI'|].
        rewrite Hc. unfold cur. cbn. rewrite sub_nil, app_nil_r, <- !app_assoc. reflexivity.
Qed.
End Loop.

Theorem escape_total_correct_lemma : forall s, escape_metric_name s = Ok (escape_spec s).
Proof.
  intros [|b0 t]; [reflexivity|].
  unfold escape_metric_name, escape_spec.
  set (s := b0 :: t). unfold escape_body, escape_spec_body. cbv zeta.
  set (st0 := {| es_sb := if is_digit_n (bN b0) then [underscore] else []; es_offset := 0;
                 es_prev := 0; es_escaped := is_digit_n (bN b0) |}).
  destruct (loop_correct s (length s - 0)%nat 0%nat st0 eq_refl) as (st' & HL & HI & Hc).
  { constructor; unfold st0; cbn [es_offset es_sb es_escaped es_prev].
    - lia.
    - now rewrite sub_nil.
    - intros ->. auto.
    - unfold dash_rune. discriminate. }
  unfold range_runes, runes_of, range_runes. cbn [skipn] in HL, Hc. rewrite HL. cbn [bind].
  unfold cur in Hc. cbn [es_sb es_offset es_prev st0] in Hc. rewrite sub_nil, app_nil_r in Hc.
  destruct HI as [Hle _ Hlazy _].
  destruct (es_escaped st') eqn:Ees; cbn [negb].
  - rewrite sub_to_end in Hc by lia.
    destruct (es_offset st' <? length s)%nat eqn:Elt.
    + unfold slice_from. replace (es_offset st' <=? length s)%nat with true by lia.
      cbn [bind]. now rewrite Hc.
    + replace (es_offset st') with (length s) in Hc by lia.
      rewrite skipn_all, app_nil_r in Hc. now rewrite Hc.
  - destruct (Hlazy eq_refl) as [E1 E2]. rewrite E1, E2, sub_full in Hc. cbn [app] in Hc.
    f_equal. exact Hc.
Qed.
