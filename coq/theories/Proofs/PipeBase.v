(* Generic facts used by the pipeline proofs: association lists with a boolean key equality
   (the registry's four nested maps are instances), one float comparison fact, suffix facts. *)
From SE Require Import Spec.PipelineSpec.
From Coq Require Import ZArith.
From Flocq Require Import IEEE754.Binary IEEE754.Bits.

(* ---------- floats ---------- *)
Lemma f_ltb_not_leb x y : f_ltb x y = true -> f_leb y x = false.
Proof.
  unfold f_ltb, f_leb, f_cmp, b64_compare. rewrite (Bcompare_swap 53%Z 1024%Z y x).
  destruct (Bcompare 53 1024 y x) as [[| |]|]; try discriminate; reflexivity.
Qed.

(* ---------- association lists ---------- *)
Section Assoc.
Context {K V : Type}.
Variable eqb : K -> K -> bool.
Hypothesis eqb_spec : forall a b, eqb a b = true <-> a = b.

Fixpoint afind (k : K) (l : list (K * V)) : option V :=
  match l with
  | [] => None
  | (k', v) :: r => if eqb k k' then Some v else afind k r
  end.
Fixpoint aset (k : K) (v : V) (l : list (K * V)) : list (K * V) :=
  match l with
  | [] => [(k, v)]
  | (k', v') :: r => if eqb k k' then (k, v) :: r else (k', v') :: aset k v r
  end.
Fixpoint adel (k : K) (l : list (K * V)) : list (K * V) :=
  match l with
  | [] => []
  | (k', v') :: r => if eqb k k' then r else (k', v') :: adel k r
  end.

Lemma eqb_refl' a : eqb a a = true.
Proof. now apply eqb_spec. Qed.

Lemma eqb_false a b : eqb a b = false <-> a <> b.
Proof.
  split.
  - intros H E. apply eqb_spec in E. congruence.
  - intros H. destruct (eqb a b) eqn:E; [|reflexivity]. apply eqb_spec in E. contradiction.
Qed.

Lemma eqb_sym' a b : eqb a b = eqb b a.
Proof.
  destruct (eqb a b) eqn:E1, (eqb b a) eqn:E2; try reflexivity.
  - apply eqb_spec in E1. subst. now rewrite eqb_refl' in E2.
  - apply eqb_spec in E2. subst. now rewrite eqb_refl' in E1.
Qed.

Lemma afind_In k v l : afind k l = Some v -> In (k, v) l.
Proof.
  induction l as [|[k' v'] r IH]; cbn [afind]; [discriminate|].
  destruct (eqb k k') eqn:E.
  - apply eqb_spec in E. intros H; inversion H; subst. now left.
  - intros H. right. now apply IH.
Qed.

Lemma afind_None_notin k l : afind k l = None -> ~ In k (map fst l).
Proof.
  induction l as [|[k' v'] r IH]; cbn [afind map fst]; [intros _ []|].
  destruct (eqb k k') eqn:E; [discriminate|].
  intros H [H1|H1].
  - subst. now rewrite eqb_refl' in E.
  - now apply IH.
Qed.

Lemma notin_afind_None k l : ~ In k (map fst l) -> afind k l = None.
Proof.
  induction l as [|[k' v'] r IH]; cbn [afind map fst]; [reflexivity|].
  intros H. destruct (eqb k k') eqn:E.
  - apply eqb_spec in E. subst. exfalso. apply H. now left.
  - apply IH. intros H1. apply H. now right.
Qed.

Lemma In_afind k v l : NoDup (map fst l) -> In (k, v) l -> afind k l = Some v.
Proof.
  induction l as [|[k' v'] r IH]; cbn [afind map fst]; [intros _ []|].
  intros Hnd [H|H]; inversion Hnd as [|? ? Hnotin Hnd']; subst.
  - inversion H; subst. now rewrite eqb_refl'.
  - destruct (eqb k k') eqn:E.
    + apply eqb_spec in E. subst. exfalso. apply Hnotin.
      change k' with (fst (k', v)). now apply in_map.
    + now apply IH.
Qed.

Lemma afind_aset k v l k' : afind k' (aset k v l) = if eqb k' k then Some v else afind k' l.
Proof.
  induction l as [|[k0 v0] r IH]; cbn [afind aset].
  - reflexivity.
  - destruct (eqb k k0) eqn:E; cbn [afind].
    + apply eqb_spec in E. subst. destruct (eqb k' k0); reflexivity.
    + rewrite IH. destruct (eqb k' k0) eqn:E1; [|reflexivity].
      apply eqb_spec in E1. subst. rewrite eqb_sym', E. reflexivity.
Qed.

Lemma keys_aset k v l :
  map fst (aset k v l) = match afind k l with Some _ => map fst l | None => map fst l ++ [k] end.
Proof.
  induction l as [|[k0 v0] r IH]; cbn [afind aset map fst app]; [reflexivity|].
  destruct (eqb k k0) eqn:E; cbn [map fst].
  - apply eqb_spec in E. now subst.
  - rewrite IH. destruct (afind k r); reflexivity.
Qed.

Lemma NoDup_aset k v l : NoDup (map fst l) -> NoDup (map fst (aset k v l)).
Proof.
  intros H. rewrite keys_aset. destruct (afind k l) eqn:E; [exact H|].
  apply afind_None_notin in E.
  apply NoDup_rev in H. rewrite <- (rev_involutive (map fst l ++ [k])).
  apply NoDup_rev. rewrite rev_app_distr. cbn. constructor; [|exact H].
  now rewrite <- in_rev.
Qed.

Lemma In_adel x k l : In x (adel k l) -> In x l.
Proof.
  induction l as [|[k0 v0] r IH]; cbn [adel]; [intros []|].
  destruct (eqb k k0).
  - intros H. now right.
  - intros [H|H]; [now left | right; now apply IH].
Qed.

Lemma NoDup_adel k l : NoDup (map fst l) -> NoDup (map fst (adel k l)).
Proof.
  induction l as [|[k0 v0] r IH]; cbn [adel map fst]; [auto|].
  intros H. inversion H as [|? ? Hnotin Hnd]; subst.
  destruct (eqb k k0); [exact Hnd|].
  cbn [map fst]. constructor; [|now apply IH].
  intros Hin. apply Hnotin. apply in_map_iff in Hin as ([k1 v1] & E1 & Hin).
  cbn in E1. subst k1. apply In_adel in Hin. change k0 with (fst (k0, v1)). now apply in_map.
Qed.

Lemma afind_adel k l k' : NoDup (map fst l) ->
  afind k' (adel k l) = if eqb k' k then None else afind k' l.
Proof.
  induction l as [|[k0 v0] r IH]; cbn [adel afind map fst]; intros Hnd.
  - destruct (eqb k' k); reflexivity.
  - inversion Hnd as [|? ? Hnotin Hnd']; subst.
    destruct (eqb k k0) eqn:E.
    + apply eqb_spec in E. subst k0.
      destruct (eqb k' k) eqn:E1; [|reflexivity].
      apply eqb_spec in E1. subst k'. now apply notin_afind_None.
    + cbn [afind]. rewrite IH by exact Hnd'.
      destruct (eqb k' k0) eqn:E1; [|reflexivity].
      apply eqb_spec in E1. subst k0. rewrite eqb_sym', E. reflexivity.
Qed.

Lemma NoDup_filter_keys (p : K * V -> bool) l : NoDup (map fst l) -> NoDup (map fst (filter p l)).
Proof.
  induction l as [|[k0 v0] r IH]; cbn [filter map fst]; [auto|].
  intros H. inversion H as [|? ? Hnotin Hnd]; subst.
  destruct (p (k0, v0)); [|now apply IH].
  cbn [map fst]. constructor; [|now apply IH].
  intros Hin. apply Hnotin. apply in_map_iff in Hin as ([k1 v1] & E1 & Hin).
  cbn in E1. subst k1. apply filter_In in Hin as [Hin _].
  change k0 with (fst (k0, v1)). now apply in_map.
Qed.

Lemma afind_filter (p : K * V -> bool) k l : NoDup (map fst l) ->
  afind k (filter p l) = match afind k l with
                         | Some v => if p (k, v) then Some v else None
                         | None => None end.
Proof.
  induction l as [|[k0 v0] r IH]; cbn [filter afind map fst]; intros Hnd; [reflexivity|].
  inversion Hnd as [|? ? Hnotin Hnd']; subst.
  destruct (eqb k k0) eqn:E.
  - apply eqb_spec in E. subst k0.
    destruct (p (k, v0)); cbn [afind].
    + now rewrite eqb_refl'.
    + apply notin_afind_None. intros Hin. apply Hnotin.
      apply in_map_iff in Hin as ([k1 v1] & E1 & Hin). cbn in E1. subst k1.
      apply filter_In in Hin as [Hin _]. change k with (fst (k, v1)). now apply in_map.
  - destruct (p (k0, v0)); cbn [afind]; rewrite ?E; now apply IH.
Qed.

Lemma afind_map_val (f : V -> V) k l :
  afind k (map (fun kv => (fst kv, f (snd kv))) l) = option_map f (afind k l).
Proof.
  induction l as [|[k0 v0] r IH]; cbn [map afind fst snd]; [reflexivity|].
  destruct (eqb k k0); [reflexivity | exact IH].
Qed.

Lemma keys_map_val (f : V -> V) (l : list (K * V)) :
  map fst (map (fun kv => (fst kv, f (snd kv))) l) = map fst l.
Proof. rewrite map_map. reflexivity. Qed.
End Assoc.

(* ---------- the key equalities ---------- *)
Lemma lbe_eq a : forall b, list_bytes_eqb' a b = true <-> a = b.
Proof.
  induction a as [|x a IH]; intros [|y b]; cbn [list_bytes_eqb']; split; intros H;
    try reflexivity; try discriminate.
  - apply andb_true_iff in H as [H1 H2]. apply bytes_eqb_eq in H1. apply IH in H2. congruence.
  - inversion H; subst. rewrite bytes_eqb_refl. cbn. now apply IH.
Qed.

Lemma key2_eq a b : key2_eqb a b = true <-> a = b.
Proof.
  unfold key2_eqb. destruct a as [a1 a2], b as [b1 b2]. cbn [fst snd]. split; intros H.
  - apply andb_true_iff in H as [H1 H2]. apply lbe_eq in H1, H2. congruence.
  - inversion H; subst. apply andb_true_iff. split; now apply lbe_eq.
Qed.

Lemma mtype_eqb_eq a b : mtype_eqb a b = true <-> a = b.
Proof. destruct a, b; cbn; split; intros H; try reflexivity; try discriminate. Qed.

(* ---------- suffixes ---------- *)
Lemma has_prefix_app p s : has_prefix p s = true <-> exists t, s = p ++ t.
Proof.
  revert s; induction p as [|a p IH]; intros s; cbn [has_prefix].
  - split; [intros _; now exists s | reflexivity].
  - destruct s as [|b s].
    + split; [discriminate | intros [t H]; discriminate].
    + split.
      * intros H. apply andb_true_iff in H as [H1 H2]. apply beq_eq in H1. subst b.
        apply IH in H2 as [t ->]. now exists t.
      * intros [t H]. inversion H; subst. rewrite beq_refl. cbn. apply IH. now exists t.
Qed.

Lemma has_suffix_app p s : has_suffix p s = true <-> exists t, s = t ++ p.
Proof.
  unfold has_suffix. rewrite has_prefix_app. split; intros [t H].
  - exists (rev t). rewrite <- (rev_involutive s), H, rev_app_distr, rev_involutive. reflexivity.
  - exists (rev t). now rewrite H, rev_app_distr.
Qed.

Lemma trim_suffix_app t p : trim_suffix p (t ++ p) = t.
Proof.
  unfold trim_suffix.
  assert (H : has_suffix p (t ++ p) = true) by (apply has_suffix_app; now exists t).
  rewrite H, app_length, Nat.add_sub. rewrite firstn_app, Nat.sub_diag, firstn_all. cbn.
  now rewrite app_nil_r.
Qed.
