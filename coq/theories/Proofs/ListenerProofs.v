From SE Require Import Spec.ListenerSpec.
From SE Require Import Proofs.MultiStringLemmas.

(* C18 proofs: TCP framing (tcp_scan) against stream_lines, datagram framing, the packet queue. *)

Lemma tcp_buf_pos : 0 < tcp_buf.
Proof. unfold tcp_buf. apply Nat.lt_0_succ. Qed.

Opaque tcp_buf.

(* ---------- small facts ---------- *)

Lemma cr_neq_lf : beq c_cr c_lf = false.
Proof. reflexivity. Qed.

Lemma free1_cons_inv c b s :
  free_of [c] (b :: s) = true -> beq b c = false /\ free_of [c] s = true.
Proof.
  rewrite free_of1_cons. intros H. apply andb_true_iff in H as [Hb Hs].
  split; [|exact Hs]. now destruct (beq b c).
Qed.

Lemma split_byte_nonnil c s : split_byte c s <> [].
Proof.
  destruct s as [|b s]; cbn [split_byte]; [discriminate|].
  destruct (beq b c); [discriminate|]. destruct (split_byte c s); discriminate.
Qed.

Lemma free_last c x : free_of [c] x = true -> last x c = c -> x = [].
Proof.
  induction x as [|b x IH]; intros Hf Hl; [reflexivity|].
  apply free1_cons_inv in Hf as [Hb Hx]. exfalso.
  destruct x as [|b0 x].
  - cbn in Hl. subst b. rewrite beq_refl in Hb. discriminate.
  - change (last (b :: b0 :: x) c) with (last (b0 :: x) c) in Hl.
    specialize (IH Hx Hl). discriminate.
Qed.

Lemma last_app_ne {A} (x y : list A) d : y <> [] -> last (x ++ y) d = last y d.
Proof.
  intros Hy. induction x as [|a x IH]; [reflexivity|].
  cbn [app]. destruct (x ++ y) eqn:E.
  - apply app_eq_nil in E as [_ E]. contradiction.
  - rewrite <- IH. reflexivity.
Qed.

(* induction over the newline structure of a byte string *)
Lemma lf_ind (P : bytes -> Prop) :
  (forall x, free_of [c_lf] x = true -> P x) ->
  (forall x y, free_of [c_lf] x = true -> P y -> P (x ++ c_lf :: y)) ->
  forall p, P p.
Proof.
  intros Hfree Hcons p.
  remember (length p) as n eqn:Hn. revert p Hn.
  induction n as [n IH] using lt_wf_ind. intros p Hn.
  destruct (free_of [c_lf] p) eqn:E.
  - now apply Hfree.
  - destruct (free_of_split _ _ E) as (x & y & -> & Hx).
    apply Hcons; [exact Hx|].
    apply (IH (length y)); [|reflexivity].
    subst n. rewrite app_length. cbn [length]. lia.
Qed.

(* ---------- strip_cr / drop_cr ---------- *)

Lemma strip_cr_rev x : strip_cr (rev x) = drop_cr x.
Proof.
  unfold strip_cr, drop_cr. destruct (rev x) as [|b r] eqn:E.
  - rewrite <- (rev_involutive x), E. reflexivity.
  - destruct (beq b c_cr); [reflexivity|]. rewrite <- E. apply rev_involutive.
Qed.

Lemma drop_cr_free x : free_of [c_cr] x = true -> drop_cr x = x.
Proof.
  intros H. unfold drop_cr. destruct (rev x) as [|b r] eqn:E; [reflexivity|].
  destruct (beq b c_cr) eqn:Eb; [|reflexivity]. exfalso.
  rewrite <- (rev_involutive x), E in H. cbn [rev] in H.
  rewrite free_of_app, free_of1_cons, Eb in H. cbn in H.
  rewrite andb_false_r in H. discriminate.
Qed.

Lemma drop_cr_snoc l : drop_cr (l ++ [c_cr]) = l.
Proof.
  unfold drop_cr. rewrite rev_app_distr. cbn [rev app].
  rewrite beq_refl. apply rev_involutive.
Qed.

(* ---------- stream_lines / all_short over the newline structure ---------- *)

Lemma stream_lines_free x :
  free_of [c_lf] x = true -> stream_lines x = match x with [] => [] | _ => [x] end.
Proof.
  intros H. unfold stream_lines. rewrite split_byte_free by exact H.
  destruct x; reflexivity.
Qed.

Lemma stream_lines_cons x y :
  free_of [c_lf] x = true -> stream_lines (x ++ c_lf :: y) = drop_cr x :: stream_lines y.
Proof.
  intros H. unfold stream_lines. rewrite split_byte_app by exact H.
  destruct (split_byte c_lf y) as [|z r] eqn:E; [now apply split_byte_nonnil in E|].
  change (removelast (x :: z :: r)) with (x :: removelast (z :: r)).
  change (last (x :: z :: r) []) with (last (z :: r) []).
  reflexivity.
Qed.

Lemma all_short_free x :
  free_of [c_lf] x = true -> all_short x = true -> length x < tcp_buf.
Proof.
  intros H. unfold all_short. rewrite split_byte_free by exact H.
  cbn [forallb]. rewrite andb_true_r. apply Nat.ltb_lt.
Qed.

Lemma all_short_cons x y :
  free_of [c_lf] x = true -> all_short (x ++ c_lf :: y) = true ->
  length x < tcp_buf /\ all_short y = true.
Proof.
  intros H. unfold all_short. rewrite split_byte_app by exact H.
  cbn [forallb]. intros E. apply andb_true_iff in E as [E1 E2].
  split; [now apply Nat.ltb_lt | exact E2].
Qed.

(* ---------- the scan over a newline-free segment ---------- *)

Lemma scan_free a : forall cur n,
  free_of [c_lf] a = true -> n + length a < tcp_buf ->
  (forall t, tcp_scan (a ++ c_lf :: t) cur n =
             (strip_cr (rev a ++ cur) :: fst (tcp_scan t [] 0), snd (tcp_scan t [] 0))) /\
  tcp_scan a cur n = (match rev a ++ cur with [] => [] | _ => [rev (rev a ++ cur)] end, false).
Proof.
  induction a as [|b a IH]; intros cur n Hf Hn.
  - split; [|reflexivity]. intros t. cbn [app tcp_scan rev]. rewrite beq_refl.
    destruct (tcp_scan t [] 0). reflexivity.
  - apply free1_cons_inv in Hf as [Hb Ha]. cbn [length] in Hn.
    assert (Hle : (tcp_buf <=? S n) = false) by (apply Nat.leb_gt; lia).
    destruct (IH (b :: cur) (S n) Ha ltac:(lia)) as [IH1 IH2].
    assert (Hr : rev (b :: a) ++ cur = rev a ++ b :: cur).
    { cbn [rev]. rewrite <- app_assoc. reflexivity. }
    rewrite Hr. split.
    + intros t. cbn [app tcp_scan]. rewrite Hb, Hle. apply IH1.
    + cbn [tcp_scan]. rewrite Hb, Hle. apply IH2.
Qed.

Lemma scan_line x t :
  free_of [c_lf] x = true -> length x < tcp_buf ->
  tcp_scan (x ++ c_lf :: t) [] 0 = (drop_cr x :: fst (tcp_scan t [] 0), snd (tcp_scan t [] 0)).
Proof.
  intros Hf Hn. destruct (scan_free x [] 0 Hf ltac:(lia)) as [H _].
  rewrite H, app_nil_r, strip_cr_rev. reflexivity.
Qed.

Lemma scan_tail x :
  free_of [c_lf] x = true -> length x < tcp_buf ->
  tcp_scan x [] 0 = (match x with [] => [] | _ => [x] end, false).
Proof.
  intros Hf Hn. destruct (scan_free x [] 0 Hf ltac:(lia)) as [_ H].
  rewrite H, app_nil_r, rev_involutive. destruct x as [|b x]; [reflexivity|].
  cbn [rev]. destruct (rev x ++ [b]) eqn:E; [|reflexivity].
  apply app_eq_nil in E as [_ E]. discriminate.
Qed.

Lemma scan_long a : forall cur n rest,
  free_of [c_lf] a = true -> n < tcp_buf -> tcp_buf <= n + length a ->
  tcp_scan (a ++ rest) cur n = ([], true).
Proof.
  induction a as [|b a IH]; intros cur n rest Hf Hn Hlen.
  - cbn [length] in Hlen. lia.
  - apply free1_cons_inv in Hf as [Hb Ha]. cbn [length] in Hlen.
    cbn [app tcp_scan]. rewrite Hb.
    destruct (Nat.leb_spec tcp_buf (S n)) as [H|H]; [reflexivity|].
    apply IH; [exact Ha | lia | lia].
Qed.

(* ---------- TCP framing ---------- *)

Lemma tcp_framing_ok : stmt_tcp_framing.
Proof.
  unfold stmt_tcp_framing, tcp_lines. intros p.
  induction p as [x Hx | x y Hx IH] using lf_ind; intros Hs.
  - rewrite scan_tail by (auto using all_short_free).
    now rewrite stream_lines_free.
  - apply all_short_cons in Hs as [Hlen Hy]; [|exact Hx].
    rewrite scan_line by assumption. rewrite (IH Hy). cbn [fst snd].
    now rewrite stream_lines_cons.
Qed.

Lemma scan_pre pre : forall t,
  all_short pre = true -> (pre = [] \/ last pre c_lf = c_lf) ->
  tcp_scan (pre ++ t) [] 0 =
  (stream_lines pre ++ fst (tcp_scan t [] 0), snd (tcp_scan t [] 0)).
Proof.
  induction pre as [x Hx | x y Hx IH] using lf_ind; intros t Hs Hl.
  - assert (x = []) as ->.
    { destruct Hl as [Hl|Hl]; [exact Hl|]. now apply (free_last c_lf). }
    cbn [app]. destruct (tcp_scan t [] 0). reflexivity.
  - apply all_short_cons in Hs as [Hlen Hy]; [|exact Hx].
    rewrite <- app_assoc. cbn [app]. rewrite scan_line by assumption.
    rewrite IH; [| exact Hy |].
    + cbn [fst snd]. now rewrite stream_lines_cons.
    + destruct y as [|b y]; [left; reflexivity|right].
      destruct Hl as [Hl|Hl]; [now apply app_eq_nil in Hl as [_ Hl]|].
      change (x ++ c_lf :: b :: y) with (x ++ [c_lf] ++ b :: y) in Hl.
      rewrite app_assoc, last_app_ne in Hl by discriminate. exact Hl.
Qed.

Lemma tcp_too_long_ok : stmt_tcp_too_long.
Proof.
  unfold stmt_tcp_too_long, tcp_lines. intros pre long rest Hs Hl Hf Hlen.
  rewrite scan_pre by assumption.
  rewrite scan_long; [| exact Hf | exact tcp_buf_pos | lia].
  cbn [fst snd]. now rewrite app_nil_r.
Qed.

(* ---------- agreement with datagram framing ---------- *)

Lemma nonempty_stream p :
  free_of [c_cr] p = true ->
  nonempty_lines (stream_lines p) = nonempty_lines (split_byte c_lf p).
Proof.
  induction p as [x Hx | x y Hx IH] using lf_ind; intros Hc.
  - rewrite stream_lines_free, split_byte_free by exact Hx.
    destruct x; reflexivity.
  - rewrite free_of_app in Hc. apply andb_true_iff in Hc as [Hcx Hcy].
    apply free1_cons_inv in Hcy as [_ Hcy].
    rewrite stream_lines_cons, split_byte_app by exact Hx.
    rewrite drop_cr_free by exact Hcx.
    unfold nonempty_lines in *. cbn [filter]. now rewrite IH.
Qed.

Lemma framing_agree_ok : stmt_framing_agree.
Proof.
  unfold stmt_framing_agree. intros p Hs Hc.
  rewrite tcp_framing_ok by exact Hs. cbn [fst]. unfold packet_lines.
  now apply nonempty_stream.
Qed.

Lemma empty_line_inert_ok : stmt_empty_line_inert.
Proof. unfold stmt_empty_line_inert. intros pf f. reflexivity. Qed.

Lemma crlf_agree_ok : stmt_crlf_agree.
Proof.
  unfold stmt_crlf_agree, tcp_lines. intros ls.
  induction ls as [|l ls IH]; intros H; [reflexivity|].
  cbn [forallb] in H. apply andb_true_iff in H as [Hl Hls].
  apply andb_true_iff in Hl as [Hf Hlen]. apply Nat.ltb_lt in Hlen.
  rewrite free_of_bad_cons in Hf. apply andb_true_iff in Hf as [Hlf _].
  cbn [map concat].
  change (l ++ [c_cr; c_lf]) with (l ++ [c_cr] ++ [c_lf]).
  rewrite (app_assoc l [c_cr] [c_lf]), <- app_assoc. cbn [app].
  rewrite scan_line.
  - cbn [fst]. rewrite drop_cr_snoc. f_equal. now apply IH.
  - rewrite free_of_app, Hlf, free_of1_cons, cr_neq_lf. reflexivity.
  - rewrite app_length. cbn [length]. exact Hlen.
Qed.

Lemma packet_lines_join_ok : stmt_packet_lines_join.
Proof.
  unfold stmt_packet_lines_join, packet_lines. intros ls Hne H.
  now apply split_byte_join.
Qed.

(* ---------- the packet queue ---------- *)

Lemma pq_step_cases q o :
  pq_cap (pq_step q o) = pq_cap q /\
  ((exists d, o = PRecv d /\ length (pq_queue q) < pq_cap q /\
      pq_queue (pq_step q o) = pq_queue q ++ [d] /\
      pq_processed (pq_step q o) = pq_processed q /\
      pq_packets (pq_step q o) = S (pq_packets q) /\
      pq_drops (pq_step q o) = pq_drops q) \/
   (exists d, o = PRecv d /\ pq_cap q <= length (pq_queue q) /\
      pq_queue (pq_step q o) = pq_queue q /\
      pq_processed (pq_step q o) = pq_processed q /\
      pq_packets (pq_step q o) = S (pq_packets q) /\
      pq_drops (pq_step q o) = S (pq_drops q)) \/
   (o = PProcess /\ pq_queue q = [] /\ pq_step q o = q) \/
   (exists d r, o = PProcess /\ pq_queue q = d :: r /\
      pq_queue (pq_step q o) = r /\
      pq_processed (pq_step q o) = pq_processed q ++ [d] /\
      pq_packets (pq_step q o) = pq_packets q /\
      pq_drops (pq_step q o) = pq_drops q)).
Proof.
  destruct o as [d|]; cbn [pq_step].
  - unfold pq_recv. destruct (Nat.ltb_spec (length (pq_queue q)) (pq_cap q)) as [H|H].
    + split; [reflexivity|]. left. exists d. repeat split; assumption.
    + split; [reflexivity|]. right; left. exists d. repeat split; assumption.
  - unfold pq_process. destruct (pq_queue q) as [|d r] eqn:E.
    + split; [reflexivity|]. right; right; left. repeat split.
    + split; [reflexivity|]. right; right; right. exists d, r. repeat split.
Qed.

Lemma pq_run_inv ops : forall q,
  pq_cap (pq_run q ops) = pq_cap q /\
  pq_packets (pq_run q ops) = pq_packets q + length (received ops) /\
  (pq_packets q = length (pq_processed q) + length (pq_queue q) + pq_drops q ->
   pq_packets (pq_run q ops) =
   length (pq_processed (pq_run q ops)) + length (pq_queue (pq_run q ops)) + pq_drops (pq_run q ops)) /\
  (length (pq_queue q) <= pq_cap q -> length (pq_queue (pq_run q ops)) <= pq_cap q) /\
  exists kept, subseq kept (received ops) /\
    pq_processed (pq_run q ops) ++ pq_queue (pq_run q ops) = pq_processed q ++ pq_queue q ++ kept.
Proof.
  induction ops as [|o ops IH]; intros q.
  - cbn [pq_run fold_left received length]. repeat split; try lia.
    exists []. split; [constructor|]. now rewrite app_nil_r.
  - change (pq_run q (o :: ops)) with (pq_run (pq_step q o) ops).
    destruct (IH (pq_step q o)) as (Hc & Hp & Ha & Hb & kept & Hs & Hk).
    destruct (pq_step_cases q o) as [Hcap Hcases].
    set (q1 := pq_step q o) in *. set (q' := pq_run q1 ops) in *.
    rewrite Hcap in *.
    destruct Hcases as [(d & -> & Hroom & Eq & Epr & Epk & Edr)
                       |[(d & -> & Hfull & Eq & Epr & Epk & Edr)
                       |[(-> & Eq & Eq1)
                       |(d & r & -> & Eq0 & Eq & Epr & Epk & Edr)]]];
      cbn [received length].
    + rewrite Eq, Epr, Epk, Edr in *. rewrite app_length in *. cbn [length] in *.
      repeat split; try lia.
      exists (d :: kept). split; [now constructor|].
      rewrite Hk, <- app_assoc. reflexivity.
    + rewrite Eq, Epr, Epk, Edr in *.
      repeat split; try lia.
      exists kept. split; [now constructor|]. exact Hk.
    + rewrite Eq1 in *.
      repeat split; try lia; try assumption.
      exists kept. split; assumption.
    + rewrite Eq, Epr, Epk, Edr in *. rewrite Eq0. rewrite app_length in *. cbn [length] in *.
      repeat split; try lia.
      exists kept. split; [assumption|].
      rewrite Hk, <- app_assoc. reflexivity.
Qed.

Lemma pq_accounting_ok : stmt_pq_accounting.
Proof.
  unfold stmt_pq_accounting. intros cap ops. cbv zeta.
  destruct (pq_run_inv ops (pq_new cap)) as (Hc & Hp & Ha & Hb & kept & Hs & Hk).
  cbn [pq_new pq_cap pq_packets pq_queue pq_processed pq_drops length app] in *.
  repeat split.
  - exact Hp.
  - apply Ha. reflexivity.
  - apply Hb. lia.
  - rewrite Hk. exact Hs.
Qed.

Lemma pq_no_spurious_drop_ok : stmt_pq_no_spurious_drop.
Proof.
  unfold stmt_pq_no_spurious_drop. intros q d H. unfold pq_recv.
  destruct (Nat.ltb_spec (length (pq_queue q)) (pq_cap q)) as [H1|H1]; [|lia].
  split; reflexivity.
Qed.

Print Assumptions tcp_framing_ok.
Print Assumptions tcp_too_long_ok.
Print Assumptions framing_agree_ok.
Print Assumptions empty_line_inert_ok.
Print Assumptions crlf_agree_ok.
Print Assumptions packet_lines_join_ok.
Print Assumptions pq_accounting_ok.
Print Assumptions pq_no_spurious_drop_ok.
