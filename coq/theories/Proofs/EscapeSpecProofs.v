From SE Require Import Base.ListLemmas Spec.EscapeSpec Proofs.EscapeProofs.
From Coq Require Import ZifyN ZifyNat ZifyBool.
Local Open Scope N_scope.

Definition rune_of_irw (irw : nat * rune * nat) : rune := snd (fst irw).

Lemma underscore_legal : legal_byte underscore = true.
Proof. reflexivity. Qed.

Lemma legal_rune_byte c : is_legal_rune c = true -> legal_byte (byte_of_rune c) = true.
Proof.
  intros H. pose proof (legal_lt_128 _ H) as Hlt.
  unfold legal_byte, byte_of_rune.
  destruct (Byte.of_N c) as [b|] eqn:E.
  - apply Byte.to_of_N in E. unfold bN. now rewrite E.
  - apply Byte.of_N_None_iff in E. lia.
Qed.

Lemma spec_runes_legal rs prev : forallb legal_byte (spec_runes rs prev) = true.
Proof.
  revert prev; induction rs as [|c rs IH]; intros prev; cbn [spec_runes]; [reflexivity|].
  destruct (is_legal_rune c) eqn:E.
  - cbn [forallb]. now rewrite legal_rune_byte, IH.
  - destruct ((c =? dash_rune) && (prev =? dash_rune)); [apply IH|].
    cbn [forallb]. now rewrite underscore_legal, IH.
Qed.

Lemma runes_of_cons b t c w :
  decode (b :: t) = (c, w) ->
  runes_of (b :: t) = c :: map rune_of_irw (range_aux (skipn w (b :: t)) w 0).
Proof.
  intros H. unfold runes_of, range_runes. rewrite (range_aux_cons _ _ _ _ _ H). reflexivity.
Qed.

Theorem spec_legal_name s : s <> [] -> legal_name (escape_spec s) = true.
Proof.
  destruct s as [|b t]; [congruence|]. intros _.
  unfold escape_spec, escape_spec_body.
  destruct (is_digit_n (bN b)) eqn:Ed.
  - cbn [app legal_name]. now rewrite spec_runes_legal.
  - cbn [app]. destruct (decode (b :: t)) as [c w] eqn:Edec.
    rewrite (runes_of_cons _ _ _ _ Edec). cbn [spec_runes].
    destruct (is_legal_rune c) eqn:El.
    + destruct (decode_ascii _ _ _ _ Edec (legal_lt_128 _ El)) as [-> ->].
      rewrite byte_of_rune_bN. cbn [legal_name]. rewrite spec_runes_legal.
      unfold legal_first, legal_byte. now rewrite El, Ed.
    + replace ((c =? dash_rune) && (0 =? dash_rune)) with false by (unfold dash_rune; lia).
      cbn [legal_name]. now rewrite spec_runes_legal.
Qed.

(* identity on legal names *)
Lemma range_legal n : forall i, forallb legal_byte n = true ->
  map rune_of_irw (range_aux n i 0) = map bN n.
Proof.
  induction n as [|b t IH]; intros i H; [reflexivity|].
  cbn [forallb] in H. apply andb_true_iff in H as [Hb Ht].
  destruct (decode (b :: t)) as [c w] eqn:Ed.
  assert (Hlt : bN b < 128) by (apply legal_lt_128; exact Hb).
  assert (c = bN b /\ w = 1%nat) as [-> ->].
  { unfold decode in Ed. replace (bN b <? 128) with true in Ed by lia. now inversion Ed. }
  rewrite (range_aux_cons _ _ _ _ _ Ed). cbn [skipn map]. now rewrite IH.
Qed.

Lemma spec_runes_legal_id n : forall prev, forallb legal_byte n = true ->
  spec_runes (map bN n) prev = n.
Proof.
  induction n as [|b t IH]; intros prev H; [reflexivity|].
  cbn [forallb] in H. apply andb_true_iff in H as [Hb Ht].
  cbn [map spec_runes]. unfold legal_byte in Hb. rewrite Hb, byte_of_rune_bN. now rewrite IH.
Qed.

Theorem spec_identity_on_legal n : legal_name n = true -> escape_spec n = n.
Proof.
  destruct n as [|b t]; [discriminate|]. cbn [legal_name]. intros H.
  apply andb_true_iff in H as [Hf Ht]. unfold legal_first in Hf.
  apply andb_true_iff in Hf as [Hb Hd].
  unfold escape_spec, escape_spec_body.
  replace (is_digit_n (bN b)) with false by (destruct (is_digit_n (bN b)); [discriminate|reflexivity]).
  assert (Hall : forallb legal_byte (b :: t) = true) by (cbn [forallb]; now rewrite Hb, Ht).
  unfold runes_of, range_runes. rewrite (range_legal _ _ Hall).
  now rewrite spec_runes_legal_id.
Qed.

Theorem spec_idempotent s : escape_spec (escape_spec s) = escape_spec s.
Proof.
  destruct s as [|b t] eqn:E; [reflexivity|].
  apply spec_identity_on_legal, spec_legal_name. discriminate.
Qed.

(* letters and digits are kept, in order, and nothing else alphanumeric appears *)
Lemma alnum_underscore : alnum_byte underscore = false.
Proof. reflexivity. Qed.

Lemma decode_nonlegal_bytes b t c w :
  decode (b :: t) = (c, w) -> is_legal_rune c = false ->
  filter alnum_byte (firstn w (b :: t)) = [].
Proof.
  unfold decode, is_cont, in_range, rune_error. intros H Hl.
  decode_cases H; inversion H; subst; clear H; cbn [firstn filter];
  unfold alnum_byte, legal_byte, is_legal_rune, is_digit_n in *;
  repeat match goal with
  | |- context [if ?c then _ else _] => let E := fresh in destruct c eqn:E; [exfalso; split_ifs; lia|]
  end; reflexivity.
Qed.

Lemma filter_alnum_spec : forall n s i prev, (length s <= n)%nat ->
  filter alnum_byte (spec_runes (map rune_of_irw (range_aux s i 0)) prev) = filter alnum_byte s.
Proof.
  induction n as [|n IH]; intros s i prev Hn.
  - destruct s; [reflexivity | simpl in Hn; lia].
  - destruct s as [|b t]; [reflexivity|].
    destruct (decode (b :: t)) as [c w] eqn:Ed.
    pose proof (decode_cons_width _ _ _ _ Ed) as Hw.
    rewrite (range_aux_cons _ _ _ _ _ Ed). cbn [map rune_of_irw fst snd spec_runes].
    replace (filter alnum_byte (b :: t))
      with (filter alnum_byte (firstn w (b :: t)) ++ filter alnum_byte (skipn w (b :: t)))
      by (rewrite <- filter_app, firstn_skipn; reflexivity).
    assert (Hlen : (length (skipn w (b :: t)) <= n)%nat).
    { rewrite skipn_length. cbn [length] in *. lia. }
    destruct (is_legal_rune c) eqn:El.
    + destruct (decode_ascii _ _ _ _ Ed (legal_lt_128 _ El)) as [-> ->].
      rewrite byte_of_rune_bN. cbn [firstn skipn filter app].
      rewrite (IH t (i + 1)%nat (bN b)) by (cbn [length] in *; lia).
      destruct (alnum_byte b); reflexivity.
    + rewrite (decode_nonlegal_bytes _ _ _ _ Ed El). cbn [app].
      destruct ((c =? dash_rune) && (prev =? dash_rune)).
      * now apply IH.
      * cbn [filter]. rewrite alnum_underscore. now apply IH.
Qed.

Theorem spec_keeps_alnum s : filter alnum_byte (escape_spec s) = filter alnum_byte s.
Proof.
  destruct s as [|b t]; [reflexivity|].
  unfold escape_spec, escape_spec_body. rewrite filter_app.
  replace (filter alnum_byte (if is_digit_n (bN b) then [underscore] else [])) with (@nil byte)
    by (destruct (is_digit_n (bN b)); reflexivity).
  cbn [app]. unfold runes_of, range_runes.
  apply (filter_alnum_spec (length (b :: t))). lia.
Qed.

Theorem spec_leading_underscore b t :
  escape_spec (b :: t) =
    (if is_digit_n (bN b) then [underscore] else []) ++ spec_runes (runes_of (b :: t)) 0.
Proof. reflexivity. Qed.
