(* A registry that satisfies the invariant always gathers (C03). *)
From SE Require Import Spec.PipelineSpec Proofs.PipeBase Proofs.RegistryInv.
From Coq Require Import ZArith.

(* ---------- list facts ---------- *)
Lemma NoDup_app_intro {A} (a b : list A) :
  NoDup a -> NoDup b -> (forall x, In x a -> In x b -> False) -> NoDup (a ++ b).
Proof.
  induction a as [|x a IH]; intros Ha Hb Hd; [exact Hb|].
  inversion Ha as [|? ? Hx Ha']; subst. cbn. constructor.
  - intros Hin. apply in_app_or in Hin as [Hin|Hin]; [contradiction|]. apply (Hd x); [now left|exact Hin].
  - apply IH; try assumption. intros y Hy1 Hy2. apply (Hd y); [now right|exact Hy2].
Qed.

Lemma NoDup_flat_map_tag {A B T} (f : A -> list B) (tag : B -> T) (g : A -> T) l :
  NoDup (map g l) -> (forall x, In x l -> NoDup (f x)) ->
  (forall x b, In x l -> In b (f x) -> tag b = g x) -> NoDup (flat_map f l).
Proof.
  induction l as [|x l IH]; intros Hg Hf Ht; [constructor|].
  cbn [flat_map map] in *. inversion Hg as [|? ? Hx Hg']; subst.
  apply NoDup_app_intro.
  - apply Hf. now left.
  - apply IH; [exact Hg'| |]; intros; [apply Hf|apply Ht]; auto; now right.
  - intros b Hb1 Hb2. apply in_flat_map in Hb2 as (y & Hy & Hb2).
    apply Hx. rewrite <- (Ht x b (or_introl eq_refl) Hb1), (Ht y b (or_intror Hy) Hb2).
    now apply in_map.
Qed.

Lemma map_flat_map {A B C} (h : B -> C) (f : A -> list B) l :
  map h (flat_map f l) = flat_map (fun x => map h (f x)) l.
Proof. induction l as [|x l IH]; [reflexivity|]. cbn. now rewrite map_app, IH. Qed.

Lemma NoDup_map_inj_in {A B} (h : A -> B) l :
  (forall x y, In x l -> In y l -> h x = h y -> x = y) -> NoDup l -> NoDup (map h l).
Proof.
  induction l as [|x l IH]; intros Hinj Hnd; [constructor|].
  inversion Hnd as [|? ? Hx Hnd']; subst. cbn. constructor.
  - intros Hin. apply in_map_iff in Hin as (y & E & Hy).
    assert (y = x) by (apply Hinj; [now right|now left|exact E]). subst. contradiction.
  - apply IH; [|exact Hnd']. intros a b Ha Hb. apply Hinj; now right.
Qed.

Lemma map_fst_combine' {A B} (a : list A) : forall (b : list B),
  length b = length a -> map fst (combine a b) = a.
Proof.
  induction a as [|x a IH]; intros [|y b] H; try discriminate; [reflexivity|].
  cbn. f_equal. apply IH. now inversion H.
Qed.

Lemma map_snd_combine' {A B} (a : list A) : forall (b : list B),
  length b = length a -> map snd (combine a b) = b.
Proof.
  induction a as [|x a IH]; intros [|y b] H; try discriminate; [reflexivity|].
  cbn. f_equal. apply IH. now inversion H.
Qed.

(* ---------- no_dup_series as NoDup of (name, labels) ---------- *)
Definition skey (s : sample) : bytes * list (bytes * bytes) := (sm_name s, sm_labels s).

Lemma sample_key_eqb_eq a : forall b, sample_key_eqb a b = true <-> a = b.
Proof.
  induction a as [|[k v] a IH]; intros [|[k' v'] b]; cbn [sample_key_eqb]; split; intros H;
    try reflexivity; try discriminate.
  - apply andb_true_iff in H as [H H3]. apply andb_true_iff in H as [H1 H2].
    apply bytes_eqb_eq in H1, H2. apply IH in H3. congruence.
  - inversion H; subst. rewrite !bytes_eqb_refl. cbn. now apply IH.
Qed.

Lemma dup_existsb s r :
  existsb (fun o => bytes_eqb (sm_name o) (sm_name s) && sample_key_eqb (sm_labels o) (sm_labels s)) r = true
  <-> In (skey s) (map skey r).
Proof.
  rewrite existsb_exists. split.
  - intros (o & Ho & E). apply andb_true_iff in E as [E1 E2].
    apply bytes_eqb_eq in E1. apply sample_key_eqb_eq in E2.
    apply in_map_iff. exists o. split; [|exact Ho]. unfold skey. congruence.
  - intros H. apply in_map_iff in H as (o & E & Ho). exists o. split; [exact Ho|].
    unfold skey in E. inversion E as [[E1 E2]]. rewrite bytes_eqb_refl. cbn. now apply sample_key_eqb_eq.
Qed.

Lemma no_dup_series_NoDup l : no_dup_series l = true <-> NoDup (map skey l).
Proof.
  induction l as [|s r IH]; cbn [no_dup_series map].
  - split; [constructor|reflexivity].
  - rewrite andb_true_iff, negb_true_iff, IH. split.
    + intros [H1 H2]. constructor; [|exact H2]. intros Hin. apply dup_existsb in Hin. congruence.
    + intros H. inversion H as [|? ? Hx Hr]; subst. split; [|exact Hr].
      destruct (existsb _ r) eqn:E; [|reflexivity]. apply dup_existsb in E. contradiction.
Qed.

(* ---------- fam_type ---------- *)
Lemma fam_type_Some n l t : fam_type n l = Some t -> exists s, In s l /\ sm_name s = n /\ sm_type s = t.
Proof.
  induction l as [|s r IH]; cbn [fam_type]; [discriminate|].
  destruct (bytes_eqb (sm_name s) n) eqn:E.
  - apply bytes_eqb_eq in E. intros H; inversion H; subst. exists s. split; [now left|auto].
  - intros H. destruct (IH H) as (o & Ho & Hn). exists o. split; [now right|exact Hn].
Qed.

Lemma fam_type_None n l : (forall s, In s l -> sm_name s <> n) -> fam_type n l = None.
Proof.
  induction l as [|s r IH]; intros H; [reflexivity|]. cbn [fam_type].
  destruct (bytes_eqb (sm_name s) n) eqn:E.
  - apply bytes_eqb_eq in E. exfalso. apply (H s); [now left|exact E].
  - apply IH. intros o Ho. apply H. now right.
Qed.

Lemma fam_type_app n a b :
  fam_type n (a ++ b) = match fam_type n a with Some t => Some t | None => fam_type n b end.
Proof.
  induction a as [|s a IH]; [reflexivity|]. cbn [app fam_type].
  destruct (bytes_eqb (sm_name s) n); [reflexivity|exact IH].
Qed.

(* ---------- suffix collisions, as a statement about fam_type ---------- *)
Definition ccond (t : mtype) (suffix : bytes) : Prop :=
  t = MHistogram \/ (t = MSummary /\ suffix <> s_bucket).

Definition base_is (all : list sample) (n suffix : bytes) (ok_summary : bool) : bool :=
  if has_suffix suffix n then
    match fam_type (trim_suffix suffix n) all with
    | Some MHistogram => true
    | Some MSummary => ok_summary
    | _ => false
    end
  else false.

Lemma base_is_false all n suffix oks :
  base_is all n suffix oks = false <->
  (forall base t, n = base ++ suffix -> fam_type base all = Some t ->
                  ~ (t = MHistogram \/ (t = MSummary /\ oks = true))).
Proof.
  unfold base_is. destruct (has_suffix suffix n) eqn:Es.
  - apply has_suffix_app in Es as [b ->]. rewrite trim_suffix_app. split.
    + intros H base t E Hf. apply app_inv_tail in E. subst base. rewrite Hf in H.
      intros [->|[-> ->]]; discriminate.
    + intros H. destruct (fam_type b all) as [t|] eqn:Ef; [|reflexivity].
      specialize (H b t eq_refl Ef). destruct t; try reflexivity.
      * destruct oks; [|reflexivity]. exfalso. apply H. right. auto.
      * exfalso. apply H. now left.
  - split; [|reflexivity]. intros _ base t E. exfalso.
    assert (has_suffix suffix n = true) by (apply has_suffix_app; now exists base). congruence.
Qed.

Lemma suffix_collision_eq all s :
  suffix_collision all s =
  (base_is all (sm_name s) s_count true || base_is all (sm_name s) s_sum true ||
   base_is all (sm_name s) s_bucket false ||
   match sm_type s with
   | MSummary => opt_some (fam_type (sm_name s ++ s_count) all) || opt_some (fam_type (sm_name s ++ s_sum) all)
   | MHistogram => opt_some (fam_type (sm_name s ++ s_count) all) || opt_some (fam_type (sm_name s ++ s_sum) all)
                   || opt_some (fam_type (sm_name s ++ s_bucket) all)
   | _ => false
   end).
Proof. reflexivity. Qed.

Lemma opt_some_false {A} (x : option A) : opt_some x = false <-> x = None.
Proof. destruct x; cbn; split; intros; congruence. Qed.

Lemma suffix_collision_false all s :
  suffix_collision all s = false <->
  (forall suffix, In suffix suffixes ->
     (forall base t, sm_name s = base ++ suffix -> fam_type base all = Some t -> ~ ccond t suffix) /\
     (ccond (sm_type s) suffix -> fam_type (sm_name s ++ suffix) all = None)).
Proof.
  rewrite suffix_collision_eq. rewrite !orb_false_iff, !base_is_false. split.
  - intros [[[Hc Hs] Hb] H4] suffix Hin. split.
    + intros base t E Hf Hcc. destruct Hin as [<-|[<-|[<-|[]]]].
      * apply (Hb base t E Hf). destruct Hcc as [->|[-> Hne]]; [now left|congruence].
      * apply (Hc base t E Hf). destruct Hcc as [->|[-> Hne]]; [now left|right; auto].
      * apply (Hs base t E Hf). destruct Hcc as [->|[-> Hne]]; [now left|right; auto].
    + intros Hcc. destruct Hcc as [Ht|[Ht Hne]]; rewrite Ht in H4.
      * rewrite !orb_false_iff, !opt_some_false in H4. destruct H4 as [[H1 H2] H3].
        destruct Hin as [<-|[<-|[<-|[]]]]; assumption.
      * rewrite !orb_false_iff, !opt_some_false in H4. destruct H4 as [H1 H2].
        destruct Hin as [<-|[<-|[<-|[]]]]; try assumption. congruence.
  - intros H.
    pose proof (H s_bucket (or_introl eq_refl)) as [Hb1 Hb2].
    pose proof (H s_count (or_intror (or_introl eq_refl))) as [Hc1 Hc2].
    pose proof (H s_sum (or_intror (or_intror (or_introl eq_refl)))) as [Hs1 Hs2].
    split; [split; [split|]|].
    + intros base t E Hf Hcc. apply (Hc1 base t E Hf). destruct Hcc as [->|[-> _]]; [now left|right].
      split; [reflexivity|discriminate].
    + intros base t E Hf Hcc. apply (Hs1 base t E Hf). destruct Hcc as [->|[-> _]]; [now left|right].
      split; [reflexivity|discriminate].
    + intros base t E Hf Hcc. apply (Hb1 base t E Hf). destruct Hcc as [->|[-> ?]]; [now left|discriminate].
    + destruct (sm_type s) eqn:Et; try reflexivity.
      * rewrite !orb_false_iff, !opt_some_false. split; [apply Hc2|apply Hs2]; right; split; auto; discriminate.
      * rewrite !orb_false_iff, !opt_some_false. split; [split|]; [apply Hc2|apply Hs2|apply Hb2]; now left.
Qed.

(* ---------- combining the binary's own samples with the registry's ---------- *)
Definition sample_local (s : sample) : bool :=
  metric_name_valid (sm_name s) &&
  forallb (fun kv => label_name_valid (fst kv) && valid_string (snd kv)) (sm_labels s) &&
  negb (has_dup_names (sm_labels s)) &&
  negb (match sm_type s with MSummary => existsb (fun kv => bytes_eqb (fst kv) s_quantile) (sm_labels s) | _ => false end).

Definition fam_check (all : list sample) (s : sample) : bool :=
  forallb (fun o => negb (bytes_eqb (sm_name o) (sm_name s)) ||
                    (bytes_eqb (sm_help o) (sm_help s) && mtype_eqb (sm_type o) (sm_type s))) all.

Lemma sample_ok_eq all s :
  sample_ok all s = sample_local s && fam_check all s && negb (suffix_collision all s).
Proof. reflexivity. Qed.

Lemma name_independent_spec n b :
  name_independent n b = true ->
  n <> sm_name b /\ (forall suffix, In suffix suffixes -> n <> sm_name b ++ suffix /\ sm_name b <> n ++ suffix).
Proof.
  unfold name_independent. rewrite !andb_true_iff, !negb_true_iff, !bytes_eqb_neq.
  intros [[[[[[H1 H2] H3] H4] H5] H6] H7]. split; [exact H1|].
  intros suffix [<-|[<-|[<-|[]]]]; auto.
Qed.

Lemma no_dup_series_app a b :
  no_dup_series a = true -> no_dup_series b = true ->
  (forall s o, In s a -> In o b -> sm_name o <> sm_name s) ->
  no_dup_series (a ++ b) = true.
Proof.
  rewrite !no_dup_series_NoDup, map_app. intros Ha Hb Hd. apply NoDup_app_intro; try assumption.
  intros x Hx1 Hx2. apply in_map_iff in Hx1 as (s & E1 & Hs). apply in_map_iff in Hx2 as (o & E2 & Ho).
  apply (Hd s o Hs Ho). unfold skey in *. congruence.
Qed.

Lemma gather_ok_app builtins smp :
  gather_ok builtins = true ->
  (forall s b, In s smp -> In b builtins -> name_independent (sm_name s) b = true) ->
  (forall s, In s smp -> sample_local s = true) ->
  (forall s o, In s smp -> In o smp -> sm_name o = sm_name s ->
               sm_help o = sm_help s /\ sm_type o = sm_type s) ->
  (forall o s suffix, In o smp -> In s smp -> In suffix suffixes ->
                      sm_name s = sm_name o ++ suffix -> ~ ccond (sm_type o) suffix) ->
  no_dup_series smp = true ->
  gather_ok (builtins ++ smp) = true.
Proof.
  intros Hb Hind Hloc Hfam Hcf Hnd. unfold gather_ok in *.
  apply andb_true_iff in Hb as [Hb1 Hb2]. rewrite forallb_forall in Hb1.
  apply andb_true_iff. split.
  2:{ apply no_dup_series_app; try assumption. intros s o Hs Ho E.
      destruct (name_independent_spec _ _ (Hind o s Ho Hs)) as [H1 _]. congruence. }
  apply forallb_forall. intros s Hs. rewrite sample_ok_eq.
  apply in_app_or in Hs as [Hs|Hs].
  - (* one of the binary's own samples *)
    specialize (Hb1 s Hs). rewrite sample_ok_eq in Hb1.
    apply andb_true_iff in Hb1 as [Hb1 C3]. apply andb_true_iff in Hb1 as [C1 C2].
    rewrite C1. cbn [andb]. apply andb_true_iff. split.
    + unfold fam_check in *. rewrite forallb_app, C2. cbn [andb].
      apply forallb_forall. intros o Ho.
      destruct (name_independent_spec _ _ (Hind o s Ho Hs)) as [H1 _].
      apply bytes_eqb_neq in H1. now rewrite H1.
    + apply negb_true_iff. apply negb_true_iff in C3.
      rewrite suffix_collision_false in *. intros suffix Hsuf.
      destruct (C3 suffix Hsuf) as [D1 D2]. split.
      * intros base t E Hf. rewrite fam_type_app in Hf.
        destruct (fam_type base builtins) as [t'|] eqn:Efb.
        -- inversion Hf; subst t'. now apply (D1 base t E).
        -- apply fam_type_Some in Hf as (o & Ho & En & _). exfalso.
           destruct (name_independent_spec _ _ (Hind o s Ho Hs)) as [_ H2].
           destruct (H2 suffix Hsuf) as [_ H3]. apply H3. congruence.
      * intros Hcc. rewrite fam_type_app, (D2 Hcc). apply fam_type_None. intros o Ho En.
        destruct (name_independent_spec _ _ (Hind o s Ho Hs)) as [_ H2].
        destruct (H2 suffix Hsuf) as [H3 _]. apply H3. congruence.
  - (* a sample of the exporter's registry *)
    rewrite (Hloc s Hs). cbn [andb]. apply andb_true_iff. split.
    + unfold fam_check. rewrite forallb_app. apply andb_true_iff. split; apply forallb_forall; intros o Ho.
      * destruct (name_independent_spec _ _ (Hind s o Hs Ho)) as [H1 _].
        assert (H1' : sm_name o <> sm_name s) by congruence.
        apply bytes_eqb_neq in H1'. now rewrite H1'.
      * destruct (bytes_eqb (sm_name o) (sm_name s)) eqn:E; [|reflexivity].
        apply bytes_eqb_eq in E. destruct (Hfam s o Hs Ho E) as [E1 E2].
        rewrite E1, E2, bytes_eqb_refl. cbn. now apply mtype_eqb_eq.
    + apply negb_true_iff. rewrite suffix_collision_false. intros suffix Hsuf. split.
      * intros base t E Hf. rewrite fam_type_app in Hf.
        destruct (fam_type base builtins) as [t'|] eqn:Efb.
        -- apply fam_type_Some in Efb as (o & Ho & En & _). exfalso.
           destruct (name_independent_spec _ _ (Hind s o Hs Ho)) as [_ H2].
           destruct (H2 suffix Hsuf) as [H3 _]. apply H3. congruence.
        -- apply fam_type_Some in Hf as (o & Ho & En & Et). subst t.
           apply (Hcf o s suffix Ho Hs Hsuf). congruence.
      * intros Hcc. rewrite fam_type_app.
        destruct (fam_type (sm_name s ++ suffix) builtins) as [t'|] eqn:Efb.
        -- apply fam_type_Some in Efb as (o & Ho & En & _). exfalso.
           destruct (name_independent_spec _ _ (Hind s o Hs Ho)) as [_ H2].
           destruct (H2 suffix Hsuf) as [_ H3]. apply H3. exact En.
        -- apply fam_type_None. intros o Ho En.
           apply (Hcf s o suffix Hs Ho Hsuf En Hcc).
Qed.

(* ---------- the registry's samples ---------- *)
Lemma In_registry_samples rg s :
  In s (registry_samples rg) ->
  exists name rn names v key c,
    In (name, rn) (rg_names rg) /\ In (names, v) (rn_vecs rn) /\ In (key, c) (vc_children v) /\
    s = {| sm_name := name; sm_help := vc_help v; sm_type := vc_type v;
           sm_labels := combine (vc_names v) key; sm_value := c |}.
Proof.
  unfold registry_samples. intros H.
  apply in_flat_map in H as ([name rn] & H1 & H). cbn [fst snd] in H.
  apply in_flat_map in H as ([names v] & H2 & H). cbn [fst snd] in H.
  unfold samples_of_vec in H. apply in_map_iff in H as ([key c] & E & H3). cbn [fst snd] in E.
  exists name, rn, names, v, key, c. auto.
Qed.

Lemma has_dup_names_false l : NoDup (map fst l) -> has_dup_names l = false.
Proof.
  induction l as [|[k v] r IH]; [reflexivity|]. cbn [map fst has_dup_names]. intros H.
  inversion H as [|? ? Hk Hr]; subst. rewrite (IH Hr), orb_false_r.
  destruct (existsb _ r) eqn:E; [|reflexivity]. exfalso. apply Hk.
  apply existsb_exists in E as ([k' v'] & Hin & E). cbn in E. apply bytes_eqb_eq in E. subst k'.
  change k with (fst (k, v')). now apply in_map.
Qed.

Section Samples.
Variable Q : bytes -> Prop.
Hypothesis HQ : forall k, Q k -> label_name_valid k = true.

Lemma sample_facts rg s :
  RegInv Q rg -> In s (registry_samples rg) ->
  exists rn names key,
    name_find (sm_name s) (rg_names rg) = Some rn /\ sm_type s = rn_type rn /\ sm_help s = rn_help rn /\
    metric_name_valid (sm_name s) = true /\ sm_labels s = combine names key /\
    length key = length names /\ names_ok Q (rn_type rn) names /\ forallb valid_string key = true.
Proof.
  intros (I1 & I2 & I3) Hs.
  apply In_registry_samples in Hs as (name & rn & names & v & key & c & H1 & H2 & H3 & ->).
  pose proof (In_name_find _ _ _ I1 H1) as Hf.
  destruct (I2 _ _ Hf) as [Hn [Hh (P1 & P2 & P3 & P4)]].
  pose proof (In_vecs_find _ _ _ P1 H2) as Hv.
  destruct (P2 _ _ Hv) as (V1 & V2 & V3 & V4 & V5 & V6 & V7).
  pose proof (In_child_find _ _ _ V6 H3) as Hc.
  destruct (V7 _ _ Hc) as (C1 & C2 & C3).
  exists rn, names, key. cbn [sm_name sm_type sm_help sm_labels]. rewrite V1.
  exact (conj Hf (conj V2 (conj V3 (conj Hn (conj eq_refl (conj C1 (conj V4 C2))))))).
Qed.

Lemma registry_sample_local rg s :
  RegInv Q rg -> In s (registry_samples rg) -> sample_local s = true.
Proof.
  intros HI Hs. destruct (sample_facts _ _ HI Hs) as (rn & names & key & F1 & F2 & F3 & F4 & F5 & F6 & F7 & F8).
  destruct F7 as (N1 & N2 & N3).
  unfold sample_local. rewrite F4, F5. cbn [andb].
  assert (Hfst : map fst (combine names key) = names) by now apply map_fst_combine'.
  rewrite !andb_true_iff. split; [split|].
  - apply forallb_forall. intros [k v] Hin. cbn [fst snd].
    rewrite (HQ k (N2 k (in_combine_l _ _ _ _ Hin))). cbn [andb].
    rewrite forallb_forall in F8. apply F8. eapply in_combine_r; exact Hin.
  - apply negb_true_iff. apply has_dup_names_false. now rewrite Hfst.
  - apply negb_true_iff. rewrite F2. destruct (rn_type rn) eqn:Et; try reflexivity.
    specialize (N3 eq_refl).
    destruct (existsb _ (combine names key)) eqn:E; [|reflexivity].
    apply existsb_exists in E as ([k v] & Hin & E). cbn [fst] in E. apply bytes_eqb_eq in E. subst k.
    apply in_combine_l in Hin.
    assert (existsb (bytes_eqb s_quantile) names = true).
    { apply existsb_exists. exists s_quantile. split; [exact Hin|apply bytes_eqb_refl]. }
    congruence.
Qed.

Lemma registry_sample_family rg s o :
  RegInv Q rg -> In s (registry_samples rg) -> In o (registry_samples rg) -> sm_name o = sm_name s ->
  sm_help o = sm_help s /\ sm_type o = sm_type s.
Proof.
  intros HI Hs Ho E.
  destruct (sample_facts _ _ HI Hs) as (rn & ? & ? & F1 & F2 & F3 & _).
  destruct (sample_facts _ _ HI Ho) as (rn' & ? & ? & G1 & G2 & G3 & _).
  rewrite E, F1 in G1. inversion G1; subst rn'. split; congruence.
Qed.

Lemma registry_sample_collfree rg o s suffix :
  RegInv Q rg -> In o (registry_samples rg) -> In s (registry_samples rg) -> In suffix suffixes ->
  sm_name s = sm_name o ++ suffix -> ~ ccond (sm_type o) suffix.
Proof.
  intros HI Ho Hs Hsuf E Hcc.
  destruct (sample_facts _ _ HI Hs) as (rn & ? & ? & F1 & F2 & F3 & _).
  destruct (sample_facts _ _ HI Ho) as (rn' & ? & ? & G1 & G2 & G3 & _).
  destruct HI as (_ & _ & I3).
  assert (Hty : type_of (rg_names rg) (sm_name o) = Some (sm_type o)).
  { unfold type_of. rewrite G1. cbn. now rewrite G2. }
  pose proof (I3 _ suffix _ Hty Hsuf Hcc) as Hnone.
  unfold type_of in Hnone. rewrite <- E, F1 in Hnone. discriminate.
Qed.

Lemma registry_no_dup rg : RegInv Q rg -> no_dup_series (registry_samples rg) = true.
Proof.
  intros (I1 & I2 & I3). apply no_dup_series_NoDup. unfold registry_samples.
  rewrite map_flat_map.
  apply (NoDup_flat_map_tag _ (fun k : bytes * list (bytes * bytes) => fst k) (fun kv : bytes * rname => fst kv)).
  - exact I1.
  - intros [name rn] H1. cbn [fst snd].
    pose proof (In_name_find _ _ _ I1 H1) as Hf.
    destruct (I2 _ _ Hf) as [Hn [Hh (P1 & P2 & P3 & P4)]].
    rewrite map_flat_map.
    apply (NoDup_flat_map_tag _ (fun k : bytes * list (bytes * bytes) => map fst (snd k))
                              (fun kvec : list bytes * vec => fst kvec)).
    + exact P1.
    + intros [names v] H2. cbn [fst snd].
      pose proof (In_vecs_find _ _ _ P1 H2) as Hv.
      destruct (P2 _ _ Hv) as (V1 & V2 & V3 & V4 & V5 & V6 & V7).
      unfold samples_of_vec. rewrite map_map. unfold skey. cbn [sm_name sm_labels].
      rewrite <- (map_map fst (fun key => (name, combine (vc_names v) key))).
      apply NoDup_map_inj_in; [|exact V6].
      intros k1 k2 Hk1 Hk2 E. inversion E as [E1].
      apply in_map_iff in Hk1 as ([k1' c1] & <- & Hk1). apply in_map_iff in Hk2 as ([k2' c2] & <- & Hk2).
      cbn [fst] in *.
      destruct (V7 _ _ (In_child_find _ _ _ V6 Hk1)) as (L1 & _).
      destruct (V7 _ _ (In_child_find _ _ _ V6 Hk2)) as (L2 & _).
      rewrite <- V1 in L1, L2.
      rewrite <- (map_snd_combine' (vc_names v) k1' L1), <- (map_snd_combine' (vc_names v) k2' L2).
      now rewrite E1.
    + intros [names v] b H2 Hb. cbn [fst snd] in *.
      pose proof (In_vecs_find _ _ _ P1 H2) as Hv.
      destruct (P2 _ _ Hv) as (V1 & V2 & V3 & V4 & V5 & V6 & V7).
      apply in_map_iff in Hb as (s & <- & Hs). unfold samples_of_vec in Hs.
      apply in_map_iff in Hs as ([key c] & <- & Hkc). cbn [skey sm_labels snd fst].
      destruct (V7 _ _ (In_child_find _ _ _ V6 Hkc)) as (L1 & _).
      rewrite V1. now apply map_fst_combine'.
  - intros [name rn] b H1 Hb. cbn [fst snd] in *.
    apply in_map_iff in Hb as (s & <- & Hs).
    apply in_flat_map in Hs as ([names v] & _ & Hs). unfold samples_of_vec in Hs.
    apply in_map_iff in Hs as ([key c] & <- & _). reflexivity.
Qed.

Theorem RegInv_gather_ok rg builtins :
  RegInv Q rg -> gather_ok builtins = true ->
  (forall s b, In s (registry_samples rg) -> In b builtins -> name_independent (sm_name s) b = true) ->
  gather_ok (builtins ++ registry_samples rg) = true.
Proof.
  intros HI Hb Hind. apply gather_ok_app; try assumption.
  - intros s Hs. now apply (registry_sample_local rg).
  - intros s o Hs Ho. now apply (registry_sample_family rg).
  - intros o s suffix Ho Hs. now apply (registry_sample_collfree rg).
  - now apply registry_no_dup.
Qed.
End Samples.
