From SE Require Import Spec.SeriesSpec.
From SE Require Import Proofs.SeriesLemmas.
From Coq Require Import ZArith.
(* C01 / C07 / C08: the registry refines the flat three-function account (Spec/SeriesSpec.v).
   Helper file: Proofs/SeriesLemmas.v (association-list lemmas). *)

(* ---------- the definitional facts about the flat account ---------- *)

Lemma sweep_exact_ok : stmt_sweep_exact.
Proof. unfold stmt_sweep_exact. intros. reflexivity. Qed.

Lemma not_before_ttl_ok : stmt_not_before_ttl.
Proof.
  intros st nows. revert st. induction nows as [|now nows IH]; intros st n ks vs s Hs Hc; [exact Hs|].
  unfold f_sweeps. cbn [fold_left]. apply IH; [|destruct Hc as [Hc|Hc]; [now left | right; now inversion Hc]].
  cbn [f_sweep f_series]. rewrite Hs.
  destruct Hc as [Hc|Hc].
  - rewrite Hc. reflexivity.
  - inversion Hc as [|? ? Hn _]; subst.
    destruct (fv_last s + fv_ttl s <? now)%Z eqn:E; [apply Z.ltb_lt in E; lia|].
    now rewrite andb_false_r.
Qed.

Lemma sweeps_only_remove_ok : stmt_sweeps_only_remove.
Proof.
  intros st nows. revert st. induction nows as [|now nows IH]; intros st; [split; auto|].
  unfold f_sweeps. cbn [fold_left]. destruct (IH (f_sweep st now)) as [H1 H2]. split; [exact H1|].
  intros n ks vs Hn. apply H2. cbn [f_sweep f_series]. now rewrite Hn.
Qed.

Lemma gone_after_ttl_ok : stmt_gone_after_ttl.
Proof.
  intros st now later n ks vs s Hs Ht Hl. unfold f_sweeps. cbn [fold_left].
  apply (sweeps_only_remove_ok (f_sweep st now) later).
  cbn [f_sweep f_series]. rewrite Hs.
  destruct (fv_ttl s =? 0)%Z eqn:E0; [apply Z.eqb_eq in E0; contradiction|].
  destruct (fv_last s + fv_ttl s <? now)%Z eqn:E; [reflexivity | apply Z.ltb_ge in E; lia].
Qed.

Lemma upd3_same {B} (f : bytes -> list bytes -> list bytes -> B) k ks vs v : upd3 f k ks vs v k ks vs = v.
Proof. unfold upd3. now rewrite bytes_eqb_refl, !lbe_refl. Qed.

Ltac clock_tail Hs :=
  cbv beta iota zeta;
  match goal with |- context [?c && new_vec_panics ?t ?n] => destruct (c && new_vec_panics t n) end; [discriminate|];
  match goal with |- context [negb ?b] => destruct (negb b) end; [discriminate|];
  match goal with |- context [new_child ?v] => let Hz := fresh "Hz" in destruct (new_child v) as [zero|] eqn:Hz;
    [|discriminate];
    match goal with |- context [?upd zero] => let Hu := fresh "Hu" in let v' := fresh "v'" in
      destruct (upd zero) as [v'|] eqn:Hu; [|discriminate];
      let H := fresh "H" in intros H; inversion H; subst; clear H; exists v'; cbn [f_series]; rewrite upd3_same;
      split; [reflexivity|]; intros _; eexists _, _; split; [exact Hz|]; split; [reflexivity|exact Hu] end end.

Lemma sample_sets_clock_ok : stmt_sample_sets_clock.
Proof.
  unfold stmt_sample_sets_clock. intros st d rule_ now t name labels help ttl upd st'.
  unfold f_sample.
  destruct (f_claim st name) as [[t' h]|] eqn:Hcl;
  destruct (f_series st name (lm_keys labels) (lm_vals labels)) as [s|] eqn:Hs.
  - destruct (mtype_eqb t' t); [|discriminate].
    destruct (upd (fv_value s)) as [v'|] eqn:Hu; [|discriminate].
    intros H. inversion H; subst; clear H. exists v'. cbn [f_series]. rewrite upd3_same.
    split; [reflexivity|discriminate].
  - destruct (negb (mtype_eqb t' t)); [discriminate|].
    destruct (f_collision st name t); [discriminate|].
    destruct (f_shape st name (lm_keys labels)) as [o|]; clock_tail Hs.
  - destruct (f_collision st name t); [discriminate|].
    destruct (f_shape st name (lm_keys labels)) as [o|]; clock_tail Hs.
  - destruct (f_collision st name t); [discriminate|].
    destruct (f_shape st name (lm_keys labels)) as [o|]; clock_tail Hs.
Qed.

Ltac conf_tail :=
  cbv beta iota zeta;
  match goal with |- context [?c && new_vec_panics ?t ?n] => destruct (c && new_vec_panics t n) end; [discriminate|];
  match goal with |- context [negb ?b] => destruct (negb b) end;
  [ let H := fresh "H" in intros H; inversion H; subst; clear H; cbn; repeat split; reflexivity |];
  match goal with |- context [new_child ?v] => destruct (new_child v) as [zero|]; [|discriminate];
    match goal with |- context [?upd zero] => destruct (upd zero); discriminate end end.

Lemma flat_conflict_isolated_ok : stmt_flat_conflict_isolated.
Proof.
  unfold stmt_flat_conflict_isolated. intros st d rule_ now t name labels help ttl upd st'.
  unfold f_sample.
  destruct (f_claim st name) as [[t' h]|] eqn:Hcl;
  destruct (f_series st name (lm_keys labels) (lm_vals labels)) as [s|] eqn:Hs.
  - destruct (mtype_eqb t' t).
    + destruct (upd (fv_value s)); discriminate.
    + intros H; inversion H; subst. repeat split; reflexivity.
  - destruct (negb (mtype_eqb t' t)); [intros H; inversion H; subst; repeat split; reflexivity|].
    destruct (f_collision st name t); [intros H; inversion H; subst; repeat split; reflexivity|].
    destruct (f_shape st name (lm_keys labels)) as [o|]; conf_tail.
  - destruct (f_collision st name t); [intros H; inversion H; subst; repeat split; reflexivity|].
    destruct (f_shape st name (lm_keys labels)) as [o|]; conf_tail.
  - destruct (f_collision st name t); [intros H; inversion H; subst; repeat split; reflexivity|].
    destruct (f_shape st name (lm_keys labels)) as [o|]; conf_tail.
Qed.

(* ---------- the refinement ---------- *)

Local Opaque hist_buckets_for summ_objs_for summ_max_age_for default_help.

Definition set_children (v : vec) (ch : list (list bytes * mvalue)) : vec :=
  {| vc_names := vc_names v; vc_help := vc_help v; vc_type := vc_type v; vc_bounds := vc_bounds v;
     vc_objs := vc_objs v; vc_max_age := vc_max_age v; vc_children := ch |}.

Lemma new_child_ext v w :
  vc_names v = vc_names w -> vc_type v = vc_type w -> vc_bounds v = vc_bounds w ->
  vc_objs v = vc_objs w -> vc_max_age v = vc_max_age w -> new_child v = new_child w.
Proof. unfold new_child. intros -> -> -> -> ->. reflexivity. Qed.

Local Opaque new_child.

Lemma nonempty_match (h x : bytes) : h <> [] -> match h with [] => x | b :: l => b :: l end = h.
Proof. destruct h; [congruence|reflexivity]. Qed.

(* ---------- the simulation relation ---------- *)
Definition VecOK (st : fstate) (n : bytes) (T : mtype) (H : bytes) (vecs : list (list bytes * vec)) : Prop :=
  forall ks, match vecs_find ks vecs with
   | Some v => f_shape st n ks = Some (vc_bounds v, vc_objs v, vc_max_age v) /\ vc_names v = ks /\
               vc_type v = T /\ vc_help v = H /\ NoDup (map fst (vc_children v))
   | None => f_shape st n ks = None
   end.

Definition MetOK (st : fstate) (n : bytes) (vecs : list (list bytes * vec))
           (mets : list ((list bytes * list bytes) * rmetric)) : Prop :=
  forall ks vs, match rm_find (ks, vs) mets with
   | Some rm => exists v val, vecs_find ks vecs = Some v /\ child_find vs (vc_children v) = Some val /\
        f_series st n ks vs = Some {| fv_value := val; fv_last := rm_last rm; fv_ttl := rm_ttl rm |} /\
        rm_veckey rm = ks /\ lm_keys (rm_labels rm) = ks /\ lm_vals (rm_labels rm) = vs
   | None => f_series st n ks vs = None /\
        forall v, vecs_find ks vecs = Some v -> child_find vs (vc_children v) = None
   end.

Definition Body st n T H vecs mets : Prop :=
  NoDup (map fst vecs) /\ NoDup (map fst mets) /\ VecOK st n T H vecs /\ MetOK st n vecs mets.

Definition RnOK st n rn : Prop :=
  rn_help rn <> [] /\ f_claim st n = Some (rn_type rn, rn_help rn) /\
  Body st n (rn_type rn) (rn_help rn) (rn_vecs rn) (rn_metrics rn).

Definition Absent st n : Prop :=
  f_claim st n = None /\ (forall ks, f_shape st n ks = None) /\ (forall ks vs, f_series st n ks vs = None).

Definition Sim (rg : registry) (st : fstate) : Prop :=
  rg_created rg = f_created st /\ NoDup (map fst (rg_names rg)) /\
  forall n, match name_find n (rg_names rg) with Some rn => RnOK st n rn | None => Absent st n end.

Lemma Sim_empty : Sim empty_registry f_empty.
Proof.
  split; [reflexivity|]. split; [constructor|]. intros n. simpl. repeat split.
Qed.

(* ---------- extensionality: Sim only reads the fields pointwise ---------- *)
Lemma Body_ext st st' n T H vecs mets :
  (forall ks, f_shape st' n ks = f_shape st n ks) ->
  (forall ks vs, f_series st' n ks vs = f_series st n ks vs) ->
  Body st n T H vecs mets -> Body st' n T H vecs mets.
Proof.
  intros Hs Hr (Hn1 & Hn2 & Hv & Hm). repeat split; try assumption.
  - intros ks. specialize (Hv ks). rewrite Hs. exact Hv.
  - intros ks vs. specialize (Hm ks vs). rewrite Hr. exact Hm.
Qed.

Lemma RnOK_ext st st' n rn :
  f_claim st' n = f_claim st n ->
  (forall ks, f_shape st' n ks = f_shape st n ks) ->
  (forall ks vs, f_series st' n ks vs = f_series st n ks vs) ->
  RnOK st n rn -> RnOK st' n rn.
Proof.
  intros Hc Hs Hr (Hh & Hcl & Hb). split; [assumption|]. split; [congruence|].
  eapply Body_ext; eassumption.
Qed.

Lemma Absent_ext st st' n :
  f_claim st' n = f_claim st n ->
  (forall ks, f_shape st' n ks = f_shape st n ks) ->
  (forall ks vs, f_series st' n ks vs = f_series st n ks vs) ->
  Absent st n -> Absent st' n.
Proof.
  intros Hc Hs Hr (H1 & H2 & H3). split; [congruence|]. split; intros; [rewrite Hs|rewrite Hr]; auto.
Qed.

Lemma Sim_ext rg st rg' st' :
  Sim rg st -> rg_names rg' = rg_names rg -> rg_created rg' = f_created st' ->
  (forall n, f_claim st' n = f_claim st n) ->
  (forall n ks, f_shape st' n ks = f_shape st n ks) ->
  (forall n ks vs, f_series st' n ks vs = f_series st n ks vs) ->
  Sim rg' st'.
Proof.
  intros (Hcr & Hnd & Hn) Hnames Hc Hcl Hsh Hse. split; [assumption|]. rewrite Hnames.
  split; [assumption|]. intros n. specialize (Hn n). destruct (name_find n (rg_names rg)).
  - eapply RnOK_ext; eauto.
  - eapply Absent_ext; eauto.
Qed.

(* replacing the entry of one name *)
Lemma Sim_update rg st L' cr st' name rn_new :
  Sim rg st ->
  (forall n', name_find n' L' = if bytes_eqb n' name then Some rn_new else name_find n' (rg_names rg)) ->
  NoDup (map fst L') -> cr = f_created st' ->
  RnOK st' name rn_new ->
  (forall n', n' <> name -> f_claim st' n' = f_claim st n' /\
      (forall ks, f_shape st' n' ks = f_shape st n' ks) /\
      (forall ks vs, f_series st' n' ks vs = f_series st n' ks vs)) ->
  Sim {| rg_names := L'; rg_created := cr |} st'.
Proof.
  intros (Hcr & Hnd & Hn) Hfind Hnd' Hc Hnew Hother. split; [assumption|]. split; [assumption|].
  intros n. cbn [rg_names]. rewrite Hfind. destruct (bytes_eqb n name) eqn:E.
  - apply bytes_eqb_eq in E. subst. assumption.
  - apply bytes_eqb_neq in E. destruct (Hother n E) as (H1 & H2 & H3). specialize (Hn n).
    destruct (name_find n (rg_names rg)).
    + eapply RnOK_ext; eauto.
    + eapply Absent_ext; eauto.
Qed.

(* the common shape of "one series of one vector of one name was written" *)
Lemma Body_step st st' n T H vecs mets vecs' mets' names values vnew rmnew val' now ttl :
  Body st n T H vecs mets ->
  NoDup (map fst vecs') -> NoDup (map fst mets') ->
  (forall ks, vecs_find ks vecs' = if list_bytes_eqb' ks names then Some vnew else vecs_find ks vecs) ->
  (forall k, rm_find k mets' = if key2_eqb k (names, values) then Some rmnew else rm_find k mets) ->
  vc_names vnew = names -> vc_type vnew = T -> vc_help vnew = H -> NoDup (map fst (vc_children vnew)) ->
  (forall vs, child_find vs (vc_children vnew) =
     if list_bytes_eqb' vs values then Some val'
     else match vecs_find names vecs with Some vold => child_find vs (vc_children vold) | None => None end) ->
  rm_veckey rmnew = names -> lm_keys (rm_labels rmnew) = names -> lm_vals (rm_labels rmnew) = values ->
  rm_last rmnew = now -> rm_ttl rmnew = ttl ->
  (forall ks, f_shape st' n ks =
     if list_bytes_eqb' ks names then Some (vc_bounds vnew, vc_objs vnew, vc_max_age vnew) else f_shape st n ks) ->
  (forall ks vs, f_series st' n ks vs =
     if list_bytes_eqb' ks names && list_bytes_eqb' vs values
     then Some {| fv_value := val'; fv_last := now; fv_ttl := ttl |} else f_series st n ks vs) ->
  Body st' n T H vecs' mets'.
Proof.
  intros (Hn1 & Hn2 & Hv & Hm) Hnd1 Hnd2 Hvf Hmf Hvn Hvt Hvh Hvc Hcf Hk1 Hk2 Hk3 Hk4 Hk5 Hsh Hse.
  split; [assumption|]. split; [assumption|]. split.
  - intros ks. rewrite Hvf, Hsh. destruct (list_bytes_eqb' ks names) eqn:E.
    + apply lbe_eq in E. subst ks. repeat split; assumption.
    + apply Hv.
  - intros ks vs. rewrite Hmf, Hse, Hvf. unfold key2_eqb. cbn [fst snd].
    destruct (list_bytes_eqb' ks names) eqn:E; cbn [andb].
    + apply lbe_eq in E. subst ks. destruct (list_bytes_eqb' vs values) eqn:E2.
      * apply lbe_eq in E2. subst vs. exists vnew, val'. rewrite Hcf, lbe_refl, Hk4, Hk5.
        repeat split; assumption.
      * specialize (Hm names vs). destruct (rm_find (names, vs) mets) as [rm|].
        -- destruct Hm as (v & val & Hf & Hc & Hs & Hr). exists vnew, val. rewrite Hcf, E2, Hf.
           repeat split; try assumption; apply Hr.
        -- destruct Hm as (Hs & Hc). split; [assumption|]. intros v Hveq. inversion Hveq; subst v.
           rewrite Hcf, E2. destruct (vecs_find names vecs) as [vold|] eqn:Hvo; [|reflexivity].
           now apply Hc.
    + apply Hm.
Qed.

(* ---------- claims and the collision rule ---------- *)
Lemma claim_corr rg st : Sim rg st ->
  forall n, f_claim st n = option_map (fun rn => (rn_type rn, rn_help rn)) (name_find n (rg_names rg)).
Proof.
  intros (_ & _ & Hn) n. specialize (Hn n). destruct (name_find n (rg_names rg)); simpl.
  - apply Hn. - apply Hn.
Qed.

Lemma collision_eq rg st name t : Sim rg st -> check_name_collision rg name t = f_collision st name t.
Proof.
  intros Hsim. unfold check_name_collision, f_collision. rewrite !(claim_corr rg st Hsim).
  f_equal; [f_equal; [f_equal|]|].
  - destruct (has_suffix s_bucket name); [|reflexivity].
    destruct (name_find _ _) as [[[] ? ? ?]|]; reflexivity.
  - destruct (has_suffix s_count name); [|reflexivity].
    destruct (name_find _ _) as [[[] ? ? ?]|]; reflexivity.
  - destruct (has_suffix s_sum name); [|reflexivity].
    destruct (name_find _ _) as [[[] ? ? ?]|]; reflexivity.
  - destruct t; try reflexivity.
    + destruct (name_find (name ++ s_count) _), (name_find (name ++ s_sum) _); reflexivity.
    + destruct (name_find (name ++ s_bucket) _), (name_find (name ++ s_count) _), (name_find (name ++ s_sum) _); reflexivity.
Qed.

(* ---------- the vector operations in terms of set_children ---------- *)
Lemma get_metric_with_spec v labels :
  get_metric_with v labels =
  if negb (forallb valid_string (lm_vals labels)) then VErr
  else match child_find (lm_vals labels) (vc_children v) with
       | Some _ => VOk v
       | None => match new_child v with
                 | Ok c => VOk (set_children v (child_set (lm_vals labels) c (vc_children v)))
                 | Panic => VPanic
                 end
       end.
Proof. reflexivity. Qed.

Lemma vec_delete_spec v labels :
  vec_delete v labels =
  if list_bytes_eqb' (lm_keys labels) (vc_names v)
  then set_children v (child_del (lm_vals labels) (vc_children v)) else v.
Proof. reflexivity. Qed.

Lemma update_series_spec rg name vk vals upd rn v c :
  name_find name (rg_names rg) = Some rn -> vecs_find vk (rn_vecs rn) = Some v ->
  child_find vals (vc_children v) = Some c ->
  update_series rg name vk vals upd =
  match upd c with
  | Ok c' => Ok {| rg_names := name_set name {| rn_type := rn_type rn; rn_help := rn_help rn;
                     rn_vecs := vecs_set vk (set_children v (child_set vals c' (vc_children v))) (rn_vecs rn);
                     rn_metrics := rn_metrics rn |} (rg_names rg);
                   rg_created := rg_created rg |}
  | Panic => Panic
  end.
Proof.
  intros H1 H2 H3. unfold update_series, vec_update. rewrite H1, H2, H3. destruct (upd c); reflexivity.
Qed.

(* ---------- one event ---------- *)
Definition R (upd : mvalue -> res mvalue) (g : gres) (f : fres) : Prop :=
  match g with
  | GPanic => f = FPanic
  | GConflict rg' => exists st', f = FConflict st' /\ Sim rg' st'
  | GOk rg' n vk vals =>
    match update_series rg' n vk vals upd with
    | Ok rg'' => exists st', f = FOk st' /\ Sim rg'' st'
    | Panic => f = FPanic
    end
  end.

Definition g_tail (rg1 : registry) (name : bytes) (t : mtype) (famH : bytes) (labels : lmap) (now ttl : Z)
           (v0 : vec) vecs0 mets0 : gres :=
  match get_metric_with v0 labels with
  | VOk v1 =>
    GOk {| rg_names := name_set name
             {| rn_type := t; rn_help := famH; rn_vecs := vecs_set (lm_keys labels) v1 vecs0;
                rn_metrics := rm_set (lm_keys labels, lm_vals labels)
                   {| rm_last := now; rm_labels := labels; rm_ttl := ttl; rm_veckey := lm_keys labels |} mets0 |}
             (rg_names rg1);
           rg_created := rg_created rg1 |} name (lm_keys labels) (lm_vals labels)
  | VErr => GConflict rg1
  | VPanic => GPanic
  end.

Definition f_tail (st1 : fstate) (now : Z) (t : mtype) (name : bytes) (labels : lmap) (fam_help : bytes)
           (ttl : Z) (upd : mvalue -> res mvalue) (opts : list F64 * list F64 * Z) : fres :=
  if negb (forallb valid_string (lm_vals labels)) then FConflict st1
  else match new_child {| vc_names := lm_keys labels; vc_help := fam_help; vc_type := t; vc_bounds := fst (fst opts);
                          vc_objs := snd (fst opts); vc_max_age := snd opts; vc_children := [] |} with
       | Panic => FPanic
       | Ok zero =>
         match upd zero with
         | Ok v' => FOk {| f_claim := upd1 (f_claim st1) name (Some (t, fam_help));
                           f_shape := upd2 (f_shape st1) name (lm_keys labels) (Some opts);
                           f_series := upd3 (f_series st1) name (lm_keys labels) (lm_vals labels)
                                         (Some {| fv_value := v'; fv_last := now; fv_ttl := ttl |});
                           f_created := f_created st1 |}
         | Panic => FPanic
         end
       end.

Lemma upd1_same {B} (f : bytes -> B) k v : upd1 f k v k = v.
Proof. unfold upd1. now rewrite bytes_eqb_refl. Qed.
Lemma upd1_other {B} (f : bytes -> B) k v k' : k' <> k -> upd1 f k v k' = f k'.
Proof. intros H. unfold upd1. now rewrite bytes_neq. Qed.
Lemma upd2_name {B} (f : bytes -> list bytes -> B) k ks v ks' :
  upd2 f k ks v k ks' = if list_bytes_eqb' ks' ks then v else f k ks'.
Proof. unfold upd2. now rewrite bytes_eqb_refl. Qed.
Lemma upd2_other {B} (f : bytes -> list bytes -> B) k ks v k' ks' : k' <> k -> upd2 f k ks v k' ks' = f k' ks'.
Proof. intros H. unfold upd2. now rewrite bytes_neq. Qed.
Lemma upd3_name {B} (f : bytes -> list bytes -> list bytes -> B) k ks vs v ks' vs' :
  upd3 f k ks vs v k ks' vs' = if list_bytes_eqb' ks' ks && list_bytes_eqb' vs' vs then v else f k ks' vs'.
Proof. unfold upd3. now rewrite bytes_eqb_refl. Qed.
Lemma upd3_other {B} (f : bytes -> list bytes -> list bytes -> B) k ks vs v k' ks' vs' :
  k' <> k -> upd3 f k ks vs v k' ks' vs' = f k' ks' vs'.
Proof. intros H. unfold upd3. now rewrite bytes_neq. Qed.

Lemma Body_nil st n T H : Absent st n -> Body st n T H [] [].
Proof.
  intros (_ & H2 & H3). split; [constructor|]. split; [constructor|]. split.
  - intros ks. simpl. apply H2.
  - intros ks vs. simpl. split; [apply H3|]. discriminate.
Qed.

Lemma create_path rg1 st1 name t famH labels now ttl upd v0 vecs0 mets0 opts :
  Sim rg1 st1 -> famH <> [] ->
  match name_find name (rg_names rg1) with
  | Some rn => rn_type rn = t /\ rn_help rn = famH /\ rn_vecs rn = vecs0 /\ rn_metrics rn = mets0
  | None => vecs0 = [] /\ mets0 = []
  end ->
  rm_find (lm_keys labels, lm_vals labels) mets0 = None ->
  (vecs_find (lm_keys labels) vecs0 = None /\
   v0 = {| vc_names := lm_keys labels; vc_help := famH; vc_type := t; vc_bounds := fst (fst opts);
           vc_objs := snd (fst opts); vc_max_age := snd opts; vc_children := [] |}) \/
  (vecs_find (lm_keys labels) vecs0 = Some v0 /\ opts = (vc_bounds v0, vc_objs v0, vc_max_age v0)) ->
  R upd (g_tail rg1 name t famH labels now ttl v0 vecs0 mets0) (f_tail st1 now t name labels famH ttl upd opts).
Proof.
  intros Hsim HH Hold Hnomet Hv0.
  set (names := lm_keys labels) in *. set (values := lm_vals labels) in *.
  assert (Hbody : Body st1 name t famH vecs0 mets0).
  { destruct Hsim as (_ & _ & Hn). specialize (Hn name). destruct (name_find name (rg_names rg1)) as [rn|].
    - destruct Hold as (<- & <- & <- & <-). apply Hn.
    - destruct Hold as (-> & ->). now apply Body_nil. }
  pose proof Hbody as (Hnd1 & Hnd2 & Hvec & Hmet).
  assert (Hv0f : vc_names v0 = names /\ vc_type v0 = t /\ vc_help v0 = famH /\ NoDup (map fst (vc_children v0)) /\
                 opts = (vc_bounds v0, vc_objs v0, vc_max_age v0) /\
                 child_find values (vc_children v0) = None /\
                 forall vs, child_find vs (vc_children v0) =
                   match vecs_find names vecs0 with Some vold => child_find vs (vc_children vold) | None => None end).
  { destruct Hv0 as [(Hnone & ->)|(Hsome & ->)].
    - cbn. rewrite Hnone. destruct opts as [[? ?] ?]. repeat split; constructor.
    - pose proof (Hvec names) as Hv. rewrite Hsome in Hv. destruct Hv as (_ & H2 & H3 & H4 & H5).
      pose proof (Hmet names values) as Hm. fold names values in Hnomet. rewrite Hnomet in Hm.
      rewrite Hsome. repeat split; try assumption. now apply Hm. }
  destruct Hv0f as (Hf1 & Hf2 & Hf3 & Hf4 & Hf5 & Hf6 & Hf7).
  unfold g_tail, f_tail. rewrite get_metric_with_spec. fold names values.
  destruct (negb (forallb valid_string values)).
  { exists st1. split; [reflexivity|assumption]. }
  rewrite Hf6.
  rewrite (new_child_ext v0 {| vc_names := names; vc_help := famH; vc_type := t; vc_bounds := fst (fst opts);
           vc_objs := snd (fst opts); vc_max_age := snd opts; vc_children := [] |})
    by (rewrite Hf5; cbn; auto).
  match goal with |- context [new_child ?v] => destruct (new_child v) as [c|] end; [|reflexivity].
  unfold R.
  erewrite update_series_spec; cycle 1.
  { cbn [rg_names]. rewrite name_find_set, bytes_eqb_refl. reflexivity. }
  { cbn [rn_vecs]. rewrite vecs_find_set, lbe_refl. reflexivity. }
  { unfold set_children. cbn [vc_children]. rewrite child_find_set, lbe_refl. reflexivity. }
  destruct (upd c) as [c'|]; [|reflexivity].
  eexists. split; [reflexivity|].
  cbn [rg_names rg_created rn_type rn_help rn_vecs rn_metrics].
  eapply Sim_update with (rg := rg1) (st := st1) (name := name).
  - assumption.
  - intros n'. rewrite !name_find_set. destruct (bytes_eqb n' name); reflexivity.
  - apply NoDup_name_set, NoDup_name_set, Hsim.
  - cbn [f_created]. apply Hsim.
  - split; [assumption|]. cbn [rn_type rn_help rn_vecs rn_metrics f_claim]. split; [apply upd1_same|].
    apply Body_step with (st := st1) (vecs := vecs0) (mets := mets0) (names := names) (values := values)
       (val' := c') (now := now) (ttl := ttl)
       (vnew := set_children (set_children v0 (child_set values c (vc_children v0)))
                  (child_set values c' (vc_children (set_children v0 (child_set values c (vc_children v0))))))
       (rmnew := {| rm_last := now; rm_labels := labels; rm_ttl := ttl; rm_veckey := names |}).
    + exact Hbody.
    + apply NoDup_vecs_set, NoDup_vecs_set, Hnd1.
    + apply NoDup_rm_set, Hnd2.
    + intros ks. rewrite !vecs_find_set. destruct (list_bytes_eqb' ks names); reflexivity.
    + intros k. apply rm_find_set.
    + exact Hf1.
    + exact Hf2.
    + exact Hf3.
    + unfold set_children. cbn [vc_children]. apply NoDup_child_set, NoDup_child_set, Hf4.
    + intros vs. unfold set_children. cbn [vc_children]. rewrite !child_find_set.
      destruct (list_bytes_eqb' vs values); [reflexivity|]. apply Hf7.
    + reflexivity.
    + reflexivity.
    + reflexivity.
    + reflexivity.
    + reflexivity.
    + intros ks. cbn [f_shape]. rewrite upd2_name. unfold set_children; cbn. rewrite Hf5. reflexivity.
    + intros ks vs. cbn [f_series]. apply upd3_name.
  - intros n' Hne. cbn [f_claim f_shape f_series]. split; [now apply upd1_other|]. split; intros.
    + now apply upd2_other. + now apply upd3_other.
Qed.

Lemma event_step rg st d rule_ now t name labels help ttl upd :
  Sim rg st -> help <> [] ->
  R upd (get_series rg d rule_ now t name labels help ttl) (f_sample st d rule_ now t name labels help ttl upd).
Proof.
  intros Hsim Hhelp. pose proof Hsim as (Hcr & Hnd & Hnames). pose proof (Hnames name) as Hn.
  unfold get_series, f_sample, metric_conflicts. cbv zeta. rewrite (collision_eq rg st name t Hsim).
  set (names := lm_keys labels) in *. set (values := lm_vals labels) in *.
  destruct (name_find name (rg_names rg)) as [rn|] eqn:Hnf.
  - destruct Hn as (Hh & Hcl & Hbody). rewrite Hcl.
    destruct (mtype_eqb (rn_type rn) t) eqn:Ht.
    + apply mtype_eqb_eq in Ht. subst t.
      pose proof Hbody as (Hnd1 & Hnd2 & Hvec & Hmet).
      pose proof (Hmet names values) as Hm.
      destruct (rm_find (names, values) (rn_metrics rn)) as [rm|] eqn:Hrm.
      * destruct Hm as (v & val & Hvf & Hcf & Hser & Hk1 & Hk2 & Hk3). rewrite Hser. cbv beta iota.
        cbn [fv_value]. unfold R. rewrite Hk1.
        erewrite update_series_spec; cycle 1.
        { cbn [rg_names]. rewrite name_find_set, bytes_eqb_refl. reflexivity. }
        { cbn [rn_vecs]. exact Hvf. }
        { exact Hcf. }
        destruct (upd val) as [c'|]; [|reflexivity].
        eexists. split; [reflexivity|].
        cbn [rg_names rg_created rn_type rn_help rn_vecs rn_metrics].
        pose proof (Hvec names) as Hv. rewrite Hvf in Hv. destruct Hv as (Hsh & Hv1 & Hv2 & Hv3 & Hv4).
        eapply Sim_update with (rg := rg) (st := st) (name := name).
        -- assumption.
        -- intros n'. rewrite !name_find_set. destruct (bytes_eqb n' name); reflexivity.
        -- apply NoDup_name_set, NoDup_name_set, Hnd.
        -- cbn [f_created]. exact Hcr.
        -- split; [assumption|]. cbn [rn_type rn_help rn_vecs rn_metrics f_claim]. split; [exact Hcl|].
           apply Body_step with (st := st) (vecs := rn_vecs rn) (mets := rn_metrics rn) (names := names)
             (values := values) (val' := c') (now := now) (ttl := ttl)
             (vnew := set_children v (child_set values c' (vc_children v)))
             (rmnew := {| rm_last := now; rm_labels := rm_labels rm; rm_ttl := ttl; rm_veckey := names |}).
           ++ exact Hbody.
           ++ apply NoDup_vecs_set, Hnd1.
           ++ apply NoDup_rm_set, Hnd2.
           ++ intros ks. apply vecs_find_set.
           ++ intros k. apply rm_find_set.
           ++ exact Hv1.
           ++ exact Hv2.
           ++ exact Hv3.
           ++ unfold set_children. cbn [vc_children]. apply NoDup_child_set, Hv4.
           ++ intros vs. unfold set_children. cbn [vc_children]. rewrite child_find_set, Hvf. reflexivity.
           ++ reflexivity.
           ++ exact Hk2.
           ++ exact Hk3.
           ++ reflexivity.
           ++ reflexivity.
           ++ intros ks. cbn [f_shape]. unfold set_children; cbn.
              destruct (list_bytes_eqb' ks names) eqn:E; [|reflexivity]. apply lbe_eq in E. now subst ks.
           ++ intros ks vs. cbn [f_series]. apply upd3_name.
        -- intros n' Hne. cbn [f_claim f_shape f_series]. split; [reflexivity|]. split; intros.
           ++ reflexivity. ++ now apply upd3_other.
      * destruct Hm as (Hser & Hch). rewrite Hser. cbv beta iota. cbn [negb].
        destruct (f_collision st name (rn_type rn)); [exists st; split; [reflexivity|assumption]|].
        repeat rewrite (nonempty_match _ _ Hh).
        pose proof (Hvec names) as Hv.
        destruct (vecs_find names (rn_vecs rn)) as [v|] eqn:Hvf.
        -- destruct Hv as (Hsh & Hv). rewrite Hsh. cbv beta iota. cbn [andb]. rewrite Hnf.
           repeat rewrite (nonempty_match _ _ Hh).
           set (st1 := {| f_claim := f_claim st; f_shape := f_shape st; f_series := f_series st; f_created := f_created st |}).
           apply (create_path rg st1 name (rn_type rn) (rn_help rn) labels now ttl upd v (rn_vecs rn) (rn_metrics rn)
                    (vc_bounds v, vc_objs v, vc_max_age v)).
           ++ apply (Sim_ext rg st); auto.
           ++ assumption.
           ++ rewrite Hnf. auto.
           ++ exact Hrm.
           ++ right. split; [exact Hvf|reflexivity].
        -- rewrite Hv. cbv beta iota. cbn [andb rg_names rg_created].
           destruct (new_vec_panics (rn_type rn) names); [reflexivity|]. rewrite Hnf.
           repeat rewrite (nonempty_match _ _ Hh).
           set (st1 := {| f_claim := f_claim st; f_shape := f_shape st; f_series := f_series st;
                          f_created := bump_created (rn_type rn) (f_created st) |}).
           set (rg1 := {| rg_names := rg_names rg; rg_created := bump_created (rn_type rn) (rg_created rg) |}).
           set (opts := (match rn_type rn with MHistogram => hist_buckets_for d rule_ | _ => [] end,
                         match rn_type rn with MSummary => summ_objs_for d rule_ | _ => [] end,
                         match rn_type rn with MSummary => summ_max_age_for d rule_ | _ => 0%Z end)).
           apply (create_path rg1 st1 name (rn_type rn) (rn_help rn) labels now ttl upd _ (rn_vecs rn) (rn_metrics rn) opts).
           ++ apply (Sim_ext rg st); auto. cbn. now rewrite Hcr.
           ++ assumption.
           ++ cbn [rg1 rg_names]. rewrite Hnf. auto.
           ++ exact Hrm.
           ++ left. split; [exact Hvf|reflexivity].
    + destruct (f_series st name names values); cbv beta iota; cbn [negb];
        (exists st; split; [reflexivity|assumption]).
  - destruct Hn as (Hcl & Hsh & Hser). rewrite Hcl, Hsh. cbv beta iota. cbn [andb rg_names rg_created].
    destruct (f_collision st name t); [exists st; split; [reflexivity|assumption]|].
    destruct (new_vec_panics t names); [reflexivity|]. rewrite Hnf. cbn [rn_type rn_help rn_vecs rn_metrics].
    set (st1 := {| f_claim := f_claim st; f_shape := f_shape st; f_series := f_series st;
                   f_created := bump_created t (f_created st) |}).
    set (rg1 := {| rg_names := rg_names rg; rg_created := bump_created t (rg_created rg) |}).
    set (opts := (match t with MHistogram => hist_buckets_for d rule_ | _ => [] end,
                  match t with MSummary => summ_objs_for d rule_ | _ => [] end,
                  match t with MSummary => summ_max_age_for d rule_ | _ => 0%Z end)).
    apply (create_path rg1 st1 name t help labels now ttl upd _ [] [] opts).
    + apply (Sim_ext rg st); auto. cbn. now rewrite Hcr.
    + assumption.
    + cbn [rg1 rg_names]. rewrite Hnf. auto.
    + reflexivity.
    + left. split; reflexivity.
Qed.

(* ---------- the sweep ---------- *)
Definition stale (now : Z) (e : (list bytes * list bytes) * rmetric) : bool :=
  negb (rm_ttl (snd e) =? 0)%Z && (rm_last (snd e) + rm_ttl (snd e) <? now)%Z.

Definition sweep_stepf (now : Z) (vs : list (list bytes * vec)) (e : (list bytes * list bytes) * rmetric) :=
  if stale now e then
    match vecs_find (rm_veckey (snd e)) vs with
    | Some v => vecs_set (rm_veckey (snd e)) (vec_delete v (rm_labels (snd e))) vs
    | None => vs
    end
  else vs.

Lemma sweep_name_spec now rn :
  sweep_name now rn =
  {| rn_type := rn_type rn; rn_help := rn_help rn;
     rn_vecs := fold_left (sweep_stepf now) (rn_metrics rn) (rn_vecs rn);
     rn_metrics := filter (fun e => negb (stale now e)) (rn_metrics rn) |}.
Proof. reflexivity. Qed.

Definition same_meta (v1 v : vec) : Prop :=
  vc_names v1 = vc_names v /\ vc_help v1 = vc_help v /\ vc_type v1 = vc_type v /\
  vc_bounds v1 = vc_bounds v /\ vc_objs v1 = vc_objs v /\ vc_max_age v1 = vc_max_age v.

Lemma same_meta_refl v : same_meta v v.
Proof. repeat split. Qed.

Lemma same_meta_trans a b c : same_meta a b -> same_meta b c -> same_meta a c.
Proof. unfold same_meta. intuition congruence. Qed.

Definition entry_ok (e : (list bytes * list bytes) * rmetric) : Prop :=
  rm_veckey (snd e) = fst (fst e) /\ lm_keys (rm_labels (snd e)) = fst (fst e) /\
  lm_vals (rm_labels (snd e)) = snd (fst e).

Definition vecs_wf (vecs : list (list bytes * vec)) : Prop :=
  forall ks v, vecs_find ks vecs = Some v -> vc_names v = ks /\ NoDup (map fst (vc_children v)).

(* vecs1 is vecs with some children removed, as told by [gone] *)
Definition shrunk (gone : list bytes -> list bytes -> bool) (vecs vecs1 : list (list bytes * vec)) : Prop :=
  map fst vecs1 = map fst vecs /\
  forall ks, match vecs_find ks vecs with
    | None => vecs_find ks vecs1 = None
    | Some v => exists v1, vecs_find ks vecs1 = Some v1 /\ same_meta v1 v /\ NoDup (map fst (vc_children v1)) /\
        forall vs, child_find vs (vc_children v1) = if gone ks vs then None else child_find vs (vc_children v)
    end.

Lemma sweep_one now vecs e : entry_ok e -> vecs_wf vecs ->
  shrunk (fun ks vs => stale now e && key2_eqb (ks, vs) (fst e)) vecs (sweep_stepf now vecs e).
Proof.
  intros (He1 & He2 & He3) Hwf. unfold sweep_stepf.
  destruct (stale now e) eqn:Hst.
  2:{ split; [reflexivity|]. intros ks. destruct (vecs_find ks vecs) as [v|] eqn:Hf; [|reflexivity].
      exists v. split; [reflexivity|]. split; [apply same_meta_refl|]. split; [eapply Hwf; eassumption|].
      reflexivity. }
  rewrite He1. destruct e as [[ke ve] rm]. cbn [fst snd] in *.
  destruct (vecs_find ke vecs) as [v_e|] eqn:Hfe.
  - destruct (Hwf _ _ Hfe) as (Hn & Hnd). rewrite vec_delete_spec, He2, Hn, lbe_refl, He3. split.
    + rewrite vecs_set_a. rewrite vecs_find_a in Hfe. eapply keys_aset_present; [apply lbe_eq|eassumption].
    + intros ks. rewrite vecs_find_set. unfold key2_eqb. cbn [fst snd andb].
      destruct (list_bytes_eqb' ks ke) eqn:E.
      * apply lbe_eq in E. subst ks. rewrite Hfe. eexists. split; [reflexivity|].
        split; [repeat split|]. unfold set_children; cbn [vc_children]. split; [now apply NoDup_child_del|].
        intros vs. now apply child_find_del.
      * destruct (vecs_find ks vecs) as [v|] eqn:Hf; [|reflexivity].
        exists v. split; [reflexivity|]. split; [apply same_meta_refl|]. split; [eapply Hwf; eassumption|].
        reflexivity.
  - split; [reflexivity|]. intros ks. destruct (vecs_find ks vecs) as [v|] eqn:Hf; [|reflexivity].
    exists v. split; [reflexivity|]. split; [apply same_meta_refl|]. split; [eapply Hwf; eassumption|].
    intros vs. unfold key2_eqb. cbn [fst snd andb].
    destruct (list_bytes_eqb' ks ke) eqn:E; [|reflexivity]. apply lbe_eq in E. subst ks. congruence.
Qed.

Lemma shrunk_wf gone vecs vecs1 : vecs_wf vecs -> shrunk gone vecs vecs1 -> vecs_wf vecs1.
Proof.
  intros Hwf (_ & Hs) ks v1 Hf1. specialize (Hs ks). destruct (vecs_find ks vecs) as [v|] eqn:Hf.
  - destruct Hs as (v1' & Hf1' & Hm & Hnd & _). rewrite Hf1 in Hf1'. inversion Hf1'; subst v1'.
    split; [|assumption]. destruct Hm as (-> & _). eapply Hwf; eassumption.
  - congruence.
Qed.

Lemma sweep_fold_spec now ms : forall vecs, (forall e, In e ms -> entry_ok e) -> vecs_wf vecs ->
  shrunk (fun ks vs => existsb (fun e => stale now e && key2_eqb (ks, vs) (fst e)) ms)
         vecs (fold_left (sweep_stepf now) ms vecs).
Proof.
  induction ms as [|e ms IH]; intros vecs Hent Hwf.
  - simpl. split; [reflexivity|]. intros ks. destruct (vecs_find ks vecs) as [v|] eqn:Hf; [|reflexivity].
    exists v. split; [reflexivity|]. split; [apply same_meta_refl|]. split; [eapply Hwf; eassumption|]. reflexivity.
  - cbn [fold_left].
    pose proof (sweep_one now vecs e (Hent e (or_introl eq_refl)) Hwf) as H1.
    pose proof (shrunk_wf _ _ _ Hwf H1) as Hwf1.
    pose proof (IH (sweep_stepf now vecs e) (fun e' He' => Hent e' (or_intror He')) Hwf1) as H2.
    destruct H1 as (Hk1 & Hs1). destruct H2 as (Hk2 & Hs2). split; [congruence|].
    intros ks. specialize (Hs1 ks). specialize (Hs2 ks).
    destruct (vecs_find ks vecs) as [v|] eqn:Hf.
    + destruct Hs1 as (v1 & Hf1 & Hm1 & Hnd1 & Hc1). rewrite Hf1 in Hs2.
      destruct Hs2 as (v2 & Hf2 & Hm2 & Hnd2 & Hc2). exists v2. split; [assumption|].
      split; [eapply same_meta_trans; eassumption|]. split; [assumption|].
      intros vs. rewrite Hc2, Hc1. cbn [existsb].
      destruct (stale now e && key2_eqb (ks, vs) (fst e)); cbn [orb]; [|reflexivity].
      destruct (existsb _ ms); reflexivity.
    + rewrite Hs1 in Hs2. assumption.
Qed.

Lemma existsb_stale_absent now k ms : ~ In k (map fst ms) ->
  existsb (fun e => stale now e && key2_eqb k (fst e)) ms = false.
Proof.
  induction ms as [|[k0 rm0] ms IH]; simpl; intros H; [reflexivity|].
  rewrite IH by tauto. destruct (key2_eqb k k0) eqn:E.
  - apply key2_eq in E. subst. tauto.
  - now rewrite andb_false_r.
Qed.

Lemma existsb_stale_find now k ms : NoDup (map fst ms) ->
  existsb (fun e => stale now e && key2_eqb k (fst e)) ms =
  match rm_find k ms with Some rm => stale now (k, rm) | None => false end.
Proof.
  induction ms as [|[k0 rm0] ms IH]; simpl; intros H; [reflexivity|]. inversion H; subst.
  destruct (key2_eqb k k0) eqn:E.
  - apply key2_eq in E. subst k0. rewrite existsb_stale_absent by assumption.
    rewrite andb_true_r, orb_false_r. reflexivity.
  - rewrite andb_false_r. cbn [orb]. auto.
Qed.

Lemma sweep_RnOK st now n rn : RnOK st n rn -> RnOK (f_sweep st now) n (sweep_name now rn).
Proof.
  intros (Hh & Hcl & Hnd1 & Hnd2 & Hvec & Hmet). rewrite sweep_name_spec.
  assert (Hent : forall e, In e (rn_metrics rn) -> entry_ok e).
  { intros [[ks vs] rm] Hin. apply (In_afind key2_eqb key2_eq) in Hin; [|assumption]. rewrite <- rm_find_a in Hin.
    specialize (Hmet ks vs). rewrite Hin in Hmet. destruct Hmet as (_ & _ & _ & _ & _ & H). exact H. }
  assert (Hwf : vecs_wf (rn_vecs rn)).
  { intros ks v Hf. specialize (Hvec ks). rewrite Hf in Hvec. split; apply Hvec. }
  destruct (sweep_fold_spec now (rn_metrics rn) (rn_vecs rn) Hent Hwf) as (Hkeys & Hsh).
  split; [assumption|]. cbn [rn_type rn_help rn_vecs rn_metrics f_claim f_sweep]. split; [assumption|].
  split; [rewrite Hkeys; assumption|]. split; [now apply NoDup_filter_keys|]. split.
  - intros ks. specialize (Hsh ks). specialize (Hvec ks). unfold f_sweep; cbn [f_shape].
    destruct (vecs_find ks (rn_vecs rn)) as [v|].
    + destruct Hsh as (v1 & -> & (M1 & M2 & M3 & M4 & M5 & M6) & Hnd & _).
      rewrite M1, M2, M3, M4, M5, M6. destruct Hvec as (? & ? & ? & ? & ?). repeat split; assumption.
    + rewrite Hsh. assumption.
  - intros ks vs. specialize (Hsh ks). specialize (Hmet ks vs). unfold f_sweep; cbn [f_series].
    rewrite rm_find_a, (afind_filter key2_eqb key2_eq) by assumption. rewrite <- rm_find_a.
    pose proof (existsb_stale_find now (ks, vs) (rn_metrics rn) Hnd2) as Hex.
    destruct (rm_find (ks, vs) (rn_metrics rn)) as [rm|].
    + destruct Hmet as (v & val & Hf & Hc & Hs & Hk). rewrite Hs. cbn [fv_ttl fv_last].
      rewrite Hf in Hsh. destruct Hsh as (v1 & Hf1 & _ & _ & Hc1).
      change (negb (rm_ttl rm =? 0)%Z && (rm_last rm + rm_ttl rm <? now)%Z) with (stale now (ks, vs, rm)).
      destruct (stale now (ks, vs, rm)) eqn:Hst; cbn [negb].
      * split; [reflexivity|]. intros v' Hf'. rewrite Hf1 in Hf'. inversion Hf'; subst v'.
        rewrite Hc1, Hex. reflexivity.
      * exists v1, val. rewrite Hc1, Hex. repeat split; try assumption; apply Hk.
    + destruct Hmet as (Hs & Hc). rewrite Hs. split; [reflexivity|]. intros v1 Hf1.
      destruct (vecs_find ks (rn_vecs rn)) as [v|] eqn:Hf.
      * destruct Hsh as (v1' & Hf1' & _ & _ & Hc1). rewrite Hf1 in Hf1'. inversion Hf1'; subst v1'.
        rewrite Hc1, Hex. now apply Hc.
      * congruence.
Qed.

Lemma sweep_Sim rg st now : Sim rg st -> Sim (remove_stale rg now) (f_sweep st now).
Proof.
  intros (Hcr & Hnd & Hn). split; [assumption|]. unfold remove_stale. cbn [rg_names].
  split; [now rewrite keys_mapv|]. intros n. rewrite name_find_a, afind_mapv, <- name_find_a.
  specialize (Hn n). destruct (name_find n (rg_names rg)) as [rn|]; cbn [option_map].
  - now apply sweep_RnOK.
  - destruct Hn as (H1 & H2 & H3). split; [assumption|]. split; [assumption|].
    intros ks vs. cbn. now rewrite H3.
Qed.

(* ---------- help strings produced by classify are never empty ---------- *)
Lemma default_help_nonempty : default_help <> [].
Proof. Local Transparent default_help. unfold default_help. discriminate. Local Opaque default_help. Qed.

Lemma classify_help d tel e mapped tel1 t name labels help ttl rule_ upd :
  classify d tel e mapped = DUpdate tel1 t name labels help ttl rule_ upd -> help <> [].
Proof.
  unfold classify.
  set (h := match mapped with
            | Some (r, _, _) => match ru_help r with [] => default_help | b :: l => b :: l end
            | None => default_help end).
  assert (Hh : h <> []).
  { subst h. destruct mapped as [[[r nm] ls]|]; [|apply default_help_nonempty].
    destruct (ru_help r); [apply default_help_nonempty|discriminate]. }
  clearbody h.
  repeat match goal with
  | |- DDone _ = _ -> _ => discriminate
  | |- DUpdate _ _ _ _ _ _ _ _ = _ -> _ => let H := fresh in intros H; inversion H; subst; exact Hh
  | |- context [match ?x with _ => _ end] =>
      match x with
      | context [match _ with _ => _ end] => fail 1
      | _ => destruct x
      end
  end.
Qed.

(* ---------- the two machines in lock step ---------- *)
Definition SimX (x : exporter) (fx : fexporter) : Prop :=
  Sim (x_registry x) (fx_state fx) /\ x_tel x = fx_tel fx.

Lemma step_sim x fx o : SimX x fx ->
  match reg_step x o, flat_step fx o with
  | Some x', Some fx' => SimX x' fx'
  | None, None => True
  | _, _ => False
  end.
Proof.
  intros (Hsim & Htel). destruct o as [d now e mapped|now].
  - unfold reg_step, flat_step, handle_event. rewrite Htel.
    destruct (classify d (fx_tel fx) e mapped) as [tel|tel1 t name labels help ttl rule_ upd] eqn:Hc.
    + split; [exact Hsim|reflexivity].
    + pose proof (event_step (x_registry x) (fx_state fx) d rule_ now t name labels help ttl upd Hsim
                    (classify_help _ _ _ _ _ _ _ _ _ _ _ _ Hc)) as HR.
      unfold R in HR.
      destruct (get_series (x_registry x) d rule_ now t name labels help ttl) as [rg' n vk vals|rg'|].
      * destruct (update_series rg' n vk vals upd) as [rg''|].
        -- destruct HR as (st' & -> & Hs). split; [exact Hs|reflexivity].
        -- rewrite HR. exact I.
      * destruct HR as (st' & -> & Hs). split; [exact Hs|reflexivity].
      * rewrite HR. exact I.
  - cbn [reg_step flat_step]. split; [|exact Htel]. cbn [x_registry fx_state]. now apply sweep_Sim.
Qed.

Lemma run_sim ops : forall x fx, SimX x fx ->
  match reg_run x ops, flat_run fx ops with
  | Some x', Some fx' => SimX x' fx'
  | None, None => True
  | _, _ => False
  end.
Proof.
  induction ops as [|o ops IH]; intros x fx H.
  - exact H.
  - cbn [reg_run flat_run]. pose proof (step_sim x fx o H) as Hs.
    destruct (reg_step x o) as [x'|], (flat_step fx o) as [fx'|]; try contradiction.
    + now apply IH.
    + exact I.
Qed.

Lemma SimX0 : SimX x0 fx0.
Proof. split; [apply Sim_empty|reflexivity]. Qed.

Lemma Sim_lookup rg st name names values : Sim rg st ->
  reg_lookup rg name names values = flat_lookup st name names values.
Proof.
  intros (_ & _ & Hn). specialize (Hn name). unfold reg_lookup, flat_lookup.
  destruct (name_find name (rg_names rg)) as [rn|].
  - destruct Hn as (_ & Hcl & _ & _ & Hvec & Hmet). specialize (Hmet names values). rewrite Hcl.
    destruct (rm_find (names, values) (rn_metrics rn)) as [rm|].
    + destruct Hmet as (v & val & Hf & Hc & Hs & _). rewrite Hf, Hc, Hs. cbn.
      specialize (Hvec names). rewrite Hf in Hvec. destruct Hvec as (_ & _ & _ & -> & _). reflexivity.
    + destruct Hmet as (-> & _). reflexivity.
  - destruct Hn as (_ & _ & ->). reflexivity.
Qed.

Lemma registry_refines_flat_ok : stmt_registry_refines_flat.
Proof.
  intros ops. pose proof (run_sim ops x0 fx0 SimX0) as H.
  destruct (reg_run x0 ops) as [x|], (flat_run fx0 ops) as [fx|]; try exact H.
  destruct H as (Hsim & Htel). split; [|split; [exact Htel|split]].
  - intros. now apply Sim_lookup.
  - apply Hsim.
  - intros name. rewrite (claim_corr _ _ Hsim). destruct (name_find name _); reflexivity.
Qed.

(* ---------- the scrape ---------- *)
Lemma combine_fst_snd {A B} (l : list A) (l' : list B) : length l = length l' ->
  map fst (combine l l') = l /\ map snd (combine l l') = l'.
Proof.
  revert l'; induction l as [|a l IH]; intros [|b l'] H; try discriminate; simpl.
  - split; reflexivity.
  - injection H as H. destruct (IH l' H) as (-> & ->). split; reflexivity.
Qed.

Lemma Sim_In rg st n rn ks v vs val : Sim rg st ->
  In (n, rn) (rg_names rg) -> In (ks, v) (rn_vecs rn) -> In (vs, val) (vc_children v) ->
  name_find n (rg_names rg) = Some rn /\ vecs_find ks (rn_vecs rn) = Some v /\
  child_find vs (vc_children v) = Some val /\ vc_names v = ks /\ vc_type v = rn_type rn /\
  length ks = length vs /\ exists rm, rm_find (ks, vs) (rn_metrics rn) = Some rm.
Proof.
  intros (_ & Hnd & Hn) H1 H2 H3.
  apply (In_afind bytes_eqb bytes_eqb_eq) in H1; [|assumption]. rewrite <- name_find_a in H1.
  specialize (Hn n). rewrite H1 in Hn. destruct Hn as (_ & _ & Hnd1 & _ & Hvec & Hmet).
  apply (In_afind list_bytes_eqb' lbe_eq) in H2; [|assumption]. rewrite <- vecs_find_a in H2.
  specialize (Hvec ks). rewrite H2 in Hvec. destruct Hvec as (_ & Hv1 & Hv2 & _ & Hnd2).
  apply (In_afind list_bytes_eqb' lbe_eq) in H3; [|assumption]. rewrite <- child_find_a in H3.
  specialize (Hmet ks vs). destruct (rm_find (ks, vs) (rn_metrics rn)) as [rm|].
  - destruct Hmet as (_ & _ & _ & _ & _ & _ & Hk & Hl). repeat split; try assumption.
    + rewrite <- Hk at 1. rewrite <- Hl. unfold lm_keys, lm_vals. now rewrite !map_length.
    + now exists rm.
  - destruct Hmet as (_ & Hc). rewrite (Hc v H2) in H3. discriminate.
Qed.

Lemma in_registry_samples rg s :
  In s (registry_samples rg) <->
  exists n rn ks v vs val, In (n, rn) (rg_names rg) /\ In (ks, v) (rn_vecs rn) /\ In (vs, val) (vc_children v) /\
    s = {| sm_name := n; sm_help := vc_help v; sm_type := vc_type v;
           sm_labels := combine (vc_names v) vs; sm_value := val |}.
Proof.
  unfold registry_samples, samples_of_vec. rewrite in_flat_map. split.
  - intros ([n rn] & H1 & H). rewrite in_flat_map in H. destruct H as ([ks v] & H2 & H).
    rewrite in_map_iff in H. destruct H as ([vs val] & <- & H3). now exists n, rn, ks, v, vs, val.
  - intros (n & rn & ks & v & vs & val & H1 & H2 & H3 & ->). exists (n, rn). split; [assumption|].
    rewrite in_flat_map. exists (ks, v). split; [assumption|]. rewrite in_map_iff. now exists (vs, val).
Qed.

Lemma sample_key_eqb_eq a b : sample_key_eqb a b = true <-> a = b.
Proof.
  revert b; induction a as [|[k v] a IH]; intros [|[k' v'] b]; simpl; split; intros H;
    try reflexivity; try discriminate.
  - rewrite !andb_true_iff in H. destruct H as ((H1 & H2) & H3).
    apply bytes_eqb_eq in H1, H2. apply IH in H3. congruence.
  - inversion H; subst. rewrite !bytes_eqb_refl. simpl. now apply IH.
Qed.

Definition skey (s : sample) : bytes * list (bytes * bytes) := (sm_name s, sm_labels s).

Lemma no_dup_series_NoDup l : NoDup (map skey l) -> no_dup_series l = true.
Proof.
  induction l as [|s r IH]; simpl; intros H; [reflexivity|]. inversion H; subst.
  rewrite IH by assumption. rewrite andb_true_r. apply negb_true_iff.
  destruct (existsb _ r) eqn:E; [|reflexivity]. exfalso. apply H2.
  apply existsb_exists in E. destruct E as (o & Hin & Ho). apply andb_true_iff in Ho as (Ho1 & Ho2).
  apply bytes_eqb_eq in Ho1. apply sample_key_eqb_eq in Ho2. apply in_map_iff. exists o.
  split; [|assumption]. unfold skey. congruence.
Qed.

Lemma NoDup_app' {A} (a b : list A) : NoDup a -> NoDup b -> (forall x, In x a -> ~ In x b) -> NoDup (a ++ b).
Proof.
  induction a as [|x a IH]; simpl; intros Ha Hb Hd; [assumption|]. inversion Ha; subst. constructor.
  - rewrite in_app_iff. intros [H|H]; [contradiction|]. apply (Hd x); auto.
  - apply IH; auto.
Qed.

Lemma NoDup_flat_map_tag {A B C} (f : A -> list B) (k : A -> C) (g : B -> C) l :
  NoDup (map k l) -> (forall x, In x l -> NoDup (f x)) -> (forall x b, In x l -> In b (f x) -> g b = k x) ->
  NoDup (flat_map f l).
Proof.
  induction l as [|a l IH]; simpl; intros Hk Hf Hg; [constructor|]. inversion Hk; subst.
  apply NoDup_app'.
  - apply Hf. now left.
  - apply IH; auto.
  - intros b Hb1 Hb2. apply in_flat_map in Hb2. destruct Hb2 as (x & Hx & Hbx). apply H1.
    apply in_map_iff. exists x. split; [|assumption]. rewrite <- (Hg x b) by auto. apply Hg; auto.
Qed.

Lemma NoDup_map_inj_on {A B C} (h : A -> B) (k : A -> C) l :
  NoDup (map k l) -> (forall x y, In x l -> In y l -> h x = h y -> k x = k y) -> NoDup (map h l).
Proof.
  induction l as [|a l IH]; simpl; intros Hk Hinj; [constructor|]. inversion Hk; subst. constructor.
  - intros Hin. apply in_map_iff in Hin. destruct Hin as (y & Hy & Hiny). apply H1.
    apply in_map_iff. exists y. split; [|assumption]. apply Hinj; auto.
  - apply IH; auto.
Qed.

Lemma map_flat_map {A B C} (g : B -> C) (f : A -> list B) l :
  map g (flat_map f l) = flat_map (fun x => map g (f x)) l.
Proof. induction l as [|a l IH]; simpl; [reflexivity|]. now rewrite map_app, IH. Qed.

Lemma Sim_samples_nodup rg st : Sim rg st -> no_dup_series (registry_samples rg) = true.
Proof.
  intros Hsim. apply no_dup_series_NoDup. unfold registry_samples. rewrite map_flat_map.
  apply NoDup_flat_map_tag with (k := fst) (g := fst).
  - apply Hsim.
  - intros [n rn] Hin1. cbn [fst snd]. rewrite map_flat_map.
    assert (Hndv : NoDup (map fst (rn_vecs rn))).
    { destruct Hsim as (_ & Hnd & Hn). apply (In_afind bytes_eqb bytes_eqb_eq) in Hin1; [|assumption].
      rewrite <- name_find_a in Hin1. specialize (Hn n). rewrite Hin1 in Hn. apply Hn. }
    apply NoDup_flat_map_tag with (k := fst) (g := fun key => map fst (snd key)).
    + exact Hndv.
    + intros [ks v] Hin2. cbn [fst snd]. unfold samples_of_vec. rewrite map_map. unfold skey. cbn [sm_name sm_labels].
      assert (Hndc : NoDup (map fst (vc_children v))).
      { destruct Hsim as (_ & Hnd & Hn). apply (In_afind bytes_eqb bytes_eqb_eq) in Hin1; [|assumption].
        rewrite <- name_find_a in Hin1. specialize (Hn n). rewrite Hin1 in Hn.
        destruct Hn as (_ & _ & _ & _ & Hvec & _).
        apply (In_afind list_bytes_eqb' lbe_eq) in Hin2; [|assumption]. rewrite <- vecs_find_a in Hin2.
        specialize (Hvec ks). rewrite Hin2 in Hvec. apply Hvec. }
      apply NoDup_map_inj_on with (k := fst); [exact Hndc|].
      intros [vs val] [vs' val'] Hx Hy Heq. cbn [fst] in *.
      destruct (Sim_In _ _ _ _ _ _ _ _ Hsim Hin1 Hin2 Hx) as (_ & _ & _ & Hn1 & _ & Hl1 & _).
      destruct (Sim_In _ _ _ _ _ _ _ _ Hsim Hin1 Hin2 Hy) as (_ & _ & _ & _ & _ & Hl2 & _).
      rewrite Hn1 in Heq. inversion Heq as [Hc].
      rewrite <- (proj2 (combine_fst_snd ks vs Hl1)), Hc. apply combine_fst_snd, Hl2.
    + intros [ks v] b Hin2 Hb. cbn [fst snd] in *. apply in_map_iff in Hb. destruct Hb as (s & <- & Hs).
      unfold samples_of_vec in Hs. apply in_map_iff in Hs. destruct Hs as ([vs val] & <- & Hin3).
      unfold skey. cbn [fst snd sm_labels].
      destruct (Sim_In _ _ _ _ _ _ _ _ Hsim Hin1 Hin2 Hin3) as (_ & _ & _ & Hn1 & _ & Hl1 & _).
      rewrite Hn1. apply combine_fst_snd, Hl1.
  - intros [n rn] b Hin1 Hb. cbn [fst snd] in *. apply in_map_iff in Hb. destruct Hb as (s & <- & Hs).
    apply in_flat_map in Hs. destruct Hs as ([ks v] & _ & Hs). unfold samples_of_vec in Hs.
    apply in_map_iff in Hs. destruct Hs as (kv & <- & _). reflexivity.
Qed.

Lemma samples_are_lookups_ok : stmt_samples_are_lookups.
Proof.
  intros ops x Hrun. pose proof (run_sim ops x0 fx0 SimX0) as H. rewrite Hrun in H.
  destruct (flat_run fx0 ops) as [fx|]; [|contradiction]. destruct H as (Hsim & _).
  cbv zeta. split; [|split].
  - intros s Hs. apply in_registry_samples in Hs.
    destruct Hs as (n & rn & ks & v & vs & val & H1 & H2 & H3 & ->). cbn [sm_name sm_labels sm_type sm_help sm_value].
    destruct (Sim_In _ _ _ _ _ _ _ _ Hsim H1 H2 H3) as (F1 & F2 & F3 & F4 & F5 & F6 & rm & F7).
    rewrite F4. destruct (combine_fst_snd ks vs F6) as (-> & ->).
    exists (rm_last rm), (rm_ttl rm). unfold reg_lookup. rewrite F1, F7, F2, F3, F5. reflexivity.
  - intros name names values t h v last ttl Hl _. unfold reg_lookup in Hl.
    destruct (name_find name (rg_names (x_registry x))) as [rn|] eqn:F1; [|discriminate].
    destruct (rm_find (names, values) (rn_metrics rn)) as [rm|] eqn:F7; [|discriminate].
    destruct (vecs_find names (rn_vecs rn)) as [vec|] eqn:F2; [|discriminate].
    destruct (child_find values (vc_children vec)) as [val|] eqn:F3; [|discriminate].
    inversion Hl; subst; clear Hl.
    destruct Hsim as (_ & _ & Hn). specialize (Hn name). rewrite F1 in Hn.
    destruct Hn as (_ & _ & _ & _ & Hvec & _). specialize (Hvec names). rewrite F2 in Hvec.
    destruct Hvec as (_ & Hv1 & Hv2 & _).
    apply in_registry_samples. exists name, rn, names, vec, values, v.
    rewrite name_find_a in F1. apply afind_In in F1; [|apply bytes_eqb_eq].
    rewrite vecs_find_a in F2. apply afind_In in F2; [|apply lbe_eq].
    rewrite child_find_a in F3. apply afind_In in F3; [|apply lbe_eq].
    repeat split; try assumption. rewrite Hv1, Hv2. reflexivity.
  - now apply Sim_samples_nodup with (st := fx_state fx).
Qed.
