From SE Require Import Spec.ExpositionSpec Proofs.SeriesLemmas.
From Coq Require Import Lia.

Lemma gather_ok_sample all s : gather_ok all = true -> In s all -> sample_ok all s = true.
Proof.
  unfold gather_ok. intros H Hin. apply andb_true_iff in H as [H _].
  rewrite forallb_forall in H. now apply H.
Qed.

Lemma sample_ok_parts all s : sample_ok all s = true ->
  metric_name_valid (sm_name s) = true /\
  forallb (fun kv => label_name_valid (fst kv) && valid_string (snd kv)) (sm_labels s) = true /\
  has_dup_names (sm_labels s) = false /\
  forallb (fun o => negb (bytes_eqb (sm_name o) (sm_name s)) ||
                    (bytes_eqb (sm_help o) (sm_help s) && mtype_eqb (sm_type o) (sm_type s))) all = true /\
  suffix_collision all s = false.
Proof.
  unfold sample_ok. intros H.
  repeat (apply andb_true_iff in H as [H ?]).
  repeat match goal with X : negb _ = true |- _ => apply negb_true_iff in X end.
  repeat split; assumption.
Qed.

Lemma gather_ok_names_legal_ok : stmt_gather_ok_names_legal.
Proof.
  intros all s H Hin. destruct (sample_ok_parts _ _ (gather_ok_sample _ _ H Hin)) as (A & B & C & _ & _).
  split; [exact A|]. split; [|exact C].
  intros k v Hkv. rewrite forallb_forall in B. specialize (B _ Hkv). cbn [fst snd] in B.
  now apply andb_true_iff in B.
Qed.

Lemma gather_ok_one_help_one_type_ok : stmt_gather_ok_one_help_one_type.
Proof.
  intros all s o H Hs Ho Hn. destruct (sample_ok_parts _ _ (gather_ok_sample _ _ H Hs)) as (_ & _ & _ & D & _).
  rewrite forallb_forall in D. specialize (D _ Ho).
  rewrite <- Hn, bytes_eqb_refl in D. cbn in D.
  apply andb_true_iff in D as [D1 D2]. apply bytes_eqb_eq in D1. apply mtype_eqb_eq in D2.
  split; congruence.
Qed.

Lemma sample_key_eqb_refl l : sample_key_eqb l l = true.
Proof. induction l as [|[k v] l IH]; cbn; [reflexivity|]. now rewrite !bytes_eqb_refl, IH. Qed.

Lemma no_dup_series_nth all : no_dup_series all = true ->
  forall i j s o, i < j -> nth_error all i = Some s -> nth_error all j = Some o ->
  ~ (sm_name s = sm_name o /\ sm_labels s = sm_labels o).
Proof.
  induction all as [|x r IH]; intros H i j s o Hij Hi Hj [E1 E2].
  - destruct i; discriminate.
  - cbn [no_dup_series] in H. apply andb_true_iff in H as [H1 H2]. apply negb_true_iff in H1.
    destruct j as [|j]; [lia|]. cbn [nth_error] in Hj.
    destruct i as [|i].
    + cbn [nth_error] in Hi. inversion Hi; subst x.
      assert (X : existsb (fun o0 => bytes_eqb (sm_name o0) (sm_name s) && sample_key_eqb (sm_labels o0) (sm_labels s)) r = true).
      { apply existsb_exists. exists o. split; [eapply nth_error_In; exact Hj|].
        rewrite <- E1, <- E2, bytes_eqb_refl, sample_key_eqb_refl. reflexivity. }
      congruence.
    + cbn [nth_error] in Hi. apply (IH H2 i j s o); [lia | assumption | assumption | now split].
Qed.

Lemma gather_ok_series_distinct_ok : stmt_gather_ok_series_distinct.
Proof.
  intros all i j s o H Hi Hj Hij. unfold gather_ok in H. apply andb_true_iff in H as [_ H].
  destruct (Nat.lt_ge_cases i j) as [L|L].
  - now apply (no_dup_series_nth all H i j s o).
  - intros [E1 E2]. apply (no_dup_series_nth all H j i o s); [lia | assumption | assumption | now split].
Qed.

Lemma fam_type_in all o : In o all -> fam_type (sm_name o) all <> None.
Proof.
  induction all as [|x r IH]; intros Hin; [contradiction|]. cbn [fam_type].
  destruct (bytes_eqb (sm_name x) (sm_name o)) eqn:E; [discriminate|].
  destruct Hin as [->|Hin]; [now rewrite bytes_eqb_refl in E | now apply IH].
Qed.

Lemma opt_some_false {A} (x : option A) : opt_some x = false -> x = None.
Proof. destruct x; [discriminate|reflexivity]. Qed.

Lemma gather_ok_no_companion_clash_ok : stmt_gather_ok_no_companion_clash.
Proof.
  intros all s o H Hs Ho Ht. destruct (sample_ok_parts _ _ (gather_ok_sample _ _ H Hs)) as (_ & _ & _ & _ & E).
  unfold suffix_collision in E.
  apply orb_false_iff in E as [_ E].
  pose proof (fam_type_in all o Ho) as Hf.
  destruct Ht as [Ht|Ht]; rewrite Ht in E.
  - apply orb_false_iff in E as [E E3]. apply orb_false_iff in E as [E1 E2].
    apply opt_some_false in E1, E2, E3.
    split; [|split]; [| |intros _]; intros Hn; rewrite Hn in Hf; contradiction.
  - apply orb_false_iff in E as [E1 E2]. apply opt_some_false in E1, E2.
    split; [|split]; [| |intros Hh; rewrite Ht in Hh; discriminate]; intros Hn; rewrite Hn in Hf; contradiction.
Qed.
