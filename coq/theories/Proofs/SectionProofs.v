(* Proofs of Spec/SectionSpec.v: critical sections of the reader/writer-lock semantics are not
   interleaved at the level of traces. *)
From SE Require Import Spec.SectionSpec.
From Coq Require Import List String Bool Arith.
Import ListNotations.
Open Scope list_scope.

Lemma lrun_app : forall a b s,
  lrun s (a ++ b) = match lrun s a with Some s' => lrun s' b | None => None end.
Proof.
  induction a as [|[t x] a IH]; intros b s; cbn.
  - reflexivity.
  - destruct (lstep s t x) as [s1|]; [apply IH|reflexivity].
Qed.

(* releasing (l', t') keeps every entry that is not one of (l', t') *)
Lemma release_keeps : forall l' t' s s' l t1 x,
  release l' t' s = Some s' -> In (l, t1, x) s -> (l' <> l \/ t' <> t1) -> In (l, t1, x) s'.
Proof.
  intros l' t' s. induction s as [|[[l0 t0] e0] r IH]; intros s' l t1 x R I N; cbn in R.
  - discriminate.
  - destruct (String.eqb_spec l' l0) as [El|El]; cbn in R.
    + destruct (Nat.eqb_spec t' t0) as [Et|Et].
      * inversion R; subst. destruct I as [I|I]; [|exact I].
        inversion I; subst. destruct N as [N|N]; exfalso; apply N; reflexivity.
      * destruct (release l' t' r) as [r'|] eqn:E; [|discriminate]. inversion R; subst.
        destruct I as [I|I]; [left; exact I|right; eapply IH; eauto].
    + destruct (release l' t' r) as [r'|] eqn:E; [|discriminate]. inversion R; subst.
      destruct I as [I|I]; [left; exact I|right; eapply IH; eauto].
Qed.

(* an open section stays open as long as its owner does not close it *)
Lemma held_until_released : forall mid s s' l t1 x,
  In (l, t1, x) s -> lrun s mid = Some s' -> ~ In (t1, Rel l) mid -> In (l, t1, x) s'.
Proof.
  induction mid as [|[t a] mid IH]; intros s s' l t1 x I R N; cbn in R.
  - inversion R; subst; exact I.
  - destruct (lstep s t a) as [s1|] eqn:E; [|discriminate].
    apply (IH s1 s' l t1 x); [|exact R|intros K; apply N; right; exact K].
    destruct a as [l0 excl|l0]; cbn in E.
    + destruct (forallb (compatible l0 excl) s); [|discriminate]. inversion E; subst.
      right; exact I.
    + eapply release_keeps; [exact E|exact I|].
      destruct (string_dec l0 l) as [->|Hl]; [|left; exact Hl].
      right. intros ->. apply N. left. reflexivity.
Qed.

Lemma act_eq_dec : forall x y : thread * lact, {x = y} + {x <> y}.
Proof.
  unfold thread. decide equality.
  - decide equality; try apply string_dec; apply Bool.bool_dec.
  - apply Nat.eq_dec.
Qed.

(* the common core: while (l, t1, x) is open, an acquisition of l with mode e is refused unless
   both are shared *)
Lemma section_core : forall before mid after l t1 t2 x e s,
  lrun [] (before ++ (t1, Acq l x) :: mid ++ (t2, Acq l e) :: after) = Some s ->
  x || e = true ->
  In (t1, Rel l) mid.
Proof.
  intros before mid after l t1 t2 x e s R M.
  destruct (in_dec act_eq_dec (t1, Rel l) mid) as [Y|N]; [exact Y|exfalso].
  rewrite lrun_app in R. destruct (lrun [] before) as [s0|]; [|discriminate].
  cbn in R. destruct (forallb (compatible l x) s0); [|discriminate].
  rewrite lrun_app in R.
  destruct (lrun ((l, t1, x) :: s0) mid) as [s1|] eqn:E1; [|discriminate].
  assert (I : In (l, t1, x) s1).
  { apply (held_until_released mid ((l, t1, x) :: s0) s1 l t1 x); [left; reflexivity|exact E1|exact N]. }
  cbn in R. destruct (forallb (compatible l e) s1) eqn:F; [|discriminate].
  rewrite forallb_forall in F. specialize (F _ I).
  destruct (compatible_spec _ _ _ _ _ F eq_refl) as [-> ->]. discriminate.
Qed.

Lemma exclusive_section_uninterrupted_ok : stmt_exclusive_section_uninterrupted.
Proof.
  intros before mid after l t1 t2 e s R _.
  eapply section_core; [exact R|reflexivity].
Qed.

Lemma shared_section_no_writer_ok : stmt_shared_section_no_writer.
Proof.
  intros before mid after l t1 t2 s R _.
  eapply section_core; [exact R|reflexivity].
Qed.

Print Assumptions exclusive_section_uninterrupted_ok.
Print Assumptions shared_section_no_writer_ok.
