From SE Require Import Spec.RelaySpec.
From Coq Require Import ZArith List Lia.
Import ListNotations.

(* ---------- the enqueued form of a line ---------- *)

Definition nl (l : bytes) : bytes := if has_suffix [c_nl] l then l else l ++ [c_nl].

Lemma zlen_app a b : zlen (a ++ b) = (zlen a + zlen b)%Z.
Proof. unfold zlen. rewrite app_length, Nat2Z.inj_add. reflexivity. Qed.

Lemma zlen_nl l : (zlen (nl l) <= zlen l + 1)%Z.
Proof.
  unfold nl. destruct (has_suffix [c_nl] l).
  - lia.
  - rewrite zlen_app. unfold zlen. simpl. lia.
Qed.

Lemma zlen_nil_iff (b : bytes) : zlen b = 0%Z <-> b = [].
Proof.
  unfold zlen. destruct b; simpl; split; intros H; try reflexivity; try discriminate; lia.
Qed.

(* ---------- step characterisations ---------- *)

Lemma relay_line_spec r l :
  (fst (relay_line r l) = LEnqueued /\
   r_chan (snd (relay_line r l)) = r_chan r ++ [nl l] /\
   l <> [] /\ (zlen l <= plen_minus_1 r)%Z /\ (length (r_chan r) < chan_cap)%nat /\
   r_relayed (snd (relay_line r l)) = N.succ (r_relayed r)) \/
  (fst (relay_line r l) <> LEnqueued /\ r_chan (snd (relay_line r l)) = r_chan r) .
Proof.
  unfold relay_line. destruct l as [|x l'].
  - right. simpl. split; [discriminate | reflexivity].
  - destruct (plen_minus_1 r <? zlen (x :: l'))%Z eqn:E1.
    + right. simpl. split; [discriminate | reflexivity].
    + destruct (chan_cap <=? length (r_chan r))%nat eqn:E2.
      * right. simpl. split; [discriminate | reflexivity].
      * left. simpl. apply Z.ltb_ge in E1. apply Nat.leb_gt in E2.
        repeat split; try assumption; try discriminate.
Qed.

Lemma relay_line_frame r l :
  r_plen (snd (relay_line r l)) = r_plen r /\
  r_buffer (snd (relay_line r l)) = r_buffer r /\
  r_sent (snd (relay_line r l)) = r_sent r.
Proof.
  unfold relay_line. destruct l as [|x l']; [simpl; auto|].
  destruct (plen_minus_1 r <? zlen (x :: l'))%Z; [simpl; auto|].
  destruct (chan_cap <=? length (r_chan r))%nat; simpl; auto.
Qed.

(* what a send attempt of the current buffer does to r_sent *)
Definition sent_after (r : relay) (ok : bool) (s' : list bytes) : Prop :=
  (s' = r_sent r ++ [r_buffer r] /\ r_buffer r <> [] /\ ok = true) \/
  (s' = r_sent r /\ (r_buffer r = [] \/ ok = false)).

Lemma send_packet_spec r ok : sent_after r ok (fst (send_packet r (r_buffer r) ok)).
Proof.
  unfold sent_after, send_packet. destruct (r_buffer r) eqn:E.
  - right. simpl. auto.
  - destruct ok; simpl.
    + left. repeat split; auto. discriminate.
    + right. auto.
Qed.

Lemma sender_recv_spec r ok b rest :
  r_chan r = b :: rest ->
  exists r', sender_recv r ok = Some r' /\ r_chan r' = rest /\ r_plen r' = r_plen r /\
    (((r_plen r < zlen b + zlen (r_buffer r))%Z /\ r_buffer r' = b /\ sent_after r ok (r_sent r')) \/
     ((zlen b + zlen (r_buffer r) <= r_plen r)%Z /\ r_buffer r' = r_buffer r ++ b /\ r_sent r' = r_sent r)).
Proof.
  intros Hc. unfold sender_recv. rewrite Hc.
  destruct (r_plen r <? zlen b + zlen (r_buffer r))%Z eqn:E.
  - pose proof (send_packet_spec r ok) as Hs.
    destruct (send_packet r (r_buffer r) ok) as [s pk]. simpl in Hs.
    eexists. split; [reflexivity|]. simpl. repeat split.
    left. apply Z.ltb_lt in E. auto.
  - eexists. split; [reflexivity|]. simpl. repeat split.
    right. apply Z.ltb_ge in E. auto.
Qed.

Lemma sender_recv_none r ok : r_chan r = [] -> sender_recv r ok = None.
Proof. intros H. unfold sender_recv. rewrite H. reflexivity. Qed.

Lemma sender_tick_spec r ok :
  r_chan (sender_tick r ok) = r_chan r /\ r_plen (sender_tick r ok) = r_plen r /\
  r_buffer (sender_tick r ok) = [] /\ sent_after r ok (r_sent (sender_tick r ok)).
Proof.
  unfold sender_tick. pose proof (send_packet_spec r ok) as Hs.
  destruct (send_packet r (r_buffer r) ok) as [s pk]. simpl in *. auto.
Qed.

Lemma accepted_line r l rest :
  accepted r (RLine l :: rest) =
  match fst (relay_line r l) with
  | LEnqueued => nl l :: accepted (snd (relay_line r l)) rest
  | _ => accepted (snd (relay_line r l)) rest
  end.
Proof. reflexivity. Qed.

Lemma rrun_cons r o ops : rrun r (o :: ops) = rrun (rstep r o) ops.
Proof. reflexivity. Qed.

(* ---------- stream ---------- *)

Definition stream (r : relay) : bytes := concat (r_sent r) ++ r_buffer r ++ concat (r_chan r).

Lemma concat_snoc {A} (l : list (list A)) x : concat (l ++ [x]) = concat l ++ x.
Proof. rewrite concat_app. simpl. rewrite app_nil_r. reflexivity. Qed.

Lemma concat_snoc_b (l : list bytes) (x : bytes) : @concat byte (l ++ [x]) = @concat byte l ++ x.
Proof. apply (@concat_snoc byte). Qed.

Lemma stream_gen ops : forall r0,
  all_ok ops = true ->
  stream (rrun r0 ops) = stream r0 ++ concat (accepted r0 ops).
Proof.
  induction ops as [|o ops IH]; intros r0 Hok.
  - simpl. rewrite app_nil_r. reflexivity.
  - rewrite rrun_cons. simpl in Hok. apply andb_true_iff in Hok as [Ho Hok].
    destruct o as [l | ok | ok].
    + rewrite accepted_line. simpl rstep. rewrite (IH _ Hok).
      destruct (relay_line_frame r0 l) as (_ & Hb & Hs).
      destruct (relay_line_spec r0 l) as [(Hf & Hc & _) | (Hf & Hc)].
      * rewrite Hf. unfold stream. rewrite Hb, Hs, Hc. rewrite concat_snoc_b.
        simpl. rewrite <- !app_assoc. reflexivity.
      * assert (Hst : stream (snd (relay_line r0 l)) = stream r0).
        { unfold stream. rewrite Hb, Hs, Hc. reflexivity. }
        rewrite Hst. destruct (fst (relay_line r0 l)); try reflexivity. congruence.
    + subst ok. simpl accepted. simpl rstep.
      destruct (r_chan r0) as [|b rest] eqn:Hc.
      * rewrite (sender_recv_none _ _ Hc). apply IH; assumption.
      * destruct (sender_recv_spec r0 true b rest Hc) as (r' & Hr & Hc' & _ & Hcase).
        rewrite Hr. rewrite (IH _ Hok). f_equal.
        unfold stream. rewrite Hc', Hc. simpl.
        destruct Hcase as [(_ & Hb & Hs) | (_ & Hb & Hs)].
        -- rewrite Hb. destruct Hs as [(Hs & _ & _) | (Hs & [He | He])].
           ++ rewrite Hs, concat_snoc_b. rewrite <- !app_assoc. reflexivity.
           ++ rewrite Hs, He. reflexivity.
           ++ discriminate.
        -- rewrite Hb, Hs. rewrite <- !app_assoc. reflexivity.
    + subst ok. simpl accepted. simpl rstep. rewrite (IH _ Hok). f_equal.
      destruct (sender_tick_spec r0 true) as (Hc & _ & Hb & Hs).
      unfold stream. rewrite Hc, Hb. simpl.
      destruct Hs as [(Hs & _ & _) | (Hs & [He | He])].
      * rewrite Hs, concat_snoc_b. rewrite <- !app_assoc. reflexivity.
      * rewrite Hs, He. reflexivity.
      * discriminate.
Qed.

Lemma relay_stream_ok : stmt_relay_stream.
Proof.
  intros plen ops Hok r. subst r.
  pose proof (stream_gen ops (new_relay plen) Hok) as H.
  unfold stream in H. exact H.
Qed.

(* ---------- sublist lemmas ---------- *)

Lemma sublist_refl {A} (l : list A) : sublist l l.
Proof. induction l; constructor; assumption. Qed.

Lemma sublist_app_r {A} (a b c : list A) : sublist a b -> sublist a (b ++ c).
Proof. induction 1; simpl; constructor; assumption. Qed.

Lemma sublist_app {A} (a b c d : list A) : sublist a b -> sublist c d -> sublist (a ++ c) (b ++ d).
Proof.
  induction 1; intros Hcd; simpl.
  - induction l; simpl; [assumption | constructor; assumption].
  - constructor; auto.
  - constructor; auto.
Qed.

(* ---------- no split ---------- *)

Definition ns_inv (r : relay) (acc : list bytes) : Prop :=
  exists (gs : list (list bytes)) (bl pre : list bytes),
    r_sent r = map (@concat byte) gs /\
    Forall (fun g => g <> []) gs /\
    r_buffer r = concat bl /\
    acc = pre ++ bl ++ r_chan r /\
    sublist (concat gs) pre.

(* retiring the buffer: whatever the outcome of the send attempt *)
Lemma ns_retire r ok s' gs (bl pre : list bytes) :
  r_sent r = map (@concat byte) gs ->
  Forall (fun g => g <> []) gs ->
  r_buffer r = concat bl ->
  sublist (concat gs) pre ->
  sent_after r ok s' ->
  exists gs', s' = map (@concat byte) gs' /\ Forall (fun g => g <> []) gs' /\
              sublist (concat gs') (pre ++ bl).
Proof.
  intros Hs Hne Hb Hsub [(Hs' & Hnb & _) | (Hs' & _)].
  - exists (gs ++ [bl]). split; [|split].
    + rewrite map_app. simpl. rewrite Hs', Hs, Hb. reflexivity.
    + apply Forall_app. split; [assumption|]. constructor; [|constructor].
      intros E. subst bl. simpl in Hb. contradiction.
    + rewrite concat_snoc. apply sublist_app; [assumption | apply sublist_refl].
  - exists gs. split; [|split].
    + congruence.
    + assumption.
    + apply sublist_app_r. assumption.
Qed.

Lemma ns_gen ops : forall r0 acc,
  ns_inv r0 acc -> ns_inv (rrun r0 ops) (acc ++ accepted r0 ops).
Proof.
  induction ops as [|o ops IH]; intros r0 acc Hinv.
  - simpl. rewrite app_nil_r. assumption.
  - rewrite rrun_cons. destruct o as [l | ok | ok].
    + rewrite accepted_line. simpl rstep.
      destruct (relay_line_frame r0 l) as (_ & Hb & Hs).
      destruct Hinv as (gs & bl & pre & H1 & H2 & H3 & H4 & H5).
      destruct (relay_line_spec r0 l) as [(Hf & Hc & _) | (Hf & Hc)].
      * rewrite Hf.
        replace (acc ++ nl l :: accepted (snd (relay_line r0 l)) ops)
          with ((acc ++ [nl l]) ++ accepted (snd (relay_line r0 l)) ops)
          by (rewrite <- app_assoc; reflexivity).
        apply IH. exists gs, bl, pre. rewrite Hb, Hs, Hc. repeat split; try assumption.
        rewrite H4. rewrite <- !app_assoc. reflexivity.
      * assert (Hi : ns_inv (snd (relay_line r0 l)) acc).
        { exists gs, bl, pre. rewrite Hb, Hs, Hc. repeat split; assumption. }
        destruct (fst (relay_line r0 l)); try (apply IH; assumption). congruence.
    + simpl accepted. simpl rstep.
      destruct (r_chan r0) as [|b rest] eqn:Hc.
      * rewrite (sender_recv_none _ _ Hc). apply IH; assumption.
      * destruct (sender_recv_spec r0 ok b rest Hc) as (r' & Hr & Hc' & _ & Hcase).
        rewrite Hr. apply IH.
        destruct Hinv as (gs & bl & pre & H1 & H2 & H3 & H4 & H5).
        destruct Hcase as [(_ & Hb & Hs) | (_ & Hb & Hs)].
        -- destruct (ns_retire r0 ok _ gs bl pre H1 H2 H3 H5 Hs) as (gs' & G1 & G2 & G3).
           exists gs', [b], (pre ++ bl). repeat split; try assumption.
           ++ rewrite Hb. simpl. rewrite app_nil_r. reflexivity.
           ++ rewrite H4, Hc, Hc'. rewrite <- !app_assoc. reflexivity.
        -- exists gs, (bl ++ [b]), pre. repeat split; try assumption.
           ++ congruence.
           ++ rewrite Hb, H3, concat_snoc_b. reflexivity.
           ++ rewrite H4, Hc, Hc'. rewrite <- !app_assoc. reflexivity.
    + simpl accepted. simpl rstep. apply IH.
      destruct (sender_tick_spec r0 ok) as (Hc & _ & Hb & Hs).
      destruct Hinv as (gs & bl & pre & H1 & H2 & H3 & H4 & H5).
      destruct (ns_retire r0 ok _ gs bl pre H1 H2 H3 H5 Hs) as (gs' & G1 & G2 & G3).
      exists gs', [], (pre ++ bl). repeat split; try assumption.
      rewrite H4, Hc. rewrite <- !app_assoc. reflexivity.
Qed.

Lemma relay_no_split_ok : stmt_relay_no_split.
Proof.
  intros plen ops r. subst r.
  assert (H0 : ns_inv (new_relay plen) []).
  { exists [], [], []. simpl. repeat split; constructor. }
  destruct (ns_gen ops _ _ H0) as (gs & bl & pre & H1 & H2 & H3 & H4 & H5).
  exists gs. repeat split; try assumption.
  simpl in H4. rewrite H4. apply sublist_app_r. assumption.
Qed.

(* ---------- packet bound ---------- *)

Definition pb_inv (p : Z) (r : relay) : Prop :=
  r_plen r = p /\
  Forall (fun d => (zlen d <= p)%Z) (r_sent r) /\ (zlen (r_buffer r) <= p)%Z /\
  Forall (fun b => (zlen b <= p)%Z) (r_chan r).

Lemma pb_retire p r ok s' :
  Forall (fun d => (zlen d <= p)%Z) (r_sent r) -> (zlen (r_buffer r) <= p)%Z ->
  sent_after r ok s' -> Forall (fun d => (zlen d <= p)%Z) s'.
Proof.
  intros Hs Hb [(Hs' & _) | (Hs' & _)]; subst s'; [|assumption].
  apply Forall_app. split; [assumption|]. constructor; [assumption | constructor].
Qed.

Lemma pb_step p r o : (2 <= p)%Z -> pb_inv p r -> pb_inv p (rstep r o).
Proof.
  intros Hp (H1 & H2 & H3 & H4). destruct o as [l | ok | ok]; simpl rstep.
  - destruct (relay_line_frame r l) as (Hpl & Hb & Hs).
    unfold pb_inv. rewrite Hpl, Hb, Hs.
    destruct (relay_line_spec r l) as [(_ & Hc & _ & Hlen & _) | (_ & Hc)]; rewrite Hc.
    + repeat split; try assumption. apply Forall_app. split; [assumption|].
      constructor; [|constructor].
      pose proof (zlen_nl l). unfold plen_minus_1 in Hlen. rewrite H1 in Hlen.
      destruct (p =? 0)%Z eqn:E; [apply Z.eqb_eq in E; lia | lia].
    + repeat split; assumption.
  - destruct (r_chan r) as [|b rest] eqn:Hc.
    + rewrite (sender_recv_none _ _ Hc). unfold pb_inv. rewrite Hc. auto.
    + destruct (sender_recv_spec r ok b rest Hc) as (r' & Hr & Hc' & Hpl & Hcase).
      rewrite Hr. pose proof (Forall_inv H4) as Hb4. pose proof (Forall_inv_tail H4) as Hrest4.
      unfold pb_inv. rewrite Hc', Hpl.
      destruct Hcase as [(_ & Hb & Hs) | (Hle & Hb & Hs)].
      * rewrite Hb. repeat split; try assumption. eapply pb_retire; eassumption.
      * rewrite Hb, Hs, zlen_app. repeat split; try assumption. lia.
  - destruct (sender_tick_spec r ok) as (Hc & Hpl & Hb & Hs).
    unfold pb_inv. rewrite Hc, Hpl, Hb. repeat split; try assumption.
    + eapply pb_retire; eassumption.
    + unfold zlen. simpl. lia.
Qed.

Lemma pb_gen p ops : forall r0, (2 <= p)%Z -> pb_inv p r0 -> pb_inv p (rrun r0 ops).
Proof.
  induction ops as [|o ops IH]; intros r0 Hp Hinv; [assumption|].
  rewrite rrun_cons. apply IH; [assumption|]. apply pb_step; assumption.
Qed.

Lemma relay_packet_bound_ok : stmt_relay_packet_bound.
Proof.
  intros plen ops [Hp _] r. subst r.
  assert (H0 : pb_inv plen (new_relay plen)).
  { unfold pb_inv. simpl. repeat split; try constructor. unfold zlen. simpl. lia. }
  destruct (pb_gen plen ops _ Hp H0) as (_ & H). exact H.
Qed.

(* ---------- tick drains, line cases ---------- *)

Lemma relay_tick_drains_ok : stmt_relay_tick_drains.
Proof. intros r ok. apply (sender_tick_spec r ok). Qed.

Lemma relay_line_cases_ok : stmt_relay_line_cases.
Proof.
  intros r l. unfold relay_line. destruct l as [|x l'].
  - simpl. auto.
  - destruct (plen_minus_1 r <? zlen (x :: l'))%Z eqn:E1.
    + simpl. apply Z.ltb_lt in E1. auto.
    + destruct (chan_cap <=? length (r_chan r))%nat eqn:E2.
      * simpl. apply Nat.leb_le in E2. auto.
      * simpl. apply Z.ltb_ge in E1. repeat split; try assumption. discriminate.
Qed.

(* ---------- never stuck ---------- *)

(* The never-stuck statement quantifies over ALL states, including unreachable ones whose channel
   holds more than chan_cap lines; for those one sender step is not enough.  Counterexample: *)
Definition stuck_relay : relay :=
  {| r_plen := 10; r_chan := repeat [x0a] 101; r_buffer := []; r_sent := [];
     r_relayed := 0; r_long := 0; r_packets := 0 |}.



Lemma blocked_inv r l :
  fst (relay_line r l) = LBlocked ->
  l <> [] /\ (plen_minus_1 r <? zlen l)%Z = false /\ (chan_cap <= length (r_chan r))%nat.
Proof.
  unfold relay_line. destruct l as [|x l']; [discriminate|].
  destruct (plen_minus_1 r <? zlen (x :: l'))%Z eqn:E1; [discriminate|].
  destruct (chan_cap <=? length (r_chan r))%nat eqn:E2; [|discriminate].
  intros _. apply Nat.leb_le in E2. repeat split; try assumption. discriminate.
Qed.

Lemma relay_never_stuck_partial : forall r l ok,
  (length (r_chan r) <= chan_cap)%nat ->
  fst (relay_line r l) = LBlocked ->
  exists r', sender_recv r ok = Some r' /\ fst (relay_line r' l) <> LBlocked.
Proof.
  intros r l ok Hcap Hbl. apply blocked_inv in Hbl as (Hl & Hlen & Hfull).
  destruct (r_chan r) as [|b rest] eqn:Hc.
  - unfold chan_cap in Hfull. simpl in Hfull. lia.
  - destruct (sender_recv_spec r ok b rest Hc) as (r' & Hr & Hc' & Hpl & _).
    exists r'. split; [assumption|].
    unfold relay_line. destruct l as [|x l']; [congruence|].
    assert (Hpm : plen_minus_1 r' = plen_minus_1 r) by (unfold plen_minus_1; rewrite Hpl; reflexivity).
    rewrite Hpm, Hlen, Hc'.
    simpl in Hcap.
    assert (E : (chan_cap <=? length rest)%nat = false) by (apply Nat.leb_gt; lia).
    rewrite E. simpl. discriminate.
Qed.

(* the added bound is an invariant of every run from new_relay *)
Lemma chan_cap_step r o : (length (r_chan r) <= chan_cap)%nat -> (length (r_chan (rstep r o)) <= chan_cap)%nat.
Proof.
  intros H. destruct o as [l | ok | ok]; simpl rstep.
  - destruct (relay_line_spec r l) as [(_ & Hc & _ & _ & Hlt & _) | (_ & Hc)]; rewrite Hc.
    + rewrite app_length. simpl. lia.
    + assumption.
  - destruct (r_chan r) as [|b rest] eqn:Hc.
    + rewrite (sender_recv_none _ _ Hc). rewrite Hc. assumption.
    + destruct (sender_recv_spec r ok b rest Hc) as (r' & Hr & Hc' & _).
      rewrite Hr, Hc'. simpl in H. lia.
  - destruct (sender_tick_spec r ok) as (Hc & _). rewrite Hc. assumption.
Qed.

Lemma chan_cap_gen ops : forall r0,
  (length (r_chan r0) <= chan_cap)%nat -> (length (r_chan (rrun r0 ops)) <= chan_cap)%nat.
Proof.
  induction ops as [|o ops IH]; intros r0 H; [assumption|].
  rewrite rrun_cons. apply IH. apply chan_cap_step. assumption.
Qed.

Lemma chan_cap_reachable plen ops : (length (r_chan (rrun (new_relay plen) ops)) <= chan_cap)%nat.
Proof. apply chan_cap_gen. simpl. unfold chan_cap. lia. Qed.

(* hence: on every reachable state a blocked RelayLine is unblocked after one sender step *)
Lemma relay_never_stuck_ok : stmt_relay_never_stuck.
Proof.
  intros plen ops l ok r. apply relay_never_stuck_partial. apply chan_cap_reachable.
Qed.

Print Assumptions relay_stream_ok.
Print Assumptions relay_no_split_ok.
Print Assumptions relay_packet_bound_ok.
Print Assumptions relay_tick_drains_ok.
Print Assumptions relay_line_cases_ok.
Print Assumptions relay_never_stuck_partial.
Print Assumptions relay_never_stuck_ok.
