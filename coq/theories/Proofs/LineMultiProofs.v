(* C10: multi-sample lines and extended aggregation decompose into single-sample lines;
   malformed samples yield no event. *)
From SE Require Import Base.ListLemmas Spec.LineSpec.
From SE Require Import Proofs.MultiStringLemmas.
From Coq Require Import ZifyN ZifyNat ZifyBool.

(* ---------- malformed samples ---------- *)

Lemma apply_components_mult pf f st comps : st = StSet \/ st = StBad ->
  forall value mult labels ticks,
  snd (fst (fst (apply_components pf f st comps value mult labels ticks))) = mult.
Proof.
  intros Hst. induction comps as [|comp rest IH]; intros value mult labels ticks; [reflexivity|].
  cbn [apply_components]. destruct comp as [|c0 ctail]; [apply IH|].
  destruct (beq c0 c_at).
  - destruct (pf ctail) as [sf0 err]. destruct Hst; subst st; apply IH.
  - destruct (beq c0 c_hash).
    + destruct (parse_dogstatsd_tags f ctail labels). apply IH.
    + apply IH.
Qed.

Lemma malformed_no_event_ok : stmt_malformed_no_event.
Proof.
  intros pf f metric s labels H.
  unfold do_sample. cbv zeta.
  destruct ((length (split_byte c_pipe s) <? 2)%nat || (4 <? length (split_byte c_pipe s))%nat) eqn:En;
    [split; reflexivity|].
  destruct H as [Hlen | v rest Hs Hv | v ty rest Hs Hty | v ty rest Hs Hin].
  - exfalso. lia.
  - rewrite Hs in *. destruct rest as [|ty extra]; [cbn in En; discriminate|].
    destruct (pf v) as [value err]. cbn [snd] in Hv. subst err. split; reflexivity.
  - rewrite Hs in *. destruct (pf v) as [value err]. destruct err; [split; reflexivity|].
    match goal with |- context [existsb ?g rest] => destruct (existsb g rest) end; [split; reflexivity|].
    pose proof (apply_components_mult pf f (stat_of ty) rest Hty value 1%Z labels []) as Hm.
    destruct (apply_components pf f (stat_of ty) rest value 1 labels []) as [[[value' mult] labels'] ticks].
    cbn [fst snd] in Hm. subst mult. unfold emit.
    assert (Hb : forall val rel lab, build_event (stat_of ty) metric val rel lab = None).
    { intros. destruct Hty as [-> | ->]; reflexivity. }
    rewrite Hb. split; [reflexivity|].
    rewrite !existsb_app. cbn. now rewrite !orb_true_r.
  - rewrite Hs in *. destruct (pf v) as [value err]. destruct err; [split; reflexivity|].
    match goal with |- context [existsb ?g rest] => assert (E : existsb g rest = true) end.
    { apply existsb_exists. exists []. split; [exact Hin | reflexivity]. }
    rewrite E. split; reflexivity.
Qed.

(* ---------- label updates are sequences of sets; name-part ticks are tag errors ---------- *)

Lemma parse_tag_shape tag sep :
  exists S n, forall labels, parse_tag tag sep labels = (apply_sets S labels, repeat TTagErr n).
Proof.
  unfold parse_tag. destruct tag as [|b t]; [now exists [], 1%nat|].
  destruct (index_byte sep (b :: t)) as [i|]; [|now exists [], 1%nat].
  destruct (firstn i (b :: t)) as [|k0 k]; [now exists [], 1%nat|].
  destruct (skipn (S i) (b :: t)) as [|v0 v]; [now exists [], 1%nat|].
  now exists [(esc (k0 :: k), v0 :: v)], 0%nat.
Qed.

Lemma parse_tag_list_shape pre sep pieces :
  exists S n, forall labels,
    parse_tag_list pre sep pieces labels = (apply_sets S labels, repeat TTagErr n).
Proof.
  induction pieces as [|p rest IH]; [now exists [], 0%nat|].
  destruct rest as [|q rest].
  - cbn [parse_tag_list]. destruct p as [|b t]; [now exists [], 0%nat|]. apply parse_tag_shape.
  - destruct (parse_tag_shape (pre p) sep) as (S1 & n1 & H1).
    destruct IH as (S2 & n2 & H2).
    exists (S1 ++ S2), (n1 + n2)%nat. intros labels.
    change (parse_tag_list pre sep (p :: q :: rest) labels)
      with (let '(l1, t1) := parse_tag (pre p) sep labels in
            let '(l2, t2) := parse_tag_list pre sep (q :: rest) l1 in (l2, t1 ++ t2)).
    rewrite H1, H2, apply_sets_app, repeat_app. reflexivity.
Qed.

Lemma parse_dogstatsd_tags_shape f comp :
  exists S n, forall labels,
    parse_dogstatsd_tags f comp labels = (apply_sets S labels, repeat TTagErr n).
Proof.
  unfold parse_dogstatsd_tags. destruct (f_dog f); [apply parse_tag_list_shape | now exists [], 0%nat].
Qed.

Lemma index_byte_lt c s i : index_byte c s = Some i -> (i < length s)%nat.
Proof.
  revert i; induction s as [|b t IH]; intros i H; [discriminate|].
  cbn [index_byte] in H. destruct (beq b c).
  - inversion H; subst. simpl. lia.
  - destruct (index_byte c t) as [j|]; [|discriminate].
    inversion H; subst. specialize (IH j eq_refl). simpl. lia.
Qed.

Lemma parse_name_and_tags_shape f name :
  exists metric S n, forall labels,
    parse_name_and_tags f name labels = Ok (metric, apply_sets S labels, repeat TTagErr n).
Proof.
  assert (P : exists metric S n, forall labels,
    plain_name_and_tags f name labels = (metric, apply_sets S labels, repeat TTagErr n)).
  { unfold plain_name_and_tags. destruct (find_name_sep f name) as [i|].
    - destruct (parse_tag_list_shape (fun x => x) c_eq (split_byte c_comma (skipn (S i) name)))
        as (S & n & H).
      exists (firstn i name), S, n. intros labels. unfold parse_name_tags. now rewrite H.
    - now exists name, [], 0%nat. }
  destruct P as (pm & pS & pn & P).
  unfold parse_name_and_tags. destruct (f_signalfx f).
  2:{ exists pm, pS, pn. intros labels. now rewrite P. }
  destruct (index_byte c_lbr name) as [st|] eqn:E1, (index_byte c_rbr name) as [en|] eqn:E2.
  - destruct (st <? en)%nat eqn:L; [|now exists name, [], 1%nat].
    apply index_byte_lt in E1, E2.
    unfold slice, slice_from.
    assert ((S st <=? en)%nat && (en <=? length name)%nat = true) as -> by lia.
    assert ((0 <=? st)%nat && (st <=? length name)%nat = true) as -> by lia.
    assert ((S en <=? length name)%nat = true) as -> by lia.
    cbn [bind].
    destruct (parse_tag_list_shape (fun x => x) c_eq
                (split_byte c_comma (firstn (en - S st) (skipn (S st) name)))) as (S0 & n & H).
    eexists _, S0, n. intros labels. unfold parse_name_tags. rewrite H. reflexivity.
  - now exists name, [], 1%nat.
  - now exists name, [], 1%nat.
  - exists pm, pS, pn. intros labels. now rewrite P.
Qed.

Lemma filter_repeat_tagerr n : filter not_tag_tick (repeat TTagErr n) = [].
Proof. induction n; [reflexivity | exact IHn]. Qed.

Lemma parse_name_and_tags_ok f name :
  exists metric labels t0,
    parse_name_and_tags f name [] = Ok (metric, labels, t0) /\
    lm_sorted labels /\ filter not_tag_tick t0 = [].
Proof.
  destruct (parse_name_and_tags_shape f name) as (metric & S & n & H).
  exists metric, (apply_sets S []), (repeat TTagErr n). split; [apply H|]. split.
  - apply apply_sets_sorted. exact I.
  - apply filter_repeat_tagerr.
Qed.

(* ---------- the front end of LineToEvents on name:rest ---------- *)

Lemma colon_ascii : (bN c_colon < 128)%N.  Proof. reflexivity. Qed.
Lemma pipe_ascii : (bN c_pipe < 128)%N.  Proof. reflexivity. Qed.

Lemma l2e_front pf f name rest metric labels t0 :
  name <> [] -> free_of [c_colon] name = true -> valid_string (name ++ c_colon :: rest) = true ->
  parse_name_and_tags f name [] = Ok (metric, labels, t0) ->
  line_to_events pf f (name ++ c_colon :: rest) =
    let using_dog := contains pipe_hash rest in
    if using_dog && match labels with [] => false | _ => true end
    then Ok ([], t0 ++ [TErr MixedTagging])
    else
      match splitn_byte c_pipe 3 rest with
      | p0 :: p1 :: _ =>
        if contains [c_colon] p0 then
          if is_agg_type p1 then
            let '(_, suffix, _) := cut_byte c_pipe rest in
            let samples := map (fun v => v ++ [c_pipe] ++ suffix) (split_byte c_colon p0) in
            let '(evs, t) := do_samples pf f metric samples labels in Ok (evs, t0 ++ t)
          else Ok ([], t0 ++ [TErr InvalidExtAgg])
        else if using_dog then
          let '(evs, t) := do_samples pf f metric [rest] labels in Ok (evs, t0 ++ t)
        else
          let '(evs, t) := do_samples pf f metric (split_byte c_colon rest) labels in Ok (evs, t0 ++ t)
      | _ => Ok ([], t0 ++ [TErr NotEnoughParts])
      end.
Proof.
  intros Hne Hfree Hvalid Hp. unfold line_to_events.
  remember (name ++ c_colon :: rest) as line eqn:El.
  destruct line as [|l0 line'].
  { destruct name; discriminate. }
  rewrite El, (splitn2_app c_colon name rest Hfree), <- El, Hvalid.
  destruct name as [|n0 name']; [congruence|].
  cbn [orb negb]. rewrite Hp. cbn [bind]. reflexivity.
Qed.

(* ---------- extended aggregation: the whole line ---------- *)

Lemma forallb_free_of2 a b vs :
  forallb (free_of [a; b]) vs = true ->
  forallb (free_of [a]) vs = true /\ forallb (free_of [b]) vs = true.
Proof.
  induction vs as [|v vs IH]; cbn [forallb]; intros H; [split; reflexivity|].
  apply andb_true_iff in H as [Hv Hr]. rewrite free_of_bad_cons in Hv.
  apply andb_true_iff in Hv as [-> ->]. destruct (IH Hr) as [-> ->]. split; reflexivity.
Qed.

Record extagg_facts (name : bytes) (vs : list bytes) (suffix : bytes) : Prop := {
  xf_ne : name <> [];
  xf_name : free_of [c_colon] name = true;
  xf_len : (2 <= length vs)%nat;
  xf_colon : forallb (free_of [c_colon]) vs = true;
  xf_pipe : forallb (free_of [c_pipe]) vs = true;
  xf_vname : valid_string name = true;
  xf_vvs : forallb valid_string vs = true;
  xf_vsuf : valid_string suffix = true;
  xf_valid : valid_string (name ++ c_colon :: join [c_colon] vs ++ c_pipe :: suffix) = true }.

Lemma clean_extagg_facts name vs suffix :
  clean_extagg name vs suffix = true -> extagg_facts name vs suffix.
Proof.
  unfold clean_extagg. intros H.
  apply andb_true_iff in H as [H Hv]. apply andb_true_iff in H as [H Hf].
  apply andb_true_iff in H as [H Hl]. apply andb_true_iff in H as [Hn Hfn].
  destruct (forallb_free_of2 _ _ _ Hf) as [Hc Hp].
  pose proof Hv as Hv'.
  rewrite (valid_string_app3 name c_colon _ colon_ascii) in Hv'.
  apply andb_true_iff in Hv' as [Hv1 Hv2].
  rewrite (valid_string_app3 _ c_pipe _ pipe_ascii) in Hv2.
  apply andb_true_iff in Hv2 as [Hv2 Hv3].
  apply (valid_string_join _ _ colon_ascii) in Hv2.
  constructor; try assumption.
  - destruct name; [discriminate | congruence].
  - apply Nat.leb_le. exact Hl.
Qed.

Lemma join_has_colon vs : (2 <= length vs)%nat -> contains [c_colon] (join [c_colon] vs) = true.
Proof.
  destruct vs as [|v1 [|v2 vs]]; cbn [length]; try lia. intros _.
  change (join [c_colon] (v1 :: v2 :: vs)) with (v1 ++ c_colon :: join [c_colon] (v2 :: vs)).
  rewrite contains1, free_of_app, free_of1_cons, beq_refl. cbn [negb andb].
  now rewrite andb_false_r.
Qed.

Lemma extagg_whole pf f name vs suffix metric labels t0 :
  extagg_facts name vs suffix ->
  parse_name_and_tags f name [] = Ok (metric, labels, t0) ->
  (contains [c_pipe; c_hash] (c_pipe :: suffix) = true -> labels = []) ->
  line_to_events pf f (name ++ c_colon :: join [c_colon] vs ++ c_pipe :: suffix) =
    if is_agg_type (agg_type_of suffix) then
      let '(evs, t) := do_samples pf f metric (map (fun v => v ++ [c_pipe] ++ suffix) vs) labels in
      Ok (evs, t0 ++ t)
    else Ok ([], t0 ++ [TErr InvalidExtAgg]).
Proof.
  intros F Hp Hlab.
  rewrite (l2e_front pf f name _ metric labels t0 (xf_ne _ _ _ F) (xf_name _ _ _ F) (xf_valid _ _ _ F) Hp).
  cbv zeta.
  assert (Hjp : free_of [c_pipe] (join [c_colon] vs) = true).
  { apply free_of_join; [reflexivity | exact (xf_pipe _ _ _ F)]. }
  unfold pipe_hash. rewrite (contains2_app c_pipe c_hash _ suffix Hjp).
  assert (Hcond : contains [c_pipe; c_hash] (c_pipe :: suffix) &&
                  match labels with [] => false | _ :: _ => true end = false).
  { destruct (contains [c_pipe; c_hash] (c_pipe :: suffix)); [|reflexivity].
    rewrite (Hlab eq_refl). reflexivity. }
  rewrite Hcond.
  rewrite (splitn3_app c_pipe _ suffix Hjp).
  destruct (splitn2_head c_pipe suffix) as [r Er]. rewrite Er.
  rewrite (join_has_colon vs (xf_len _ _ _ F)).
  fold (agg_type_of suffix).
  destruct (is_agg_type (agg_type_of suffix)); [|reflexivity].
  rewrite (cut_byte_app c_pipe _ suffix Hjp).
  rewrite split_byte_join; [reflexivity | | exact (xf_colon _ _ _ F)].
  pose proof (xf_len _ _ _ F). destruct vs; [simpl in *; lia | discriminate].
Qed.

Lemma extagg_bad_type_ok : stmt_extagg_bad_type.
Proof.
  intros pf f name vs suffix metric labels t0 Hc Hty Hp Hlab.
  rewrite (extagg_whole pf f name vs suffix metric labels t0 (clean_extagg_facts _ _ _ Hc) Hp Hlab).
  now rewrite Hty.
Qed.

(* ---------- samples without a DogStatsD section leave the labels alone ---------- *)

Definition starts_hash (c : bytes) : bool :=
  match c with c0 :: _ => beq c0 c_hash | [] => false end.

Lemma apply_components_nolabels pf f st comps :
  Forall (fun c => starts_hash c = false) comps ->
  forall value mult labels ticks,
  snd (fst (apply_components pf f st comps value mult labels ticks)) = labels.
Proof.
  induction 1 as [|comp rest Hc _ IH]; intros value mult labels ticks; [reflexivity|].
  cbn [apply_components]. destruct comp as [|c0 ctail]; [apply IH|].
  cbn [starts_hash] in Hc. rewrite Hc.
  destruct (beq c0 c_at).
  - destruct (pf ctail) as [sf0 err]. destruct st; apply IH.
  - apply IH.
Qed.

Lemma split_hd_first p h t :
  match hd [] (split_byte p t) with c0 :: _ => beq c0 h | [] => false end = true ->
  has_prefix [h] t = true.
Proof.
  destruct t as [|b t]; [discriminate|].
  cbn [split_byte]. destruct (beq b p).
  - discriminate.
  - destruct (split_byte p t); cbn [hd has_prefix]; intros H; rewrite beq_sym, H; reflexivity.
Qed.

Lemma split_tl_no_hash p h s :
  contains [p; h] s = false ->
  Forall (fun c => match c with c0 :: _ => beq c0 h | [] => false end = false) (tl (split_byte p s)).
Proof.
  induction s as [|b s IH]; intros H; [constructor|].
  cbn [contains] in H. fold (contains [p; h] s) in H.
  apply orb_false_iff in H as [H1 H2]. specialize (IH H2).
  cbn [split_byte]. destruct (beq b p) eqn:E.
  - cbn [tl]. apply beq_eq in E; subst b.
    cbn [has_prefix] in H1. rewrite beq_refl in H1. cbn [andb] in H1.
    pose proof (split_hd_first p h s) as Hh.
    destruct (split_byte p s) as [|x r]; [constructor|].
    cbn [tl hd] in *. constructor; [|exact IH].
    destruct (match x with [] => false | c0 :: _ => beq c0 h end); [|reflexivity].
    specialize (Hh eq_refl). cbn [has_prefix] in Hh. congruence.
  - destruct (split_byte p s) as [|x r]; [constructor|]. exact IH.
Qed.

Lemma do_sample_nolabels pf f metric s labels :
  contains pipe_hash s = false -> snd (fst (do_sample pf f metric s labels)) = labels.
Proof.
  intros H. apply split_tl_no_hash in H. fold starts_hash in H.
  unfold do_sample. cbv zeta.
  destruct ((length (split_byte c_pipe s) <? 2)%nat || (4 <? length (split_byte c_pipe s))%nat);
    [reflexivity|].
  destruct (split_byte c_pipe s) as [|v [|ty extra]]; try reflexivity.
  destruct (pf v) as [value err]. destruct err; [reflexivity|].
  match goal with |- context [existsb ?g extra] => destruct (existsb g extra) end; [reflexivity|].
  cbn [tl] in H. apply Forall_inv_tail in H.
  pose proof (apply_components_nolabels pf f (stat_of ty) extra H value 1%Z labels []) as Hl.
  destruct (apply_components pf f (stat_of ty) extra value 1 labels []) as [[[value' mult] labels'] ticks].
  cbn [fst snd] in Hl. subst labels'.
  destruct (emit (stat_of ty) metric value' (starts_with_sign v) labels mult). reflexivity.
Qed.

Lemma do_sample_nopipe pf f metric s labels :
  free_of [c_pipe] s = true ->
  do_sample pf f metric s labels = ([], labels, [TSample; TErr MalformedComponent]).
Proof. intros H. unfold do_sample. now rewrite split_byte_free. Qed.

Lemma do_samples_fixed pf f metric labels ss :
  Forall (fun s => snd (fst (do_sample pf f metric s labels)) = labels) ss ->
  do_samples pf f metric ss labels =
    (concat (map (fun s => fst (do_samples pf f metric [s] labels)) ss),
     concat (map (fun s => snd (do_samples pf f metric [s] labels)) ss)).
Proof.
  induction 1 as [|s ss Hs _ IH]; [reflexivity|].
  cbn [do_samples map concat].
  destruct (do_sample pf f metric s labels) as [[e1 l1] t1]. cbn [fst snd] in Hs. subst l1.
  rewrite IH. cbn [fst snd]. now rewrite !app_nil_r.
Qed.

Lemma filter_concat {A} (p : A -> bool) l : filter p (concat l) = concat (map (filter p) l).
Proof.
  induction l as [|x l IH]; [reflexivity|]. cbn [concat map]. now rewrite filter_app, IH.
Qed.

(* ---------- multi-sample lines ---------- *)

Lemma multi_part pf f name s metric labels t0 :
  name <> [] -> free_of [c_colon] name = true -> valid_string (name ++ c_colon :: s) = true ->
  parse_name_and_tags f name [] = Ok (metric, labels, t0) ->
  free_of [c_colon] s = true -> contains pipe_hash s = false ->
  line_to_events pf f (name ++ c_colon :: s) =
    if free_of [c_pipe] s then Ok ([], t0 ++ [TErr NotEnoughParts])
    else let '(evs, t) := do_samples pf f metric [s] labels in Ok (evs, t0 ++ t).
Proof.
  intros Hne Hfn Hv Hp Hfs Hnd.
  rewrite (l2e_front pf f name s metric labels t0 Hne Hfn Hv Hp). cbv zeta.
  rewrite Hnd. cbn [andb].
  destruct (free_of [c_pipe] s) eqn:Ep.
  - rewrite (splitn3_free c_pipe s Ep). reflexivity.
  - destruct (free_of_split _ _ Ep) as (x & y & -> & Hx).
    rewrite (splitn3_app c_pipe x y Hx).
    destruct (splitn2_head c_pipe y) as [r Er]. rewrite Er.
    rewrite free_of_app in Hfs. apply andb_true_iff in Hfs as [Hfx Hfy].
    rewrite contains1, Hfx. cbn [negb].
    rewrite split_byte_free; [reflexivity|].
    now rewrite free_of_app, Hfx, Hfy.
Qed.

Lemma multi_decomposes_ok : stmt_multi_decomposes.
Proof.
  intros pf f name ss Hc. cbv zeta.
  unfold clean_multi in Hc.
  apply andb_true_iff in Hc as [Hc Hvalid]. apply andb_true_iff in Hc as [Hc Hfirst].
  apply andb_true_iff in Hc as [Hc Hnd]. apply andb_true_iff in Hc as [Hc Hall].
  apply andb_true_iff in Hc as [Hn Hfn].
  assert (Hne : name <> []) by (destruct name; [discriminate | congruence]).
  apply negb_true_iff in Hnd.
  destruct ss as [|s1 ss']; [discriminate|]. apply negb_true_iff in Hfirst.
  set (ss := s1 :: ss') in *.
  destruct (parse_name_and_tags_ok f name) as (metric & labels & t0 & Hp & _ & Ht0).
  assert (Hcol : forallb (free_of [c_colon]) ss = true).
  { apply forallb_forall. intros s Hs. rewrite forallb_forall in Hall.
    specialize (Hall s Hs). now apply andb_true_iff in Hall as [? _]. }
  assert (Hnds : forall s, In s ss -> contains pipe_hash s = false).
  { intros s Hs. rewrite forallb_forall in Hall.
    specialize (Hall s Hs). apply andb_true_iff in Hall as [_ H]. now apply negb_true_iff in H. }
  (* validity of every part *)
  pose proof Hvalid as Hv. rewrite (valid_string_app3 _ _ _ colon_ascii) in Hv.
  apply andb_true_iff in Hv as [Hvn Hvj]. apply (valid_string_join _ _ colon_ascii) in Hvj.
  assert (Hvs : forall s, In s ss -> valid_string (name ++ c_colon :: s) = true).
  { intros s Hs. rewrite (valid_string_app3 _ _ _ colon_ascii), Hvn.
    rewrite forallb_forall in Hvj. now rewrite (Hvj s Hs). }
  (* the whole line *)
  assert (Ew : line_to_events pf f (name ++ c_colon :: join [c_colon] ss) =
               let '(evs, t) := do_samples pf f metric ss labels in Ok (evs, t0 ++ t)).
  { rewrite (l2e_front pf f name _ metric labels t0 Hne Hfn Hvalid Hp). cbv zeta.
    unfold pipe_hash. rewrite Hnd. cbn [andb].
    destruct (free_of_split _ _ Hfirst) as (x & y & Es1 & Hx).
    assert (Ej : exists y', join [c_colon] ss = x ++ c_pipe :: y').
    { unfold ss. rewrite Es1. destruct ss' as [|s2 ss''].
      - now exists y.
      - change (join [c_colon] ((x ++ c_pipe :: y) :: s2 :: ss''))
          with ((x ++ c_pipe :: y) ++ [c_colon] ++ join [c_colon] (s2 :: ss'')).
        rewrite <- app_assoc. cbn [app]. now eexists. }
    destruct Ej as [y' Ej]. rewrite Ej at 1.
    rewrite (splitn3_app c_pipe x y' Hx).
    destruct (splitn2_head c_pipe y') as [r Er]. rewrite Er.
    assert (Hfx : free_of [c_colon] x = true).
    { cbn [forallb] in Hcol. apply andb_true_iff in Hcol as [H1 _].
      rewrite Es1, free_of_app in H1. now apply andb_true_iff in H1 as [? _]. }
    rewrite contains1, Hfx. cbn [negb].
    rewrite split_byte_join; [reflexivity | discriminate | exact Hcol]. }
  assert (Hfix : Forall (fun s => snd (fst (do_sample pf f metric s labels)) = labels) ss).
  { apply Forall_forall. intros s Hs. apply do_sample_nolabels. now apply Hnds. }
  rewrite (do_samples_fixed pf f metric labels ss Hfix) in Ew.
  (* the parts *)
  assert (Epart : forall s, In s ss ->
    line_to_events pf f (name ++ c_colon :: s) =
      if free_of [c_pipe] s then Ok ([], t0 ++ [TErr NotEnoughParts])
      else let '(evs, t) := do_samples pf f metric [s] labels in Ok (evs, t0 ++ t)).
  { intros s Hs. apply multi_part; auto.
    rewrite forallb_forall in Hcol. now apply Hcol. }
  rewrite Ew. split; [discriminate|]. split.
  - cbn [events_of]. rewrite map_map. f_equal. apply map_ext_in. intros s Hs.
    rewrite (Epart s Hs). destruct (free_of [c_pipe] s) eqn:Ep.
    + cbn [do_samples]. rewrite (do_sample_nopipe pf f metric s labels Ep). reflexivity.
    + match goal with |- context [do_samples ?a ?b ?c ?d ?e] => destruct (do_samples a b c d e) end.
      reflexivity.
  - intros Hpipes. cbn [ticks_of]. rewrite filter_app, Ht0. cbn [app].
    rewrite filter_concat, !map_map. f_equal. apply map_ext_in. intros s Hs.
    rewrite (Epart s Hs). rewrite Forall_forall in Hpipes. specialize (Hpipes s Hs).
    apply negb_true_iff in Hpipes. rewrite Hpipes.
    match goal with |- context [do_samples ?a ?b ?c ?d ?e] => destruct (do_samples a b c d e) end.
    cbn [ticks_of snd].
    now rewrite filter_app, Ht0.
Qed.

(* ---------- extended aggregation: every sample applies the same sets to the labels ---------- *)

Lemma apply_components_shape pf f st comps :
  exists S, forall value mult, exists v' m' tk, forall labels ticks,
    apply_components pf f st comps value mult labels ticks = (v', m', apply_sets S labels, ticks ++ tk).
Proof.
  induction comps as [|comp rest [S IH]].
  { exists []. intros value mult. exists value, mult, []. intros. cbn. now rewrite app_nil_r. }
  destruct comp as [|c0 ctail].
  { exists S. intros value mult. destruct (IH value mult) as (v' & m' & tk & H).
    exists v', m', tk. intros. cbn [apply_components]. apply H. }
  destruct (beq c0 c_at) eqn:Eat; [|destruct (beq c0 c_hash) eqn:Eh].
  - exists S. intros value mult. destruct (pf ctail) as [sf0 err] eqn:Epf.
    assert (R : exists value2 mult2, forall labels ticks,
      apply_components pf f st ((c0 :: ctail) :: rest) value mult labels ticks =
      apply_components pf f st rest value2 mult2 labels
        (ticks ++ if err then [TErr InvalidSampleFactor] else [])).
    { destruct st; eexists _, _; intros; cbn [apply_components]; rewrite Eat, Epf;
        destruct err; rewrite ?app_nil_r; reflexivity. }
    destruct R as (value2 & mult2 & R).
    destruct (IH value2 mult2) as (v' & m' & tk & H).
    exists v', m', ((if err then [TErr InvalidSampleFactor] else []) ++ tk).
    intros. now rewrite R, H, app_assoc.
  - destruct (parse_dogstatsd_tags_shape f ctail) as (S1 & n1 & H1). exists (S1 ++ S).
    intros value mult. destruct (IH value mult) as (v' & m' & tk & H).
    exists v', m', (repeat TTagErr n1 ++ tk). intros.
    cbn [apply_components]. now rewrite Eat, Eh, H1, H, apply_sets_app, app_assoc.
  - exists S. intros value mult. destruct (IH value mult) as (v' & m' & tk & H).
    exists v', m', ([TErr InvalidSampleFactor] ++ tk). intros.
    cbn [apply_components]. now rewrite Eat, Eh, H, app_assoc.
Qed.

Definition is_nil (c : bytes) : bool := match c with [] => true | _ => false end.

Lemma do_sample_unfold pf f metric s labels v ty extra :
  split_byte c_pipe s = v :: ty :: extra ->
  do_sample pf f metric s labels =
    if (4 <? length (v :: ty :: extra))%nat then ([], labels, [TSample; TErr MalformedComponent])
    else
      let '(value, err) := pf v in
      if err then ([], labels, [TSample; TErr MalformedValue])
      else if existsb is_nil extra then ([], labels, [TSample; TErr MalformedComponent])
      else
        let '(value', mult, labels', ticks) :=
          apply_components pf f (stat_of ty) extra value 1%Z labels [] in
        let ticks2 := match labels' with [] => [] | _ => [TTagsRecv] end in
        let '(evs, ticks3) := emit (stat_of ty) metric value' (starts_with_sign v) labels' mult in
        (evs, labels', [TSample] ++ ticks ++ ticks2 ++ ticks3).
Proof. intros Hs. unfold do_sample. rewrite Hs. reflexivity. Qed.

Lemma do_sample_shape pf f metric ctl :
  exists S, forall v,
    (exists tk, forall s labels, split_byte c_pipe s = v :: ctl ->
       do_sample pf f metric s labels = ([], labels, tk)) \/
    (exists g : lmap -> list event * list tick, forall s labels, split_byte c_pipe s = v :: ctl ->
       do_sample pf f metric s labels =
         (fst (g (apply_sets S labels)), apply_sets S labels, snd (g (apply_sets S labels)))).
Proof.
  destruct ctl as [|ty extra].
  { exists []. intros v. left. exists [TSample; TErr MalformedComponent]. intros s labels Hs.
    unfold do_sample. rewrite Hs. reflexivity. }
  destruct (apply_components_shape pf f (stat_of ty) extra) as [S HS]. exists S. intros v.
  destruct (4 <? length (v :: ty :: extra))%nat eqn:En.
  { left. eexists. intros s labels Hs. rewrite (do_sample_unfold _ _ _ _ _ _ _ _ Hs), En. reflexivity. }
  destruct (pf v) as [value err] eqn:Epf. destruct err.
  { left. eexists. intros s labels Hs. rewrite (do_sample_unfold _ _ _ _ _ _ _ _ Hs), En, Epf. reflexivity. }
  destruct (existsb is_nil extra) eqn:Eex.
  { left. eexists. intros s labels Hs.
    rewrite (do_sample_unfold _ _ _ _ _ _ _ _ Hs), En, Epf, Eex. reflexivity. }
  right. destruct (HS value 1%Z) as (v' & m' & tk & H).
  exists (fun L => let '(evs, ticks3) := emit (stat_of ty) metric v' (starts_with_sign v) L m' in
                   (evs, [TSample] ++ tk ++ match L with [] => [] | _ => [TTagsRecv] end ++ ticks3)).
  intros s labels Hs. rewrite (do_sample_unfold _ _ _ _ _ _ _ _ Hs), En, Epf, Eex, H.
  cbn [app]. destruct (emit (stat_of ty) metric v' (starts_with_sign v) (apply_sets S labels) m').
  reflexivity.
Qed.

Lemma do_samples_ext pf f metric suffix l0 vs :
  lm_sorted l0 -> forallb (free_of [c_pipe]) vs = true ->
  do_samples pf f metric (map (fun v => v ++ [c_pipe] ++ suffix) vs) l0 =
    (concat (map (fun v => fst (do_samples pf f metric [v ++ c_pipe :: suffix] l0)) vs),
     concat (map (fun v => snd (do_samples pf f metric [v ++ c_pipe :: suffix] l0)) vs)).
Proof.
  intros Hs0 Hp.
  destruct (do_sample_shape pf f metric (split_byte c_pipe suffix)) as [S HS].
  cbn [app].
  assert (G : forall l, l = l0 \/ l = apply_sets S l0 ->
    do_samples pf f metric (map (fun v => v ++ c_pipe :: suffix) vs) l =
    (concat (map (fun v => fst (do_samples pf f metric [v ++ c_pipe :: suffix] l0)) vs),
     concat (map (fun v => snd (do_samples pf f metric [v ++ c_pipe :: suffix] l0)) vs))).
  2:{ apply G. now left. }
  induction vs as [|a vs IH]; intros l Hl; [reflexivity|].
  cbn [forallb] in Hp. apply andb_true_iff in Hp as [Ha Hp]. specialize (IH Hp).
  pose proof (split_byte_app c_pipe a suffix Ha) as Hsplit.
  cbn [map do_samples concat].
  destruct (HS a) as [[tk H] | [g H]].
  - rewrite (H _ l Hsplit), (H _ l0 Hsplit), (IH l Hl). cbn [fst snd]. now rewrite !app_nil_r.
  - rewrite (H _ l Hsplit), (H _ l0 Hsplit).
    assert (E : apply_sets S l = apply_sets S l0).
    { destruct Hl as [-> | ->]; [reflexivity | now apply apply_sets_idem]. }
    rewrite E, (IH (apply_sets S l0) (or_intror eq_refl)). cbn [fst snd]. now rewrite !app_nil_r.
Qed.

Lemma extagg_part pf f name v suffix metric labels t0 :
  name <> [] -> free_of [c_colon] name = true ->
  valid_string (name ++ c_colon :: v ++ c_pipe :: suffix) = true ->
  parse_name_and_tags f name [] = Ok (metric, labels, t0) ->
  (contains [c_pipe; c_hash] (c_pipe :: suffix) = true -> labels = []) ->
  (contains [c_pipe; c_hash] (c_pipe :: suffix) = true \/ free_of [c_colon] suffix = true) ->
  free_of [c_colon] v = true -> free_of [c_pipe] v = true ->
  line_to_events pf f (name ++ c_colon :: v ++ c_pipe :: suffix) =
    let '(evs, t) := do_samples pf f metric [v ++ c_pipe :: suffix] labels in Ok (evs, t0 ++ t).
Proof.
  intros Hne Hfn Hv Hp Hlab Hdis Hvc Hvp.
  rewrite (l2e_front pf f name _ metric labels t0 Hne Hfn Hv Hp). cbv zeta.
  unfold pipe_hash. rewrite (contains2_app c_pipe c_hash v suffix Hvp).
  rewrite (splitn3_app c_pipe v suffix Hvp).
  destruct (splitn2_head c_pipe suffix) as [r Er]. rewrite Er.
  rewrite contains1, Hvc. cbn [negb].
  destruct (contains [c_pipe; c_hash] (c_pipe :: suffix)) eqn:Edog.
  - rewrite (Hlab eq_refl). reflexivity.
  - cbn [andb]. destruct Hdis as [?|Hsc]; [discriminate|].
    rewrite split_byte_free; [reflexivity|].
    rewrite free_of_app, Hvc, free_of1_cons, Hsc. reflexivity.
Qed.

Lemma extagg_decomposes_ok : stmt_extagg_decomposes.
Proof.
  intros pf f name vs suffix Hc Hty Hdis Hlab0. cbv zeta.
  pose proof (clean_extagg_facts _ _ _ Hc) as F.
  destruct (parse_name_and_tags_ok f name) as (metric & labels & t0 & Hp & Hsorted & Ht0).
  pose proof (Hlab0 metric labels t0 Hp) as Hlab.
  rewrite (extagg_whole pf f name vs suffix metric labels t0 F Hp Hlab), Hty.
  rewrite (do_samples_ext pf f metric suffix labels vs Hsorted (xf_pipe _ _ _ F)).
  assert (Epart : forall v, In v vs ->
    line_to_events pf f (name ++ c_colon :: v ++ c_pipe :: suffix) =
      let '(evs, t) := do_samples pf f metric [v ++ c_pipe :: suffix] labels in Ok (evs, t0 ++ t)).
  { intros v Hin.
    pose proof (xf_colon _ _ _ F) as H1. pose proof (xf_pipe _ _ _ F) as H2.
    pose proof (xf_vvs _ _ _ F) as H3.
    rewrite forallb_forall in H1, H2, H3.
    apply extagg_part; auto using (xf_ne _ _ _ F), (xf_name _ _ _ F).
    rewrite (valid_string_app3 _ _ _ colon_ascii), (valid_string_app3 _ _ _ pipe_ascii).
    now rewrite (xf_vname _ _ _ F), (H3 v Hin), (xf_vsuf _ _ _ F). }
  split; [discriminate|]. split.
  - cbn [events_of]. rewrite map_map. f_equal. apply map_ext_in. intros v Hin.
    rewrite (Epart v Hin).
    match goal with |- context [do_samples ?a ?b ?c ?d ?e] => destruct (do_samples a b c d e) end.
    reflexivity.
  - cbn [ticks_of]. rewrite filter_app, Ht0. cbn [app].
    rewrite filter_concat, !map_map. f_equal. apply map_ext_in. intros v Hin.
    rewrite (Epart v Hin).
    match goal with |- context [do_samples ?a ?b ?c ?d ?e] => destruct (do_samples a b c d e) end.
    cbn [ticks_of snd]. now rewrite filter_app, Ht0.
Qed.
