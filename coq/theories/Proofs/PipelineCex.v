(* Why C03 needs a premise on the cache: with an unconstrained cache oracle the mapper can answer
   a lookup with labels no configuration contains, e.g. an empty label name, and the next scrape
   fails.  Three operations suffice. *)
From SE Require Import Spec.PipelineSpec.
From Coq Require Import ZArith.

Definition cex_defaults : defaults_ast :=
  {| da_observer_type := None; da_timer_type := None; da_match_type := None;
     da_disable_ordering := false; da_ttl := 0;
     da_summary := {| sa_quantiles := Some [(f_zero, f_zero)]; sa_max_age := 0; sa_age_buckets := 0; sa_buf_cap := 0 |};
     da_hist := {| ha_buckets := Some [f_zero] |};
     da_legacy_buckets := None; da_legacy_quantiles := None |}.

Definition cex_rule : rule_ast :=
  {| ra_match := [x61]; ra_name := [x78]; ra_labels := []; ra_honor := false;
     ra_observer_type := None; ra_timer_type := None; ra_legacy_buckets := None; ra_legacy_quantiles := None;
     ra_match_type := None; ra_help := []; ra_action := None; ra_mmt := None; ra_ttl := 0;
     ra_summary := None; ra_hist := None; ra_scale := None |}.

(* "a:1|g" *)
Definition cex_line : bytes := [x61; x3a; x31; x7c; x67].

Definition cex_ops : list op := [OpLoad (Parsed (Some cex_defaults) [cex_rule]); OpLine cex_line; OpGather].

(* a cache that answers every lookup with rule 0, name "x" and the label "" = "v" *)
Definition cex_get (s : unit) (k : bytes) : option (option mresult) * unit :=
  (Some (Some {| mr_rule := 0; mr_name := [x78]; mr_labels := [([], [x76])] |}), tt).

Definition cex_flags : flags := {| f_dog := false; f_influx := false; f_librato := false; f_signalfx := false |}.

Definition cex_outs : list (bool * list sample) :=
  gather_outs (run_sys (fun _ => (f_zero, false)) (fun _ => false) (fun _ _ => None) (fun _ _ => false)
                       (fun _ => true) unit cex_get (fun s _ _ => s) (fun s => s) []
                       (init unit cex_flags (Some tt) 0%Z) cex_ops).

Lemma cex_scrape_fails : map fst cex_outs = [false].
Proof. vm_compute. reflexivity. Qed.

(* the statement without a cache premise is refuted *)
Lemma scrape_ok_needs_cache_premise :
  ~ (forall pf uni_word re_match heur_bt re_compiles CS c_get c_add c_reset builtins f cache t0 ops,
       gather_ok builtins = true ->
       Forall (fun g => (forall s b, In s (snd g) -> In b builtins -> name_independent (sm_name s) b = true) ->
                        fst g = true)
              (gather_outs (run_sys pf uni_word re_match heur_bt re_compiles CS c_get c_add c_reset builtins
                                    (init CS f cache t0) ops))).
Proof.
  intros H.
  specialize (H (fun _ => (f_zero, false)) (fun _ => false) (fun _ _ => None) (fun _ _ => false)
                (fun _ => true) unit cex_get (fun s _ _ => s) (fun s => s) []
                cex_flags (Some tt) 0%Z cex_ops eq_refl).
  fold cex_outs in H. pose proof cex_scrape_fails as E.
  destruct cex_outs as [|[ok smp] [|? ?]]; try discriminate.
  inversion E; subst ok. inversion H as [|? ? H1 _]; subst.
  cbn [fst snd] in H1. assert (false = true) by (apply H1; intros s b _ []). discriminate.
Qed.
Print Assumptions scrape_ok_needs_cache_premise.
