From SE Require Import Spec.CounterSpec.
From Coq Require Import ZArith Reals Bool List Lia Lra.
From Flocq Require Import Core.Core IEEE754.BinarySingleNaN IEEE754.Binary IEEE754.Bits.
Import ListNotations.
(* Reals also defines [nonneg]; make the spec's name win again *)
Import SE.Spec.CounterSpec.

(* C06: floating-point monotonicity of the counter model. *)

Lemma counter_wrap_refuted_ok : stmt_counter_wrap_refuted.
Proof. vm_compute; reflexivity. Qed.

Lemma guard_is_nonneg_ok : stmt_guard_is_nonneg.
Proof.
  intro v. unfold nonneg, f_leb, f_ltb, f_is_nan, f_cmp, b64_compare, f_zero.
  rewrite (Bcompare_swap 53 1024 (B754_zero 53 1024 false) v).
  destruct v as [s|s|s pl H|s m e H]; try destruct s; cbn; split; intro; try reflexivity; try discriminate.
Qed.

Local Open Scope R_scope.

Definition pinf : F64 := B754_infinity 53 1024 false.
Definition fin (x : F64) : Prop := Binary.is_finite 53 1024 x = true.
Definition rv (x : F64) : R := Binary.B2R 53 1024 x.
Notation rnd := (round radix2 (SpecFloat.fexp 53 1024) (round_mode mode_NE)).
Notation big := (bpow radix2 1024).

Lemma nonneg_cases x : nonneg x -> x = pinf \/ (fin x /\ 0 <= rv x).
Proof.
  unfold nonneg, f_leb, f_cmp, b64_compare, f_zero, pinf, fin, rv.
  destruct x as [s|s|s pl H|s m e H]; try destruct s; cbn; intro Hx; try discriminate; auto.
  - right; split; [reflexivity|lra].
  - right; split; [reflexivity|lra].
  - right; split; [reflexivity|]. apply F2R_ge_0. cbn. lia.
Qed.

Lemma leb_fin x y : fin x -> fin y -> (f_leb x y = true <-> rv x <= rv y).
Proof.
  unfold fin, rv, f_leb, f_cmp, b64_compare. intros Fx Fy.
  rewrite (Bcompare_correct 53 1024 x y Fx Fy).
  destruct (Rcompare_spec (B2R 53 1024 x) (B2R 53 1024 y)); split; intro; try reflexivity; try discriminate; lra.
Qed.

Lemma nonneg_fin x : fin x -> 0 <= rv x -> nonneg x.
Proof.
  intros Fx Hx. unfold nonneg. apply leb_fin; auto. reflexivity.
Qed.

Lemma nonneg_pinf : nonneg pinf.
Proof. reflexivity. Qed.

Lemma leb_pinf x : nonneg x -> f_leb x pinf = true.
Proof.
  unfold nonneg, f_leb, f_cmp, b64_compare, f_zero, pinf.
  destruct x as [s|s|s pl H|s m e H]; try destruct s; cbn; intro Hx; try discriminate; auto.
Qed.

Lemma leb_pinf_inv x : fin x -> f_leb pinf x = true -> False.
Proof.
  unfold fin, f_leb, f_cmp, b64_compare, pinf.
  destruct x as [s|s|s pl H|s m e H]; try destruct s; cbn; intros Fx Hx; discriminate.
Qed.

Lemma nonneg_not_nan x : nonneg x -> f_is_nan x = false.
Proof.
  intro H. destruct (nonneg_cases x H) as [->|[Fx _]]; [reflexivity|].
  unfold fin in Fx. destruct x; try discriminate; reflexivity.
Qed.

Lemma add_pinf_l y : nonneg y -> f_add pinf y = pinf.
Proof.
  unfold nonneg, f_leb, f_cmp, b64_compare, f_zero, pinf, f_add, b64_plus.
  destruct y as [s|s|s pl H|s m e H]; try destruct s; cbn; intro Hx; try discriminate; reflexivity.
Qed.

Lemma add_pinf_r x : nonneg x -> f_add x pinf = pinf.
Proof.
  unfold nonneg, f_leb, f_cmp, b64_compare, f_zero, pinf, f_add, b64_plus.
  destruct x as [s|s|s pl H|s m e H]; try destruct s; cbn; intro Hx; try discriminate; reflexivity.
Qed.

Lemma rv_lt_big x : fin x -> Rabs (rv x) < big.
Proof. intro. apply abs_B2R_lt_emax. Qed.

Lemma rnd_rv x : rnd (rv x) = rv x.
Proof.
  apply round_generic. apply valid_rnd_N. apply generic_format_B2R.
Qed.

Lemma rnd_nonneg r : 0 <= r -> 0 <= rnd r.
Proof.
  intro H. apply round_ge_generic; auto.
  - apply FLT_exp_valid. reflexivity.
  - apply valid_rnd_N.
  - apply generic_format_0.
Qed.

Lemma add_fin x y : nonneg x -> nonneg y -> fin x -> fin y ->
  (rnd (rv x + rv y) < big /\ fin (f_add x y) /\ rv (f_add x y) = rnd (rv x + rv y))
  \/ (big <= rnd (rv x + rv y) /\ f_add x y = pinf).
Proof.
  intros Nx Ny Fx Fy.
  destruct (nonneg_cases x Nx) as [->|[_ Hx]]; [discriminate|].
  destruct (nonneg_cases y Ny) as [->|[_ Hy]]; [discriminate|].
  assert (Hr : 0 <= rnd (rv x + rv y)) by (apply rnd_nonneg; lra).
  unfold f_add, b64_plus.
  match goal with |- context [Bplus ?p ?e ?hp ?he ?nan ?m x y] =>
    generalize (Bplus_correct p e hp he nan m x y Fx Fy) end.
  fold (rv x) (rv y).
  rewrite (Rabs_pos_eq _ Hr).
  destruct (Rlt_bool_spec (rnd (rv x + rv y)) big) as [Hlt|Hge].
  - intros (H1 & H2 & _). left. auto.
  - intros (H1 & H2). right. split; [exact Hge|].
    assert (Bsign 53 1024 x = false) as Hs.
    { revert Nx Hge. unfold nonneg, f_leb, f_cmp, b64_compare, f_zero.
      destruct x as [s|s|s pl H|s m e H]; try discriminate Fx.
      - intros _ Hge. exfalso. unfold rv at 1 in Hge. cbn [B2R] in Hge.
        rewrite Rplus_0_l, rnd_rv in Hge.
        pose proof (rv_lt_big y Fy) as Hb. rewrite Rabs_pos_eq in Hb by exact Hy. lra.
      - intros Nx _; revert Nx. destruct s; cbn; intros; [discriminate | reflexivity]. }
    rewrite Hs in H1. clear -H1.
    match goal with |- ?r = _ => destruct r as [s|s|s pl H|s m e H] end; cbn in H1; try discriminate.
    injection H1 as ->. reflexivity.
Qed.

Lemma rnd_le a b : a <= b -> rnd a <= rnd b.
Proof.
  apply round_le.
  - apply FLT_exp_valid. reflexivity.
  - apply valid_rnd_N.
Qed.

(* sum of nonneg values: nonneg *)
Lemma add_nonneg x y : nonneg x -> nonneg y -> nonneg (f_add x y).
Proof.
  intros Nx Ny.
  destruct (nonneg_cases x Nx) as [->|[Fx Hx]]; [rewrite add_pinf_l by exact Ny; apply nonneg_pinf|].
  destruct (nonneg_cases y Ny) as [->|[Fy Hy]]; [rewrite add_pinf_r by exact Nx; apply nonneg_pinf|].
  destruct (add_fin x y Nx Ny Fx Fy) as [(_ & F & E)|(_ & ->)]; [|apply nonneg_pinf].
  apply nonneg_fin; [exact F|]. rewrite E. apply rnd_nonneg. lra.
Qed.

Lemma add_mono x y x' y' : nonneg x -> nonneg y -> nonneg x' -> nonneg y' ->
  f_le x x' -> f_le y y' -> f_le (f_add x y) (f_add x' y').
Proof.
  unfold f_le. intros Nx Ny Nx' Ny' Lx Ly.
  pose proof (add_nonneg x y Nx Ny) as Ns.
  destruct (nonneg_cases x' Nx') as [->|[Fx' Hx']]; [rewrite add_pinf_l by exact Ny'; apply leb_pinf, Ns|].
  destruct (nonneg_cases y' Ny') as [->|[Fy' Hy']]; [rewrite add_pinf_r by exact Nx'; apply leb_pinf, Ns|].
  destruct (nonneg_cases x Nx) as [->|[Fx Hx]]; [destruct (leb_pinf_inv x' Fx' Lx)|].
  destruct (nonneg_cases y Ny) as [->|[Fy Hy]]; [destruct (leb_pinf_inv y' Fy' Ly)|].
  apply leb_fin in Lx; auto. apply leb_fin in Ly; auto.
  assert (rnd (rv x + rv y) <= rnd (rv x' + rv y')) as Hr by (apply rnd_le; lra).
  destruct (add_fin x' y' Nx' Ny' Fx' Fy') as [(B' & F' & E')|(B' & ->)]; [|apply leb_pinf, Ns].
  destruct (add_fin x y Nx Ny Fx Fy) as [(B & F & E)|(B & _)]; [|lra].
  apply leb_fin; auto. rewrite E, E'. exact Hr.
Qed.

Lemma add_ge_l x y : nonneg x -> nonneg y -> f_le x (f_add x y).
Proof.
  unfold f_le. intros Nx Ny.
  destruct (nonneg_cases y Ny) as [->|[Fy Hy]]; [rewrite add_pinf_r by exact Nx; apply leb_pinf, Nx|].
  destruct (nonneg_cases x Nx) as [->|[Fx Hx]]; [rewrite add_pinf_l by exact Ny; reflexivity|].
  destruct (add_fin x y Nx Ny Fx Fy) as [(B & F & E)|(B & ->)]; [|apply leb_pinf, Nx].
  apply leb_fin; auto. rewrite E. rewrite <- (rnd_rv x) at 1. apply rnd_le. lra.
Qed.

Lemma le_refl_nonneg x : nonneg x -> f_le x x.
Proof.
  unfold f_le. intro Nx.
  destruct (nonneg_cases x Nx) as [->|[Fx Hx]]; [reflexivity|].
  apply leb_fin; auto. lra.
Qed.

(* L2 *)
Lemma of_Z_spec z : (0 <= z < two64)%Z ->
  fin (f_of_Z z) /\ rv (f_of_Z z) = rnd (IZR z).
Proof.
  intros Hz. unfold f_of_Z, fin, rv.
  match goal with |- context [binary_normalize ?p ?e ?hp ?he ?m ?mx ?ex ?sz] =>
    generalize (binary_normalize_correct p e hp he m mx ex sz) end.
  assert (F2R (Float radix2 z 0) = IZR z) as ->.
  { unfold F2R. cbn. lra. }
  assert (0 <= rnd (IZR z)) as H0 by (apply rnd_nonneg, IZR_le; lia).
  assert (rnd (IZR z) <= bpow radix2 64) as H1.
  { apply round_le_generic.
    - apply FLT_exp_valid. reflexivity.
    - apply valid_rnd_N.
    - apply generic_format_bpow. cbn. lia.
    - change (bpow radix2 64) with (IZR two64). apply IZR_le. lia. }
  assert (bpow radix2 64 < big) as H2 by (apply bpow_lt; lia).
  rewrite Rabs_pos_eq by exact H0.
  rewrite Rlt_bool_true by lra.
  intros (A & B & _). auto.
Qed.

Lemma of_Z_nonneg z : (0 <= z < two64)%Z -> nonneg (f_of_Z z).
Proof.
  intro Hz. destruct (of_Z_spec z Hz) as [F E].
  apply nonneg_fin; auto. rewrite E. apply rnd_nonneg, IZR_le. lia.
Qed.

Lemma of_Z_mono z1 z2 : (0 <= z1 <= z2)%Z -> (z2 < two64)%Z -> f_le (f_of_Z z1) (f_of_Z z2).
Proof.
  intros H1 H2.
  destruct (of_Z_spec z1) as [F1 E1]; [lia|].
  destruct (of_Z_spec z2) as [F2 E2]; [lia|].
  apply leb_fin; auto. rewrite E1, E2. apply rnd_le, IZR_le. lia.
Qed.

Local Open Scope Z_scope.

Lemma to_uint64_nonneg v : 0 <= f_to_uint64 v.
Proof.
  unfold f_to_uint64.
  destruct v; try lia;
    match goal with |- context [if ?b then _ else _] => destruct b eqn:E end; try lia;
    apply andb_true_iff in E; destruct E as [E _]; apply Z.leb_le in E; exact E.
Qed.

Lemma exposed_inv_nonneg i f : 0 <= i < two64 -> nonneg f -> nonneg (counter_value i f).
Proof.
  intros Hi Nf. unfold counter_value. apply add_nonneg; [exact Nf|apply of_Z_nonneg, Hi].
Qed.

Lemma counter_add_monotone_ok : stmt_counter_add_monotone.
Proof.
  intros c v Hc Nv Hw.
  destruct c as [i f| | |]; try contradiction.
  destruct Hc as [Hi Nf]. cbn [int_part] in Hw.
  pose proof (to_uint64_nonneg v) as Hiv.
  unfold counter_add.
  assert (f_ltb v f_zero = false) as ->.
  { apply (proj2 (guard_is_nonneg_ok v)) in Nv. apply orb_false_iff in Nv. tauto. }
  cbv zeta.
  destruct (f_eqb (f_of_Z (f_to_uint64 v)) v).
  - eexists; split; [reflexivity|].
    rewrite Z.mod_small by lia.
    assert (0 <= i + f_to_uint64 v < two64) as Hi' by lia.
    split; [split; [exact Hi'|exact Nf]|].
    cbn [exposed]. split.
    + unfold counter_value. apply add_mono; auto using of_Z_nonneg, le_refl_nonneg.
      apply of_Z_mono; lia.
    + apply nonneg_not_nan, exposed_inv_nonneg; auto.
  - eexists; split; [reflexivity|].
    pose proof (add_nonneg f v Nf Nv) as Nf'.
    split; [split; [exact Hi|exact Nf']|].
    cbn [exposed]. split.
    + unfold counter_value. apply add_mono; auto using of_Z_nonneg, le_refl_nonneg, add_ge_l.
    + apply nonneg_not_nan, exposed_inv_nonneg; auto.
Qed.

Lemma counter_history_head c vs : exists t, counter_history c vs = c :: t.
Proof. destruct vs; cbn; eauto. Qed.

Lemma counter_history_gen vs : forall c, counter_inv c -> no_wrap c vs ->
  let h := counter_history c vs in
  length h = S (length vs) /\ nondecreasing (map exposed h) /\
  Forall (fun c => f_is_nan (exposed c) = false) h.
Proof.
  induction vs as [|v r IH]; intros c Hc Hw.
  - cbn. split; [reflexivity|]. split; [exact I|]. constructor; [|constructor].
    destruct c as [i f| | |]; try contradiction. destruct Hc. cbn [exposed].
    apply nonneg_not_nan, exposed_inv_nonneg; auto.
  - cbn [no_wrap] in Hw. destruct Hw as (Nv & Hlt & Hw).
    destruct (counter_add_monotone_ok c v Hc Nv Hlt) as (c' & E & Hc' & Hle & Hnan).
    cbn [counter_history]. rewrite E in *. cbv zeta.
    destruct (IH c' Hc' Hw) as (L & M & N).
    split; [cbn [length]; rewrite L; reflexivity|].
    split.
    + destruct (counter_history_head c' r) as [t Et]. rewrite Et in *.
      cbn [map nondecreasing] in *. split; [exact Hle|exact M].
    + constructor; [|exact N].
      destruct c as [i f| | |]; try contradiction. destruct Hc. cbn [exposed].
      apply nonneg_not_nan, exposed_inv_nonneg; auto.
Qed.

Lemma counter_history_monotone_ok : stmt_counter_history_monotone.
Proof.
  intros vs Hw. apply counter_history_gen; [|exact Hw].
  split; [unfold two64; lia|reflexivity].
Qed.
