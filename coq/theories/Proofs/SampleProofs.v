(* Proof of Spec/SampleSpec.v: the protocol reading of one well-formed sample. *)
From SE Require Import Base.ListLemmas Spec.LineSpec Spec.SampleSpec.
From SE Require Import Proofs.StringLemmas Proofs.LineSyntaxProofs.
From Coq Require Import ZArith Lia.

(* the optional "@rate" component, evaluated for a rate that parses *)
Lemma rate_comps_apply_ok pf f ty rate value labels :
  match rate with Some r => snd (pf r) = false | None => True end ->
  apply_components pf f (stat_of ty) (rate_comps rate) value 1%Z labels [] =
  (match stat_of ty, rate with
   | StC, Some _ => f_div value (rate_value pf rate)
   | _, _ => value
   end,
   match stat_of ty, rate with
   | (StMs | StH | StD), Some _ => f_to_int (f_div f_one (rate_value pf rate))
   | _, _ => 1%Z
   end,
   labels, []).
Proof.
  intros Hrate.
  destruct rate as [r|]; cbn [rate_comps apply_components rate_value].
  - rewrite beq_refl.
    destruct (pf r) as [sf0 err] eqn:Hpf. cbn [fst snd] in *. subst err.
    destruct (stat_of ty); reflexivity.
  - destruct (stat_of ty); reflexivity.
Qed.

Lemma sample_semantics_ok : forall pf, stmt_sample_semantics pf.
Proof.
  intros pf f metric labels v ty rate Hclean Hwf.
  unfold well_formed_sample in Hwf.
  apply andb_true_iff in Hwf as [Hwf Hty].
  apply andb_true_iff in Hwf as [Hv Hrate].
  apply negb_true_iff in Hv.
  assert (Hrate' : match rate with Some r => snd (pf r) = false | None => True end).
  { destruct rate as [r|]; [now apply negb_true_iff in Hrate | exact I]. }
  rewrite (do_sample_body _ _ _ _ _ _ _ _ (split_sample v ty rate Hclean)).
  2:{ pose proof (rate_comps_len rate). lia. }
  unfold sample_body.
  destruct (pf v) as [value err] eqn:Hpfv. cbn [snd] in Hv. subst err.
  rewrite rate_comps_nonempty.
  rewrite (rate_comps_apply_ok pf f ty rate value labels Hrate').
  unfold predicted_events, repeat_count, emit. rewrite Hpfv. cbn [fst].
  destruct (stat_of ty) eqn:Hst; try discriminate Hty;
    destruct rate as [r|]; cbn [build_event app Z.to_nat Pos.to_nat Pos.iter_op repeat Nat.add];
    rewrite ?app_nil_r; reflexivity.
Qed.
