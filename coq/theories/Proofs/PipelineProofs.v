From SE Require Import Spec.PipelineSpec.
From SE Require Import Spec.MapperSpec Spec.LineSpec.
From SE Require Import Proofs.MultiStringLemmas Proofs.LineSyntaxProofs.
From SE Require Import Proofs.PipeBase Proofs.RegistryInv Proofs.PipeLabels Proofs.PipeGather.
From Coq Require Import ZArith.

(* ---------- C19: load ---------- *)

Ltac lstep :=
  match goal with
  | |- lbind ?r _ = _ -> _ => destruct r eqn:?; cbn [lbind]; [|discriminate]
  | |- (if ?c then _ else _) = _ -> _ => destruct c eqn:?; try discriminate
  | |- (match ?x with [] => LErr _ | _ :: _ => _ end) = _ -> _ => destruct x eqn:?; try discriminate
  end.

Lemma load_rule_valid re_compiles d dmt a r :
  load_rule re_compiles d dmt a = LOk r -> rule_valid r = true.
Proof.
  unfold load_rule.
  repeat lstep.
  intros H; inversion H; subst; clear H. unfold rule_valid.
  cbn [ru_hist ru_summary ru_labels ru_name ru_is_regex ru_match].
  repeat match goal with H : negb _ = false |- _ => apply negb_false_iff in H; rewrite ?H end.
  cbn [andb].
  match goal with |- (?c || _) = true => destruct c; [reflexivity|] end.
  cbn [orb]. destruct (metric_line_ok (ra_match a)); [reflexivity|discriminate].
Qed.

Lemma load_rules_valid re_compiles d dmt l : forall rs,
  load_rules re_compiles d dmt l = LOk rs -> forallb rule_valid rs = true.
Proof.
  induction l as [|a l IH]; intros rs; cbn [load_rules].
  - intros H; inversion H; reflexivity.
  - lstep. lstep. intros H; inversion H; subst. cbn [forallb].
    erewrite load_rule_valid by eassumption. now apply IH.
Qed.

Lemma load_valid_ok : stmt_load_valid.
Proof.
  intros re_compiles ast c. destruct ast as [|d rules]; cbn [load]; [discriminate|].
  repeat lstep.
  intros H; inversion H; subst; clear H. unfold config_valid, defaults_valid.
  cbn [cf_defaults cf_rules].
  destruct (buckets_increasing (df_buckets (fst a))); [|discriminate].
  destruct (summary_ok (df_summary (fst a))); [|discriminate].
  cbn [andb].
  eapply load_rules_valid; eassumption.
Qed.
Lemma load_rule_no_defect re_compiles d dmt a r :
  load_rule re_compiles d dmt a = LOk r ->
  ast_rule_defect re_compiles (match dmt with Some b => b | None => false end) a = false.
Proof.
  unfold load_rule, ast_rule_defect.
  repeat lstep. intros _.
  repeat match goal with H : negb _ = false |- _ => apply negb_false_iff in H; rewrite ?H end.
  repeat match goal with H : _ && _ = false |- _ => rewrite H; clear H end.
  rewrite ?orb_false_r. cbn [negb orb].
  match goal with H : (if ?c then _ else _) = LOk _ |- _ => destruct c end;
  [destruct (re_compiles _)|destruct (metric_line_ok _)]; try discriminate; reflexivity.
Qed.

Lemma load_rules_In re_compiles d dmt l : forall rs a,
  load_rules re_compiles d dmt l = LOk rs -> In a l -> exists r, load_rule re_compiles d dmt a = LOk r.
Proof.
  induction l as [|x l IH]; intros rs a; cbn [load_rules]; [intros _ []|].
  lstep. lstep. intros _ [<-|Hin]; eauto.
Qed.

Lemma load_rejects_ok : stmt_load_rejects.
Proof.
  intros re_compiles d rules (a & Hin & Hdef).
  destruct (load re_compiles (Parsed d rules)) as [c|e] eqn:E; [exfalso|eauto].
  revert E. cbn [load]. repeat lstep. intros _.
  destruct (load_rules_In _ _ _ _ _ _ Heql2 Hin) as [r Hr].
  apply load_rule_no_defect in Hr.
  assert (Hd : match snd a0 with Some b => b | None => false end =
               match d with Some da => match dec_match_type (da_match_type da) with LOk (Some b) => b | _ => false end | None => false end).
  { revert Heql. unfold load_defaults. destruct d as [da|].
    - repeat lstep. intros H; inversion H; subst. reflexivity.
    - intros H; inversion H; subst. reflexivity. }
  rewrite Hd in Hr. congruence.
Qed.

Lemma load_rejects_unparsable_ok : stmt_load_rejects_unparsable.
Proof. intros re_compiles. reflexivity. Qed.
(* ---------- C05 ---------- *)
Lemma labels_local_ok : stmt_labels_local.
Proof.
  intros d tel e mapped tel1 t name labels help ttl rule_ upd.
  unfold classify. destruct mapped as [[[r nm] ls]|].
  - destruct (ru_drop r); [discriminate|]. destruct nm as [|n0 nm]; [discriminate|].
    match goal with |- (if ?c then _ else _) = _ -> _ => destruct c; [discriminate|] end.
    destruct (e_kind e).
    + match goal with |- (if ?c then _ else _) = _ -> _ => destruct c; [discriminate|] end.
      intros H; inversion H; reflexivity.
    + intros H; inversion H; reflexivity.
    + match goal with |- (if ?c then _ else _) = _ -> _ => destruct c; [discriminate|] end.
      intros H; inversion H; reflexivity.
  - destruct (esc (e_name e)) as [|n0 nm]; [discriminate|].
    match goal with |- (if ?c then _ else _) = _ -> _ => destruct c; [discriminate|] end.
    destruct (e_kind e).
    + match goal with |- (if ?c then _ else _) = _ -> _ => destruct c; [discriminate|] end.
      intros H; inversion H; reflexivity.
    + intros H; inversion H; reflexivity.
    + match goal with |- (if ?c then _ else _) = _ -> _ => destruct c; [discriminate|] end.
      intros H; inversion H; reflexivity.
Qed.

Lemma merge_semantics_ok : stmt_merge_semantics.
Proof.
  intros honor tags rl k. unfold merge_labels. revert tags.
  induction rl as [|[k0 v0] rl IH]; intros tags Hnd.
  - cbn. reflexivity.
  - cbn [fold_left fst snd map] in *. inversion Hnd as [|? ? Hnotin Hnd']; subst.
    rewrite IH by exact Hnd'.
    change (fold_left (fun m kv => lm_set (fst kv) (snd kv) m) rl (lm_set k0 v0 []))
      with (apply_sets rl (lm_set k0 v0 [])).
    change (fold_left (fun m kv => lm_set (fst kv) (snd kv) m) rl [])
      with (apply_sets rl []).
    rewrite !lm_get_apply_sets.
    destruct (last_val k rl) as [v|] eqn:Elv.
    + (* k occurs in rl, hence k <> k0 *)
      assert (Hne : k <> k0).
      { intros ->. apply Hnotin. clear -Elv. induction rl as [|[k1 v1] rl IH]; [discriminate|].
        cbn [last_val] in Elv. cbn [map fst]. destruct (last_val k0 rl).
        - right. now apply IH.
        - destruct (bytes_eqb k0 k1) eqn:E; [|discriminate]. apply bytes_eqb_eq in E. now left. }
      unfold lm_mem.
      destruct (honor && match lm_get k0 tags with Some _ => true | None => false end);
        rewrite ?lm_get_set_other by exact Hne; reflexivity.
    + rewrite lm_get_set. cbn [lm_get].
      destruct (bytes_eqb k k0) eqn:E.
      * apply bytes_eqb_eq in E; subst k0. unfold lm_mem.
        destruct honor; cbn [andb].
        -- destruct (lm_get k tags) eqn:Eg; [exact Eg|]. now rewrite lm_get_set_same.
        -- now rewrite lm_get_set_same.
      * apply bytes_eqb_neq in E.
        destruct (honor && lm_mem k0 tags); rewrite ?lm_get_set_other by exact E; reflexivity.
Qed.
Lemma series_identity_ok : stmt_series_identity.
Proof.
  intros rg d rule_ now t name labels help ttl rg' n vk vals H.
  unfold get_series in H.
  destruct (name_find name (rg_names rg)) as [rn|] eqn:Enf.
  - destruct (mtype_eqb (rn_type rn) t) eqn:Et.
    + destruct (rm_find (lm_keys labels, lm_vals labels) (rn_metrics rn)) as [rm|] eqn:Erm.
      * inversion H; subst; auto.
      * destruct (metric_conflicts rg name t); [discriminate|].
        destruct (check_name_collision rg name t); [discriminate|].
        destruct (vecs_find (lm_keys labels) (rn_vecs rn)) as [v|]; cbv beta iota zeta in H.
        -- cbn [andb] in H. destruct (get_metric_with v labels); try discriminate.
           inversion H; subst; auto.
        -- destruct (true && new_vec_panics t (lm_keys labels)); [discriminate|].
           destruct (get_metric_with _ labels); try discriminate.
           inversion H; subst; auto.
    + destruct (metric_conflicts rg name t); [discriminate|].
      destruct (check_name_collision rg name t); [discriminate|].
      cbv beta iota zeta in H.
      destruct (true && new_vec_panics t (lm_keys labels)); [discriminate|].
      destruct (get_metric_with _ labels); try discriminate.
      inversion H; subst; auto.
  - destruct (metric_conflicts rg name t); [discriminate|].
    destruct (check_name_collision rg name t); [discriminate|].
    cbv beta iota zeta in H.
    destruct (true && new_vec_panics t (lm_keys labels)); [discriminate|].
    destruct (get_metric_with _ labels); try discriminate.
    inversion H; subst; auto.
Qed.
Lemma counter_guard_ok : stmt_counter_guard.
Proof.
  intros d tel e mapped Hk Hneg. unfold classify. rewrite Hk.
  unfold scaled_value in Hneg.
  destruct mapped as [[[r nm] ls]|].
  - destruct (ru_drop r); [eauto|]. destruct nm as [|n0 nm]; [eauto|].
    match goal with |- exists _, (if ?c then _ else _) = _ => destruct c; [eauto|] end.
    rewrite Hneg. eauto.
  - destruct (esc (e_name e)) as [|n0 nm]; [eauto|].
    match goal with |- exists _, (if ?c then _ else _) = _ => destruct c; [eauto|] end.
    rewrite Hneg. eauto.
Qed.

Lemma conflict_isolated_ok : stmt_conflict_isolated.
Proof.
  intros rg d rule_ now t name labels help ttl rg' H.
  unfold get_series in H.
  destruct (name_find name (rg_names rg)) as [rn|] eqn:Enf.
  - destruct (mtype_eqb (rn_type rn) t) eqn:Et.
    + destruct (rm_find (lm_keys labels, lm_vals labels) (rn_metrics rn)) as [rm|] eqn:Erm.
      * discriminate.
      * destruct (metric_conflicts rg name t); [inversion H; reflexivity|].
        destruct (check_name_collision rg name t); [inversion H; reflexivity|].
        destruct (vecs_find (lm_keys labels) (rn_vecs rn)) as [v|]; cbv beta iota zeta in H.
        -- cbn [andb] in H. destruct (get_metric_with v labels); try discriminate.
           inversion H; subst; auto.
        -- destruct (true && new_vec_panics t (lm_keys labels)); [discriminate|].
           destruct (get_metric_with _ labels); try discriminate.
           inversion H; subst; auto.
    + destruct (metric_conflicts rg name t); [inversion H; reflexivity|].
      destruct (check_name_collision rg name t); [inversion H; reflexivity|].
      cbv beta iota zeta in H.
      destruct (true && new_vec_panics t (lm_keys labels)); [discriminate|].
      destruct (get_metric_with _ labels); try discriminate.
      inversion H; subst; auto.
  - destruct (metric_conflicts rg name t); [inversion H; reflexivity|].
    destruct (check_name_collision rg name t); [inversion H; reflexivity|].
    cbv beta iota zeta in H.
    destruct (true && new_vec_panics t (lm_keys labels)); [discriminate|].
    destruct (get_metric_with _ labels); try discriminate.
    inversion H; subst; auto.
Qed.

Lemma conflict_detected_ok : stmt_conflict_detected.
Proof.
  intros rg d rule_ now t name labels help ttl Hc Hmiss.
  unfold get_series.
  assert (Hhit : match name_find name (rg_names rg) with
                 | Some rn => if mtype_eqb (rn_type rn) t
                              then match rm_find (lm_keys labels, lm_vals labels) (rn_metrics rn) with
                                   | Some rm => Some (rn, rm) | None => None end
                              else None
                 | None => None end = None).
  { destruct (name_find name (rg_names rg)) as [rn|]; [|reflexivity].
    destruct (mtype_eqb (rn_type rn) t) eqn:Et; [|reflexivity].
    now rewrite (Hmiss rn eq_refl Et). }
  rewrite Hhit.
  destruct Hc as [Hc|Hc]; rewrite Hc; [reflexivity|].
  destruct (metric_conflicts rg name t); reflexivity.
Qed.

(* ---------- the system invariant ---------- *)
Section Sys.
Variable pf : bytes -> F64 * bool.
Variable uni_word : rune -> bool.
Variable re_match : bytes -> bytes -> option (list (option bytes)).
Variable heur_bt : list bytes -> bool -> bool.
Variable re_compiles : bytes -> bool.
Variable CS : Type.
Variable c_get : CS -> bytes -> option (option mresult) * CS.
Variable c_add : CS -> bytes -> option mresult -> CS.
Variable c_reset : CS -> CS.
Variable builtins : list sample.

Variable Q : bytes -> Prop.                 (* what is known about label names *)
Hypothesis legal_Q : forall k, legal_name k = true -> Q k.
Variable CI : CS -> Prop.                   (* cache-state invariant *)

Definition good_res (r : option mresult) : Prop :=
  match r with Some mr => forall k v, In (k, v) (mr_labels mr) -> Q k | None => True end.

Hypothesis CI_get : forall s k r s', CI s -> c_get s k = (r, s') ->
  CI s' /\ (forall v, r = Some v -> good_res v).
Hypothesis CI_add : forall s k v, CI s -> good_res v -> CI (c_add s k v).
Hypothesis CI_reset : forall s, CI s -> CI (c_reset s).

Definition cache_ok (c : option CS) : Prop := match c with Some s => CI s | None => True end.

Definition MapInv (m : mapper CS) : Prop :=
  defaults_valid (m_defaults CS m) = true /\
  (forall r, In r (m_rules CS m) -> rule_valid r = true) /\
  cache_ok (m_cache CS m).

Lemma get_mapping_inv m metric ty r m' :
  MapInv m -> get_mapping uni_word re_match CS c_get c_add m metric ty = (r, m') ->
  MapInv m' /\ good_res r.
Proof.
  intros (M1 & M2 & M3). unfold get_mapping.
  assert (Hmiss : good_res (lookup_uncached uni_word re_match (m_rules CS m) (m_fsm CS m)
                                            (m_do_fsm CS m) (m_do_regex CS m) metric ty)).
  { destruct (lookup_uncached _ _ _ _ _ _ metric ty) as [mr|] eqn:E; [|exact I].
    cbn [good_res]. intros k v Hin. apply legal_Q.
    eapply lookup_uncached_labels; eassumption. }
  destruct (m_cache CS m) as [s|] eqn:Ec.
  - destruct (c_get s (format_key metric ty)) as [[r0|] s'] eqn:Eg.
    + destruct (CI_get _ _ _ _ M3 Eg) as [C1 C2].
      intros E; inversion E; subst. split; [|now apply C2].
      split; [exact M1|]. split; [exact M2|exact C1].
    + destruct (CI_get _ _ _ _ M3 Eg) as [C1 _].
      intros E; inversion E; subst. split; [|exact Hmiss].
      split; [exact M1|]. split; [exact M2|]. cbn. now apply CI_add.
  - intros E; inversion E; subst. split; [|exact Hmiss].
    split; [exact M1|]. split; [exact M2|exact I].
Qed.

Lemma init_from_yaml_inv m ast e m' :
  MapInv m -> init_from_yaml heur_bt CS c_reset re_compiles m ast = (e, m') -> MapInv m'.
Proof.
  intros (M1 & M2 & M3). unfold init_from_yaml.
  destruct (load re_compiles ast) as [n|err] eqn:El.
  - intros E; inversion E; subst. apply load_valid_ok in El. unfold config_valid in El.
    apply andb_true_iff in El as [L1 L2]. unfold install, MapInv. cbn.
    split; [exact L1|]. split.
    + intros r Hr. rewrite forallb_forall in L2. now apply L2.
    + destruct (m_cache CS m); cbn in *; auto.
  - intros E; inversion E; subst. exact (conj M1 (conj M2 M3)).
Qed.

Lemma new_mapper_inv cache : cache_ok cache -> MapInv (new_mapper CS cache).
Proof.
  intros H. split; [reflexivity|]. split; [intros r []|exact H].
Qed.

(* ---------- one event ---------- *)
Lemma handle_event2_inv d d2 now x e mapped :
  RegInv (QN Q) (x_registry x) -> defaults_valid d = true -> defaults_valid d2 = true -> ev_ok e ->
  (forall r nm ls, mapped = Some (r, nm, ls) ->
     rule_valid r = true /\ forall k v, In (k, v) ls -> Q k) ->
  match handle_event2 d d2 now x e mapped with
  | HOk x' => RegInv (QN Q) (x_registry x')
  | HPanic => False
  end.
Proof.
  intros HI Hd Hd2 He Hm. unfold handle_event2.
  destruct (classify d (x_tel x) e mapped) as [tel|tel1 t name labels help ttl rule_ upd] eqn:Ec;
    [exact HI|].
  destruct (classify_ok Q legal_Q _ _ _ _ _ _ _ _ _ _ _ _ Ec He) as (C1 & C2 & C3 & C4 & C5 & C6).
  { intros r nm ls E. apply (Hm r nm ls E). }
  assert (Hopts : hist_bounds (hist_buckets_for d2 rule_) <> Panic /\ (summ_max_age_for d2 rule_ <? 0)%Z = false).
  { apply vec_opts_ok; [exact Hd2|]. intros ru Eru. rewrite C6 in Eru.
    destruct mapped as [[[r nm] ls]|]; [|discriminate]. inversion Eru; subst.
    apply (Hm ru nm ls eq_refl). }
  pose proof (get_series_inv (QN Q) (x_registry x) d2 rule_ now t name labels help ttl HI C1 C2 C3) as G.
  destruct (get_series (x_registry x) d2 rule_ now t name labels help ttl) as [rg' n vk vals|rg'|].
  - destruct G as [G1 (rn & G2 & G3 & G4)]; try tauto.
    rewrite <- G3 in C5.
    destruct (update_series_inv (QN Q) rg' n vk vals upd rn G1 G2 G4 C5) as (rg'' & E & HI'').
    rewrite E. exact HI''.
  - apply G; tauto.
  - apply G; tauto.
Qed.

Lemma handle_event_inv d now x e mapped :
  RegInv (QN Q) (x_registry x) -> defaults_valid d = true -> ev_ok e ->
  (forall r nm ls, mapped = Some (r, nm, ls) ->
     rule_valid r = true /\ forall k v, In (k, v) ls -> Q k) ->
  match handle_event d now x e mapped with
  | HOk x' => RegInv (QN Q) (x_registry x')
  | HPanic => False
  end.
Proof.
  intros HI Hd He Hm. exact (handle_event2_inv d d now x e mapped HI Hd Hd He Hm).
Qed.

Lemma handle_events_inv now evs : forall m x,
  MapInv m -> RegInv (QN Q) (x_registry x) -> Forall ev_ok evs ->
  match handle_events uni_word re_match CS c_get c_add m x now evs with
  | (m', x', p) => p = false /\ MapInv m' /\ RegInv (QN Q) (x_registry x')
  end.
Proof.
  induction evs as [|e rest IH]; intros m x HM HI Hev; [cbn; auto|].
  inversion Hev as [|? ? He Hrest]; subst. cbn [handle_events].
  destruct (get_mapping uni_word re_match CS c_get c_add m (e_name e) (type_string (e_kind e))) as [r m'] eqn:Eg.
  destruct (get_mapping_inv _ _ _ _ _ HM Eg) as [HM' Hr].
  pose proof HM' as (M1 & M2 & M3).
  match goal with |- context [handle_event ?d now x e ?mp] =>
    pose proof (handle_event_inv d now x e mp HI M1 He) as H end.
  match type of H with ?A -> _ => assert (HA : A) end.
  { intros ru nm ls E. destruct r as [mr|]; [|discriminate].
    unfold lookup_rule in E. destruct (nth_error (m_rules CS m') (mr_rule mr)) as [ru'|] eqn:En; [|discriminate].
    inversion E; subst. split; [apply M2; eapply nth_error_In; exact En | exact Hr]. }
  specialize (H HA).
  match goal with |- context [handle_event ?d now x e ?mp] => destruct (handle_event d now x e mp) as [x'|] end;
    [|contradiction].
  now apply IH.
Qed.

(* ---------- the machine ---------- *)
Definition SysInv (s : sys CS) : Prop :=
  RegInv (QN Q) (x_registry (s_exp CS s)) /\ MapInv (s_mapper CS s).

Notation step' := (step pf uni_word re_match heur_bt re_compiles CS c_get c_add c_reset builtins).
Notation run' := (run pf uni_word re_match heur_bt re_compiles CS c_get c_add c_reset builtins).

Lemma step_inv s o : SysInv s -> SysInv (snd (step' s o)) /\ fst (step' s o) <> OutLine true.
Proof.
  intros [HI HM]. destruct o as [l|ns| |ast|]; cbn [step].
  - destruct (line_to_events pf (s_flags CS s) l) as [[evs t]|] eqn:El.
    + pose proof (l2e_events_ok _ _ _ _ _ El) as Hev.
      pose proof (handle_events_inv (s_now CS s) evs _ _ HM HI Hev) as H.
      destruct (handle_events _ _ _ _ _ _ _ _ evs) as [[m x] p]. destruct H as (-> & HM' & HI').
      cbn. split; [split; assumption | discriminate].
    + exfalso. eapply l2e_no_panic_ok; exact El.
  - cbn. split; [split; assumption | discriminate].
  - cbn. split; [split; [now apply RegInv_remove_stale | assumption] | discriminate].
  - destruct (init_from_yaml heur_bt CS c_reset re_compiles (s_mapper CS s) ast) as [e m] eqn:Ei.
    cbn. split; [split; [assumption | eapply init_from_yaml_inv; eassumption] | discriminate].
  - cbn. split; [split; assumption | discriminate].
Qed.

Lemma run_Forall (P : out -> Prop) :
  (forall s o, SysInv s -> P (fst (step' s o))) ->
  forall ops s, SysInv s -> Forall P (run' s ops).
Proof.
  intros HP. induction ops as [|o ops IH]; intros s Hs; [constructor|].
  cbn [run]. pose proof (HP s o Hs) as H1. pose proof (step_inv s o Hs) as [H2 _].
  destruct (step' s o) as [out s']. cbn [fst snd] in *. constructor; [exact H1 | now apply IH].
Qed.

Lemma init_inv f cache t0 : cache_ok cache -> SysInv (init_sys CS f cache t0).
Proof.
  intros H. split; [apply RegInv_empty | now apply new_mapper_inv].
Qed.

Theorem no_panic_gen f cache t0 ops :
  cache_ok cache -> Forall (fun o => o <> OutLine true) (run' (init_sys CS f cache t0) ops).
Proof.
  intros H. apply run_Forall; [|now apply init_inv].
  intros s o Hs. apply (step_inv s o Hs).
Qed.

Notation final' := (final_sys pf uni_word re_match heur_bt re_compiles CS c_get c_add c_reset builtins).

Lemma final_inv ops : forall s, SysInv s -> SysInv (final' s ops).
Proof.
  induction ops as [|o ops IH]; intros s Hs; [exact Hs|].
  unfold final_sys. cbn [fold_left]. apply IH. apply (step_inv s o Hs).
Qed.

Theorem across_reload_gen f cache t0 opsA opsB opsC ops l evs t e :
  cache_ok cache ->
  line_to_events pf f l = Ok (evs, t) -> In e evs ->
  let sA := final' (init_sys CS f cache t0) opsA in
  let sB := final' (init_sys CS f cache t0) opsB in
  let sC := final' (init_sys CS f cache t0) opsC in
  let s := final' (init_sys CS f cache t0) ops in
  let rm := get_mapping uni_word re_match CS c_get c_add (s_mapper CS sA) (e_name e) (type_string (e_kind e)) in
  let mapped := match fst rm with Some mr => lookup_rule CS (snd rm) mr | None => None end in
  handle_event2 (m_defaults CS (s_mapper CS sB)) (m_defaults CS (s_mapper CS sC)) (s_now CS s) (s_exp CS s) e mapped <> HPanic.
Proof.
  intros Hc El Hin sA sB sC s rm mapped.
  destruct (final_inv opsA _ (init_inv f cache t0 Hc)) as [_ HMA].
  destruct (final_inv opsB _ (init_inv f cache t0 Hc)) as [_ (DB & _ & _)].
  destruct (final_inv opsC _ (init_inv f cache t0 Hc)) as [_ (DC & _ & _)].
  destruct (final_inv ops _ (init_inv f cache t0 Hc)) as [HI _].
  fold sA in HMA. fold sB in DB. fold sC in DC. fold s in HI.
  pose proof (l2e_events_ok _ _ _ _ _ El) as Hev. rewrite Forall_forall in Hev. specialize (Hev e Hin).
  destruct rm as [r mA'] eqn:Eg. subst rm.
  destruct (get_mapping_inv _ _ _ _ _ HMA Eg) as [(M1 & M2 & M3) Hr].
  cbn [fst snd] in mapped.
  pose proof (handle_event2_inv (m_defaults CS (s_mapper CS sB)) (m_defaults CS (s_mapper CS sC)) (s_now CS s) (s_exp CS s) e mapped HI DB DC Hev) as H.
  match type of H with ?A -> _ => assert (HA : A) end.
  { intros ru nm ls E. subst mapped. destruct r as [mr|]; [|discriminate].
    unfold lookup_rule in E. destruct (nth_error (m_rules CS mA') (mr_rule mr)) as [ru'|] eqn:En; [|discriminate].
    inversion E; subst. split; [apply M2; eapply nth_error_In; exact En | exact Hr]. }
  specialize (H HA). intros Ep. rewrite Ep in H. exact H.
Qed.

Definition scrape_fine (g : bool * list sample) : Prop :=
  (forall s b, In s (snd g) -> In b builtins -> name_independent (sm_name s) b = true) -> fst g = true.

Lemma gather_outs_Forall outs :
  Forall (fun o => match o with OutGather ok smp _ _ => scrape_fine (ok, smp) | _ => True end) outs ->
  Forall scrape_fine (gather_outs outs).
Proof.
  induction outs as [|o outs IH]; intros H; [constructor|].
  inversion H as [|? ? H1 H2]; subst. destruct o; cbn [gather_outs]; auto.
Qed.

Theorem scrape_gen f cache t0 ops :
  (forall k, QN Q k -> label_name_valid k = true) ->
  cache_ok cache -> gather_ok builtins = true ->
  Forall scrape_fine (gather_outs (run' (init_sys CS f cache t0) ops)).
Proof.
  intros HQ Hc Hb. apply gather_outs_Forall. apply run_Forall; [|now apply init_inv].
  intros s o [HI HM]. destruct o as [l|ns| |ast|]; cbn [step].
  - destruct (line_to_events pf (s_flags CS s) l) as [[evs t]|]; [|exact I].
    destruct (handle_events _ _ _ _ _ _ _ _ evs) as [[m x] p]. exact I.
  - exact I.
  - exact I.
  - destruct (init_from_yaml heur_bt CS c_reset re_compiles (s_mapper CS s) ast) as [e m]. exact I.
  - cbn [fst]. intros Hind. cbn [fst snd] in *.
    eapply RegInv_gather_ok; eassumption.
Qed.
End Sys.

(* ---------- C02 / C19 ---------- *)
Lemma pipeline_no_panic_ok : forall pf uni_word re_match heur_bt re_compiles CS c_get c_add c_reset builtins,
    stmt_pipeline_no_panic pf uni_word re_match heur_bt re_compiles CS c_get c_add c_reset builtins.
Proof.
  intros pf uni_word re_match heur_bt re_compiles CS c_get c_add c_reset builtins f cache t0 ops.
  unfold run_sys, init.
  apply (no_panic_gen pf uni_word re_match heur_bt re_compiles CS c_get c_add c_reset builtins
                      (fun _ => True) (fun _ _ => I) (fun _ => True)).
  - intros s k r s' _ _. split; [exact I|]. intros [mr|] _; cbn; auto.
  - auto.
  - auto.
  - destruct cache; exact I.
Qed.

Lemma event_across_reload_no_panic_ok : forall pf uni_word re_match heur_bt re_compiles CS c_get c_add c_reset builtins,
    stmt_event_across_reload_no_panic pf uni_word re_match heur_bt re_compiles CS c_get c_add c_reset builtins.
Proof.
  intros pf uni_word re_match heur_bt re_compiles CS c_get c_add c_reset builtins f cache t0 opsA opsB opsC ops l evs t e.
  unfold init.
  apply (across_reload_gen pf uni_word re_match heur_bt re_compiles CS c_get c_add c_reset builtins
                           (fun _ => True) (fun _ _ => I) (fun _ => True)).
  - intros s k r s' _ _. split; [exact I|]. intros [mr|] _; cbn; auto.
  - auto.
  - auto.
  - destruct cache; exact I.
Qed.

Lemma handle_event2_same_ok : stmt_handle_event2_same.
Proof. intros d now x e mapped. reflexivity. Qed.

(* ---------- C03 ---------- *)
(* what a cached answer must satisfy for scrapes to succeed: label names non-empty, valid UTF-8 *)
Definition key_fine (k : bytes) : Prop := k <> [] /\ valid_string k = true.
Definition res_fine (r : option mresult) : Prop :=
  match r with Some mr => forall k v, In (k, v) (mr_labels mr) -> key_fine k | None => True end.

Lemma key_fine_valid k : QN key_fine k -> label_name_valid k = true.
Proof.
  intros [[Hne Hv] Hp]. destruct k as [|b t]; [congruence|].
  unfold label_name_valid. now rewrite Hv, Hp.
Qed.

(* general form: any cache with a state invariant under which hits are fine *)
Lemma scrape_ok_CI : forall pf uni_word re_match heur_bt re_compiles CS c_get c_add c_reset builtins
    (CI : CS -> Prop) f cache t0 ops,
  (forall s k r s', CI s -> c_get s k = (r, s') -> CI s' /\ (forall v, r = Some v -> res_fine v)) ->
  (forall s k v, CI s -> res_fine v -> CI (c_add s k v)) ->
  (forall s, CI s -> CI (c_reset s)) ->
  (forall s, cache = Some s -> CI s) ->
  gather_ok builtins = true ->
  Forall (fun g => (forall s b, In s (snd g) -> In b builtins -> name_independent (sm_name s) b = true) ->
                   fst g = true)
         (gather_outs (run_sys pf uni_word re_match heur_bt re_compiles CS c_get c_add c_reset builtins
                               (init CS f cache t0) ops)).
Proof.
  intros pf uni_word re_match heur_bt re_compiles CS c_get c_add c_reset builtins CI f cache t0 ops
         Hget Hadd Hreset Hinit Hb.
  unfold run_sys, init.
  apply (scrape_gen pf uni_word re_match heur_bt re_compiles CS c_get c_add c_reset builtins
                    key_fine (fun k H => legal_name_valid k H) CI Hget Hadd Hreset).
  - exact key_fine_valid.
  - destruct cache as [s|]; [now apply Hinit | exact I].
  - exact Hb.
Qed.

(* the simplest sufficient premise: every hit has fine label names *)
Lemma scrape_ok_partial : forall pf uni_word re_match heur_bt re_compiles CS c_get c_add c_reset builtins
    f cache t0 ops,
  (forall s k mr s', c_get s k = (Some (Some mr), s') ->
     forall k' v, In (k', v) (mr_labels mr) -> k' <> [] /\ valid_string k' = true) ->
  gather_ok builtins = true ->
  Forall (fun g => (forall s b, In s (snd g) -> In b builtins -> name_independent (sm_name s) b = true) ->
                   fst g = true)
         (gather_outs (run_sys pf uni_word re_match heur_bt re_compiles CS c_get c_add c_reset builtins
                               (init CS f cache t0) ops)).
Proof.
  intros pf uni_word re_match heur_bt re_compiles CS c_get c_add c_reset builtins f cache t0 ops Hhit Hb.
  apply (scrape_ok_CI pf uni_word re_match heur_bt re_compiles CS c_get c_add c_reset builtins (fun _ => True));
    auto.
  intros s k r s' _ E. split; [exact I|]. intros [mr|] ->; [|exact I].
  cbn. intros k' v Hin. eapply Hhit; eassumption.
Qed.

(* with a sound cache (only returns what was added since the last reset) that starts empty *)
Lemma scrape_ok_ok : forall pf uni_word re_match heur_bt re_compiles CS c_get c_add c_reset builtins
    f cache t0 ops holds,
  cache_sound CS c_get c_add c_reset holds ->
  (forall s, cache = Some s -> forall k v, ~ holds s k v) ->
  gather_ok builtins = true ->
  Forall (fun g => (forall s b, In s (snd g) -> In b builtins -> name_independent (sm_name s) b = true) ->
                   fst g = true)
         (gather_outs (run_sys pf uni_word re_match heur_bt re_compiles CS c_get c_add c_reset builtins
                               (init CS f cache t0) ops)).
Proof.
  intros pf uni_word re_match heur_bt re_compiles CS c_get c_add c_reset builtins f cache t0 ops holds
         Hsound Hempty Hb.
  destruct Hsound as [Sget Smono Sadd Sreset].
  apply (scrape_ok_CI pf uni_word re_match heur_bt re_compiles CS c_get c_add c_reset builtins
                      (fun s => forall k v, holds s k v -> res_fine v)); try assumption.
  - intros s k r s' HC E. split.
    + intros k' v' Hh. apply (HC k' v'). apply (Smono s k). now rewrite E.
    + intros v ->. apply (HC k v). eapply Sget; exact E.
  - intros s k v HC Hv k' v' Hh. apply Sadd in Hh as [[_ ->]|Hh]; [exact Hv | now apply (HC k' v')].
  - intros s _ k v Hh. exfalso. eapply Sreset; exact Hh.
  - intros s Hs k v Hh. exfalso. eapply Hempty; eassumption.
Qed.
