(* Proofs of Spec/BinarySpec.v: the single-listener binary is the line-at-a-time system. *)
From SE Require Import Spec.BinarySpec Proofs.QueueProofs.
From Coq Require Import Permutation ZArith.

(* ---------- 1. single producer delivery ---------- *)
Lemma number_calls_concat : forall (A : Type) (calls : list (list A)) from,
  concat (number_calls calls from) = seq from (length (concat calls)).
Proof.
  induction calls as [|c r IH]; intros from.
  - reflexivity.
  - cbn [number_calls concat]. rewrite IH, app_length, seq_app. reflexivity.
Qed.

Lemma filter_all {A} (f : A -> bool) : forall l, (forall x, In x l -> f x = true) -> filter f l = l.
Proof.
  induction l as [|a l IH]; intros H; cbn [filter]; auto.
  rewrite (H a (or_introl eq_refl)). f_equal. apply IH. intros x Hx. apply H. right; exact Hx.
Qed.

Lemma firstn_full {A} : forall k (l : list A), length (firstn k l) = length l -> firstn k l = l.
Proof.
  intros k l H. rewrite firstn_length in H. apply firstn_all2. lia.
Qed.

Lemma single_producer_delivery_ok : stmt_single_producer_delivery.
Proof.
  intros A threshold cap calls s Hth Hreach Hdone Hchan Hpend.
  set (prog := number_calls calls 0) in *.
  assert (Hcc : concat prog = seq 0 (length (concat calls))) by apply number_calls_concat.
  assert (Hflat : concat (concat [prog]) = concat prog).
  { cbn [concat]. rewrite app_nil_r. reflexivity. }
  assert (Hpre : pre threshold [prog]).
  { split; [exact Hth|]. rewrite Hflat, Hcc. apply seq_NoDup. }
  destruct (q_conservation_ok threshold cap [prog] Hpre s Hreach) as [Hcons _].
  rewrite Hchan, Hpend in Hcons. cbn [concat] in Hcons. rewrite !app_nil_r in Hcons.
  destruct (q_producer_order_ok threshold cap [prog] Hpre s 0 prog Hreach eq_refl) as [k Hk].
  pose proof (q_complete_ok threshold cap [prog] Hpre s Hreach Hdone) as Hperm.
  rewrite Hflat in Hperm.
  rewrite filter_all in Hk.
  2:{ intros e He. apply mine_In. eapply Permutation_in; eauto. }
  rewrite Hcons, <- Hcc.
  rewrite Hk. apply firstn_full. rewrite <- Hk. apply Permutation_length. exact Hperm.
Qed.

(* ---------- 2. batching is irrelevant ---------- *)
Section B.
Variable pf : bytes -> F64 * bool.
Variable uni_word : rune -> bool.
Variable re_match : bytes -> bytes -> option (list (option bytes)).
Variable CS : Type.
Variable c_get : CS -> bytes -> option (option mresult) * CS.
Variable c_add : CS -> bytes -> option mresult -> CS.

Notation HE := (handle_events uni_word re_match CS c_get c_add).

Lemma handle_events_app : forall a b m x now,
  HE m x now (a ++ b) =
  let '(m', x', p) := HE m x now a in
  if p then (m', x', true) else HE m' x' now b.
Proof.
  induction a as [|e a IH]; intros b m x now.
  - reflexivity.
  - cbn [app handle_events].
    destruct (get_mapping uni_word re_match CS c_get c_add m (e_name e) (type_string (e_kind e))) as [r m'] eqn:Hgm.
    destruct (handle_event (m_defaults CS m') now x e _) as [x'|] eqn:Hhe.
    + apply IH.
    + reflexivity.
Qed.

Lemma batching_irrelevant_ok : stmt_batching_irrelevant uni_word re_match CS c_get c_add.
Proof.
  intros batches. induction batches as [|b r IH]; intros m x now.
  - reflexivity.
  - cbn [consume concat]. rewrite handle_events_app.
    destruct (HE m x now b) as [[m' x'] p] eqn:Hb.
    destruct p; [reflexivity|]. apply IH.
Qed.

(* ---------- 3. the binary is the system ---------- *)
Lemma feed_lines_ok : forall heur_bt re_compiles c_reset builtins (lines : list bytes) (s : sys CS),
  (forall l, In l lines -> line_to_events pf (s_flags CS s) l <> Panic) ->
  forall m x,
  HE (s_mapper CS s) (s_exp CS s) (s_now CS s) (concat (map (line_events pf (s_flags CS s)) lines)) = (m, x, false) ->
  feed_lines pf uni_word re_match CS c_get c_add heur_bt re_compiles c_reset builtins s lines =
  {| s_mapper := m; s_exp := x; s_now := s_now CS s; s_flags := s_flags CS s |}.
Proof.
  intros heur_bt re_compiles c_reset builtins.
  induction lines as [|l r IH]; intros s Hnp m x Hall.
  - cbn [map concat handle_events] in Hall. inversion Hall; subst.
    destruct s; reflexivity.
  - change (feed_lines pf uni_word re_match CS c_get c_add heur_bt re_compiles c_reset builtins s (l :: r))
      with (feed_lines pf uni_word re_match CS c_get c_add heur_bt re_compiles c_reset builtins
              (snd (step pf uni_word re_match heur_bt re_compiles CS c_get c_add c_reset builtins s (OpLine l))) r).
    cbn [map concat] in Hall. rewrite handle_events_app in Hall.
    unfold line_events in Hall at 1.
    cbn [step].
    destruct (line_to_events pf (s_flags CS s) l) as [[evs rest]|] eqn:Hl.
    2:{ exfalso. apply (Hnp l (or_introl eq_refl)). exact Hl. }
    destruct (HE (s_mapper CS s) (s_exp CS s) (s_now CS s) evs) as [[m1 x1] p1] eqn:H1.
    destruct p1; [discriminate Hall|].
    cbn [snd].
    rewrite (IH {| s_mapper := m1; s_exp := x1; s_now := s_now CS s; s_flags := s_flags CS s |}) with (m := m) (x := x).
    + reflexivity.
    + cbn [s_flags]. intros l' Hl'. apply Hnp. right; exact Hl'.
    + cbn [s_mapper s_exp s_now s_flags]. exact Hall.
Qed.

Lemma binary_is_system_ok : stmt_binary_is_system pf uni_word re_match CS c_get c_add.
Proof.
  intros heur_bt re_compiles c_reset builtins s packets lines evs.
  destruct (HE (s_mapper CS s) (s_exp CS s) (s_now CS s) evs) as [[m x] p] eqn:H.
  intros Hp Hnp. subst p.
  apply feed_lines_ok; assumption.
Qed.
End B.
