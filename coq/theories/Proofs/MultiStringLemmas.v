(* General lemmas used by LineMultiProofs: free_of / cut_byte / split_byte / splitn_byte / join /
   contains over [++] with delimiter-free parts, valid_string over an ASCII delimiter, and the
   sorted-map facts about lm_set (sequences of sets are idempotent on sorted maps). *)
From SE Require Import Base.ListLemmas Spec.LineSpec.
From Coq Require Import ZifyN ZifyNat ZifyBool.

(* ---------- free_of ---------- *)

Lemma free_of_app bad x y : free_of bad (x ++ y) = free_of bad x && free_of bad y.
Proof. apply forallb_app. Qed.

Lemma free_of1_cons c b s : free_of [c] (b :: s) = negb (beq b c) && free_of [c] s.
Proof. unfold free_of; simpl. now rewrite orb_false_r. Qed.

Lemma free_of_nil bad : free_of bad [] = true.
Proof. reflexivity. Qed.

Lemma free_of_bad_cons c bad s : free_of (c :: bad) s = free_of [c] s && free_of bad s.
Proof.
  unfold free_of. induction s as [|b s IH]; [reflexivity|].
  cbn [forallb]. rewrite IH. cbn [existsb].
  destruct (beq b c), (existsb (beq b) bad); cbn [orb negb andb]; try reflexivity.
  - now rewrite andb_false_r.
Qed.

Lemma free_of_split c s :
  free_of [c] s = false -> exists x y, s = x ++ c :: y /\ free_of [c] x = true.
Proof.
  induction s as [|b s IH]; intros H; [discriminate|].
  rewrite free_of1_cons in H. destruct (beq b c) eqn:E.
  - apply beq_eq in E; subst. exists [], s. split; reflexivity.
  - simpl in H. destruct (IH H) as (x & y & -> & Hx).
    exists (b :: x), y. split; [reflexivity|]. now rewrite free_of1_cons, E, Hx.
Qed.

Lemma free_of_join bad c l :
  free_of bad [c] = true -> forallb (free_of bad) l = true -> free_of bad (join [c] l) = true.
Proof.
  intros Hc. induction l as [|x l IH]; intros H; [reflexivity|].
  cbn [forallb] in H. apply andb_true_iff in H as [Hx Hl].
  destruct l as [|y l]; [exact Hx|].
  change (join [c] (x :: y :: l)) with (x ++ [c] ++ join [c] (y :: l)).
  rewrite !free_of_app, Hx, Hc, (IH Hl). reflexivity.
Qed.

(* ---------- cut / split / splitn ---------- *)

Lemma cut_byte_free c x : free_of [c] x = true -> cut_byte c x = (x, [], false).
Proof.
  induction x as [|b x IH]; intros H; [reflexivity|].
  rewrite free_of1_cons in H. apply andb_true_iff in H as [Hb Hx].
  cbn [cut_byte]. destruct (beq b c); [discriminate|]. now rewrite (IH Hx).
Qed.

Lemma cut_byte_app c x y : free_of [c] x = true -> cut_byte c (x ++ c :: y) = (x, y, true).
Proof.
  induction x as [|b x IH]; intros H.
  - cbn. now rewrite beq_refl.
  - rewrite free_of1_cons in H. apply andb_true_iff in H as [Hb Hx].
    cbn [cut_byte app]. destruct (beq b c); [discriminate|]. now rewrite (IH Hx).
Qed.

Lemma split_byte_free c x : free_of [c] x = true -> split_byte c x = [x].
Proof.
  induction x as [|b x IH]; intros H; [reflexivity|].
  rewrite free_of1_cons in H. apply andb_true_iff in H as [Hb Hx].
  cbn [split_byte]. destruct (beq b c); [discriminate|]. now rewrite (IH Hx).
Qed.

Lemma split_byte_app c x y :
  free_of [c] x = true -> split_byte c (x ++ c :: y) = x :: split_byte c y.
Proof.
  induction x as [|b x IH]; intros H.
  - cbn [app split_byte]. now rewrite beq_refl.
  - rewrite free_of1_cons in H. apply andb_true_iff in H as [Hb Hx].
    cbn [split_byte app]. destruct (beq b c); [discriminate|]. now rewrite (IH Hx).
Qed.

Lemma split_byte_join c l :
  l <> [] -> forallb (free_of [c]) l = true -> split_byte c (join [c] l) = l.
Proof.
  induction l as [|x l IH]; intros Hne H; [congruence|].
  cbn [forallb] in H. apply andb_true_iff in H as [Hx Hl].
  destruct l as [|y l]; [now apply split_byte_free|].
  change (join [c] (x :: y :: l)) with (x ++ c :: join [c] (y :: l)).
  rewrite split_byte_app by exact Hx. f_equal. apply IH; [discriminate | exact Hl].
Qed.

Lemma splitn2_app c x y :
  free_of [c] x = true -> splitn_byte c 2 (x ++ c :: y) = [x; y].
Proof. intros H. cbn [splitn_byte]. now rewrite cut_byte_app. Qed.

Lemma splitn3_app c x y :
  free_of [c] x = true -> splitn_byte c 3 (x ++ c :: y) = x :: splitn_byte c 2 y.
Proof. intros H. cbn [splitn_byte]. now rewrite cut_byte_app. Qed.

Lemma splitn3_free c x : free_of [c] x = true -> splitn_byte c 3 x = [x].
Proof. intros H. cbn [splitn_byte]. now rewrite cut_byte_free. Qed.

(* splitn 2 always has a head, and that head is the first field of Cut *)
Lemma splitn2_head c y :
  exists r, splitn_byte c 2 y = fst (fst (cut_byte c y)) :: r.
Proof.
  cbn [splitn_byte]. destruct (free_of [c] y) eqn:E.
  - rewrite cut_byte_free by exact E. now exists [].
  - destruct (free_of_split _ _ E) as (x & z & -> & Hx).
    rewrite cut_byte_app by exact Hx. now exists [z].
Qed.

(* ---------- contains ---------- *)

Lemma beq_sym a b : beq a b = beq b a.
Proof. unfold beq. apply N.eqb_sym. Qed.

Lemma contains1 c s : contains [c] s = negb (free_of [c] s).
Proof.
  induction s as [|b s IH]; [reflexivity|].
  rewrite free_of1_cons. cbn [contains has_prefix]. fold (contains [c] s). rewrite IH.
  rewrite andb_true_r, negb_andb, negb_involutive. now rewrite (beq_sym c b).
Qed.

Lemma contains2_app a b x y :
  free_of [a] x = true -> contains [a; b] (x ++ a :: y) = contains [a; b] (a :: y).
Proof.
  induction x as [|d x IH]; intros H; [reflexivity|].
  rewrite free_of1_cons in H. apply andb_true_iff in H as [Hd Hx].
  change ((d :: x) ++ a :: y) with (d :: (x ++ a :: y)).
  cbn [contains]. fold (contains [a; b] (x ++ a :: y)). rewrite (IH Hx).
  cbn [has_prefix]. destruct (beq a d) eqn:E; [|reflexivity].
  apply beq_eq in E; subst. rewrite beq_refl in Hd. discriminate.
Qed.

(* ---------- valid_string over an ASCII delimiter ---------- *)

Local Open Scope N_scope.

Lemma decode_app_ascii a x b y :
  bN b < 128 ->
  (decode (a :: x ++ b :: y) = decode (a :: x) /\ (snd (decode (a :: x)) - 1 <= length x)%nat) \/
  (decode (a :: x ++ b :: y) = (rune_error, 1%nat) /\ decode (a :: x) = (rune_error, 1%nat)).
Proof.
  intros Hb. unfold decode, is_cont, in_range.
  destruct x as [|x1 [|x2 [|x3 x]]]; cbn [app length];
  repeat match goal with
  | |- context [if ?c then _ else _] => destruct c eqn:?
  | |- context [match ?l with [] => _ | _ :: _ => _ end] => destruct l
  end; cbn [snd]; try (left; split; [reflexivity | lia]); try (right; split; reflexivity);
  try lia.
Qed.

Lemma valid_aux_app x b y : bN b < 128 -> forall k,
  (k <= length x)%nat -> valid_aux (x ++ b :: y) k = valid_aux x k && valid_aux (b :: y) 0.
Proof.
  intros Hb. induction x as [|a x IH]; intros k Hk.
  - assert (k = 0%nat) by (simpl in Hk; lia). subst. reflexivity.
  - destruct k as [|k].
    + change ((a :: x) ++ b :: y) with (a :: x ++ b :: y).
      cbn [valid_aux].
      destruct (decode_app_ascii a x b y Hb) as [[E Hw] | [E1 E2]].
      * rewrite E. destruct (decode (a :: x)) as [r w]. cbn [snd] in Hw.
        destruct ((r =? rune_error) && (w =? 1)%nat); [reflexivity|].
        apply IH. exact Hw.
      * rewrite E1, E2. reflexivity.
    + change ((a :: x) ++ b :: y) with (a :: x ++ b :: y).
      cbn [valid_aux]. apply IH. simpl in Hk. lia.
Qed.

Lemma valid_string_app x b y :
  bN b < 128 -> valid_string (x ++ b :: y) = valid_string x && valid_string (b :: y).
Proof. intros Hb. apply valid_aux_app; [exact Hb | lia]. Qed.

Lemma valid_string_ascii_cons b y : bN b < 128 -> valid_string (b :: y) = valid_string y.
Proof.
  intros Hb. unfold valid_string. cbn [valid_aux]. unfold decode.
  destruct (bN b <? 128) eqn:E; [|lia].
  destruct ((bN b =? rune_error) && (1 =? 1)%nat) eqn:E2; [unfold rune_error in E2; lia|].
  reflexivity.
Qed.

Lemma valid_string_app3 x b y :
  bN b < 128 -> valid_string (x ++ b :: y) = valid_string x && valid_string y.
Proof. intros Hb. now rewrite valid_string_app, valid_string_ascii_cons. Qed.

Lemma valid_string_join b l :
  bN b < 128 -> valid_string (join [b] l) = true -> forallb valid_string l = true.
Proof.
  intros Hb. induction l as [|x l IH]; intros H; [reflexivity|].
  destruct l as [|y l]; [cbn [join forallb] in *; now rewrite H|].
  change (join [b] (x :: y :: l)) with (x ++ b :: join [b] (y :: l)) in H.
  rewrite valid_string_app3 in H by exact Hb. apply andb_true_iff in H as [H1 H2].
  cbn [forallb]. rewrite H1. apply IH. exact H2.
Qed.

Local Close Scope N_scope.

(* ---------- the byte-string order ---------- *)

Lemma bytes_ltb_irrefl a : bytes_ltb a a = false.
Proof.
  induction a as [|x a IH]; [reflexivity|].
  cbn [bytes_ltb]. now rewrite N.ltb_irrefl, beq_refl, IH.
Qed.

Lemma bytes_ltb_trans a : forall b c,
  bytes_ltb a b = true -> bytes_ltb b c = true -> bytes_ltb a c = true.
Proof.
  induction a as [|x a IH]; intros [|y b] [|z c] H1 H2; cbn [bytes_ltb] in *;
    try discriminate; try reflexivity.
  apply orb_true_iff in H1. apply orb_true_iff in H2. apply orb_true_iff.
  destruct H1 as [H1|H1], H2 as [H2|H2].
  - left. lia.
  - apply andb_true_iff in H2 as [E _]. apply beq_eq in E; subst. now left.
  - apply andb_true_iff in H1 as [E _]. apply beq_eq in E; subst. now left.
  - apply andb_true_iff in H1 as [E1 L1]. apply andb_true_iff in H2 as [E2 L2].
    apply beq_eq in E1, E2; subst. right. rewrite beq_refl. simpl. eapply IH; eassumption.
Qed.

Lemma bytes_ltb_total a : forall b,
  bytes_ltb a b = false -> bytes_ltb b a = false -> a = b.
Proof.
  induction a as [|x a IH]; intros [|y b] H1 H2; cbn [bytes_ltb] in *;
    try discriminate; try reflexivity.
  apply orb_false_iff in H1 as [L1 R1]. apply orb_false_iff in H2 as [L2 R2].
  assert (x = y) by (apply bN_inj; lia). subst.
  rewrite beq_refl in R1, R2. simpl in R1, R2. f_equal. now apply IH.
Qed.

(* ---------- sorted maps ---------- *)

Fixpoint lm_sorted (m : lmap) : Prop :=
  match m with
  | [] => True
  | (k, _) :: r => (forall k' v', In (k', v') r -> bytes_ltb k k' = true) /\ lm_sorted r
  end.

Lemma In_lm_set k v m k' v' :
  In (k', v') (lm_set k v m) -> (k', v') = (k, v) \/ In (k', v') m.
Proof.
  induction m as [|[k0 v0] r IH]; cbn [lm_set]; intros H.
  - destruct H as [H|[]]; left; congruence.
  - destruct (bytes_eqb k k0) eqn:E; [|destruct (bytes_ltb k k0) eqn:L].
    + destruct H as [H|H]; [left; congruence | right; now right].
    + destruct H as [H|H]; [left; congruence | right; exact H].
    + destruct H as [H|H]; [right; now left|].
      destruct (IH H) as [?|?]; [now left | right; now right].
Qed.

Lemma lm_set_sorted k v m : lm_sorted m -> lm_sorted (lm_set k v m).
Proof.
  induction m as [|[k0 v0] r IH]; cbn [lm_set lm_sorted]; intros H.
  - split; [intros ? ? []| exact I].
  - destruct H as [Hlt Hs].
    destruct (bytes_eqb k k0) eqn:E; [|destruct (bytes_ltb k k0) eqn:L].
    + apply bytes_eqb_eq in E; subst. cbn [lm_sorted]. split; assumption.
    + cbn [lm_sorted]. split; [|split; assumption].
      intros k' v' [H|H].
      * inversion H; subst. exact L.
      * eapply bytes_ltb_trans; [exact L | eapply Hlt; exact H].
    + cbn [lm_sorted]. split; [|apply IH; exact Hs].
      intros k' v' H. apply In_lm_set in H as [H|H].
      * inversion H; subst.
        destruct (bytes_ltb k0 k) eqn:L2; [reflexivity|].
        apply bytes_eqb_neq in E. exfalso. apply E. now apply bytes_ltb_total.
      * eapply Hlt; exact H.
Qed.

Lemma lm_get_set_same k v m : lm_get k (lm_set k v m) = Some v.
Proof.
  induction m as [|[k0 v0] r IH]; cbn [lm_set lm_get].
  - now rewrite bytes_eqb_refl.
  - destruct (bytes_eqb k k0) eqn:E; [|destruct (bytes_ltb k k0) eqn:L]; cbn [lm_get].
    + now rewrite bytes_eqb_refl.
    + now rewrite bytes_eqb_refl.
    + now rewrite E.
Qed.

Lemma lm_get_set_other k v m k' : k' <> k -> lm_get k' (lm_set k v m) = lm_get k' m.
Proof.
  intros Hne. apply bytes_eqb_neq in Hne.
  induction m as [|[k0 v0] r IH]; cbn [lm_set lm_get].
  - now rewrite Hne.
  - destruct (bytes_eqb k k0) eqn:E; [|destruct (bytes_ltb k k0) eqn:L]; cbn [lm_get].
    + apply bytes_eqb_eq in E; subst. now rewrite Hne.
    + now rewrite Hne.
    + now rewrite IH.
Qed.

Lemma lm_get_set k v m k' :
  lm_get k' (lm_set k v m) = if bytes_eqb k' k then Some v else lm_get k' m.
Proof.
  destruct (bytes_eqb k' k) eqn:E.
  - apply bytes_eqb_eq in E; subst. apply lm_get_set_same.
  - apply bytes_eqb_neq in E. now apply lm_get_set_other.
Qed.

Lemma lm_get_None_lt k m :
  (forall k' v', In (k', v') m -> bytes_ltb k k' = true) -> lm_get k m = None.
Proof.
  induction m as [|[k0 v0] r IH]; intros H; [reflexivity|].
  cbn [lm_get]. destruct (bytes_eqb k k0) eqn:E.
  - apply bytes_eqb_eq in E; subst.
    pose proof (H k0 v0 (or_introl eq_refl)) as C. rewrite bytes_ltb_irrefl in C. discriminate.
  - apply IH. intros k' v' Hin. eapply H. right; exact Hin.
Qed.

Lemma lm_get_Some_In k v m : lm_get k m = Some v -> In (k, v) m.
Proof.
  induction m as [|[k0 v0] r IH]; cbn [lm_get]; intros H; [discriminate|].
  destruct (bytes_eqb k k0) eqn:E.
  - apply bytes_eqb_eq in E; subst. inversion H; subst. now left.
  - right. now apply IH.
Qed.

Lemma lm_sorted_ext m1 : forall m2,
  lm_sorted m1 -> lm_sorted m2 -> (forall k, lm_get k m1 = lm_get k m2) -> m1 = m2.
Proof.
  induction m1 as [|[k1 v1] r1 IH]; intros [|[k2 v2] r2] S1 S2 H.
  - reflexivity.
  - specialize (H k2). cbn [lm_get] in H. rewrite bytes_eqb_refl in H. discriminate.
  - specialize (H k1). cbn [lm_get] in H. rewrite bytes_eqb_refl in H. discriminate.
  - destruct S1 as [L1 S1], S2 as [L2 S2].
    assert (Hk : k1 = k2).
    { pose proof (H k1) as H1. pose proof (H k2) as H2. cbn [lm_get] in H1, H2.
      rewrite bytes_eqb_refl in H1, H2.
      destruct (bytes_eqb k1 k2) eqn:E12; [now apply bytes_eqb_eq in E12|].
      destruct (bytes_eqb k2 k1) eqn:E21; [apply bytes_eqb_eq in E21; now subst|].
      symmetry in H1. apply lm_get_Some_In in H1. apply lm_get_Some_In in H2.
      apply L2 in H1. apply L1 in H2.
      pose proof (bytes_ltb_trans _ _ _ H1 H2) as C. rewrite bytes_ltb_irrefl in C. discriminate. }
    subst k2.
    assert (Hv : v1 = v2).
    { specialize (H k1). cbn [lm_get] in H. rewrite bytes_eqb_refl in H. congruence. }
    subst v2. f_equal. apply IH; try assumption.
    intros k. specialize (H k). cbn [lm_get] in H.
    destruct (bytes_eqb k k1) eqn:E; [|exact H].
    apply bytes_eqb_eq in E; subst.
    rewrite (lm_get_None_lt _ _ L1), (lm_get_None_lt _ _ L2). reflexivity.
Qed.

(* ---------- sequences of sets ---------- *)

Definition apply_sets (S : list (bytes * bytes)) (m : lmap) : lmap :=
  fold_left (fun m kv => lm_set (fst kv) (snd kv) m) S m.

Fixpoint last_val (k : bytes) (S : list (bytes * bytes)) : option bytes :=
  match S with
  | [] => None
  | (k', v) :: S' =>
    match last_val k S' with
    | Some v' => Some v'
    | None => if bytes_eqb k k' then Some v else None
    end
  end.

Lemma apply_sets_app S1 S2 m : apply_sets (S1 ++ S2) m = apply_sets S2 (apply_sets S1 m).
Proof. apply fold_left_app. Qed.

Lemma apply_sets_sorted S : forall m, lm_sorted m -> lm_sorted (apply_sets S m).
Proof.
  induction S as [|[k v] S IH]; intros m H; [exact H|].
  cbn [apply_sets fold_left fst snd]. apply IH. now apply lm_set_sorted.
Qed.

Lemma lm_get_apply_sets k S : forall m,
  lm_get k (apply_sets S m) = match last_val k S with Some v => Some v | None => lm_get k m end.
Proof.
  induction S as [|[k' v] S IH]; intros m; [reflexivity|].
  cbn [apply_sets fold_left fst snd last_val]. fold (apply_sets S (lm_set k' v m)).
  rewrite IH. destruct (last_val k S); [reflexivity|].
  rewrite lm_get_set. destruct (bytes_eqb k k'); reflexivity.
Qed.

Lemma apply_sets_idem S m :
  lm_sorted m -> apply_sets S (apply_sets S m) = apply_sets S m.
Proof.
  intros H. apply lm_sorted_ext.
  - now repeat apply apply_sets_sorted.
  - now apply apply_sets_sorted.
  - intros k. rewrite (lm_get_apply_sets k S (apply_sets S m)).
    destruct (last_val k S) eqn:E; [|reflexivity].
    rewrite lm_get_apply_sets, E. reflexivity.
Qed.
