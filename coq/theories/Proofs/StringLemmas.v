(* Generic facts about Base/Strings.v and Base/Utf8.v on concatenations whose parts do not
   contain the delimiter.  Delimiter-freedom is stated as [~ In c s]. *)
From SE Require Import Base.ListLemmas Base.Strings Base.Utf8.

(* ---------- lists ---------- *)

Lemma firstn_length_app {A} (a b : list A) : firstn (length a) (a ++ b) = a.
Proof. induction a as [|x a IH]; simpl; [now destruct b | now rewrite IH]. Qed.

Lemma skipn_length_app {A} (a b : list A) : skipn (length a) (a ++ b) = b.
Proof. induction a as [|x a IH]; simpl; [reflexivity | exact IH]. Qed.

Lemma skipn_S_length_app {A} (a : list A) c b : skipn (S (length a)) (a ++ c :: b) = b.
Proof. induction a as [|x a IH]; simpl; [reflexivity | exact IH]. Qed.

Lemma beq_false_of_neq a b : a <> b -> beq a b = false.
Proof. apply beq_neq. Qed.

Lemma not_in_cons_inv {A} (c x : A) s : ~ In c (x :: s) -> x <> c /\ ~ In c s.
Proof. simpl. intuition. Qed.

(* ---------- slice ---------- *)

Lemma slice_ok s lo hi : lo <= hi -> hi <= length s -> slice s lo hi = Ok (firstn (hi - lo) (skipn lo s)).
Proof.
  intros H1 H2. unfold slice.
  destruct (lo <=? hi) eqn:E1; [|apply Nat.leb_gt in E1; lia].
  destruct (hi <=? length s) eqn:E2; [|apply Nat.leb_gt in E2; lia]. reflexivity.
Qed.

Lemma slice_from_ok s lo : lo <= length s -> slice_from s lo = Ok (skipn lo s).
Proof.
  intros H. unfold slice_from.
  destruct (lo <=? length s) eqn:E; [reflexivity | apply Nat.leb_gt in E; lia].
Qed.

(* ---------- index_byte ---------- *)

Lemma index_byte_lt c s i : index_byte c s = Some i -> i < length s.
Proof.
  revert i; induction s as [|b t IH]; intros i; simpl; [discriminate|].
  destruct (beq b c).
  - intros H; inversion H; lia.
  - destruct (index_byte c t) as [j|]; simpl; [|discriminate].
    intros H; inversion H; subst. specialize (IH j eq_refl). lia.
Qed.

Lemma index_byte_none c s : ~ In c s -> index_byte c s = None.
Proof.
  induction s as [|b t IH]; intros H; simpl; [reflexivity|].
  apply not_in_cons_inv in H as [H1 H2].
  rewrite (beq_false_of_neq _ _ H1), (IH H2). reflexivity.
Qed.

Lemma index_byte_app c a b : ~ In c a -> index_byte c (a ++ c :: b) = Some (length a).
Proof.
  induction a as [|x a IH]; intros H; simpl.
  - now rewrite beq_refl.
  - apply not_in_cons_inv in H as [H1 H2].
    rewrite (beq_false_of_neq _ _ H1), (IH H2). reflexivity.
Qed.

(* ---------- cut_byte ---------- *)

Lemma cut_byte_none c s : ~ In c s -> cut_byte c s = (s, [], false).
Proof.
  induction s as [|b t IH]; intros H; simpl; [reflexivity|].
  apply not_in_cons_inv in H as [H1 H2].
  rewrite (beq_false_of_neq _ _ H1), (IH H2). reflexivity.
Qed.

Lemma cut_byte_app c a b : ~ In c a -> cut_byte c (a ++ c :: b) = (a, b, true).
Proof.
  induction a as [|x a IH]; intros H; simpl.
  - now rewrite beq_refl.
  - apply not_in_cons_inv in H as [H1 H2].
    rewrite (beq_false_of_neq _ _ H1), (IH H2). reflexivity.
Qed.

(* ---------- split_byte / splitn_byte ---------- *)

Lemma split_byte_none c s : ~ In c s -> split_byte c s = [s].
Proof.
  induction s as [|b t IH]; intros H; simpl; [reflexivity|].
  apply not_in_cons_inv in H as [H1 H2].
  rewrite (beq_false_of_neq _ _ H1), (IH H2). reflexivity.
Qed.

Lemma split_byte_app c a b : ~ In c a -> split_byte c (a ++ c :: b) = a :: split_byte c b.
Proof.
  induction a as [|x a IH]; intros H; simpl.
  - now rewrite beq_refl.
  - apply not_in_cons_inv in H as [H1 H2].
    rewrite (beq_false_of_neq _ _ H1), (IH H2). reflexivity.
Qed.

Lemma split_byte_join c l :
  l <> [] -> (forall p, In p l -> ~ In c p) -> split_byte c (join [c] l) = l.
Proof.
  induction l as [|x l IH]; intros Hne H; [congruence|].
  destruct l as [|y l].
  - simpl. apply split_byte_none. apply H. now left.
  - change (join [c] (x :: y :: l)) with (x ++ c :: join [c] (y :: l)).
    rewrite split_byte_app by (apply H; now left).
    f_equal. apply IH; [discriminate|]. intros p Hp. apply H. now right.
Qed.

Lemma splitn2_app c a b : ~ In c a -> splitn_byte c 2 (a ++ c :: b) = [a; b].
Proof. intros H. simpl. now rewrite cut_byte_app. Qed.

Lemma splitn2_none c a : ~ In c a -> splitn_byte c 2 a = [a].
Proof. intros H. simpl. now rewrite cut_byte_none. Qed.

Lemma splitn3_app c a b : ~ In c a -> splitn_byte c 3 (a ++ c :: b) = a :: splitn_byte c 2 b.
Proof. intros H. cbn [splitn_byte]. now rewrite cut_byte_app. Qed.

(* ---------- join ---------- *)

Lemma in_join c d l : In c (join [d] l) -> c = d \/ exists p, In p l /\ In c p.
Proof.
  induction l as [|x l IH]; [intros []|].
  destruct l as [|y l].
  - simpl. intros H. right. exists x. auto.
  - change (join [d] (x :: y :: l)) with (x ++ d :: join [d] (y :: l)).
    rewrite in_app_iff. intros [H|[H|H]].
    + right. exists x. split; [now left | exact H].
    + left. congruence.
    + destruct (IH H) as [E|[p [Hp Hc]]]; [now left|].
      right. exists p. split; [now right | exact Hc].
Qed.

Lemma join_nonempty d l : l <> [] -> (forall p, In p l -> p <> []) -> join [d] l <> [].
Proof.
  destruct l as [|x [|y l]]; intros Hne H; [congruence| |].
  - simpl. apply H. now left.
  - change (join [d] (x :: y :: l)) with (x ++ d :: join [d] (y :: l)).
    destruct x; discriminate.
Qed.

(* ---------- has_prefix / contains ---------- *)

Lemma contains_prefix p s : has_prefix p s = true -> contains p s = true.
Proof. intros H. destruct s; simpl; rewrite H; reflexivity. Qed.

Lemma contains_app_r p a b : contains p b = true -> contains p (a ++ b) = true.
Proof.
  intros H. induction a as [|x a IH]; [exact H|].
  simpl. rewrite IH. apply orb_true_r.
Qed.

Lemma contains1_false c s : ~ In c s -> contains [c] s = false.
Proof.
  induction s as [|b t IH]; intros H; [reflexivity|].
  apply not_in_cons_inv in H as [H1 H2]. simpl.
  assert (E : beq c b = false) by (apply beq_neq; congruence).
  rewrite E, (IH H2). reflexivity.
Qed.

Lemma contains2_false p h s : ~ In h s -> contains [p; h] s = false.
Proof.
  induction s as [|b t IH]; intros H; [reflexivity|].
  apply not_in_cons_inv in H as [H1 H2].
  cbn [contains]. rewrite (IH H2), orb_false_r.
  cbn [has_prefix]. destruct t as [|b' t]; [apply andb_false_r|].
  apply not_in_cons_inv in H2 as [H3 _].
  assert (E : beq h b' = false) by (apply beq_neq; congruence).
  rewrite E. cbn. apply andb_false_r.
Qed.

(* ---------- UTF-8 validity ---------- *)

Local Open Scope N_scope.

Lemma decode_width b t r w : decode (b :: t) = (r, w) -> (1 <= w <= length (b :: t))%nat.
Proof.
  unfold decode, is_cont, in_range. intros H.
  repeat match type of H with
  | (if ?c then _ else _) = _ => destruct c eqn:?
  | (match ?l with [] => _ | _ :: _ => _ end) = _ => destruct l
  end; inversion H; subst; simpl; lia.
Qed.

(* a successful decode only looks at bytes that are there *)
Lemma decode_app b t u r w :
  decode (b :: t) = (r, w) -> (r =? rune_error) && (w =? 1)%nat = false ->
  decode (b :: t ++ u) = (r, w).
Proof.
  intros H Hne.
  assert (Bad : (rune_error, 1%nat) = (r, w) -> decode (b :: t ++ u) = (r, w)).
  { intros E. inversion E; subst. discriminate Hne. }
  unfold decode in *.
  destruct (bN b <? 128); [exact H|].
  destruct (bN b <? 194); [exact H|].
  destruct (bN b <? 224).
  { destruct t as [|b1 t]; [now apply Bad | exact H]. }
  destruct (bN b <? 240).
  { destruct t as [|b1 [|b2 t]]; [now apply Bad | now apply Bad | exact H]. }
  destruct (bN b <? 245); [|exact H].
  destruct t as [|b1 [|b2 [|b3 t]]]; [now apply Bad | now apply Bad | now apply Bad | exact H].
Qed.

Lemma valid_aux_app a b k :
  valid_aux a k = true -> (k <= length a)%nat -> valid_aux b 0 = true -> valid_aux (a ++ b) k = true.
Proof.
  revert k; induction a as [|x a IH]; intros k Ha Hk Hb.
  - simpl in Hk. assert (k = 0%nat) by lia. subst. exact Hb.
  - destruct k as [|k].
    + cbn [app]. cbn [valid_aux] in Ha |- *.
      destruct (decode (x :: a)) as [r w] eqn:D.
      destruct ((r =? rune_error) && (w =? 1)%nat) eqn:E; [discriminate|].
      rewrite (decode_app _ _ b _ _ D E), E.
      apply decode_width in D. simpl in D.
      apply IH; [exact Ha | lia | exact Hb].
    + cbn [app valid_aux] in Ha |- *. simpl in Hk. apply IH; [exact Ha | lia | exact Hb].
Qed.

Lemma valid_string_app a b :
  valid_string a = true -> valid_string b = true -> valid_string (a ++ b) = true.
Proof. unfold valid_string. intros Ha Hb. apply valid_aux_app; [exact Ha | lia | exact Hb]. Qed.

Lemma valid_string_nil : valid_string [] = true.
Proof. reflexivity. Qed.

Lemma valid_string_ascii c s : bN c < 128 -> valid_string s = true -> valid_string (c :: s) = true.
Proof.
  intros Hc Hs. unfold valid_string. cbn [valid_aux]. unfold decode.
  destruct (bN c <? 128) eqn:E; [|lia].
  destruct (bN c =? rune_error) eqn:E2; [unfold rune_error in E2; lia|].
  exact Hs.
Qed.

Lemma valid_string_ascii_app a c s :
  valid_string a = true -> bN c < 128 -> valid_string s = true -> valid_string (a ++ c :: s) = true.
Proof. intros Ha Hc Hs. apply valid_string_app; [exact Ha | now apply valid_string_ascii]. Qed.

Lemma valid_join d l :
  bN d < 128 -> (forall p, In p l -> valid_string p = true) -> valid_string (join [d] l) = true.
Proof.
  intros Hd. induction l as [|x l IH]; intros H; [reflexivity|].
  destruct l as [|y l].
  - simpl. apply H. now left.
  - change (join [d] (x :: y :: l)) with (x ++ d :: join [d] (y :: l)).
    apply valid_string_ascii_app; [apply H; now left | exact Hd |].
    apply IH. intros p Hp. apply H. now right.
Qed.
