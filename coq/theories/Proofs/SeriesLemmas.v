(* Association-list lemmas for the registry's nested maps (helper for SeriesProofs). *)
From SE Require Import Spec.SeriesSpec.
From Coq Require Import ZArith.

(* ---------- boolean equalities reflect Leibniz equality ---------- *)
Lemma lbe_eq a b : list_bytes_eqb' a b = true <-> a = b.
Proof.
  revert b; induction a as [|x a IH]; intros [|y b]; simpl; split; intros H;
    try reflexivity; try discriminate.
  - apply andb_true_iff in H as [H1 H2]. apply bytes_eqb_eq in H1. apply IH in H2. congruence.
  - inversion H; subst. rewrite bytes_eqb_refl. simpl. now apply IH.
Qed.

Lemma key2_eq a b : key2_eqb a b = true <-> a = b.
Proof.
  unfold key2_eqb. destruct a as [a1 a2], b as [b1 b2]; simpl. rewrite andb_true_iff, !lbe_eq.
  split; [intros [? ?]; congruence | intros H; inversion H; auto].
Qed.

Lemma mtype_eqb_eq a b : mtype_eqb a b = true <-> a = b.
Proof. destruct a, b; simpl; split; intros H; try reflexivity; try discriminate. Qed.

Lemma mtype_eqb_refl a : mtype_eqb a a = true.
Proof. now apply mtype_eqb_eq. Qed.

(* ---------- generic association lists ---------- *)
Section Assoc.
Context {K : Type} (eqb : K -> K -> bool).
Hypothesis eqb_eq : forall a b, eqb a b = true <-> a = b.

Lemma eqb_refl a : eqb a a = true.
Proof. now apply eqb_eq. Qed.

Lemma eqb_neq a b : a <> b -> eqb a b = false.
Proof. intros H. destruct (eqb a b) eqn:E; [apply eqb_eq in E; contradiction | reflexivity]. Qed.

Fixpoint afind {V} (k : K) (l : list (K * V)) : option V :=
  match l with [] => None | (k', v) :: r => if eqb k k' then Some v else afind k r end.
Fixpoint aset {V} (k : K) (v : V) (l : list (K * V)) : list (K * V) :=
  match l with [] => [(k, v)] | (k', v') :: r => if eqb k k' then (k, v) :: r else (k', v') :: aset k v r end.
Fixpoint adel {V} (k : K) (l : list (K * V)) : list (K * V) :=
  match l with [] => [] | (k', v') :: r => if eqb k k' then r else (k', v') :: adel k r end.

Lemma afind_aset {V} k' k (v : V) l : afind k' (aset k v l) = if eqb k' k then Some v else afind k' l.
Proof.
  induction l as [|[k0 v0] l IH]; simpl.
  - reflexivity.
  - destruct (eqb k k0) eqn:E; simpl.
    + apply eqb_eq in E. subst k0. destruct (eqb k' k); reflexivity.
    + destruct (eqb k' k0) eqn:E2.
      * apply eqb_eq in E2. subst k0. destruct (eqb k' k) eqn:E3; [|reflexivity].
        apply eqb_eq in E3. subst. rewrite eqb_refl in E. discriminate.
      * apply IH.
Qed.

Lemma in_keys_aset {V} k' k (v : V) l : In k' (map fst (aset k v l)) <-> k' = k \/ In k' (map fst l).
Proof.
  induction l as [|[k0 v0] l IH]; simpl.
  - intuition.
  - destruct (eqb k k0) eqn:E; simpl.
    + apply eqb_eq in E. subst. intuition.
    + rewrite IH. intuition.
Qed.

Lemma NoDup_aset {V} k (v : V) l : NoDup (map fst l) -> NoDup (map fst (aset k v l)).
Proof.
  induction l as [|[k0 v0] l IH]; simpl; intros H.
  - constructor; [intros []|constructor].
  - inversion H; subst. destruct (eqb k k0) eqn:E; simpl.
    + apply eqb_eq in E. subst. constructor; assumption.
    + constructor; [|auto]. rewrite in_keys_aset. intros [->|Hin]; [|contradiction].
      rewrite eqb_refl in E. discriminate.
Qed.

Lemma afind_In {V} k (v : V) l : afind k l = Some v -> In (k, v) l.
Proof.
  induction l as [|[k0 v0] l IH]; simpl; [discriminate|].
  destruct (eqb k k0) eqn:E; intros H.
  - apply eqb_eq in E. inversion H; subst. now left.
  - right. auto.
Qed.

Lemma afind_None {V} k (l : list (K * V)) : afind k l = None <-> ~ In k (map fst l).
Proof.
  induction l as [|[k0 v0] l IH]; simpl.
  - intuition.
  - destruct (eqb k k0) eqn:E.
    + apply eqb_eq in E. subst. split; [discriminate|]. intros H. exfalso. apply H. now left.
    + rewrite IH. split; [|tauto]. intros H [->|H1]; [|tauto]. rewrite eqb_refl in E. discriminate.
Qed.

Lemma In_afind {V} k (v : V) l : NoDup (map fst l) -> In (k, v) l -> afind k l = Some v.
Proof.
  induction l as [|[k0 v0] l IH]; simpl; intros Hnd Hin; [contradiction|].
  inversion Hnd; subst. destruct Hin as [Heq|Hin].
  - inversion Heq; subst. now rewrite eqb_refl.
  - destruct (eqb k k0) eqn:E; [|auto].
    apply eqb_eq in E. subst. exfalso. apply H1. change k0 with (fst (k0, v)). now apply in_map.
Qed.

Lemma in_keys_adel {V} k' k (l : list (K * V)) : In k' (map fst (adel k l)) -> In k' (map fst l).
Proof.
  induction l as [|[k0 v0] l IH]; simpl; [tauto|].
  destruct (eqb k k0); simpl; intuition.
Qed.

Lemma NoDup_adel {V} k (l : list (K * V)) : NoDup (map fst l) -> NoDup (map fst (adel k l)).
Proof.
  induction l as [|[k0 v0] l IH]; simpl; intros H; [constructor|].
  inversion H; subst. destruct (eqb k k0); simpl; [assumption|].
  constructor; [|auto]. intros Hin. apply in_keys_adel in Hin. contradiction.
Qed.

Lemma afind_adel {V} k' k (l : list (K * V)) : NoDup (map fst l) ->
  afind k' (adel k l) = if eqb k' k then None else afind k' l.
Proof.
  induction l as [|[k0 v0] l IH]; simpl; intros H.
  - destruct (eqb k' k); reflexivity.
  - inversion H; subst. destruct (eqb k k0) eqn:E; simpl.
    + apply eqb_eq in E. subst k0. destruct (eqb k' k) eqn:E2; [|reflexivity].
      apply eqb_eq in E2. subst. now apply afind_None.
    + destruct (eqb k' k0) eqn:E2.
      * apply eqb_eq in E2. subst k0. destruct (eqb k' k) eqn:E3; [|reflexivity].
        apply eqb_eq in E3. subst. rewrite eqb_refl in E. discriminate.
      * auto.
Qed.

Lemma keys_mapv {V W} (f : V -> W) (l : list (K * V)) :
  map fst (map (fun kv => (fst kv, f (snd kv))) l) = map fst l.
Proof. induction l as [|[k0 v0] l IH]; simpl; congruence. Qed.

Lemma afind_mapv {V W} (f : V -> W) k (l : list (K * V)) :
  afind k (map (fun kv => (fst kv, f (snd kv))) l) = option_map f (afind k l).
Proof.
  induction l as [|[k0 v0] l IH]; simpl; [reflexivity|]. destruct (eqb k k0); [reflexivity|apply IH].
Qed.

Lemma in_keys_filter {V} (p : K * V -> bool) k l : In k (map fst (filter p l)) -> In k (map fst l).
Proof.
  induction l as [|[k0 v0] l IH]; simpl; [tauto|]. destruct (p (k0, v0)); simpl; intuition.
Qed.

Lemma NoDup_filter_keys {V} (p : K * V -> bool) l : NoDup (map fst l) -> NoDup (map fst (filter p l)).
Proof.
  induction l as [|[k0 v0] l IH]; simpl; intros H; [constructor|]. inversion H; subst.
  destruct (p (k0, v0)); simpl; [|auto]. constructor; [|auto].
  intros Hin. apply in_keys_filter in Hin. contradiction.
Qed.

Lemma afind_filter {V} (p : K * V -> bool) k l : NoDup (map fst l) ->
  afind k (filter p l) = match afind k l with Some v => if p (k, v) then Some v else None | None => None end.
Proof.
  induction l as [|[k0 v0] l IH]; simpl; intros H; [reflexivity|]. inversion H; subst.
  destruct (eqb k k0) eqn:E.
  - apply eqb_eq in E. subst k0. destruct (p (k, v0)); simpl.
    + now rewrite eqb_refl.
    + apply afind_None. intros Hin. apply in_keys_filter in Hin. contradiction.
  - destruct (p (k0, v0)); simpl; [rewrite E|]; auto.
Qed.

Lemma keys_aset_present {V} k (v v0 : V) l : afind k l = Some v0 -> map fst (aset k v l) = map fst l.
Proof.
  induction l as [|[k1 v1] l IH]; simpl; [discriminate|].
  destruct (eqb k k1) eqn:E; simpl; intros H.
  - apply eqb_eq in E. congruence.
  - f_equal. auto.
Qed.
End Assoc.

(* ---------- the four concrete families ---------- *)
Lemma name_find_a n l : name_find n l = afind bytes_eqb n l.
Proof. induction l as [|[k v] l IH]; simpl; [reflexivity|]. now rewrite IH. Qed.
Lemma name_set_a n v l : name_set n v l = aset bytes_eqb n v l.
Proof. induction l as [|[k v'] l IH]; simpl; [reflexivity|]. now rewrite IH. Qed.
Lemma vecs_find_a n l : vecs_find n l = afind list_bytes_eqb' n l.
Proof. induction l as [|[k v] l IH]; simpl; [reflexivity|]. now rewrite IH. Qed.
Lemma vecs_set_a n v l : vecs_set n v l = aset list_bytes_eqb' n v l.
Proof. induction l as [|[k v'] l IH]; simpl; [reflexivity|]. now rewrite IH. Qed.
Lemma rm_find_a n l : rm_find n l = afind key2_eqb n l.
Proof. induction l as [|[k v] l IH]; simpl; [reflexivity|]. now rewrite IH. Qed.
Lemma rm_set_a n v l : rm_set n v l = aset key2_eqb n v l.
Proof. induction l as [|[k v'] l IH]; simpl; [reflexivity|]. now rewrite IH. Qed.
Lemma child_find_a n l : child_find n l = afind list_bytes_eqb' n l.
Proof. induction l as [|[k v] l IH]; simpl; [reflexivity|]. now rewrite IH. Qed.
Lemma child_set_a n v l : child_set n v l = aset list_bytes_eqb' n v l.
Proof. induction l as [|[k v'] l IH]; simpl; [reflexivity|]. now rewrite IH. Qed.
Lemma child_del_a n l : child_del n l = adel list_bytes_eqb' n l.
Proof. induction l as [|[k v'] l IH]; simpl; [reflexivity|]. now rewrite IH. Qed.

Lemma name_find_set n' n v l : name_find n' (name_set n v l) = if bytes_eqb n' n then Some v else name_find n' l.
Proof. rewrite name_set_a, !name_find_a. apply afind_aset, bytes_eqb_eq. Qed.
Lemma vecs_find_set n' n v l : vecs_find n' (vecs_set n v l) = if list_bytes_eqb' n' n then Some v else vecs_find n' l.
Proof. rewrite vecs_set_a, !vecs_find_a. apply afind_aset, lbe_eq. Qed.
Lemma rm_find_set n' n v l : rm_find n' (rm_set n v l) = if key2_eqb n' n then Some v else rm_find n' l.
Proof. rewrite rm_set_a, !rm_find_a. apply afind_aset, key2_eq. Qed.
Lemma child_find_set n' n v l : child_find n' (child_set n v l) = if list_bytes_eqb' n' n then Some v else child_find n' l.
Proof. rewrite child_set_a, !child_find_a. apply afind_aset, lbe_eq. Qed.
Lemma child_find_del n' n l : NoDup (map fst l) ->
  child_find n' (child_del n l) = if list_bytes_eqb' n' n then None else child_find n' l.
Proof. rewrite child_del_a, !child_find_a. apply afind_adel, lbe_eq. Qed.

Lemma NoDup_name_set n v l : NoDup (map fst l) -> NoDup (map fst (name_set n v l)).
Proof. rewrite name_set_a. apply NoDup_aset, bytes_eqb_eq. Qed.
Lemma NoDup_vecs_set n v l : NoDup (map fst l) -> NoDup (map fst (vecs_set n v l)).
Proof. rewrite vecs_set_a. apply NoDup_aset, lbe_eq. Qed.
Lemma NoDup_rm_set n v l : NoDup (map fst l) -> NoDup (map fst (rm_set n v l)).
Proof. rewrite rm_set_a. apply NoDup_aset, key2_eq. Qed.
Lemma NoDup_child_set n v l : NoDup (map fst l) -> NoDup (map fst (child_set n v l)).
Proof. rewrite child_set_a. apply NoDup_aset, lbe_eq. Qed.
Lemma NoDup_child_del n l : NoDup (map fst l) -> NoDup (map fst (child_del n l)).
Proof. rewrite child_del_a. apply NoDup_adel. Qed.

Lemma lbe_refl a : list_bytes_eqb' a a = true.
Proof. now apply lbe_eq. Qed.
Lemma key2_refl a : key2_eqb a a = true.
Proof. now apply key2_eq. Qed.
Lemma lbe_neq a b : a <> b -> list_bytes_eqb' a b = false.
Proof. apply eqb_neq, lbe_eq. Qed.
Lemma bytes_neq a b : a <> b -> bytes_eqb a b = false.
Proof. apply bytes_eqb_neq. Qed.
