From SE Require Import Base.ListLemmas Spec.LineSpec.
From SE Require Import Proofs.StringLemmas.
From Coq Require Import Permutation.

(* ---------- free_of as non-membership ---------- *)

Lemma free_of_not_in bad s c : free_of bad s = true -> In c bad -> ~ In c s.
Proof.
  unfold free_of. rewrite forallb_forall. intros H Hc Hin.
  specialize (H c Hin). apply negb_true_iff in H.
  assert (E : existsb (beq c) bad = true); [|congruence].
  apply existsb_exists. exists c. split; [exact Hc | apply beq_refl].
Qed.

Lemma free_of_app bad a b : free_of bad (a ++ b) = free_of bad a && free_of bad b.
Proof. apply forallb_app. Qed.

Ltac bneq := let E := fresh in intro E; vm_compute in E; discriminate E.

(* ---------- disabled syntaxes ---------- *)

Lemma find_name_sep_none f s :
  (f_librato f = true -> ~ In c_hash s) -> (f_influx f = true -> ~ In c_comma s) ->
  find_name_sep f s = None.
Proof.
  induction s as [|b t IH]; intros H1 H2; [reflexivity|]. cbn [find_name_sep].
  assert (E : (beq b c_hash && f_librato f) || (beq b c_comma && f_influx f) = false).
  { apply orb_false_iff; split; apply andb_false_iff.
    - destruct (f_librato f); [left | now right].
      apply beq_neq. intros ->. apply H1; [reflexivity | now left].
    - destruct (f_influx f); [left | now right].
      apply beq_neq. intros ->. apply H2; [reflexivity | now left]. }
  rewrite E, IH; [reflexivity | |]; intros Hf Hin; [apply (H1 Hf) | apply (H2 Hf)]; now right.
Qed.

Lemma disabled_nameside_ok : stmt_disabled_nameside.
Proof.
  intros f name labels HL HI HS.
  assert (P : plain_name_and_tags f name labels = (name, labels, [])).
  { unfold plain_name_and_tags.
    rewrite find_name_sep_none; [reflexivity | |]; intros Hf; eapply free_of_not_in; eauto; now left. }
  unfold parse_name_and_tags. destruct (f_signalfx f) eqn:E; [|now rewrite P].
  specialize (HS eq_refl).
  rewrite (index_byte_none c_lbr), (index_byte_none c_rbr), P; try reflexivity;
    eapply free_of_not_in; eauto; simpl; auto.
Qed.

(* ---------- no panic ---------- *)

Lemma pnt_ok f name labels : exists r, parse_name_and_tags f name labels = Ok r.
Proof.
  unfold parse_name_and_tags. destruct (f_signalfx f); [|eauto].
  destruct (index_byte c_lbr name) as [st|] eqn:E1;
    destruct (index_byte c_rbr name) as [en|] eqn:E2; eauto.
  destruct (st <? en)%nat eqn:E3; [|eauto].
  apply Nat.ltb_lt in E3. apply index_byte_lt in E1, E2.
  rewrite (slice_ok name (S st) en), (slice_ok name 0 st), slice_from_ok by lia. cbn [bind].
  destruct parse_name_tags; eauto.
Qed.

Lemma l2e_no_panic_ok : stmt_l2e_no_panic.
Proof.
  intros pf f line. unfold line_to_events.
  destruct line as [|b line]; [discriminate|].
  destruct (splitn_byte c_colon 2 (b :: line)) as [|np [|rest [|]]]; try discriminate.
  match goal with |- (if ?c then _ else _) <> _ => destruct c end; [discriminate|].
  destruct (pnt_ok f np []) as [[[metric labels] t0] E]. rewrite E. cbn [bind].
  match goal with |- (if ?c then _ else _) <> _ => destruct c end; [discriminate|].
  destruct (splitn_byte c_pipe 3 rest) as [|p0 [|p1 ?]]; try discriminate.
  destruct (contains [c_colon] p0).
  - destruct (is_agg_type p1); [|discriminate].
    destruct (cut_byte c_pipe rest) as [[? ?] ?]. destruct do_samples. discriminate.
  - destruct (contains pipe_hash rest); destruct do_samples; discriminate.
Qed.

(* ---------- mixed tagging ---------- *)

Lemma mixed_rejected_ok : stmt_mixed_rejected.
Proof.
  intros pf f name rest metric labels t0 Hne Hfree Hvalid Hp Hl Hc.
  unfold line_to_events.
  destruct (name ++ c_colon :: rest) eqn:E0; [destruct name; discriminate|]. rewrite <- E0 in Hvalid |- *.
  rewrite splitn2_app by (eapply free_of_not_in; eauto; now left).
  rewrite Hvalid. destruct name; [congruence|]. cbn [negb orb].
  rewrite Hp. cbn [bind]. unfold pipe_hash. rewrite Hc.
  destruct labels; [congruence|]. reflexivity.
Qed.

(* ---------- one sample, by components ---------- *)

Definition sample_body (pf : bytes -> F64 * bool) (f : flags) (metric : bytes) (labels : lmap)
           (value_str stat_type : bytes) (extra : list bytes) : list event * lmap * list tick :=
  let relative := starts_with_sign value_str in
  let '(value, err) := pf value_str in
  if err then ([], labels, [TSample; TErr MalformedValue])
  else if existsb (fun c => match c with [] => true | _ => false end) extra
  then ([], labels, [TSample; TErr MalformedComponent])
  else
    let st := stat_of stat_type in
    let '(value', mult, labels', ticks) := apply_components pf f st extra value 1%Z labels [] in
    let ticks2 := match labels' with [] => [] | _ => [TTagsRecv] end in
    let '(evs, ticks3) := emit st metric value' relative labels' mult in
    (evs, labels', [TSample] ++ ticks ++ ticks2 ++ ticks3).

Lemma do_sample_body pf f metric s labels vs ty extra :
  split_byte c_pipe s = vs :: ty :: extra -> length extra <= 2 ->
  do_sample pf f metric s labels = sample_body pf f metric labels vs ty extra.
Proof.
  intros H Hl. unfold do_sample. rewrite H.
  destruct extra as [|a [|b [|c l]]]; [reflexivity | reflexivity | reflexivity |].
  simpl in Hl. lia.
Qed.

Lemma apply_components_app pf f st a b v m l t :
  apply_components pf f st (a ++ b) v m l t =
  let '(v', m', l', t') := apply_components pf f st a v m l t in apply_components pf f st b v' m' l' t'.
Proof.
  revert v m l t; induction a as [|comp a IH]; intros v m l t; [reflexivity|].
  cbn [app apply_components].
  destruct comp as [|c0 ctail]; [apply IH|].
  destruct (beq c0 c_at).
  - destruct (pf ctail) as [sf0 err]. destruct st; apply IH.
  - destruct (beq c0 c_hash); [|apply IH].
    destruct (parse_dogstatsd_tags f ctail l). apply IH.
Qed.

Lemma apply_components_hash pf f st tags v m l t :
  apply_components pf f st [c_hash :: tags] v m l t =
  let '(l', t') := parse_dogstatsd_tags f tags l in (v, m, l', t ++ t').
Proof. cbn. destruct parse_dogstatsd_tags. reflexivity. Qed.

Definition rate_tail (rate : option bytes) : bytes :=
  match rate with Some r => c_pipe :: c_at :: r | None => [] end.
Definition rate_comps (rate : option bytes) : list bytes :=
  match rate with Some r => [c_at :: r] | None => [] end.

Lemma clean_sample_inv v ty rate c :
  clean_sample v ty rate = true -> In c tail_bad ->
  ~ In c v /\ ~ In c ty /\ match rate with Some r => ~ In c r | None => True end.
Proof.
  unfold clean_sample. intros H Hc.
  repeat (apply andb_true_iff in H as [H ?]).
  split; [|split].
  - eapply free_of_not_in; eauto.
  - eapply free_of_not_in; eauto.
  - destruct rate as [r|]; [|exact I].
    match goal with X : _ && _ = true |- _ => apply andb_true_iff in X as [X ?] end.
    eapply free_of_not_in; eauto.
Qed.

Lemma clean_sample_valid v ty rate :
  clean_sample v ty rate = true -> valid_string (sample_text v ty rate) = true.
Proof.
  unfold clean_sample, sample_text. intros H.
  repeat (apply andb_true_iff in H as [H ?]).
  apply valid_string_ascii_app; [assumption | reflexivity |].
  destruct rate as [r|].
  - match goal with X : _ && _ = true |- _ => apply andb_true_iff in X as [X ?] end.
    apply valid_string_ascii_app; [assumption | reflexivity |].
    apply valid_string_ascii; [reflexivity | assumption].
  - now rewrite app_nil_r.
Qed.

Lemma split_sample v ty rate :
  clean_sample v ty rate = true ->
  split_byte c_pipe (sample_text v ty rate) = v :: ty :: rate_comps rate.
Proof.
  intros H. destruct (clean_sample_inv v ty rate c_pipe H) as (Hv & Hty & Hr); [simpl; auto|].
  unfold sample_text. rewrite split_byte_app by exact Hv. f_equal.
  destruct rate as [r|]; cbn [rate_comps].
  - rewrite split_byte_app by exact Hty. f_equal.
    apply split_byte_none. intros [E|E]; [revert E; bneq | contradiction].
  - rewrite app_nil_r. now apply split_byte_none.
Qed.

Lemma split_sample_dog v ty rate tags :
  clean_sample v ty rate = true -> ~ In c_pipe tags ->
  split_byte c_pipe (sample_text v ty rate ++ c_pipe :: c_hash :: tags)
  = v :: ty :: rate_comps rate ++ [c_hash :: tags].
Proof.
  intros H Ht. destruct (clean_sample_inv v ty rate c_pipe H) as (Hv & Hty & Hr); [simpl; auto|].
  assert (Hh : ~ In c_pipe (c_hash :: tags)).
  { intros [E|E]; [revert E; bneq | contradiction]. }
  unfold sample_text. rewrite <- app_assoc. cbn [app]. rewrite <- app_assoc.
  rewrite split_byte_app by exact Hv. f_equal.
  destruct rate as [r|]; cbn [rate_comps app].
  - rewrite split_byte_app by exact Hty. f_equal.
    change (c_at :: r ++ c_pipe :: c_hash :: tags) with ((c_at :: r) ++ c_pipe :: c_hash :: tags).
    rewrite split_byte_app.
    + f_equal. now apply split_byte_none.
    + intros [E|E]; [revert E; bneq | contradiction].
  - rewrite split_byte_app by exact Hty. f_equal. now apply split_byte_none.
Qed.

Lemma rate_comps_len rate : length (rate_comps rate) <= 1.
Proof. destruct rate; simpl; lia. Qed.

Lemma rate_comps_nonempty rate :
  existsb (fun c : bytes => match c with [] => true | _ => false end) (rate_comps rate) = false.
Proof. destruct rate; reflexivity. Qed.

Lemma disabled_dog_ok : stmt_disabled_dog.
Proof.
  intros pf f metric v ty rate tags labels Hd Ht Hc.
  assert (Ht' : ~ In c_pipe tags) by (eapply free_of_not_in; eauto; now left).
  rewrite (do_sample_body _ _ _ _ _ _ _ _ (split_sample_dog v ty rate tags Hc Ht')).
  2:{ rewrite app_length. pose proof (rate_comps_len rate). simpl. lia. }
  rewrite (do_sample_body _ _ _ _ _ _ _ _ (split_sample v ty rate Hc)).
  2:{ pose proof (rate_comps_len rate). lia. }
  unfold sample_body.
  destruct (pf v) as [value err]. destruct err; [reflexivity|].
  rewrite existsb_app, !rate_comps_nonempty. cbn [existsb orb].
  rewrite apply_components_app.
  destruct (apply_components pf f (stat_of ty) (rate_comps rate) value 1%Z labels [])
    as [[[v' m'] l'] t'].
  rewrite apply_components_hash. unfold parse_dogstatsd_tags. rewrite Hd.
  rewrite app_nil_r. reflexivity.
Qed.

(* ---------- tag lists ---------- *)

Definition tag_key (t : wtag) : bytes := match t with WKV k _ => k | WBare t => t end.

Lemma parse_tag_nonempty tag sep labels :
  tag <> [] ->
  parse_tag tag sep labels =
  match index_byte sep tag with
  | Some i =>
    match firstn i tag, skipn (S i) tag with
    | [], _ | _, [] => (labels, [TTagErr])
    | _, _ => (lm_set (esc (firstn i tag)) (skipn (S i) tag) labels, [])
    end
  | None => (labels, [TTagErr])
  end.
Proof. destruct tag; [congruence | reflexivity]. Qed.

Lemma parse_tag_render sep t labels n :
  ~ In sep (tag_key t) ->
  exists m, parse_tag (render_tag sep t) sep labels = (fst (tag_sem t (labels, n)), repeat TTagErr m)
            /\ snd (tag_sem t (labels, n)) = n + m.
Proof.
  intros Hk. destruct t as [k v | b]; cbn [render_tag tag_key] in *.
  - rewrite parse_tag_nonempty by (destruct k; discriminate).
    rewrite index_byte_app by exact Hk. rewrite firstn_length_app, skipn_S_length_app.
    destruct k as [|k0 k]; [exists 1; split; [reflexivity | simpl; lia]|].
    destruct v as [|v0 v]; [exists 1; split; [reflexivity | simpl; lia]|].
    exists 0. split; [reflexivity | simpl; lia].
  - destruct b as [|b0 b]; [exists 1; split; [reflexivity | simpl; lia]|].
    rewrite parse_tag_nonempty by discriminate.
    rewrite index_byte_none by exact Hk. exists 1; split; [reflexivity | simpl; lia].
Qed.

Lemma ptl_single pre sep p labels :
  p <> [] -> parse_tag_list pre sep [p] labels = parse_tag (pre p) sep labels.
Proof. destruct p; [congruence | reflexivity]. Qed.

Lemma ptl_cons pre sep p rest labels :
  rest <> [] ->
  parse_tag_list pre sep (p :: rest) labels =
  let '(l1, t1) := parse_tag (pre p) sep labels in
  let '(l2, t2) := parse_tag_list pre sep rest l1 in (l2, t1 ++ t2).
Proof. destruct rest; [congruence | reflexivity]. Qed.

Definition tag_ok (pre : bytes -> bytes) (sep : byte) (t : wtag) : Prop :=
  ~ In sep (tag_key t) /\ pre (render_tag sep t) = render_tag sep t.

Lemma ptl_sem pre sep ts t :
  (forall a, In a (ts ++ [t]) -> tag_ok pre sep a) -> render_tag sep t <> [] ->
  forall labels n, exists m,
    parse_tag_list pre sep (map (render_tag sep) (ts ++ [t])) labels
    = (fst (fold_left (fun st t => tag_sem t st) (ts ++ [t]) (labels, n)), repeat TTagErr m)
    /\ snd (fold_left (fun st t => tag_sem t st) (ts ++ [t]) (labels, n)) = n + m.
Proof.
  intros Hok Hne. induction ts as [|a ts IH]; intros labels n.
  - cbn [app map fold_left]. rewrite ptl_single by exact Hne.
    destruct (Hok t) as [Hk Hp]; [now left|]. rewrite Hp.
    apply parse_tag_render; exact Hk.
  - cbn [app map]. rewrite ptl_cons by (destruct ts; discriminate).
    destruct (Hok a) as [Hk Hp]; [now left|]. rewrite Hp.
    destruct (parse_tag_render sep a labels n Hk) as [m1 [E1 E2]]. rewrite E1.
    cbn [fold_left].
    destruct (IH (fun x Hx => Hok x (or_intror Hx)) (fst (tag_sem a (labels, n))) (n + m1))
      as [m2 [E3 E4]].
    rewrite E3. exists (m1 + m2).
    rewrite (surjective_pairing (tag_sem a (labels, n))), E2. split.
    + now rewrite repeat_app.
    + rewrite E4. lia.
Qed.

Lemma last_not_empty_inv ts :
  last_not_empty ts = true -> exists ts' t, ts = ts' ++ [t] /\ forall sep, render_tag sep t <> [].
Proof.
  unfold last_not_empty. destruct (rev ts) as [|t r] eqn:E; [discriminate|]. intros H.
  exists (rev r), t. split.
  - rewrite <- (rev_involutive ts), E. reflexivity.
  - intros sep. destruct t as [k v|[|b0 b]]; [destruct k; simpl; discriminate | discriminate H | simpl; discriminate].
Qed.

Lemma ptl_render pre sep ts :
  last_not_empty ts = true ->
  (forall a, In a ts -> tag_ok pre sep a /\ ~ In c_comma (render_tag sep a)) ->
  parse_tag_list pre sep (split_byte c_comma (render_tags sep ts)) []
  = (fst (tags_sem ts), repeat TTagErr (snd (tags_sem ts))).
Proof.
  intros Hl Hok. destruct (last_not_empty_inv _ Hl) as (ts' & t & -> & Hne).
  unfold render_tags. rewrite split_byte_join.
  - destruct (ptl_sem pre sep ts' t (fun a Ha => proj1 (Hok a Ha)) (Hne sep) [] 0) as [m [E1 E2]].
    rewrite E1. unfold tags_sem. do 2 f_equal. symmetry. exact E2.
  - destruct ts'; discriminate.
  - intros p Hp. apply in_map_iff in Hp as [a [<- Ha]]. apply Hok; exact Ha.
Qed.

(* ---------- clean tags ---------- *)

Lemma name_bad_key_bad c : In c name_bad -> In c key_bad.
Proof. intros H. now right. Qed.

Lemma clean_tag_key c t : clean_tag t = true -> In c key_bad -> ~ In c (tag_key t).
Proof.
  intros H Hc. destruct t as [k v|b]; cbn [clean_tag tag_key] in *.
  - repeat (apply andb_true_iff in H as [H ?]). eapply free_of_not_in; eauto.
  - apply andb_true_iff in H as [H ?]. eapply free_of_not_in; eauto.
Qed.

Lemma clean_tag_free c sep t :
  clean_tag t = true -> In c name_bad -> c <> sep -> ~ In c (render_tag sep t).
Proof.
  intros H Hc Hs. destruct t as [k v|b]; cbn [clean_tag render_tag] in *.
  - repeat (apply andb_true_iff in H as [H ?]).
    rewrite in_app_iff. intros [Hi|[Hi|Hi]].
    + exact (free_of_not_in _ _ _ H (name_bad_key_bad _ Hc) Hi).
    + congruence.
    + match goal with X : free_of name_bad v = true |- _ => exact (free_of_not_in _ _ _ X Hc Hi) end.
  - apply andb_true_iff in H as [H ?]. eapply free_of_not_in; eauto. now apply name_bad_key_bad.
Qed.

Lemma clean_tag_valid sep t :
  (bN sep < 128)%N -> clean_tag t = true -> valid_string (render_tag sep t) = true.
Proof.
  intros Hs H. destruct t as [k v|b]; cbn [clean_tag render_tag] in *.
  - repeat (apply andb_true_iff in H as [H ?]). now apply valid_string_ascii_app.
  - now apply andb_true_iff in H as [H ?].
Qed.

Lemma render_tags_free c sep ts :
  forallb clean_tag ts = true -> In c name_bad -> c <> sep -> c <> c_comma ->
  ~ In c (render_tags sep ts).
Proof.
  intros H Hc Hs Hcomma Hi. rewrite forallb_forall in H.
  apply in_join in Hi as [E|[p [Hp Hi]]]; [congruence|].
  apply in_map_iff in Hp as [a [<- Ha]].
  revert Hi. apply clean_tag_free; auto.
Qed.

Lemma render_tags_valid sep ts :
  (bN sep < 128)%N -> forallb clean_tag ts = true -> valid_string (render_tags sep ts) = true.
Proof.
  intros Hs H. rewrite forallb_forall in H. apply valid_join; [reflexivity|].
  intros p Hp. apply in_map_iff in Hp as [a [<- Ha]]. apply clean_tag_valid; auto.
Qed.

Lemma parse_name_tags_render ts :
  forallb clean_tag ts = true -> last_not_empty ts = true ->
  parse_name_tags (render_tags c_eq ts) [] = (fst (tags_sem ts), repeat TTagErr (snd (tags_sem ts))).
Proof.
  intros Hc Hl. unfold parse_name_tags. apply ptl_render; [exact Hl|].
  rewrite forallb_forall in Hc. intros a Ha. specialize (Hc a Ha). split; [split|].
  - apply clean_tag_key; [exact Hc | now left].
  - reflexivity.
  - apply clean_tag_free; [exact Hc | simpl; auto | bneq].
Qed.

Lemma trim_left_hash_id s :
  match s with b :: _ => b <> c_hash | [] => True end -> trim_left_hash s = s.
Proof.
  destruct s as [|b t]; [reflexivity|]. intros H. unfold trim_left_hash.
  now rewrite (beq_false_of_neq _ _ H).
Qed.

Lemma parse_dog_tags_render ts :
  forallb clean_tag ts = true -> last_not_empty ts = true ->
  parse_dogstatsd_tags all_on (render_tags c_colon ts) []
  = (fst (tags_sem ts), repeat TTagErr (snd (tags_sem ts))).
Proof.
  intros Hc Hl. unfold parse_dogstatsd_tags. cbn [f_dog all_on]. apply ptl_render; [exact Hl|].
  rewrite forallb_forall in Hc. intros a Ha. specialize (Hc a Ha). split; [split|].
  - apply clean_tag_key; [exact Hc | simpl; auto].
  - apply trim_left_hash_id.
    assert (Hh : ~ In c_hash (tag_key a)) by (apply clean_tag_key; [exact Hc | simpl; auto 10]).
    destruct a as [[|k0 k] v|[|b0 b]]; cbn [render_tag tag_key app] in *;
      try exact I; try bneq; intros ->; apply Hh; now left.
  - apply clean_tag_free; [exact Hc | simpl; auto | bneq].
Qed.

(* ---------- the C09 hypothesis, taken apart ---------- *)

Lemma hyp_c09_inv pre post ts v ty rate :
  hyp_c09 pre post ts v ty rate = true ->
  free_of name_bad (pre ++ post) = true /\ valid_string pre = true /\ valid_string post = true /\
  pre ++ post <> [] /\ forallb clean_tag ts = true /\ last_not_empty ts = true /\
  clean_sample v ty rate = true.
Proof.
  unfold hyp_c09. intros H. repeat (apply andb_true_iff in H as [H ?]).
  repeat split; auto. destruct (pre ++ post); discriminate.
Qed.

Lemma free_of_weaken bad bad' s :
  (forall c, In c bad' -> In c bad) -> free_of bad s = true -> free_of bad' s = true.
Proof.
  unfold free_of. rewrite !forallb_forall. intros Hsub H x Hx. specialize (H x Hx).
  apply negb_true_iff in H. apply negb_true_iff.
  destruct (existsb (beq x) bad') eqn:E; [|reflexivity].
  apply existsb_exists in E as [y [Hy Hb]]. rewrite <- H. symmetry.
  apply existsb_exists. exists y; split; auto.
Qed.

Lemma sample_text_free c v ty rate :
  clean_sample v ty rate = true -> In c tail_bad -> c <> c_pipe -> c <> c_at ->
  ~ In c (sample_text v ty rate).
Proof.
  intros H Hc Hp Ha. destruct (clean_sample_inv v ty rate c H Hc) as (Hv & Hty & Hr).
  unfold sample_text. rewrite in_app_iff. cbn [In]. rewrite in_app_iff.
  destruct rate as [r|]; cbn [In]; intuition congruence.
Qed.

(* ---------- LineToEvents on name:sample ---------- *)

Lemma l2e_single pf f name metric labels t0 v ty rate :
  name <> [] -> ~ In c_colon name -> valid_string name = true ->
  parse_name_and_tags f name [] = Ok (metric, labels, t0) ->
  clean_sample v ty rate = true ->
  line_to_events pf f (name ++ c_colon :: sample_text v ty rate)
  = Ok (let '(evs, _, ticks) := do_sample pf f metric (sample_text v ty rate) labels in
        (evs, t0 ++ ticks)).
Proof.
  intros Hne Hfree Hvn Hp Hc.
  assert (Hvalid : valid_string (name ++ c_colon :: sample_text v ty rate) = true).
  { apply valid_string_ascii_app; [exact Hvn | reflexivity | now apply clean_sample_valid]. }
  assert (Hh : ~ In c_hash (sample_text v ty rate)).
  { apply sample_text_free; [exact Hc | simpl; auto | bneq | bneq]. }
  assert (Hco : ~ In c_colon (sample_text v ty rate)).
  { apply sample_text_free; [exact Hc | simpl; auto | bneq | bneq]. }
  destruct (clean_sample_inv v ty rate c_colon Hc) as (Hv2 & _ & _); [simpl; auto|].
  destruct (clean_sample_inv v ty rate c_pipe Hc) as (Hv3 & Hty3 & _); [simpl; auto|].
  assert (S3 : exists more, splitn_byte c_pipe 3 (sample_text v ty rate) = v :: ty :: more).
  { unfold sample_text. rewrite splitn3_app by exact Hv3. destruct rate as [r|].
    - rewrite splitn2_app by exact Hty3. eauto.
    - rewrite app_nil_r, splitn2_none by exact Hty3. eauto. }
  destruct S3 as [more S3].
  unfold line_to_events.
  destruct (name ++ c_colon :: sample_text v ty rate) eqn:E0; [destruct name; discriminate|].
  rewrite <- E0 in Hvalid |- *.
  rewrite splitn2_app by exact Hfree. rewrite Hvalid.
  destruct name as [|n0 name']; [congruence|]. cbn [negb orb]. rewrite Hp. cbn [bind].
  unfold pipe_hash. rewrite (contains2_false _ _ _ Hh). cbn [andb].
  rewrite S3, (contains1_false _ _ Hv2), (split_byte_none _ _ Hco).
  cbn [do_samples]. destruct do_sample as [[e1 l1] t1]. rewrite !app_nil_r. reflexivity.
Qed.

Lemma nameside pf name N ts v ty rate :
  name <> [] -> ~ In c_colon name -> valid_string name = true ->
  parse_name_and_tags all_on name []
  = Ok (N, fst (tags_sem ts), repeat TTagErr (snd (tags_sem ts))) ->
  clean_sample v ty rate = true ->
  line_to_events pf all_on (name ++ c_colon :: sample_text v ty rate)
  = Ok (sem_single pf N ts v ty rate).
Proof.
  intros H1 H2 H3 H4 H5. rewrite (l2e_single pf all_on name _ _ _ v ty rate H1 H2 H3 H4 H5).
  unfold sem_single. destruct (tags_sem ts). reflexivity.
Qed.

(* ---------- parseNameAndTags on the three name-side renderings ---------- *)

Lemma find_name_sep_app N d T :
  ~ In c_hash N -> ~ In c_comma N -> (d = c_hash \/ d = c_comma) ->
  find_name_sep all_on (N ++ d :: T) = Some (length N).
Proof.
  intros H1 H2 Hd. induction N as [|b N IH]; cbn [app find_name_sep length f_librato f_influx all_on].
  - destruct Hd as [-> | ->]; reflexivity.
  - apply not_in_cons_inv in H1 as [A1 A2]. apply not_in_cons_inv in H2 as [B1 B2].
    rewrite (beq_false_of_neq _ _ A1), (beq_false_of_neq _ _ B1). cbn [andb orb].
    rewrite IH; auto.
Qed.

Lemma pnt_plain_render N d ts :
  free_of name_bad N = true -> (d = c_hash \/ d = c_comma) ->
  forallb clean_tag ts = true -> last_not_empty ts = true ->
  parse_name_and_tags all_on (N ++ d :: render_tags c_eq ts) []
  = Ok (N, fst (tags_sem ts), repeat TTagErr (snd (tags_sem ts))).
Proof.
  intros HN Hd Hc Hl.
  assert (Hbr : forall c, c = c_lbr \/ c = c_rbr -> ~ In c (N ++ d :: render_tags c_eq ts)).
  { intros c Hcc. rewrite in_app_iff. intros [H|[H|H]].
    - revert H. eapply free_of_not_in; [exact HN|]. destruct Hcc as [-> | ->]; simpl; auto 10.
    - destruct Hcc as [-> | ->]; destruct Hd as [-> | ->]; revert H; bneq.
    - revert H. apply render_tags_free; [exact Hc | | |];
        destruct Hcc as [-> | ->]; try bneq; simpl; auto 10. }
  unfold parse_name_and_tags. cbn [f_signalfx all_on].
  rewrite (index_byte_none c_lbr), (index_byte_none c_rbr) by (apply Hbr; auto).
  unfold plain_name_and_tags. rewrite find_name_sep_app.
  - rewrite skipn_S_length_app, firstn_length_app, parse_name_tags_render by assumption.
    reflexivity.
  - eapply free_of_not_in; [exact HN | simpl; auto 10].
  - eapply free_of_not_in; [exact HN | simpl; auto 10].
  - exact Hd.
Qed.

Lemma pnt_signalfx_render pre post ts :
  free_of name_bad (pre ++ post) = true -> forallb clean_tag ts = true -> last_not_empty ts = true ->
  parse_name_and_tags all_on (pre ++ c_lbr :: render_tags c_eq ts ++ c_rbr :: post) []
  = Ok (pre ++ post, fst (tags_sem ts), repeat TTagErr (snd (tags_sem ts))).
Proof.
  intros HN Hc Hl. rewrite free_of_app in HN. apply andb_true_iff in HN as [Hpre Hpost].
  remember (render_tags c_eq ts) as T eqn:ET.
  assert (HT1 : ~ In c_lbr T) by (subst T; apply render_tags_free; [exact Hc | simpl; auto 10 | bneq | bneq]).
  assert (HT2 : ~ In c_rbr T) by (subst T; apply render_tags_free; [exact Hc | simpl; auto 10 | bneq | bneq]).
  assert (HP1 : ~ In c_lbr pre) by (eapply free_of_not_in; [exact Hpre | simpl; auto 10]).
  assert (HP2 : ~ In c_rbr pre) by (eapply free_of_not_in; [exact Hpre | simpl; auto 10]).
  remember (pre ++ c_lbr :: T ++ c_rbr :: post) as name eqn:En.
  assert (En' : name = (pre ++ c_lbr :: T) ++ c_rbr :: post).
  { subst name. rewrite <- app_assoc. reflexivity. }
  assert (Len : length name = length pre + S (length T + S (length post))).
  { subst name. rewrite app_length. cbn [length]. rewrite app_length. reflexivity. }
  assert (Len' : length (pre ++ c_lbr :: T) = length pre + S (length T)).
  { rewrite app_length. reflexivity. }
  assert (I1 : index_byte c_lbr name = Some (length pre)).
  { subst name. now apply index_byte_app. }
  assert (I2 : index_byte c_rbr name = Some (length pre + S (length T))).
  { rewrite En', <- Len'. apply index_byte_app.
    rewrite in_app_iff. intros [H|[H|H]]; [now apply HP2 | revert H; bneq | now apply HT2]. }
  assert (S1 : slice name (S (length pre)) (length pre + S (length T)) = Ok T).
  { rewrite slice_ok by lia. f_equal. rewrite En, skipn_S_length_app.
    replace (length pre + S (length T) - S (length pre)) with (length T) by lia.
    apply firstn_length_app. }
  assert (S2 : slice name 0 (length pre) = Ok pre).
  { rewrite slice_ok by lia. rewrite Nat.sub_0_r. cbn [skipn]. f_equal.
    rewrite En. apply firstn_length_app. }
  assert (S3 : slice_from name (S (length pre + S (length T))) = Ok post).
  { rewrite slice_from_ok by lia. f_equal. rewrite En', <- Len'. apply skipn_S_length_app. }
  unfold parse_name_and_tags. cbn [f_signalfx all_on]. rewrite I1, I2.
  destruct (length pre <? length pre + S (length T)) eqn:E; [|apply Nat.ltb_ge in E; lia].
  rewrite S1, S2, S3. cbn [bind]. subst T. rewrite parse_name_tags_render by assumption.
  reflexivity.
Qed.

(* ---------- C09: name-side syntaxes ---------- *)

Lemma plain_line_ok pf d pre post ts v ty rate :
  (d = c_hash \/ d = c_comma) -> hyp_c09 pre post ts v ty rate = true ->
  line_to_events pf all_on
    ((pre ++ post) ++ d :: render_tags c_eq ts ++ c_colon :: sample_text v ty rate)
  = Ok (sem_single pf (pre ++ post) ts v ty rate).
Proof.
  intros Hd H. destruct (hyp_c09_inv _ _ _ _ _ _ H) as (HN & Hv1 & Hv2 & Hne & Hc & Hl & Hs).
  replace ((pre ++ post) ++ d :: render_tags c_eq ts ++ c_colon :: sample_text v ty rate)
    with (((pre ++ post) ++ d :: render_tags c_eq ts) ++ c_colon :: sample_text v ty rate)
    by (now rewrite <- app_assoc).
  apply nameside.
  - destruct (pre ++ post); [congruence | discriminate].
  - rewrite in_app_iff. intros [Hi|[Hi|Hi]].
    + revert Hi. eapply free_of_not_in; [exact HN | simpl; auto].
    + destruct Hd as [-> | ->]; revert Hi; bneq.
    + revert Hi. apply render_tags_free; [exact Hc | simpl; auto | bneq | bneq].
  - apply valid_string_ascii_app.
    + now apply valid_string_app.
    + destruct Hd as [-> | ->]; reflexivity.
    + apply render_tags_valid; [reflexivity | exact Hc].
  - now apply pnt_plain_render.
  - exact Hs.
Qed.

Lemma librato_ok : stmt_librato.
Proof. intros pf pre post ts v ty rate H. apply plain_line_ok; auto. Qed.

Lemma influx_ok : stmt_influx.
Proof. intros pf pre post ts v ty rate H. apply plain_line_ok; auto. Qed.

Lemma signalfx_ok : stmt_signalfx.
Proof.
  intros pf pre post ts v ty rate H.
  destruct (hyp_c09_inv _ _ _ _ _ _ H) as (HN & Hv1 & Hv2 & Hne & Hc & Hl & Hs).
  replace (pre ++ c_lbr :: render_tags c_eq ts ++ c_rbr :: post ++ c_colon :: sample_text v ty rate)
    with ((pre ++ c_lbr :: render_tags c_eq ts ++ c_rbr :: post) ++ c_colon :: sample_text v ty rate).
  2:{ rewrite <- app_assoc. cbn [app]. rewrite <- app_assoc. reflexivity. }
  pose proof HN as HN'. rewrite free_of_app in HN'. apply andb_true_iff in HN' as [Hpre Hpost].
  apply nameside.
  - destruct pre; discriminate.
  - rewrite in_app_iff. cbn [In]. rewrite in_app_iff. cbn [In]. intros [Hi|[Hi|[Hi|[Hi|Hi]]]].
    + revert Hi. eapply free_of_not_in; [exact Hpre | simpl; auto].
    + revert Hi; bneq.
    + revert Hi. apply render_tags_free; [exact Hc | simpl; auto | bneq | bneq].
    + revert Hi; bneq.
    + revert Hi. eapply free_of_not_in; [exact Hpost | simpl; auto].
  - apply valid_string_ascii_app; [exact Hv1 | reflexivity |].
    apply valid_string_ascii_app; [|reflexivity | exact Hv2].
    apply render_tags_valid; [reflexivity | exact Hc].
  - now apply pnt_signalfx_render.
  - exact Hs.
Qed.

(* ---------- C09: DogStatsD ---------- *)

Lemma rate_comps_apply pf f st rate value mult :
  exists v' m' tk, forall labels ticks,
    apply_components pf f st (rate_comps rate) value mult labels ticks = (v', m', labels, ticks ++ tk).
Proof.
  destruct rate as [r|]; cbn [rate_comps apply_components].
  - rewrite beq_refl. destruct (pf r) as [sf0 err]. destruct err.
    + destruct st; do 2 eexists; exists [TErr InvalidSampleFactor]; intros; reflexivity.
    + destruct st; do 2 eexists; exists []; intros; rewrite app_nil_r; reflexivity.
  - exists value, mult, []. intros. now rewrite app_nil_r.
Qed.



(* both sides of stmt_dogstatsd, evaluated down to the per-sample body *)
Lemma dog_line_eval pf pre post ts v ty rate :
  hyp_c09 pre post ts v ty rate = true ->
  line_to_events pf all_on
    ((pre ++ post) ++ c_colon :: sample_text v ty rate ++ c_pipe :: c_hash :: render_tags c_colon ts)
  = (let '(e1, _, t1) := sample_body pf all_on (pre ++ post) [] v ty
                           (rate_comps rate ++ [c_hash :: render_tags c_colon ts]) in
     Ok (e1, t1)).
Proof.
  intros H.
  destruct (hyp_c09_inv _ _ _ _ _ _ H) as (HN & Hv1 & Hv2 & Hne & Hc & Hl & Hs).
  remember (pre ++ post) as N eqn:EN.
  remember (render_tags c_colon ts) as T eqn:ET.
  remember (sample_text v ty rate ++ c_pipe :: c_hash :: T) as rest eqn:Er.
  assert (HT : ~ In c_pipe T).
  { subst T. apply render_tags_free; [exact Hc | simpl; auto | bneq | bneq]. }
  assert (HNc : ~ In c_colon N) by (eapply free_of_not_in; [exact HN | simpl; auto]).
  assert (Hvalid : valid_string (N ++ c_colon :: rest) = true).
  { apply valid_string_ascii_app; [subst N; now apply valid_string_app | reflexivity |].
    subst rest. apply valid_string_ascii_app; [now apply clean_sample_valid | reflexivity |].
    apply valid_string_ascii; [reflexivity|]. subst T. apply render_tags_valid; [reflexivity | exact Hc]. }
  assert (Hp : parse_name_and_tags all_on N [] = Ok (N, [], [])).
  { apply disabled_nameside_ok; intros _; (eapply free_of_weaken; [|exact HN]);
      intros c Hi; simpl in Hi |- *; intuition. }
  assert (Hdog : contains pipe_hash rest = true).
  { subst rest. apply contains_app_r. apply contains_prefix. reflexivity. }
  destruct (clean_sample_inv v ty rate c_colon Hs) as (Hv2' & _ & _); [simpl; auto|].
  destruct (clean_sample_inv v ty rate c_pipe Hs) as (Hv3 & Hty3 & _); [simpl; auto|].
  assert (S3 : exists more, splitn_byte c_pipe 3 rest = v :: ty :: more).
  { subst rest. unfold sample_text. rewrite <- app_assoc. cbn [app]. rewrite <- app_assoc.
    rewrite splitn3_app by exact Hv3.
    destruct rate as [r|]; cbn [app]; rewrite splitn2_app by exact Hty3; eauto. }
  destruct S3 as [more S3].
  assert (Sp : split_byte c_pipe rest = v :: ty :: rate_comps rate ++ [c_hash :: T]).
  { subst rest. now apply split_sample_dog. }
  unfold line_to_events.
  destruct (N ++ c_colon :: rest) eqn:E0; [destruct N; discriminate|].
  rewrite <- E0 in Hvalid |- *.
  rewrite splitn2_app by exact HNc. rewrite Hvalid.
  destruct N as [|n0 N']; [congruence|]. cbn [negb orb]. rewrite Hp. cbn [bind].
  rewrite Hdog. cbn [andb]. rewrite S3, (contains1_false _ _ Hv2').
  cbn [do_samples].
  rewrite (do_sample_body _ _ _ _ _ _ _ _ Sp).
  2:{ rewrite app_length. pose proof (rate_comps_len rate). simpl. lia. }
  destruct sample_body as [[e1 l1] t1]. cbn [app]. now rewrite !app_nil_r.
Qed.

Lemma sem_single_eval pf N ts v ty rate :
  clean_sample v ty rate = true ->
  sem_single pf N ts v ty rate
  = (let '(e, _, t) := sample_body pf all_on N (fst (tags_sem ts)) v ty (rate_comps rate) in
     (e, repeat TTagErr (snd (tags_sem ts)) ++ t)).
Proof.
  intros Hs. unfold sem_single. destruct (tags_sem ts) as [L nerr]. cbn [fst snd].
  rewrite (do_sample_body _ _ _ _ _ _ _ _ (split_sample v ty rate Hs)); [reflexivity|].
  pose proof (rate_comps_len rate). lia.
Qed.

(* corrected variant: the value parses, or no tag is malformed *)
Lemma dogstatsd_ok : stmt_dogstatsd.
Proof.
  intros pf pre post ts v ty rate H Hextra.
  destruct (hyp_c09_inv _ _ _ _ _ _ H) as (HN & Hv1 & Hv2 & Hne & Hc & Hl & Hs).
  rewrite (dog_line_eval _ _ _ _ _ _ _ H), (sem_single_eval _ _ _ _ _ _ Hs).
  pose proof (parse_dog_tags_render ts Hc Hl) as Hpd.
  destruct (tags_sem ts) as [L nerr]. cbn [fst snd] in *.
  unfold sample_body.
  destruct (pf v) as [value err]. cbn [snd] in Hextra. destruct err.
  - destruct Hextra as [Hx|Hx]; [discriminate|]. subst nerr.
    cbn. split; [reflexivity | apply Permutation_refl].
  - rewrite existsb_app, !rate_comps_nonempty. cbn [existsb orb].
    rewrite apply_components_app.
    destruct (rate_comps_apply pf all_on (stat_of ty) rate value 1%Z) as (v' & m' & tk & Hr).
    rewrite !Hr. rewrite apply_components_hash, Hpd.
    destruct (emit (stat_of ty) (pre ++ post) v' (starts_with_sign v) L m') as [evs tk3].
    cbn [obs_equiv]. split; [reflexivity|].
    cbn [app].
    apply Permutation_cons_app.
    rewrite <- app_assoc. apply Permutation_app_swap_app.
Qed.

(* ... and the added hypothesis is necessary *)
Lemma dogstatsd_fails : forall pf pre post ts v ty rate,
  hyp_c09 pre post ts v ty rate = true ->
  snd (pf v) = true -> snd (tags_sem ts) <> 0 ->
  ~ obs_equiv
    (line_to_events pf all_on ((pre ++ post) ++ c_colon :: sample_text v ty rate ++ c_pipe :: c_hash :: render_tags c_colon ts))
    (Ok (sem_single pf (pre ++ post) ts v ty rate)).
Proof.
  intros pf pre post ts v ty rate H Herr Hn.
  destruct (hyp_c09_inv _ _ _ _ _ _ H) as (HN & Hv1 & Hv2 & Hne & Hc & Hl & Hs).
  rewrite (dog_line_eval _ _ _ _ _ _ _ H), (sem_single_eval _ _ _ _ _ _ Hs).
  unfold sample_body. destruct (pf v) as [value err]. cbn [snd] in Herr. subst err.
  cbn [obs_equiv]. intros [_ HP]. apply Permutation_length in HP.
  rewrite app_length, repeat_length in HP. simpl in HP. lia.
Qed.
