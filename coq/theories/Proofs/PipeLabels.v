(* Where label names and metric names come from: the line parser, the mapper, classify. *)
From SE Require Import Spec.PipelineSpec Proofs.PipeBase Proofs.RegistryInv.
From SE Require Import Proofs.EscapeProofs Proofs.EscapeSpecProofs Proofs.StringLemmas Proofs.MultiStringLemmas.
From Coq Require Import ZArith.

(* ---------- legal names ---------- *)
Lemma legal_bytes_valid s : forallb legal_byte s = true -> valid_string s = true.
Proof.
  induction s as [|b s IH]; [reflexivity|]. cbn [forallb]. intros H.
  apply andb_true_iff in H as [Hb Hs]. apply valid_string_ascii; [|now apply IH].
  unfold legal_byte in Hb. now apply legal_lt_128.
Qed.

Lemma legal_name_valid k : legal_name k = true -> k <> [] /\ valid_string k = true.
Proof.
  destruct k as [|b t]; [discriminate|]. cbn [legal_name]. intros H.
  apply andb_true_iff in H as [Hb Ht]. split; [discriminate|].
  apply (legal_bytes_valid (b :: t)). cbn [forallb]. rewrite Ht.
  unfold legal_first in Hb. apply andb_true_iff in Hb as [Hb _]. now rewrite Hb.
Qed.

Lemma legal_name_metric k : legal_name k = true -> metric_name_valid k = true.
Proof.
  intros H. destruct (legal_name_valid k H) as [Hne Hv]. destruct k; [congruence|exact Hv].
Qed.

Lemma alpha_us_legal_first b : is_alpha_us b = true -> legal_first b = true.
Proof. unfold is_alpha_us, legal_first, legal_byte, is_legal_rune, is_digit_n. lia. Qed.

Lemma alnum_us_legal b : is_alnum_us b = true -> legal_byte b = true.
Proof. unfold is_alnum_us, is_alpha_us, legal_byte, is_legal_rune, is_digit_n. lia. Qed.

Lemma label_name_ok_legal k : label_name_ok k = true -> legal_name k = true.
Proof.
  destruct k as [|b [|c t]]; try discriminate. unfold label_name_ok, legal_name. intros H.
  apply andb_true_iff in H as [Hb Ht]. rewrite (alpha_us_legal_first _ Hb). cbn [andb].
  revert Ht. generalize (c :: t). intros l. induction l as [|x l IH]; [reflexivity|].
  cbn [forallb]. intros H. apply andb_true_iff in H as [Hx Hl].
  now rewrite (alnum_us_legal _ Hx), IH.
Qed.

(* ---------- good label maps: sorted, legal keys ---------- *)
Definition GL (m : lmap) : Prop := lm_sorted m /\ forall k v, In (k, v) m -> legal_name k = true.

Lemma GL_nil : GL [].
Proof. split; [exact I | intros ? ? []]. Qed.

Lemma GL_set k v m : k <> [] -> GL m -> GL (lm_set (esc k) v m).
Proof.
  intros Hk [Hs Hl]. split; [now apply lm_set_sorted|].
  intros k' v' Hin. apply In_lm_set in Hin as [E|Hin].
  - inversion E; subst. now apply spec_legal_name.
  - eapply Hl; eassumption.
Qed.

Lemma GL_parse_tag tag sep labels : GL labels -> GL (fst (parse_tag tag sep labels)).
Proof.
  intros H. unfold parse_tag. destruct tag as [|b t]; [exact H|].
  destruct (index_byte sep (b :: t)) as [i|]; [|exact H].
  destruct (firstn i (b :: t)) as [|k0 k]; [exact H|].
  destruct (skipn (S i) (b :: t)) as [|v0 v]; [exact H|].
  cbn [fst]. apply GL_set; [discriminate | exact H].
Qed.

Lemma GL_parse_tag_list pre sep pieces : forall labels,
  GL labels -> GL (fst (parse_tag_list pre sep pieces labels)).
Proof.
  induction pieces as [|p rest IH]; intros labels H; [exact H|].
  destruct rest as [|q rest].
  - cbn [parse_tag_list]. destruct p; [exact H|]. now apply GL_parse_tag.
  - change (parse_tag_list pre sep (p :: q :: rest) labels)
      with (let '(l1, t1) := parse_tag (pre p) sep labels in
            let '(l2, t2) := parse_tag_list pre sep (q :: rest) l1 in (l2, t1 ++ t2)).
    pose proof (GL_parse_tag (pre p) sep labels H) as H1.
    destruct (parse_tag (pre p) sep labels) as [l1 t1]. cbn [fst] in H1.
    pose proof (IH l1 H1) as H2.
    destruct (parse_tag_list pre sep (q :: rest) l1) as [l2 t2]. exact H2.
Qed.

Lemma GL_parse_name_tags comp labels : GL labels -> GL (fst (parse_name_tags comp labels)).
Proof. apply GL_parse_tag_list. Qed.

Lemma GL_parse_dog f comp labels : GL labels -> GL (fst (parse_dogstatsd_tags f comp labels)).
Proof.
  intros H. unfold parse_dogstatsd_tags. destruct (f_dog f); [now apply GL_parse_tag_list | exact H].
Qed.

Lemma GL_plain f name labels : GL labels -> GL (snd (fst (plain_name_and_tags f name labels))).
Proof.
  intros H. unfold plain_name_and_tags. destruct (find_name_sep f name) as [i|]; [|exact H].
  pose proof (GL_parse_name_tags (skipn (S i) name) labels H) as H1.
  destruct (parse_name_tags (skipn (S i) name) labels) as [l t]. exact H1.
Qed.

Lemma GL_pnt f name labels m l t :
  GL labels -> parse_name_and_tags f name labels = Ok (m, l, t) -> GL l.
Proof.
  intros H. unfold parse_name_and_tags.
  assert (P : forall m l t, plain_name_and_tags f name labels = (m, l, t) -> GL l).
  { intros m0 l0 t0 E. pose proof (GL_plain f name labels H) as H1. now rewrite E in H1. }
  destruct (f_signalfx f).
  2:{ intros E. inversion E as [E1]. eapply P; eassumption. }
  destruct (index_byte c_lbr name) as [st|], (index_byte c_rbr name) as [en|].
  - destruct (st <? en)%nat.
    + destruct (slice name (S st) en) as [inner|]; [|discriminate]. cbn [bind].
      destruct (slice name 0 st) as [pre|]; [|discriminate]. cbn [bind].
      destruct (slice_from name (S en)) as [post|]; [|discriminate]. cbn [bind].
      pose proof (GL_parse_name_tags inner labels H) as H1.
      destruct (parse_name_tags inner labels) as [l1 t1]. intros E; inversion E; subst. exact H1.
    + intros E; inversion E; subst. exact H.
  - intros E; inversion E; subst. exact H.
  - intros E; inversion E; subst. exact H.
  - intros E. inversion E as [E1]. eapply P; eassumption.
Qed.

Lemma GL_apply_components pf f st comps : forall value mult labels ticks,
  GL labels -> GL (snd (fst (apply_components pf f st comps value mult labels ticks))).
Proof.
  induction comps as [|comp rest IH]; intros value mult labels ticks H; [exact H|].
  cbn [apply_components]. destruct comp as [|c0 ctail]; [now apply IH|].
  destruct (beq c0 c_at).
  - destruct (pf ctail) as [sf0 err]. destruct st; now apply IH.
  - destruct (beq c0 c_hash); [|now apply IH].
    pose proof (GL_parse_dog f ctail labels H) as H1.
    destruct (parse_dogstatsd_tags f ctail labels) as [l t]. now apply IH.
Qed.

Definition ev_ok (e : event) : Prop := GL (e_labels e).

Lemma emit_ok st metric value rel labels mult :
  GL labels -> Forall ev_ok (fst (emit st metric value rel labels mult)).
Proof.
  intros H. unfold emit.
  destruct (build_event st metric value rel labels) as [e|] eqn:E; [|constructor].
  cbn [fst]. apply Forall_forall. intros x Hx. apply repeat_spec in Hx. subst x.
  unfold build_event in E. destruct st; inversion E; exact H.
Qed.

Lemma do_sample_ok pf f metric s labels :
  GL labels ->
  Forall ev_ok (fst (fst (do_sample pf f metric s labels))) /\
  GL (snd (fst (do_sample pf f metric s labels))).
Proof.
  intros H. unfold do_sample.
  destruct ((length (split_byte c_pipe s) <? 2)%nat || (4 <? length (split_byte c_pipe s))%nat);
    [split; [constructor|exact H]|].
  destruct (split_byte c_pipe s) as [|value_str [|stat_type extra]]; try (split; [constructor|exact H]).
  destruct (pf value_str) as [value err]. destruct err; [split; [constructor|exact H]|].
  match goal with |- context [existsb ?g extra] => destruct (existsb g extra) end; [split; [constructor|exact H]|].
  pose proof (GL_apply_components pf f (stat_of stat_type) extra value 1%Z labels [] H) as H1.
  destruct (apply_components pf f (stat_of stat_type) extra value 1%Z labels []) as [[[value' mult] labels'] ticks].
  cbn [fst snd] in H1.
  pose proof (emit_ok (stat_of stat_type) metric value' (starts_with_sign value_str) labels' mult H1) as H2.
  destruct (emit (stat_of stat_type) metric value' (starts_with_sign value_str) labels' mult) as [evs ticks3].
  cbn [fst snd] in *. split; assumption.
Qed.

Lemma do_samples_ok pf f metric samples : forall labels,
  GL labels -> Forall ev_ok (fst (do_samples pf f metric samples labels)).
Proof.
  induction samples as [|s rest IH]; intros labels H; [constructor|].
  cbn [do_samples]. destruct (do_sample_ok pf f metric s labels H) as [H1 H2].
  destruct (do_sample pf f metric s labels) as [[e1 l1] t1]. cbn [fst snd] in *.
  pose proof (IH l1 H2) as H3. destruct (do_samples pf f metric rest l1) as [e2 t2].
  cbn [fst] in *. apply Forall_app. split; assumption.
Qed.

Lemma l2e_events_ok pf f line evs t :
  line_to_events pf f line = Ok (evs, t) -> Forall ev_ok evs.
Proof.
  unfold line_to_events. destruct line as [|b line]; [intros E; inversion E; constructor|].
  destruct (splitn_byte c_colon 2 (b :: line)) as [|np [|rest [|]]];
    try (intros E; inversion E; constructor).
  match goal with |- (if ?c then _ else _) = _ -> _ => destruct c end;
    [intros E; inversion E; constructor|].
  destruct (parse_name_and_tags f np []) as [[[metric labels] t0]|] eqn:Ep; [|discriminate].
  cbn [bind]. pose proof (GL_pnt _ _ _ _ _ _ GL_nil Ep) as HL.
  match goal with |- (if ?c then _ else _) = _ -> _ => destruct c end;
    [intros E; inversion E; constructor|].
  destruct (splitn_byte c_pipe 3 rest) as [|p0 [|p1 ?]]; try (intros E; inversion E; constructor).
  destruct (contains [c_colon] p0).
  - destruct (is_agg_type p1); [|intros E; inversion E; constructor].
    destruct (cut_byte c_pipe rest) as [[? suffix] ?].
    match goal with |- context [do_samples pf f metric ?ss labels] =>
      pose proof (do_samples_ok pf f metric ss labels HL) as H1;
      destruct (do_samples pf f metric ss labels) as [evs1 t1] end.
    intros E; inversion E; subst. exact H1.
  - destruct (contains pipe_hash rest).
    + pose proof (do_samples_ok pf f metric [rest] labels HL) as H1.
      destruct (do_samples pf f metric [rest] labels) as [evs1 t1].
      intros E; inversion E; subst. exact H1.
    + pose proof (do_samples_ok pf f metric (split_byte c_colon rest) labels HL) as H1.
      destruct (do_samples pf f metric (split_byte c_colon rest) labels) as [evs1 t1].
      intros E; inversion E; subst. exact H1.
Qed.

(* ---------- sorted maps: keys ---------- *)
Lemma lm_sorted_NoDup m : lm_sorted m -> NoDup (lm_keys m).
Proof.
  induction m as [|[k v] r IH]; cbn [lm_sorted lm_keys map fst]; intros H; [constructor|].
  destruct H as [Hlt Hs]. constructor; [|now apply IH].
  intros Hin. apply in_map_iff in Hin as ([k' v'] & E & Hin). cbn in E. subst k'.
  apply Hlt in Hin. rewrite bytes_ltb_irrefl in Hin. discriminate.
Qed.

Lemma lm_get_None_existsb k m : lm_get k m = None -> existsb (bytes_eqb k) (lm_keys m) = false.
Proof.
  induction m as [|[k' v'] r IH]; cbn [lm_get lm_keys map fst existsb]; [reflexivity|].
  destruct (bytes_eqb k k'); [discriminate|]. exact IH.
Qed.

Lemma lm_mem_false_existsb k m : lm_mem k m = false -> existsb (bytes_eqb k) (lm_keys m) = false.
Proof.
  unfold lm_mem. destruct (lm_get k m) eqn:E; [discriminate|]. intros _. now apply lm_get_None_existsb.
Qed.

Lemma existsb_false_In {A} (p : A -> bool) l x : existsb p l = false -> In x l -> p x = false.
Proof.
  intros H Hin. destruct (p x) eqn:E; [|reflexivity].
  assert (existsb p l = true) by (apply existsb_exists; eauto). congruence.
Qed.

(* ---------- merge_labels ---------- *)
Lemma merge_sorted honor rl : forall tags, lm_sorted tags -> lm_sorted (merge_labels honor tags rl).
Proof.
  unfold merge_labels. induction rl as [|[k v] rl IH]; intros tags H; [exact H|].
  cbn [fold_left fst snd]. apply IH. destruct (honor && lm_mem k tags); [exact H|].
  now apply lm_set_sorted.
Qed.

Lemma merge_keys (P : bytes -> Prop) honor rl : forall tags,
  (forall k v, In (k, v) tags -> P k) -> (forall k v, In (k, v) rl -> P k) ->
  forall k v, In (k, v) (merge_labels honor tags rl) -> P k.
Proof.
  unfold merge_labels. induction rl as [|[k0 v0] rl IH]; intros tags Ht Hr; [exact Ht|].
  cbn [fold_left fst snd]. apply IH.
  - destruct (honor && lm_mem k0 tags); [exact Ht|].
    intros k v Hin. apply In_lm_set in Hin as [E|Hin].
    + inversion E; subst. apply (Hr k0 v0). now left.
    + eapply Ht; eassumption.
  - intros k v Hin. apply (Hr k v). now right.
Qed.

(* ---------- classify ---------- *)
Lemma default_help_nonempty : default_help <> [].
Proof. discriminate. Qed.

Lemma counter_upd_ok value : f_ltb value f_zero = false -> upd_ok MCounter (fun c => counter_add c value).
Proof.
  intros Hv c Hc. destruct c; try contradiction. unfold counter_add. rewrite Hv.
  destruct (f_eqb _ value); eexists; split; try reflexivity; exact I.
Qed.

Lemma gauge_upd_ok rel value : upd_ok MGauge (fun g => if rel : bool then gauge_add g value else gauge_set g value).
Proof.
  intros c Hc. destruct c; try contradiction. destruct rel; eexists; split; try reflexivity; exact I.
Qed.

Lemma observe_upd_ok (is_hist : bool) value :
  upd_ok (if is_hist then MHistogram else MSummary) (fun o => observe o value).
Proof.
  intros c Hc. destruct is_hist, c; try contradiction; eexists; split; try reflexivity; exact I.
Qed.

Section Classify.
Variable Q : bytes -> Prop.
Hypothesis legal_Q : forall k, legal_name k = true -> Q k.

Definition QN (k : bytes) : Prop := Q k /\ has_prefix reserved_prefix k = false.

Lemma classify_ok d tel e mapped tel1 t name labels help ttl rule_ upd :
  classify d tel e mapped = DUpdate tel1 t name labels help ttl rule_ upd ->
  GL (e_labels e) ->
  (forall r nm ls, mapped = Some (r, nm, ls) -> forall k v, In (k, v) ls -> Q k) ->
  metric_name_valid name = true /\ help <> [] /\
  names_ok QN t (lm_keys labels) /\
  (t = MHistogram -> existsb (bytes_eqb s_le) (lm_keys labels) = false) /\
  upd_ok t upd /\
  rule_ = match mapped with Some (r, _, _) => Some r | None => None end.
Proof.
  intros Hc [Hs Hl] Hm.
  assert (Hlab : labels = match mapped with
                          | Some (r, _, ls) => merge_labels (ru_honor r) (e_labels e) ls
                          | None => e_labels e end).
  { revert Hc. unfold classify. destruct mapped as [[[r nm] ls]|].
    - destruct (ru_drop r); [discriminate|]. destruct nm; [discriminate|].
      match goal with |- (if ?c then _ else _) = _ -> _ => destruct c; [discriminate|] end.
      destruct (e_kind e);
        try (match goal with |- (if ?c then _ else _) = _ -> _ => destruct c; [discriminate|] end);
        intros H; inversion H; reflexivity.
    - destruct (esc (e_name e)); [discriminate|].
      match goal with |- (if ?c then _ else _) = _ -> _ => destruct c; [discriminate|] end.
      destruct (e_kind e);
        try (match goal with |- (if ?c then _ else _) = _ -> _ => destruct c; [discriminate|] end);
        intros H; inversion H; reflexivity. }
  assert (Hsorted : lm_sorted labels).
  { rewrite Hlab. destruct mapped as [[[r nm] ls]|]; [now apply merge_sorted | exact Hs]. }
  assert (HQ : forall k v, In (k, v) labels -> Q k).
  { rewrite Hlab. destruct mapped as [[[r nm] ls]|].
    - apply merge_keys.
      + intros k v Hin. apply legal_Q. eapply Hl; eassumption.
      + intros k v Hin. eapply Hm; [reflexivity|eassumption].
    - intros k v Hin. apply legal_Q. eapply Hl; eassumption. }
  assert (Hname : metric_name_valid name = true /\ help <> [] /\
                  existsb (fun k => has_prefix reserved_prefix k) (lm_keys labels) = false /\
                  (t = MHistogram -> lm_mem s_le labels = false) /\
                  (t = MSummary -> lm_mem s_quantile labels = false) /\
                  upd_ok t upd /\
                  rule_ = match mapped with Some (r, _, _) => Some r | None => None end).
  { clear Hlab Hsorted HQ. revert Hc. unfold classify.
    assert (Hhelp : forall h : bytes, match h with [] => default_help | b :: l => b :: l end <> []).
    { intros [|? ?]; discriminate. }
    destruct mapped as [[[r nm] ls]|].
    - destruct (ru_drop r); [discriminate|]. destruct nm as [|n0 nm]; [discriminate|].
      match goal with |- (if ?c then _ else _) = _ -> _ => destruct c eqn:Eres; [discriminate|] end.
      assert (Hn : metric_name_valid (esc (n0 :: nm)) = true).
      { apply legal_name_metric. apply spec_legal_name. discriminate. }
      destruct (e_kind e).
      + match goal with |- (if ?c then _ else _) = _ -> _ => destruct c eqn:Eneg; [discriminate|] end.
        apply orb_false_iff in Eneg as [Eneg _].
        intros H; inversion H; subst. repeat split; try assumption; try discriminate; auto.
        now apply counter_upd_ok.
      + intros H; inversion H; subst. repeat split; try assumption; try discriminate; auto.
        apply gauge_upd_ok.
      + match goal with |- (if ?c then _ else _) = _ -> _ => destruct c eqn:Emem; [discriminate|] end.
        intros H; inversion H; subst. repeat split; try assumption; auto.
        * intros Ht. destruct (match match ru_observer r with ObsDefault => df_observer d | _ => ru_observer r end
                                      with ObsHistogram => true | _ => false end); [exact Emem|discriminate].
        * intros Ht. destruct (match match ru_observer r with ObsDefault => df_observer d | _ => ru_observer r end
                                      with ObsHistogram => true | _ => false end); [discriminate|exact Emem].
        * apply observe_upd_ok.
    - destruct (esc (e_name e)) as [|n0 nm] eqn:En; [discriminate|].
      match goal with |- (if ?c then _ else _) = _ -> _ => destruct c eqn:Eres; [discriminate|] end.
      assert (Hn : metric_name_valid (n0 :: nm) = true).
      { apply legal_name_metric. rewrite <- En. apply spec_legal_name.
        intros E0. rewrite E0 in En. discriminate. }
      destruct (e_kind e).
      + match goal with |- (if ?c then _ else _) = _ -> _ => destruct c eqn:Eneg; [discriminate|] end.
        apply orb_false_iff in Eneg as [Eneg _].
        intros H; inversion H; subst. repeat split; try assumption; try discriminate; auto.
        now apply counter_upd_ok.
      + intros H; inversion H; subst. repeat split; try assumption; try discriminate; auto.
        apply gauge_upd_ok.
      + match goal with |- (if ?c then _ else _) = _ -> _ => destruct c eqn:Emem; [discriminate|] end.
        intros H; inversion H; subst. repeat split; try assumption; try discriminate; auto.
        * intros Ht. destruct (match df_observer d with ObsHistogram => true | _ => false end); [exact Emem|discriminate].
        * intros Ht. destruct (match df_observer d with ObsHistogram => true | _ => false end); [discriminate|exact Emem].
        * apply observe_upd_ok. }
  destruct Hname as (N1 & N2 & N3 & N4 & N5 & N6 & N7).
  split; [exact N1|]. split; [exact N2|]. split; [|split; [|split; [exact N6|exact N7]]].
  - split; [now apply lm_sorted_NoDup|]. split.
    + intros k Hin. split.
      * unfold lm_keys in Hin. apply in_map_iff in Hin as ([k' v'] & E & Hin). cbn in E. subst k'.
        eapply HQ; eassumption.
      * apply (existsb_false_In _ _ _ N3 Hin).
    + intros Ht. apply lm_mem_false_existsb. now apply N5.
  - intros Ht. apply lm_mem_false_existsb. now apply N4.
Qed.
End Classify.

(* ---------- vector options chosen from a valid configuration ---------- *)
Lemma hist_bounds_ok b : buckets_increasing b = true -> hist_bounds b <> Panic.
Proof.
  induction b as [|x b IH]; [discriminate|]. destruct b as [|y b].
  - intros _. cbn [hist_bounds]. destruct (f_is_pinf x); discriminate.
  - intros H. change (buckets_increasing (x :: y :: b)) with (f_ltb x y && buckets_increasing (y :: b)) in H.
    apply andb_true_iff in H as [H1 H2].
    change (hist_bounds (x :: y :: b))
      with (if f_leb y x then Panic else (let! r' := hist_bounds (y :: b) in Ok (x :: r'))).
    rewrite (f_ltb_not_leb _ _ H1). specialize (IH H2).
    destruct (hist_bounds (y :: b)); [discriminate|congruence].
Qed.

Lemma vec_opts_ok d ro :
  defaults_valid d = true -> (forall ru, ro = Some ru -> rule_valid ru = true) ->
  hist_bounds (hist_buckets_for d ro) <> Panic /\ (summ_max_age_for d ro <? 0)%Z = false.
Proof.
  intros Hd Hr. unfold defaults_valid in Hd. apply andb_true_iff in Hd as [Hb Hs].
  unfold summary_ok in Hs. apply andb_true_iff in Hs as [_ Hage]. apply andb_true_iff in Hage as [Hage _].
  split.
  - apply hist_bounds_ok. unfold hist_buckets_for. destruct ro as [ru|]; [|exact Hb].
    specialize (Hr ru eq_refl). unfold rule_valid in Hr.
    destruct (ru_hist ru) as [h|]; [|exact Hb].
    destruct (ho_buckets h) as [|x l] eqn:E; [exact Hb|].
    destruct (buckets_increasing (x :: l)) eqn:E2; [reflexivity|]. cbn in Hr. discriminate.
  - unfold summ_max_age_for. destruct ro as [ru|]; [|lia].
    specialize (Hr ru eq_refl). unfold rule_valid in Hr.
    destruct (ru_summary ru) as [s|]; [|lia].
    apply andb_true_iff in Hr as [Hr _]. apply andb_true_iff in Hr as [Hr _].
    apply andb_true_iff in Hr as [Hr _]. apply andb_true_iff in Hr as [_ Hr].
    unfold summary_ok in Hr. apply andb_true_iff in Hr as [_ Hr]. apply andb_true_iff in Hr as [Hr _]. lia.
Qed.

(* ---------- labels answered by an uncached lookup ---------- *)
Lemma labels_of_keys f ls k v : In (k, v) (labels_of f ls) -> In k (map fst ls).
Proof.
  unfold labels_of.
  assert (G : forall m, In (k, v) (fold_left (fun m kv => lm_set (fst kv) (f (snd kv)) m) ls m) ->
                        In (k, v) m \/ In k (map fst ls)).
  { induction ls as [|[k0 v0] ls IH]; intros m H; [now left|].
    cbn [fold_left fst snd] in H. apply IH in H as [H|H]; [|right; now right].
    apply In_lm_set in H as [E|H]; [|now left]. inversion E; subst. right. now left. }
  intros H. apply G in H as [[]|H]. exact H.
Qed.

Lemma rule_label_keys_legal r k :
  rule_valid r = true -> In k (map fst (ru_labels r)) -> legal_name k = true.
Proof.
  unfold rule_valid. intros H Hin.
  apply andb_true_iff in H as [H _]. apply andb_true_iff in H as [H _]. apply andb_true_iff in H as [_ H].
  apply in_map_iff in Hin as ([k' v'] & E & Hin). cbn in E. subst k'.
  rewrite forallb_forall in H. apply label_name_ok_legal. exact (H _ Hin).
Qed.

Lemma nth_glob_rule_In rules prio idx r : nth_glob_rule rules prio = Some (idx, r) -> In r rules.
Proof.
  unfold nth_glob_rule. generalize 0%nat as i. revert prio.
  induction rules as [|x rules IH]; intros prio i; [discriminate|].
  simpl. destruct (ru_is_regex x) eqn:E.
  - intros H. right. eapply IH; exact H.
  - destruct prio as [|p].
    + intros H; inversion H; subst. now left.
    + intros H. right. eapply IH; exact H.
Qed.

Section Lookup.
Variable uni_word : rune -> bool.
Variable re_match : bytes -> bytes -> option (list (option bytes)).

Lemma regex_lookup_labels rules : forall idx metric ty mr,
  (forall r, In r rules -> rule_valid r = true) ->
  regex_lookup uni_word re_match rules idx metric ty = Some mr ->
  forall k v, In (k, v) (mr_labels mr) -> legal_name k = true.
Proof.
  induction rules as [|r rules IH]; intros idx metric ty mr Hv; [discriminate|].
  cbn [regex_lookup].
  assert (Hv' : forall r0, In r0 rules -> rule_valid r0 = true) by (intros r0 H0; apply Hv; now right).
  destruct (negb (ru_is_regex r)); [now apply IH|].
  destruct (re_match (ru_match r) metric) as [groups|]; [|now apply IH].
  match goal with |- (if ?c then _ else _) = _ -> _ => destruct c end; [now apply IH|].
  intros H; inversion H; subst. cbn [mr_labels]. intros k v Hin.
  apply labels_of_keys in Hin. eapply rule_label_keys_legal; [|exact Hin]. apply Hv. now left.
Qed.

Lemma lookup_uncached_labels rules fsm do_fsm do_regex metric ty mr :
  (forall r, In r rules -> rule_valid r = true) ->
  lookup_uncached uni_word re_match rules fsm do_fsm do_regex metric ty = Some mr ->
  forall k v, In (k, v) (mr_labels mr) -> legal_name k = true.
Proof.
  intros Hv. unfold lookup_uncached.
  destruct do_fsm; [|now apply regex_lookup_labels].
  destruct (fsm_get_mapping _ _ _ metric ty) as [[prio caps]|].
  - destruct (nth_glob_rule rules prio) as [[idx r]|] eqn:En; [|discriminate].
    intros H; inversion H; subst. cbn [mr_labels]. intros k v Hin.
    apply labels_of_keys in Hin. eapply rule_label_keys_legal; [|exact Hin].
    apply Hv. eapply nth_glob_rule_In; exact En.
  - destruct do_regex; [now apply regex_lookup_labels | discriminate].
Qed.
End Lookup.
