(* Helper lemmas for Proofs/FsmProofs.v: the order [more_specific], [most_specific_aux] as a
   minimum, and the trie search of Model/Fsm.v against the specification functions of
   Spec/MatchSpec.v. *)
From SE Require Import Spec.MatchSpec.
From Coq Require Import Permutation.

(* ------------------------------------------------------------------------------------------ *)
(* generic list facts                                                                          *)
(* ------------------------------------------------------------------------------------------ *)

Lemma find_app_skip {A} (P : A -> bool) a b :
  (forall x, In x a -> P x = false) -> find P (a ++ b) = find P b.
Proof.
  induction a as [|x a IH]; intros H; cbn [app find]; [reflexivity|].
  rewrite (H x (or_introl eq_refl)). apply IH. intros y Hy. apply H. right; exact Hy.
Qed.

Lemma find_split {A} (P : A -> bool) l e :
  find P l = Some e ->
  exists l1 l2, l = l1 ++ e :: l2 /\ P e = true /\ forall x, In x l1 -> P x = false.
Proof.
  induction l as [|x l IH]; cbn [find]; [discriminate|].
  destruct (P x) eqn:E; intros H.
  - injection H as <-. exists [], l. repeat split; auto. intros y [].
  - destruct (IH H) as (l1 & l2 & -> & Hp & Hn). exists (x :: l1), l2.
    repeat split; auto. intros y [<-|Hy]; auto.
Qed.

Lemma filter_nil {A} (P : A -> bool) l : (forall x, In x l -> P x = false) -> filter P l = [].
Proof.
  induction l as [|x l IH]; intros H; cbn [filter]; [reflexivity|].
  rewrite (H x (or_introl eq_refl)). apply IH. intros y Hy; apply H; right; exact Hy.
Qed.

Lemma Permutation_filter' {A} (P : A -> bool) l l' :
  Permutation l l' -> Permutation (filter P l) (filter P l').
Proof.
  induction 1; cbn [filter].
  - constructor.
  - destruct (P x); [constructor|]; assumption.
  - destruct (P x), (P y); try constructor; try apply Permutation_refl.
  - eapply Permutation_trans; eassumption.
Qed.

Lemma hd_error_app {A} (a b : list A) :
  hd_error (a ++ b) = match hd_error a with Some x => Some x | None => hd_error b end.
Proof. destruct a; reflexivity. Qed.

(* ------------------------------------------------------------------------------------------ *)
(* glob_match / more_specific                                                                  *)
(* ------------------------------------------------------------------------------------------ *)

Lemma glob_match_length : forall a fs, glob_match a fs = true -> length a = length fs.
Proof.
  induction a as [|x a IH]; intros [|f fs]; cbn [glob_match length]; try discriminate; auto.
  intros H. apply andb_true_iff in H as [_ H]. f_equal. apply IH; exact H.
Qed.

Lemma ms_irrefl a : more_specific a a = false.
Proof.
  induction a as [|x a IH]; cbn [more_specific]; [reflexivity|].
  destruct (bytes_eqb x star); exact IH.
Qed.

Lemma ms_nil_r a : more_specific a [] = false.
Proof. destruct a; reflexivity. Qed.

Lemma ms_trans : forall a b c,
  more_specific a b = true -> more_specific b c = true -> more_specific a c = true.
Proof.
  induction a as [|x a IH]; intros [|y b] [|z c]; cbn [more_specific]; try discriminate.
  destruct (bytes_eqb x star), (bytes_eqb y star), (bytes_eqb z star);
    intros H1 H2; try discriminate; try reflexivity; eauto.
Qed.

Lemma ms_negtrans : forall a b c,
  length a = length b -> length b = length c ->
  more_specific a b = false -> more_specific b c = false -> more_specific a c = false.
Proof.
  induction a as [|x a IH]; intros [|y b] [|z c]; cbn [more_specific length];
    try discriminate; try reflexivity.
  intros L1 L2. injection L1 as L1. injection L2 as L2.
  destruct (bytes_eqb x star), (bytes_eqb y star), (bytes_eqb z star);
    intros H1 H2; try discriminate; try reflexivity; eapply IH; eauto.
Qed.

Lemma ms_total : forall fs a b,
  glob_match a fs = true -> glob_match b fs = true ->
  more_specific a b = false -> more_specific b a = false -> a = b.
Proof.
  induction fs as [|f fs IH]; intros [|x a] [|y b]; cbn [glob_match more_specific];
    try discriminate; auto.
  intros Ha Hb.
  apply andb_true_iff in Ha as [Ha1 Ha2]. apply andb_true_iff in Hb as [Hb1 Hb2].
  destruct (bytes_eqb x star) eqn:Ex, (bytes_eqb y star) eqn:Ey; try discriminate.
  - intros H1 H2. apply bytes_eqb_eq in Ex, Ey. subst. f_equal. apply IH; assumption.
  - intros H1 H2. cbn [orb] in Ha1, Hb1. apply bytes_eqb_eq in Ha1, Hb1. subst.
    f_equal. apply IH; assumption.
Qed.

(* ------------------------------------------------------------------------------------------ *)
(* most_specific_aux computes a minimum                                                        *)
(* ------------------------------------------------------------------------------------------ *)

Lemma msa_some : forall l b, most_specific_aux l (Some b) <> None.
Proof.
  induction l as [|g l IH]; intros b; cbn [most_specific_aux]; [discriminate|].
  destruct (more_specific (g_fields g) (g_fields b)); apply IH.
Qed.

Lemma msa_none l : most_specific_aux l None = None -> l = [].
Proof.
  destruct l as [|g l]; [reflexivity|]. cbn [most_specific_aux]. intros H.
  apply msa_some in H. contradiction.
Qed.

Lemma msa_min (k : nat) : forall l b e,
  (forall x, In x l -> length (g_fields x) = k) ->
  (forall b0, b = Some b0 -> length (g_fields b0) = k) ->
  most_specific_aux l b = Some e ->
  (In e l \/ b = Some e) /\
  (forall x, In x l -> more_specific (g_fields x) (g_fields e) = false) /\
  (forall b0, b = Some b0 -> more_specific (g_fields b0) (g_fields e) = false).
Proof.
  induction l as [|g l IH]; intros b e Hl Hb; cbn [most_specific_aux].
  - intros ->. split; [right; reflexivity|]. split; [intros x []|].
    intros b0 H; injection H as ->. apply ms_irrefl.
  - assert (Hl' : forall x, In x l -> length (g_fields x) = k) by (intros x Hx; apply Hl; right; exact Hx).
    assert (Hg : length (g_fields g) = k) by (apply Hl; left; reflexivity).
    destruct b as [b0|].
    + destruct (more_specific (g_fields g) (g_fields b0)) eqn:E; intros H.
      * apply IH in H; auto; [| intros ? [= <-]; exact Hg].
        destruct H as (H1 & H2 & H3). specialize (H3 g eq_refl).
        split; [| split].
        -- left. destruct H1 as [H1|[= <-]]; [right; exact H1 | left; reflexivity].
        -- intros x [<-|Hx]; auto.
        -- intros ? [= <-]. destruct (more_specific (g_fields b0) (g_fields e)) eqn:E'; [|reflexivity].
           rewrite (ms_trans _ _ _ E E') in H3. discriminate.
      * apply IH in H; auto. destruct H as (H1 & H2 & H3). specialize (H3 b0 eq_refl).
        assert (He : length (g_fields e) = k).
        { destruct H1 as [H1|[= <-]]; [apply Hl'; exact H1 | apply Hb; reflexivity]. }
        split; [| split].
        -- destruct H1 as [H1|H1]; [left; right; exact H1 | right; exact H1].
        -- intros x [<-|Hx]; auto.
           pose proof (Hb b0 eq_refl) as Hb0.
           apply (ms_negtrans _ (g_fields b0)); auto; congruence.
        -- intros ? [= <-]. exact H3.
    + intros H. apply IH in H; auto; [| intros ? [= <-]; exact Hg].
      destruct H as (H1 & H2 & H3). specialize (H3 g eq_refl).
      split; [| split].
      * left. destruct H1 as [H1|[= <-]]; [right; exact H1 | left; reflexivity].
      * intros x [<-|Hx]; auto.
      * intros ? [=].
Qed.

(* ------------------------------------------------------------------------------------------ *)
(* nodes: membership, bounds, pruning                                                          *)
(* ------------------------------------------------------------------------------------------ *)

Definition ematch (fs : list bytes) (e : nat * list bytes) : bool := glob_match (snd e) fs.

Definition visit (bt : bool) (child : vnode) (rest caps : list bytes) : list (nat * list bytes) :=
  match rest with
  | [] => match node_result child with Some p => [(p, rev caps)] | None => [] end
  | _ => search bt child rest caps
  end.

Lemma search_cons bt n f rest caps :
  search bt n (f :: rest) caps =
  if negb (has_transitions n) then []
  else
    if fits (if bytes_eqb f star then [] else step_field n f) (length rest)
    then visit bt (if bytes_eqb f star then [] else step_field n f) rest caps ++
         (if bt && fits (step_field n star) (length rest)
          then visit bt (step_field n star) rest (f :: caps) else [])
    else if fits (step_field n star) (length rest)
         then visit bt (step_field n star) rest (f :: caps) else [].
Proof. reflexivity. Qed.

Lemma visit_search bt n fs caps : fs <> [] -> visit bt n fs caps = search bt n fs caps.
Proof. destruct fs; [contradiction | reflexivity]. Qed.

Lemma step_cons e n g :
  step_field (e :: n) g =
  (match snd e with x :: r => if bytes_eqb x g then [(fst e, r)] else [] | [] => [] end)
  ++ step_field n g.
Proof. reflexivity. Qed.

Lemma step_app a b g : step_field (a ++ b) g = step_field a g ++ step_field b g.
Proof. unfold step_field. apply flat_map_app. Qed.

Lemma step_in n g p r : In (p, r) (step_field n g) <-> In (p, g :: r) n.
Proof.
  unfold step_field. rewrite in_flat_map. split.
  - intros ([q [|x r']] & Hin & H); cbn [snd fst] in H; [destruct H|].
    destruct (bytes_eqb x g) eqn:E; [|destruct H].
    destruct H as [H|[]]. injection H as <- <-. apply bytes_eqb_eq in E. subst. exact Hin.
  - intros H. exists (p, g :: r). split; [exact H|]. cbn [snd fst].
    rewrite bytes_eqb_refl. left; reflexivity.
Qed.

Lemma min_rem_le n e : In e n -> min_rem n <= length (snd e).
Proof.
  unfold min_rem. generalize (match n with pr :: _ => length (snd pr) | [] => 0 end).
  induction n as [|x n IH]; intros i H; [destruct H|].
  cbn [fold_right]. destruct H as [<-|H]; [lia|]. specialize (IH i H). lia.
Qed.

Lemma max_rem_ge n e : In e n -> length (snd e) <= max_rem n.
Proof.
  unfold max_rem. induction n as [|x n IH]; intros H; [destruct H|].
  cbn [fold_right]. destruct H as [<-|H]; [lia|]. specialize (IH H). lia.
Qed.

Lemma fits_in n e left : In e n -> length (snd e) = left -> fits n left = true.
Proof.
  intros H L. pose proof (min_rem_le _ _ H). pose proof (max_rem_ge _ _ H).
  unfold fits. destruct n; [destruct H|].
  apply andb_true_iff; split; apply Nat.leb_le; lia.
Qed.

Lemma fits_false_filter n rest : fits n (length rest) = false -> filter (ematch rest) n = [].
Proof.
  intros H. apply filter_nil. intros e He. unfold ematch.
  destruct (glob_match (snd e) rest) eqn:E; [|reflexivity].
  apply glob_match_length in E. rewrite (fits_in _ _ _ He E) in H. discriminate.
Qed.

Lemma has_trans_in n p x r : In (p, x :: r) n -> has_transitions n = true.
Proof.
  intros H. unfold has_transitions. apply existsb_exists. exists (p, x :: r). split; [exact H | reflexivity].
Qed.

Lemma no_trans_filter n f rest : has_transitions n = false -> filter (ematch (f :: rest)) n = [].
Proof.
  intros H. apply filter_nil. intros [p [|x r]] He; [reflexivity|].
  rewrite (has_trans_in _ _ _ _ He) in H. discriminate.
Qed.

Lemma node_result_in n p : node_result n = Some p -> In (p, []) n.
Proof.
  induction n as [|[q [|x r]] n IH]; cbn [node_result]; [discriminate| |].
  - intros [= ->]. left; reflexivity.
  - intros H. right. apply IH; exact H.
Qed.

Lemma node_result_find n : node_result n = option_map fst (find (ematch []) n).
Proof.
  induction n as [|[q [|x r]] n IH]; cbn [node_result find]; [reflexivity| |].
  - reflexivity.
  - exact IH.
Qed.

(* ------------------------------------------------------------------------------------------ *)
(* (A) ordered mode: soundness of hits, the first matching entry is a hit                      *)
(* ------------------------------------------------------------------------------------------ *)

Lemma visit_sound : forall fs bt n caps p c,
  In (p, c) (visit bt n fs caps) ->
  exists rem, In (p, rem) n /\ glob_match rem fs = true /\ c = rev caps ++ glob_captures rem fs.
Proof.
  induction fs as [|f rest IH]; intros bt n caps p c H.
  - cbn [visit] in H. destruct (node_result n) as [q|] eqn:E; [|destruct H].
    destruct H as [H|[]]. injection H as <- <-. exists []. split; [apply node_result_in; exact E|].
    split; [reflexivity|]. cbn [glob_captures]. rewrite app_nil_r. reflexivity.
  - rewrite visit_search in H by discriminate. rewrite search_cons in H.
    destruct (has_transitions n); cbn [negb] in H; [|destruct H].
    assert (HL : In (p, c) (visit bt (if bytes_eqb f star then [] else step_field n f) rest caps) ->
                 exists rem, In (p, rem) n /\ glob_match rem (f :: rest) = true /\
                             c = rev caps ++ glob_captures rem (f :: rest)).
    { intros H'. apply IH in H'. destruct H' as (rem & Hin & Hm & ->).
      destruct (bytes_eqb f star) eqn:Ef; [destruct Hin|].
      apply step_in in Hin. exists (f :: rem). split; [exact Hin|].
      cbn [glob_match glob_captures]. rewrite Ef, bytes_eqb_refl, Hm. split; reflexivity. }
    assert (HS : In (p, c) (visit bt (step_field n star) rest (f :: caps)) ->
                 exists rem, In (p, rem) n /\ glob_match rem (f :: rest) = true /\
                             c = rev caps ++ glob_captures rem (f :: rest)).
    { intros H'. apply IH in H'. destruct H' as (rem & Hin & Hm & ->).
      apply step_in in Hin. exists (star :: rem). split; [exact Hin|].
      cbn [glob_match glob_captures]. rewrite bytes_eqb_refl, Hm. split; [reflexivity|].
      cbn [rev]. rewrite <- app_assoc. reflexivity. }
    destruct (fits (if bytes_eqb f star then [] else step_field n f) (length rest)).
    + apply in_app_or in H. destruct H as [H|H]; [exact (HL H)|].
      destruct (bt && fits (step_field n star) (length rest)); [exact (HS H) | destruct H].
    + destruct (fits (step_field n star) (length rest)); [exact (HS H) | destruct H].
Qed.

Lemma find_step n l1 l2 p x r f rest g :
  n = l1 ++ (p, x :: r) :: l2 ->
  (forall e, In e l1 -> ematch (f :: rest) e = false) ->
  glob_match r rest = true ->
  bytes_eqb x g = true ->
  bytes_eqb g star || bytes_eqb g f = true ->
  find (ematch rest) (step_field n g) = Some (p, r).
Proof.
  intros -> Hn Hm Hx Hg. rewrite step_app, step_cons. cbn [snd fst]. rewrite Hx.
  rewrite find_app_skip.
  - cbn [app find]. unfold ematch at 1. cbn [snd]. rewrite Hm. reflexivity.
  - intros [q r'] Hq. apply step_in in Hq. apply Hn in Hq. unfold ematch in *. cbn [snd] in *.
    cbn [glob_match] in Hq. rewrite Hg in Hq. exact Hq.
Qed.

Lemma visit_first : forall fs n caps p rem,
  find (ematch fs) n = Some (p, rem) ->
  In (p, rev caps ++ glob_captures rem fs) (visit true n fs caps).
Proof.
  induction fs as [|f rest IH]; intros n caps p rem H.
  - cbn [visit]. rewrite node_result_find, H. cbn [option_map fst].
    apply find_some in H. destruct H as [_ H]. unfold ematch in H. cbn [snd] in H.
    destruct rem; [|discriminate]. cbn [glob_captures]. rewrite app_nil_r. left; reflexivity.
  - rewrite visit_search by discriminate. rewrite search_cons.
    destruct (find_split _ _ _ H) as (l1 & l2 & Hn & Hm & Hl1).
    unfold ematch in Hm. cbn [snd] in Hm. destruct rem as [|x r]; [discriminate|].
    cbn [glob_match] in Hm. apply andb_true_iff in Hm as [Hx Hm].
    assert (Hin : In (p, x :: r) n) by (rewrite Hn; apply in_or_app; right; left; reflexivity).
    rewrite (has_trans_in _ _ _ _ Hin). cbn [negb andb].
    pose proof (glob_match_length _ _ Hm) as Hlen.
    destruct (bytes_eqb x star) eqn:Exs.
    + (* the entry expects a wildcard here *)
      assert (Hf : find (ematch rest) (step_field n star) = Some (p, r)).
      { apply (find_step n l1 l2 p x r f rest star Hn Hl1 Hm Exs). rewrite bytes_eqb_refl. reflexivity. }
      assert (Hfit : fits (step_field n star) (length rest) = true).
      { apply find_some in Hf. destruct Hf as [Hf _]. apply (fits_in _ _ _ Hf). exact Hlen. }
      rewrite Hfit. apply (IH _ (f :: caps)) in Hf.
      cbn [glob_captures]. rewrite Exs.
      cbn [rev] in Hf. rewrite <- app_assoc in Hf. cbn [app] in Hf.
      destruct (fits (if bytes_eqb f star then [] else step_field n f) (length rest)).
      * apply in_or_app. right. exact Hf.
      * exact Hf.
    + cbn [orb] in Hx.
      destruct (bytes_eqb f star) eqn:Efs.
      { apply bytes_eqb_eq in Hx, Efs. subst. rewrite bytes_eqb_refl in Exs. discriminate. }
      assert (Hf : find (ematch rest) (step_field n f) = Some (p, r)).
      { apply (find_step n l1 l2 p x r f rest f Hn Hl1 Hm Hx). rewrite bytes_eqb_refl. apply orb_true_r. }
      assert (Hfit : fits (step_field n f) (length rest) = true).
      { apply find_some in Hf. destruct Hf as [Hf _]. apply (fits_in _ _ _ Hf). exact Hlen. }
      rewrite Hfit. apply (IH _ caps) in Hf. cbn [glob_captures]. rewrite Exs.
      apply in_or_app. left. exact Hf.
Qed.

Lemma best_hit_min : forall hits cur p c,
  (forall h, In h hits -> p <= fst h /\ (fst h = p -> h = (p, c))) ->
  (forall h, cur = Some h -> p <= fst h /\ (fst h = p -> h = (p, c))) ->
  In (p, c) hits \/ cur = Some (p, c) ->
  best_hit hits cur = Some (p, c).
Proof.
  induction hits as [|h hits IH]; intros cur p c Hh Hc Hin; cbn [best_hit].
  - destruct Hin as [[]|Hin]. exact Hin.
  - assert (Hh' : forall h0, In h0 hits -> p <= fst h0 /\ (fst h0 = p -> h0 = (p, c)))
      by (intros h0 H0; apply Hh; right; exact H0).
    assert (Hhh : p <= fst h /\ (fst h = p -> h = (p, c))) by (apply Hh; left; reflexivity).
    destruct cur as [c0|].
    + destruct (Hc c0 eq_refl) as [Hc1 Hc2].
      destruct (fst h <? fst c0) eqn:E.
      * apply Nat.ltb_lt in E. apply IH; auto.
        -- intros ? [= <-]. exact Hhh.
        -- destruct Hin as [[->|Hin]|Hin]; [right; reflexivity | left; exact Hin |].
           injection Hin as ->. cbn [fst] in E. lia.
      * apply Nat.ltb_ge in E. apply IH; auto.
        destruct Hin as [[->|Hin]|Hin]; [| left; exact Hin | right; exact Hin].
        cbn [fst] in E. right. f_equal. apply Hc2. lia.
    + apply IH; auto.
      * intros ? [= <-]. exact Hhh.
      * destruct Hin as [[->|Hin]|Hin]; [right; reflexivity | left; exact Hin | discriminate].
Qed.

(* ------------------------------------------------------------------------------------------ *)
(* the root node against the rule list                                                         *)
(* ------------------------------------------------------------------------------------------ *)

Definition entry_of (g : grule) : nat * list bytes := (g_prio g, g_fields g).

Lemma root_cons g r ty :
  root_node (g :: r) ty = (if type_ok (g_mmt g) ty then [entry_of g] else []) ++ root_node r ty.
Proof. reflexivity. Qed.

Lemma root_find rules ty fs :
  find (ematch fs) (root_node rules ty) = option_map entry_of (find (g_matches ty fs) rules).
Proof.
  induction rules as [|g r IH]; [reflexivity|].
  rewrite root_cons. cbn [find]. unfold g_matches at 1.
  destruct (type_ok (g_mmt g) ty); cbn [app andb find]; [|exact IH].
  unfold ematch at 1. cbn [entry_of snd].
  destruct (glob_match (g_fields g) fs); [reflexivity | exact IH].
Qed.

Lemma root_in rules ty p rem :
  In (p, rem) (root_node rules ty) ->
  exists g, In g rules /\ g_prio g = p /\ g_fields g = rem /\ type_ok (g_mmt g) ty = true.
Proof.
  induction rules as [|g r IH]; [intros []|].
  rewrite root_cons. intros H. apply in_app_or in H. destruct H as [H|H].
  - destruct (type_ok (g_mmt g) ty) eqn:E; [|destruct H]. destruct H as [H|[]].
    injection H as <- <-. exists g. repeat split; auto. left; reflexivity.
  - destruct (IH H) as (g' & Hin & Hr). exists g'. split; [right; exact Hin | exact Hr].
Qed.

Lemma prios_ge : forall l k, prios_from l k -> forall g, In g l -> k <= g_prio g.
Proof.
  induction l as [|x l IH]; intros k H g Hg; [destruct Hg|].
  cbn [prios_from] in H. destruct H as [H1 H2]. destruct Hg as [<-|Hg]; [lia|].
  specialize (IH _ H2 _ Hg). lia.
Qed.

Lemma prios_split : forall l1 k g l2,
  prios_from (l1 ++ g :: l2) k -> forall g', In g' l2 -> g_prio g < g_prio g'.
Proof.
  induction l1 as [|x l1 IH]; intros k g l2 H g' Hg'; cbn [app prios_from] in H; destruct H as [H1 H2].
  - pose proof (prios_ge _ _ H2 _ Hg'). lia.
  - eapply IH; eauto.
Qed.

Lemma split_byte_nonnil c s : split_byte c s <> [].
Proof.
  induction s as [|b t IH]; cbn [split_byte]; [discriminate|].
  destruct (beq b c); [discriminate|]. destruct (split_byte c t); discriminate.
Qed.

(* ------------------------------------------------------------------------------------------ *)
(* (B) unordered mode: the first hit is the most specific matching entry                       *)
(* ------------------------------------------------------------------------------------------ *)

Fixpoint ms_aux (cands : vnode) (best : option (nat * list bytes)) : option (nat * list bytes) :=
  match cands with
  | [] => best
  | e :: r =>
    match best with
    | None => ms_aux r (Some e)
    | Some b => if more_specific (snd e) (snd b) then ms_aux r (Some e) else ms_aux r best
    end
  end.

Definition bestm (n : vnode) (fs : list bytes) : option (nat * list bytes) :=
  ms_aux (filter (ematch fs) n) None.

Definition comb (f : bytes) (bl bs : option (nat * list bytes)) : option (nat * list bytes) :=
  match bl with
  | Some e => Some (fst e, f :: snd e)
  | None => match bs with Some e => Some (fst e, star :: snd e) | None => None end
  end.

Definition hit_of (caps fs : list bytes) (e : nat * list bytes) : nat * list bytes :=
  (fst e, rev caps ++ glob_captures (snd e) fs).

Lemma ms_decomp f rest (Hf : bytes_eqb f star = false) : forall n bl bs,
  ms_aux (filter (ematch (f :: rest)) n) (comb f bl bs) =
  comb f (ms_aux (filter (ematch rest) (step_field n f)) bl)
         (ms_aux (filter (ematch rest) (step_field n star)) bs).
Proof.
  assert (Hsf : bytes_eqb star f = false).
  { apply bytes_eqb_neq. intros E. subst f. rewrite bytes_eqb_refl in Hf. discriminate. }
  induction n as [|[p [|x r]] n IH]; intros bl bs; [reflexivity | |].
  - rewrite !step_cons. cbn [snd fst app filter]. unfold ematch at 1. cbn [snd glob_match]. apply IH.
  - rewrite !step_cons. cbn [snd fst filter]. unfold ematch at 1. cbn [snd glob_match].
    destruct (bytes_eqb x star) eqn:Exs.
    + apply bytes_eqb_eq in Exs. subst x. rewrite Hsf. cbn [orb andb app].
      destruct (glob_match r rest) eqn:Em.
      * cbn [filter]. unfold ematch at 3. cbn [snd]. rewrite Em.
        destruct bl as [[q r0]|].
        -- cbn [comb fst snd ms_aux more_specific]. rewrite bytes_eqb_refl, Hf.
           destruct bs as [[q' r1]|]; cbn [ms_aux snd].
           ++ destruct (more_specific r r1); rewrite <- IH; reflexivity.
           ++ rewrite <- IH; reflexivity.
        -- destruct bs as [[q' r1]|]; cbn [comb fst snd ms_aux more_specific].
           ++ rewrite bytes_eqb_refl. destruct (more_specific r r1).
              ** apply (IH None (Some (p, r))).
              ** apply (IH None (Some (q', r1))).
           ++ apply (IH None (Some (p, r))).
      * cbn [filter]. unfold ematch at 3. cbn [snd]. rewrite Em. apply IH.
    + destruct (bytes_eqb x f) eqn:Exf.
      * apply bytes_eqb_eq in Exf. subst x. cbn [orb andb app].
        destruct (glob_match r rest) eqn:Em.
        -- cbn [filter]. unfold ematch at 2. cbn [snd]. rewrite Em.
           destruct bl as [[q r0]|].
           ++ cbn [comb fst snd ms_aux more_specific]. rewrite Hf.
              destruct (more_specific r r0).
              ** apply (IH (Some (p, r)) bs).
              ** apply (IH (Some (q, r0)) bs).
           ++ destruct bs as [[q' r1]|]; cbn [comb fst snd ms_aux more_specific].
              ** rewrite Hf, bytes_eqb_refl. apply (IH (Some (p, r)) (Some (q', r1))).
              ** apply (IH (Some (p, r)) None).
        -- cbn [filter]. unfold ematch at 2. cbn [snd]. rewrite Em. apply IH.
      * cbn [orb andb app]. apply IH.
Qed.

Lemma ms_decomp_star f rest (Hf : bytes_eqb f star = true) : forall n bs,
  ms_aux (filter (ematch (f :: rest)) n) (comb f None bs) =
  comb f None (ms_aux (filter (ematch rest) (step_field n star)) bs).
Proof.
  apply bytes_eqb_eq in Hf. subst f.
  induction n as [|[p [|x r]] n IH]; intros bs; [reflexivity | |].
  - rewrite !step_cons. cbn [snd fst app filter]. unfold ematch at 1. cbn [snd glob_match]. apply IH.
  - rewrite !step_cons. cbn [snd fst filter]. unfold ematch at 1. cbn [snd glob_match].
    rewrite orb_diag.
    destruct (bytes_eqb x star) eqn:Exs.
    + apply bytes_eqb_eq in Exs. subst x. cbn [andb app].
      destruct (glob_match r rest) eqn:Em.
      * cbn [filter]. unfold ematch at 2. cbn [snd]. rewrite Em.
        destruct bs as [[q' r1]|]; cbn [comb fst snd ms_aux more_specific].
        -- rewrite bytes_eqb_refl. destruct (more_specific r r1).
           ++ apply (IH (Some (p, r))).
           ++ apply (IH (Some (q', r1))).
        -- apply (IH (Some (p, r))).
      * cbn [filter]. unfold ematch at 2. cbn [snd]. rewrite Em. apply IH.
    + cbn [andb app]. apply IH.
Qed.

Lemma ms_aux_nil_keep : forall l b, (forall e, In e l -> snd e = []) -> ms_aux l (Some b) = Some b.
Proof.
  induction l as [|e l IH]; intros b H; cbn [ms_aux]; [reflexivity|].
  rewrite (H e (or_introl eq_refl)). cbn [more_specific]. apply IH.
  intros e' He'. apply H. right; exact He'.
Qed.

Lemma bestm_nil n : bestm n [] = option_map (fun p => (p, [])) (node_result n).
Proof.
  unfold bestm. induction n as [|[q [|x r]] n IH]; [reflexivity | |].
  - cbn [filter node_result option_map]. unfold ematch at 1. cbn [snd glob_match ms_aux].
    apply ms_aux_nil_keep. intros e He. apply filter_In in He. destruct He as [_ He].
    unfold ematch in He. destruct (snd e); [reflexivity | discriminate].
  - cbn [filter node_result]. unfold ematch at 1. cbn [snd glob_match]. exact IH.
Qed.

Lemma hit_of_lit caps f rest q r :
  bytes_eqb f star = false -> hit_of caps (f :: rest) (q, f :: r) = hit_of caps rest (q, r).
Proof. intros Hf. unfold hit_of. cbn [fst snd glob_captures]. rewrite Hf. reflexivity. Qed.

Lemma hit_of_star caps f rest q r :
  hit_of caps (f :: rest) (q, star :: r) = hit_of (f :: caps) rest (q, r).
Proof.
  unfold hit_of. cbn [fst snd glob_captures rev]. rewrite bytes_eqb_refl, <- app_assoc. reflexivity.
Qed.

Lemma visit_hd : forall fs n caps,
  hd_error (visit true n fs caps) = option_map (hit_of caps fs) (bestm n fs).
Proof.
  induction fs as [|f rest IH]; intros n caps.
  - rewrite bestm_nil. cbn [visit]. destruct (node_result n); cbn [hd_error option_map]; [|reflexivity].
    unfold hit_of. cbn [fst snd glob_captures]. rewrite app_nil_r. reflexivity.
  - rewrite visit_search by discriminate. rewrite search_cons.
    destruct (has_transitions n) eqn:Ht; cbn [negb andb].
    2:{ unfold bestm. rewrite (no_trans_filter _ _ _ Ht). reflexivity. }
    (* the wildcard alternative *)
    assert (HS : hd_error (if fits (step_field n star) (length rest)
                           then visit true (step_field n star) rest (f :: caps) else [])
                 = option_map (hit_of caps (f :: rest)) (comb f None (bestm (step_field n star) rest))).
    { destruct (fits (step_field n star) (length rest)) eqn:Efs.
      - rewrite IH. destruct (bestm (step_field n star) rest) as [[q r]|]; cbn [comb option_map fst snd]; [|reflexivity].
        rewrite hit_of_star. reflexivity.
      - unfold bestm. rewrite (fits_false_filter _ _ Efs). reflexivity. }
    destruct (bytes_eqb f star) eqn:Ef.
    + cbn [fits]. rewrite HS. f_equal. unfold bestm.
      rewrite <- (ms_decomp_star f rest Ef n None). reflexivity.
    + assert (HD : bestm n (f :: rest) = comb f (bestm (step_field n f) rest) (bestm (step_field n star) rest)).
      { unfold bestm. rewrite <- (ms_decomp f rest Ef n None None). reflexivity. }
      rewrite HD.
      destruct (fits (step_field n f) (length rest)) eqn:Efl.
      * rewrite hd_error_app, IH, HS.
        destruct (bestm (step_field n f) rest) as [[q r]|]; cbn [comb option_map fst snd]; [|reflexivity].
        rewrite hit_of_lit by exact Ef. reflexivity.
      * rewrite HS. unfold bestm at 2. rewrite (fits_false_filter _ _ Efl). reflexivity.
Qed.

(* the rule-level most_specific_aux against the entry-level one on the root node *)
Lemma root_ms rules ty fs : forall b,
  ms_aux (filter (ematch fs) (root_node rules ty)) (option_map entry_of b) =
  option_map entry_of (most_specific_aux (filter (g_matches ty fs) rules) b).
Proof.
  induction rules as [|g r IH]; intros b; [reflexivity|].
  rewrite root_cons. cbn [filter]. unfold g_matches at 1.
  destruct (type_ok (g_mmt g) ty); cbn [app andb filter]; [|apply IH].
  unfold ematch at 1. cbn [entry_of snd].
  destruct (glob_match (g_fields g) fs); [|apply IH].
  cbn [ms_aux most_specific_aux]. destruct b as [b|]; cbn [option_map].
  - cbn [entry_of snd]. destruct (more_specific (g_fields g) (g_fields b)).
    + apply (IH (Some g)).
    + apply (IH (Some b)).
  - apply (IH (Some g)).
Qed.

(* ------------------------------------------------------------------------------------------ *)
(* without backtracking: same search when no reachable state is ambiguous                      *)
(* ------------------------------------------------------------------------------------------ *)

Definition unamb (n : vnode) : Prop :=
  forall path f, bytes_eqb f star = false ->
    step_field (fold_left step_field path n) f = [] \/
    step_field (fold_left step_field path n) star = [].

Lemma unamb_step n g : unamb n -> unamb (step_field n g).
Proof. intros H path f. apply (H (g :: path)). Qed.

Lemma visit_nobt : forall fs n caps, unamb n -> visit false n fs caps = visit true n fs caps.
Proof.
  induction fs as [|f rest IH]; intros n caps Hu; [reflexivity|].
  rewrite !visit_search by discriminate. rewrite !search_cons.
  destruct (has_transitions n); cbn [negb andb]; [|reflexivity].
  pose proof (IH (step_field n star) (f :: caps) (unamb_step _ _ Hu)) as IHs.
  destruct (bytes_eqb f star) eqn:Ef.
  - cbn [fits]. rewrite IHs. reflexivity.
  - pose proof (IH (step_field n f) caps (unamb_step _ _ Hu)) as IHl.
    destruct (Hu [] f Ef) as [E|E]; cbn [fold_left] in E.
    + rewrite E. cbn [fits]. rewrite IHs. reflexivity.
    + rewrite E. cbn [fits]. rewrite IHl. reflexivity.
Qed.

Lemma fold_step_in : forall path n p rem,
  In (p, rem) (fold_left step_field path n) -> In (p, path ++ rem) n.
Proof.
  induction path as [|g path IH]; intros n p rem H; cbn [fold_left app] in *; [exact H|].
  apply IH in H. apply step_in in H. exact H.
Qed.

Lemma prefixes_in : forall a pre x r b,
  b = bytes_eqb x star -> In (pre ++ a, b) (prefixes_of (a ++ x :: r) pre).
Proof.
  induction a as [|y a IH]; intros pre x r b ->; cbn [app prefixes_of].
  - rewrite app_nil_r. left; reflexivity.
  - right. replace (pre ++ y :: a) with ((pre ++ [y]) ++ a) by (rewrite <- app_assoc; reflexivity).
    apply IH. reflexivity.
Qed.

Lemma list_bytes_eqb_refl a : list_bytes_eqb a a = true.
Proof. induction a as [|x a IH]; cbn [list_bytes_eqb]; [reflexivity|]. rewrite bytes_eqb_refl. exact IH. Qed.

Lemma root_unamb rules ty :
  has_ambiguous_wildcard (map g_fields rules) = false -> unamb (root_node rules ty).
Proof.
  intros H path f Hf.
  destruct (step_field (fold_left step_field path (root_node rules ty)) f) as [|[p1 r1] l1] eqn:E1;
    [left; reflexivity|].
  destruct (step_field (fold_left step_field path (root_node rules ty)) star) as [|[p2 r2] l2] eqn:E2;
    [right; reflexivity|].
  exfalso.
  assert (H1 : In (p1, r1) (step_field (fold_left step_field path (root_node rules ty)) f))
    by (rewrite E1; left; reflexivity).
  assert (H2 : In (p2, r2) (step_field (fold_left step_field path (root_node rules ty)) star))
    by (rewrite E2; left; reflexivity).
  apply step_in, fold_step_in, root_in in H1. apply step_in, fold_step_in, root_in in H2.
  destruct H1 as (g1 & Hg1 & _ & Hf1 & _). destruct H2 as (g2 & Hg2 & _ & Hf2 & _).
  set (ps := flat_map (fun m => prefixes_of m []) (map g_fields rules)).
  assert (P1 : In (path, false) ps).
  { apply in_flat_map. exists (g_fields g1). split; [apply in_map; exact Hg1|].
    rewrite Hf1. apply (prefixes_in path [] f r1). symmetry; exact Hf. }
  assert (P2 : In (path, true) ps).
  { apply in_flat_map. exists (g_fields g2). split; [apply in_map; exact Hg2|].
    rewrite Hf2. apply (prefixes_in path [] star r2). symmetry; apply bytes_eqb_refl. }
  assert (HT : has_ambiguous_wildcard (map g_fields rules) = true).
  { unfold has_ambiguous_wildcard. fold ps. apply existsb_exists. exists (path, true).
    split; [exact P2|]. cbn [snd fst andb]. apply existsb_exists. exists (path, false).
    split; [exact P1|]. cbn [snd fst negb andb]. apply list_bytes_eqb_refl. }
  rewrite HT in H. discriminate.
Qed.
