From SE Require Import Spec.ExpandSpec.
(* C11: template expansion on tokenised templates (regexp Expand model, Model/Template.v). *)
From SE Require Import Proofs.EscapeProofs Proofs.MultiStringLemmas.
From Coq Require Import ZifyN ZifyNat ZifyBool.

(* ---------- bytes ---------- *)

Lemma bN_dollar : bN c_dollar = 36%N.
Proof. reflexivity. Qed.
Lemma bN_lbrace : bN c_lbrace = 123%N.
Proof. reflexivity. Qed.
Lemma bN_rbrace : bN c_rbrace = 125%N.
Proof. reflexivity. Qed.

Definition all_digits (ds : bytes) : bool := forallb (fun b => is_digit_n (bN b)) ds.

Lemma all_digits_cons d t : all_digits (d :: t) = is_digit_n (bN d) && all_digits t.
Proof. reflexivity. Qed.

Lemma digit_not_dollar d : is_digit_n (bN d) = true -> beq d c_dollar = false.
Proof. unfold beq, is_digit_n. rewrite bN_dollar. lia. Qed.

Lemma digit_not_lbrace d : is_digit_n (bN d) = true -> beq d c_lbrace = false.
Proof. unfold beq, is_digit_n. rewrite bN_lbrace. lia. Qed.

Lemma digits_free ds : all_digits ds = true -> free_of [c_dollar] ds = true.
Proof.
  induction ds as [|d t IH]; intros H; [reflexivity|].
  rewrite all_digits_cons in H. apply andb_true_iff in H as [Hd Ht].
  rewrite free_of1_cons, (digit_not_dollar _ Hd), IH by exact Ht. reflexivity.
Qed.

Lemma wf_digits_inv ds :
  wf_digits ds = true ->
  exists d t, ds = d :: t /\ all_digits ds = true /\ (length ds <= 8)%nat /\
              (t <> [] -> bN d <> 48%N).
Proof.
  destruct ds as [|d [|e t]]; intros H; [discriminate| |].
  - exists d, []. cbn [wf_digits] in H. rewrite all_digits_cons, H.
    repeat split; cbn; try lia. congruence.
  - exists d, (e :: t). unfold wf_digits in H. fold (all_digits (d :: e :: t)) in H.
    apply andb_true_iff in H as [H H3]. apply andb_true_iff in H as [H1 H2].
    repeat split; try assumption; try lia.
Qed.

(* ---------- decode / word_prefix ---------- *)

Lemma decode_lt128 b t : (bN b < 128)%N -> decode (b :: t) = (bN b, 1%nat).
Proof. intros H. unfold decode. destruct (bN b <? 128)%N eqn:E; [reflexivity | lia]. Qed.

Section Proofs.
Variable uw : rune -> bool.

Lemma word_prefix_cons0 b t :
  word_prefix uw (b :: t) 0 =
  let '(r, w) := decode (b :: t) in
  if word_rune uw r then S (word_prefix uw t (w - 1)) else 0%nat.
Proof. reflexivity. Qed.

Lemma word_prefix_ascii b t :
  (bN b < 128)%N ->
  word_prefix uw (b :: t) 0 = if is_legal_rune (bN b) then S (word_prefix uw t 0) else 0%nat.
Proof.
  intros H. rewrite word_prefix_cons0, (decode_lt128 _ _ H). unfold word_rune.
  destruct (bN b <? 128)%N eqn:E; [reflexivity | lia].
Qed.

Lemma word_prefix_digits ds rest :
  all_digits ds = true ->
  word_prefix uw (ds ++ rest) 0 = (length ds + word_prefix uw rest 0)%nat.
Proof.
  induction ds as [|d t IH]; intros H; [reflexivity|].
  rewrite all_digits_cons in H. apply andb_true_iff in H as [Hd Ht].
  cbn [app length]. rewrite word_prefix_ascii by (unfold is_digit_n in Hd; lia).
  unfold is_legal_rune. rewrite Hd, orb_true_r. cbn [orb]. rewrite IH by exact Ht. reflexivity.
Qed.

Lemma word_prefix_rbrace rest : word_prefix uw (c_rbrace :: rest) 0 = 0%nat.
Proof. rewrite word_prefix_ascii by (rewrite bN_rbrace; lia). reflexivity. Qed.

(* ---------- name_num / group_num ---------- *)

Definition dv_step (acc : nat) (b : byte) : nat := (acc * 10 + (N.to_nat (bN b) - 48))%nat.

Lemma name_num_digits ds : forall a,
  all_digits ds = true ->
  ((Z.of_nat a + 1) * 10 ^ Z.of_nat (length ds) <= 1000000000)%Z ->
  name_num ds (Z.of_nat a) = Z.of_nat (fold_left dv_step ds a).
Proof.
  induction ds as [|d t IH]; intros a H Hb; [reflexivity|].
  rewrite all_digits_cons in H. apply andb_true_iff in H as [Hd Ht].
  cbn [length] in Hb. rewrite Nat2Z.inj_succ, Z.pow_succ_r in Hb by lia.
  assert (HP : (0 < 10 ^ Z.of_nat (length t))%Z) by (apply Z.pow_pos_nonneg; lia).
  set (P := (10 ^ Z.of_nat (length t))%Z) in *.
  assert (Ha : (Z.of_nat a + 1 <= (Z.of_nat a + 1) * P)%Z) by nia.
  cbn [name_num fold_left]. rewrite Hd. cbn [negb orb].
  destruct (100000000 <=? Z.of_nat a)%Z eqn:E; [lia|].
  replace (Z.of_nat a * 10 + (Z.of_N (bN d) - 48))%Z with (Z.of_nat (dv_step a d))
    by (unfold dv_step, is_digit_n in *; lia).
  apply IH; [exact Ht|]. fold P.
  assert (Z.of_nat (dv_step a d) + 1 <= (Z.of_nat a + 1) * 10)%Z
    by (unfold dv_step, is_digit_n in *; lia).
  nia.
Qed.

Lemma dec_value_fold ds : dec_value ds = fold_left dv_step ds 0%nat.
Proof. reflexivity. Qed.

Lemma group_num_wf ds : wf_digits ds = true -> group_num ds = Z.of_nat (dec_value ds).
Proof.
  intros H. destruct (wf_digits_inv _ H) as (d & t & -> & Hall & Hlen & Hz).
  assert (E : group_num (d :: t) = name_num (d :: t) 0).
  { unfold group_num. destruct t as [|e t]; [reflexivity|].
    destruct (bN d =? 48)%N eqn:E; [|reflexivity]. exfalso. apply Hz; [discriminate | lia]. }
  rewrite E, dec_value_fold. change 0%Z with (Z.of_nat 0).
  apply name_num_digits; [exact Hall|].
  change (Z.of_nat 0 + 1)%Z with 1%Z. rewrite Z.mul_1_l.
  change 1000000000%Z with (10 ^ 9)%Z. apply Z.pow_le_mono_r; lia.
Qed.

(* ---------- extract ---------- *)

Lemma firstn_length_app {A} (a b : list A) : firstn (length a) (a ++ b) = a.
Proof.
  rewrite firstn_app, Nat.sub_diag, firstn_all. cbn [firstn]. apply app_nil_r.
Qed.

Lemma skipn_length_app {A} (a b : list A) : skipn (length a) (a ++ b) = b.
Proof.
  rewrite skipn_app, Nat.sub_diag, skipn_all. reflexivity.
Qed.

Lemma extract_ref ds rest :
  wf_digits ds = true -> no_word_start uw rest = true ->
  extract uw (ds ++ rest) = Some (Z.of_nat (dec_value ds), length ds).
Proof.
  intros H Hr. pose proof (group_num_wf _ H) as Hg.
  destruct (wf_digits_inv _ H) as (d & t & E & Hall & _ & _).
  assert (Hw : word_prefix uw (ds ++ rest) 0 = length ds).
  { rewrite word_prefix_digits by exact Hall. unfold no_word_start in Hr. lia. }
  assert (Hd : is_digit_n (bN d) = true).
  { subst ds. rewrite all_digits_cons in Hall. now apply andb_true_iff in Hall as [? _]. }
  subst ds. cbn [app] in *. unfold extract.
  rewrite (digit_not_lbrace _ Hd). cbv zeta. rewrite Hw.
  destruct (length (d :: t) =? 0)%nat eqn:E0; [cbn [length] in E0; lia|].
  change (d :: t ++ rest) with ((d :: t) ++ rest).
  rewrite firstn_length_app, Hg. reflexivity.
Qed.

Lemma extract_brace ds rest :
  wf_digits ds = true ->
  extract uw (c_lbrace :: ds ++ c_rbrace :: rest)
  = Some (Z.of_nat (dec_value ds), S (S (length ds))).
Proof.
  intros H. pose proof (group_num_wf _ H) as Hg.
  destruct (wf_digits_inv _ H) as (d & t & E & Hall & _ & _).
  assert (Hw : word_prefix uw (ds ++ c_rbrace :: rest) 0 = length ds).
  { rewrite word_prefix_digits by exact Hall. rewrite word_prefix_rbrace. lia. }
  unfold extract. rewrite beq_refl. cbv zeta. rewrite Hw.
  destruct (length ds =? 0)%nat eqn:E0; [subst ds; cbn [length] in E0; lia|].
  rewrite firstn_length_app, skipn_length_app, beq_refl, Hg. reflexivity.
Qed.

(* ---------- group_text ---------- *)

Definition ref_text (g0 : option bytes) (cs : list bytes) (n : nat) : bytes :=
  match n with
  | O => match g0 with Some t => t | None => [] end
  | S k => nth k cs []
  end.

Lemma nth_error_map_some (cs : list bytes) k :
  match nth_error (map Some cs) k with Some (Some t) => t | _ => [] end = nth k cs [].
Proof.
  revert k; induction cs as [|c cs IH]; intros [|k]; try reflexivity. apply IH.
Qed.

Lemma group_text_nat g0 cs n :
  group_text (g0 :: map Some cs) (Z.of_nat n) = ref_text g0 cs n.
Proof.
  unfold group_text. destruct (Z.of_nat n <? 0)%Z eqn:E; [lia|].
  rewrite Nat2Z.id. destruct n as [|k]; cbn [nth_error ref_text].
  - destruct g0; reflexivity.
  - apply nth_error_map_some.
Qed.

(* ---------- expand_aux ---------- *)

Lemma expand_aux_cons0 groups b t :
  expand_aux uw groups (b :: t) 0 =
  if negb (beq b c_dollar) then b :: expand_aux uw groups t 0
  else match t with
       | b1 :: _ =>
         if beq b1 c_dollar then c_dollar :: expand_aux uw groups t 1
         else match extract uw t with
              | None => c_dollar :: expand_aux uw groups t 0
              | Some (num, used) => group_text groups num ++ expand_aux uw groups t used
              end
       | [] => [c_dollar]
       end.
Proof. reflexivity. Qed.

Lemma expand_aux_skip groups a b :
  expand_aux uw groups (a ++ b) (length a) = expand_aux uw groups b 0.
Proof. induction a as [|x a IH]; [reflexivity | exact IH]. Qed.

Lemma expand_aux_lit groups a b :
  free_of [c_dollar] a = true ->
  expand_aux uw groups (a ++ b) 0 = a ++ expand_aux uw groups b 0.
Proof.
  induction a as [|x a IH]; intros H; [reflexivity|].
  rewrite free_of1_cons in H. apply andb_true_iff in H as [Hx Ha].
  cbn [app]. rewrite expand_aux_cons0, Hx, IH by exact Ha. reflexivity.
Qed.

Lemma expand_aux_dollar groups b1 t1 num used :
  beq b1 c_dollar = false -> extract uw (b1 :: t1) = Some (num, used) ->
  expand_aux uw groups (c_dollar :: b1 :: t1) 0
  = group_text groups num ++ expand_aux uw groups (b1 :: t1) used.
Proof.
  intros H1 H2. rewrite expand_aux_cons0, beq_refl. cbn [negb]. cbv beta iota.
  rewrite H1, H2. reflexivity.
Qed.

Lemma expand_aux_ref groups ds rest :
  wf_digits ds = true -> no_word_start uw rest = true ->
  expand_aux uw groups (c_dollar :: ds ++ rest) 0
  = group_text groups (Z.of_nat (dec_value ds)) ++ expand_aux uw groups rest 0.
Proof.
  intros H Hr. pose proof (extract_ref _ _ H Hr) as Hx.
  destruct (wf_digits_inv _ H) as (d & t & E & Hall & _ & _).
  assert (Hd : is_digit_n (bN d) = true).
  { subst ds. rewrite all_digits_cons in Hall. now apply andb_true_iff in Hall as [? _]. }
  rewrite <- (expand_aux_skip groups ds rest).
  subst ds. cbn [app] in *.
  apply expand_aux_dollar; [apply (digit_not_dollar _ Hd) | exact Hx].
Qed.

Lemma expand_aux_brace groups ds rest :
  wf_digits ds = true ->
  expand_aux uw groups (c_dollar :: c_lbrace :: ds ++ c_rbrace :: rest) 0
  = group_text groups (Z.of_nat (dec_value ds)) ++ expand_aux uw groups rest 0.
Proof.
  intros H. pose proof (extract_brace _ rest H) as Hx.
  assert (Hb : beq c_lbrace c_dollar = false) by reflexivity.
  rewrite (expand_aux_dollar groups _ _ _ _ Hb Hx). f_equal.
  change (c_lbrace :: ds ++ c_rbrace :: rest) with ((c_lbrace :: ds) ++ [c_rbrace] ++ rest).
  rewrite app_assoc.
  replace (S (S (length ds))) with (length ((c_lbrace :: ds) ++ [c_rbrace]))
    by (rewrite app_length; cbn [length]; lia).
  apply expand_aux_skip.
Qed.

(* ---------- tokens ---------- *)

Definition tok_sem_g (g0 : option bytes) (cs : list bytes) (t : ttok) : bytes :=
  match t with
  | TLit s => s
  | TRef ds | TBrace ds => ref_text g0 cs (dec_value ds)
  end.

Lemma render_toks_cons t r : render_toks (t :: r) = render_tok t ++ render_toks r.
Proof. reflexivity. Qed.

Lemma expand_tokens g0 cs ts :
  wf_toks uw ts = true ->
  expand uw (g0 :: map Some cs) (render_toks ts) = concat (map (tok_sem_g g0 cs) ts).
Proof.
  unfold expand. induction ts as [|t r IH]; intros H; [reflexivity|].
  rewrite render_toks_cons. cbn [map concat].
  destruct t as [s|ds|ds]; cbn [wf_toks] in H; cbn [render_tok tok_sem_g].
  - apply andb_true_iff in H as [Hs Hr].
    rewrite expand_aux_lit by exact Hs. now rewrite IH.
  - apply andb_true_iff in H as [H Hn]. apply andb_true_iff in H as [Hd Hr].
    cbn [app]. rewrite expand_aux_ref by assumption.
    now rewrite group_text_nat, IH.
  - apply andb_true_iff in H as [Hd Hr].
    cbn [app]. rewrite <- app_assoc. cbn [app].
    rewrite expand_aux_brace by assumption.
    now rewrite group_text_nat, IH.
Qed.

Lemma tok_sem_g_none count caps t :
  tok_sem_g None (firstn count caps) t = tok_sem count caps t.
Proof.
  destruct t as [s|ds|ds]; cbn [tok_sem_g tok_sem]; try reflexivity;
    unfold capture, ref_text; destruct (dec_value ds); reflexivity.
Qed.

Lemma tok_sem_g_nonzero g g' cs t :
  refers_to_zero t = false -> tok_sem_g g cs t = tok_sem_g g' cs t.
Proof.
  destruct t as [s|ds|ds]; cbn [tok_sem_g refers_to_zero]; intros H; try reflexivity;
    destruct (dec_value ds); try reflexivity; discriminate.
Qed.
End Proofs.

(* ---------- the statements ---------- *)

Lemma format_tokens_ok : forall uni_word, stmt_format_tokens uni_word.
Proof.
  intros uw ts count caps H. unfold format.
  rewrite expand_tokens by exact H.
  rewrite (map_ext _ _ (tok_sem_g_none count caps)). reflexivity.
Qed.

Lemma glob_regex_agree_ok : forall uni_word, stmt_glob_regex_agree uni_word.
Proof.
  intros uw ts caps whole H Hz. unfold format.
  rewrite firstn_all, !expand_tokens by exact H. f_equal.
  clear H. induction ts as [|t r IH]; [reflexivity|].
  cbn [existsb] in Hz. apply orb_false_iff in Hz as [Ht Hr].
  cbn [map]. f_equal; [apply tok_sem_g_nonzero; exact Ht | apply IH; exact Hr].
Qed.

Lemma expand_literal_ok : forall uni_word, stmt_expand_literal uni_word.
Proof.
  intros uw groups s H. unfold expand.
  rewrite <- (app_nil_r s) at 1. rewrite expand_aux_lit by exact H.
  cbn [expand_aux]. apply app_nil_r.
Qed.
