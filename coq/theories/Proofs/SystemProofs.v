From SE Require Import Spec.SystemSpec.
From SE Require Import Proofs.MapperProofs Proofs.FsmProofs Proofs.SeriesProofs.
From Coq Require Import ZArith.
(* C01 composed: the whole pipeline (Model/System.v) refines the specification system of
   Spec/SystemSpec.v.  Glue of the mapper refinement (Proofs/MapperProofs.v: inv, step_ok) and
   the registry refinement (Proofs/SeriesProofs.v: SimX, step_sim, Sim_lookup). *)

Lemma valid_type_type_string k : valid_type (type_string k) = true.
Proof. destruct k; reflexivity. Qed.

Section SystemRefines.
Variable pf : bytes -> F64 * bool.
Variable uni_word : rune -> bool.
Variable re_match : bytes -> bytes -> option (list (option bytes)).
Variable heur_bt : list bytes -> bool -> bool.
Variable re_compiles : bytes -> bool.
Variable CS : Type.
Variable c_get : CS -> bytes -> option (option mresult) * CS.
Variable c_add : CS -> bytes -> option mresult -> CS.
Variable c_reset : CS -> CS.
Variable builtins : list sample.
Variable holds : CS -> bytes -> option mresult -> Prop.
Hypothesis HSound : cache_sound CS c_get c_add c_reset holds.

Let HSpec : stmt_lookup_is_spec uni_word re_match heur_bt re_compiles :=
  lookup_is_spec_ok uni_word re_match heur_bt re_compiles fsm_first_match_ok fsm_most_specific_ok.

(* ---------- the mapper invariant, extended with the defaults ---------- *)
Definition MInv (m : mapper CS) (st : option config) : Prop :=
  inv uni_word re_match heur_bt re_compiles CS holds m st /\
  m_defaults CS m = spec_defaults st.

Lemma get_mapping_defaults m metric ty :
  m_defaults CS (snd (get_mapping uni_word re_match CS c_get c_add m metric ty)) = m_defaults CS m.
Proof.
  unfold get_mapping. destruct (m_cache CS m) as [s|]; [|reflexivity].
  destruct (c_get s (format_key metric ty)) as [[r|] s']; reflexivity.
Qed.

Lemma MInv_rules m st : MInv m st ->
  m_rules CS m = match st with Some c => cf_rules c | None => [] end.
Proof.
  intros [[HR _] _]. unfold rules_inv in HR. destruct st as [c|].
  - destruct HR as (_ & Hr & _). exact Hr.
  - destruct HR as (Hr & _). exact Hr.
Qed.

Lemma lookup_ok m st metric ty :
  MInv m st -> valid_type ty = true ->
  fst (get_mapping uni_word re_match CS c_get c_add m metric ty)
  = ans uni_word re_match st metric ty /\
  MInv (snd (get_mapping uni_word re_match CS c_get c_add m metric ty)) st.
Proof.
  intros [HI HD] HV.
  pose proof (step_ok uni_word re_match heur_bt re_compiles CS c_get c_add c_reset HSpec holds HSound
                      m st (OLookup metric ty) HI HV) as [H1 H2].
  pose proof (get_mapping_defaults m metric ty) as H3.
  cbn [impl_step spec_step] in H1, H2.
  destruct (get_mapping uni_word re_match CS c_get c_add m metric ty) as [r m'].
  cbn [fst snd] in *. split; [|split].
  - injection H1 as ->. reflexivity.
  - exact H2.
  - rewrite H3. exact HD.
Qed.

Lemma reload_ok m st ast :
  MInv m st ->
  match load re_compiles ast with
  | LOk c => init_from_yaml heur_bt CS c_reset re_compiles m ast = (None, install heur_bt CS c_reset m c) /\
             MInv (install heur_bt CS c_reset m c) (Some c)
  | LErr e => init_from_yaml heur_bt CS c_reset re_compiles m ast = (Some e, m)
  end.
Proof.
  intros [HI HD].
  pose proof (step_ok uni_word re_match heur_bt re_compiles CS c_get c_add c_reset HSpec holds HSound
                      m st (OReload ast) HI eq_refl) as [_ H2].
  cbn [impl_step spec_step] in H2. unfold init_from_yaml in *.
  destruct (load re_compiles ast) as [c|e]; [|reflexivity].
  cbn [fst snd] in H2. split; [reflexivity|]. split; [exact H2|reflexivity].
Qed.

(* ---------- what the exporter is handed for one event ---------- *)
Lemma mapped_ok m st e :
  MInv m st ->
  let rm := get_mapping uni_word re_match CS c_get c_add m (e_name e) (type_string (e_kind e)) in
  match fst rm with Some mr => lookup_rule CS (snd rm) mr | None => None end
  = spec_mapped uni_word re_match st e /\
  m_defaults CS (snd rm) = spec_defaults st /\
  MInv (snd rm) st.
Proof.
  intros HM rm.
  destruct (lookup_ok m st (e_name e) (type_string (e_kind e)) HM (valid_type_type_string _)) as [H1 H2].
  fold rm in H1, H2. split; [|split; [apply H2 | exact H2]].
  rewrite H1. unfold lookup_rule. rewrite (MInv_rules _ _ H2).
  unfold spec_mapped, ans. destruct st as [c|]; reflexivity.
Qed.

(* ---------- one batch of events ---------- *)
Lemma events_ok st now evs : forall m x fx,
  MInv m st -> SimX x fx ->
  forall m' x' p fx' q,
  handle_events uni_word re_match CS c_get c_add m x now evs = (m', x', p) ->
  spec_events uni_word re_match st fx now evs = (fx', q) ->
  p = q /\ MInv m' st /\ SimX x' fx'.
Proof.
  induction evs as [|e rest IH]; intros m x fx HM HS m' x' p fx' q HI HP.
  - cbn [handle_events spec_events] in HI, HP. injection HI as <- <- <-. injection HP as <- <-.
    split; [reflexivity|]. split; assumption.
  - cbn [handle_events spec_events] in HI, HP.
    destruct (mapped_ok m st e HM) as (Hmap & Hdef & HM1). cbv zeta in Hmap, Hdef, HM1.
    destruct (get_mapping uni_word re_match CS c_get c_add m (e_name e) (type_string (e_kind e)))
      as [r m1]. cbn [fst snd] in Hmap, Hdef, HM1.
    rewrite Hmap, Hdef in HI.
    pose proof (step_sim x fx (XEvent (spec_defaults st) now e (spec_mapped uni_word re_match st e)) HS)
      as Hstep.
    cbn [reg_step] in Hstep.
    destruct (handle_event (spec_defaults st) now x e (spec_mapped uni_word re_match st e)) as [x1|];
      destruct (flat_step fx (XEvent (spec_defaults st) now e (spec_mapped uni_word re_match st e)))
        as [fx1|]; try contradiction.
    + eapply IH; eassumption.
    + injection HI as <- <- <-. injection HP as <- <-.
      split; [reflexivity|]. split; assumption.
Qed.

(* ---------- the combined invariant ---------- *)
Definition Inv (s : sys CS) (ss : ssys) : Prop :=
  s_now CS s = ss_now ss /\ s_flags CS s = ss_flags ss /\
  MInv (s_mapper CS s) (ss_cfg ss) /\ SimX (s_exp CS s) (ss_exp ss).

Lemma step_inv s ss o : Inv s ss ->
  forall a s' b ss',
  step pf uni_word re_match heur_bt re_compiles CS c_get c_add c_reset builtins s o = (a, s') ->
  sstep pf uni_word re_match re_compiles ss o = (b, ss') ->
  out_matches a b /\ Inv s' ss'.
Proof.
  intros (Hnow & Hfl & HM & HS) a s' b ss' HI HP.
  destruct o as [l|ns| |ast|]; cbn [step sstep] in HI, HP.
  - (* OpLine *)
    rewrite Hfl, Hnow in HI.
    destruct (line_to_events pf (ss_flags ss) l) as [[evs w]|].
    + destruct (handle_events uni_word re_match CS c_get c_add (s_mapper CS s) (s_exp CS s) (ss_now ss) evs)
        as [[m' x'] p] eqn:EH.
      destruct (spec_events uni_word re_match (ss_cfg ss) (ss_exp ss) (ss_now ss) evs) as [fx' q] eqn:ES.
      destruct (events_ok _ _ _ _ _ _ HM HS _ _ _ _ _ EH ES) as (Hpq & HM' & HS').
      injection HI as <- <-. injection HP as <- <-.
      split; [exact Hpq|]. repeat split; try reflexivity; try assumption; apply HM' || apply HS'.
    + injection HI as <- <-. injection HP as <- <-.
      split; [reflexivity|]. repeat split; try assumption; apply HM || apply HS.
  - (* OpAdvance *)
    injection HI as <- <-. injection HP as <- <-. split; [exact I|].
    repeat split; cbn; try assumption; try (apply HM || apply HS). now rewrite Hnow.
  - (* OpSweep *)
    injection HI as <- <-. injection HP as <- <-. split; [exact I|].
    split; [exact Hnow|]. split; [exact Hfl|]. split; [exact HM|]. cbn [s_exp ss_exp].
    pose proof (step_sim _ _ (XSweep (s_now CS s)) HS) as Hstep.
    cbn [reg_step flat_step] in Hstep. rewrite <- Hnow. exact Hstep.
  - (* OpLoad *)
    pose proof (reload_ok _ _ ast HM) as HR.
    destruct (load re_compiles ast) as [c|e].
    + destruct HR as [HR HM']. rewrite HR in HI. injection HI as <- <-. injection HP as <- <-.
      split; [reflexivity|]. split; [exact Hnow|]. split; [exact Hfl|]. split; [exact HM'|exact HS].
    + rewrite HR in HI. injection HI as <- <-. injection HP as <- <-.
      split; [reflexivity|]. destruct s; cbn in *. repeat split; try assumption; apply HM || apply HS.
  - (* OpGather *)
    injection HI as <- <-. injection HP as <- <-. split; [exact I|].
    repeat split; try assumption; apply HM || apply HS.
Qed.

Lemma run_inv ops : forall s ss, Inv s ss ->
  forall outs s' souts ss',
  irun pf uni_word re_match heur_bt re_compiles CS c_get c_add c_reset builtins s ops = (outs, s') ->
  srun pf uni_word re_match re_compiles ss ops = (souts, ss') ->
  Forall2 out_matches outs souts /\ Inv s' ss'.
Proof.
  induction ops as [|o r IH]; intros s ss HI outs s' souts ss' H1 H2; cbn [irun srun] in H1, H2.
  - injection H1 as <- <-. injection H2 as <- <-. split; [constructor|exact HI].
  - destruct (step pf uni_word re_match heur_bt re_compiles CS c_get c_add c_reset builtins s o)
      as [a s1] eqn:E1.
    destruct (sstep pf uni_word re_match re_compiles ss o) as [b ss1] eqn:E2.
    destruct (step_inv s ss o HI _ _ _ _ E1 E2) as [Hab HI1].
    destruct (irun pf uni_word re_match heur_bt re_compiles CS c_get c_add c_reset builtins s1 r)
      as [outs1 s2] eqn:E3.
    destruct (srun pf uni_word re_match re_compiles ss1 r) as [souts1 ss2] eqn:E4.
    destruct (IH s1 ss1 HI1 _ _ _ _ E3 E4) as [HF HI2].
    injection H1 as <- <-. injection H2 as <- <-.
    split; [constructor; assumption|exact HI2].
Qed.

Lemma init_inv f cache t0 :
  (forall s, cache = Some s -> forall k v, ~ holds s k v) ->
  Inv (init_sys CS f cache t0) (ss_init f t0).
Proof.
  intros H0. split; [reflexivity|]. split; [reflexivity|]. split.
  - split; [|reflexivity]. split.
    + split; reflexivity.
    + intros s Hs k v Hkv. cbn in Hs. exfalso. exact (H0 s Hs k v Hkv).
  - exact SimX0.
Qed.
End SystemRefines.

Lemma system_refines_spec_ok : forall pf uni_word re_match heur_bt re_compiles CS c_get c_add c_reset builtins,
    stmt_system_refines_spec pf uni_word re_match heur_bt re_compiles CS c_get c_add c_reset builtins.
Proof.
  intros pf uni_word re_match heur_bt re_compiles CS c_get c_add c_reset builtins
         holds f cache t0 ops HSound H0.
  pose proof (init_inv uni_word re_match heur_bt re_compiles CS holds f cache t0 H0) as HI.
  destruct (irun pf uni_word re_match heur_bt re_compiles CS c_get c_add c_reset builtins
                 (init_sys CS f cache t0) ops) as [outs s] eqn:E1.
  destruct (srun pf uni_word re_match re_compiles (ss_init f t0) ops) as [souts ss] eqn:E2.
  destruct (run_inv pf uni_word re_match heur_bt re_compiles CS c_get c_add c_reset builtins holds HSound
                    ops _ _ HI _ _ _ _ E1 E2) as [HF (Hnow & _ & _ & Hsim & Htel)].
  split; [exact HF|]. split; [|split; [exact Htel|split; [apply Hsim|exact Hnow]]].
  intros. apply Sim_lookup, Hsim.
Qed.

Print Assumptions system_refines_spec_ok.
