From SE Require Import Spec.HostileSpec Proofs.MultiStringLemmas Proofs.ListenerProofs.
From Coq Require Import Lia.

Lemma split_lf_app (a : bytes) : forall b,
  split_byte c_lf (a ++ c_lf :: b) = split_byte c_lf a ++ split_byte c_lf b.
Proof.
  induction a as [x Hx | x y Hx IH] using lf_ind; intros b.
  - rewrite split_byte_app by exact Hx. now rewrite (split_byte_free c_lf x Hx).
  - rewrite <- app_assoc. cbn [app]. rewrite !(split_byte_app c_lf x) by exact Hx.
    cbn [app]. now rewrite IH.
Qed.

Lemma packet_lines_app_ok : stmt_packet_lines_app.
Proof. intros a b. apply split_lf_app. Qed.

Lemma hostile_prefix_datagram_ok : stmt_hostile_prefix_datagram.
Proof.
  intros h g Hg. unfold packet_lines. rewrite split_lf_app. now rewrite (split_byte_free c_lf g Hg).
Qed.

Lemma all_short_app a b : all_short a = true -> all_short b = true -> all_short (a ++ c_lf :: b) = true.
Proof.
  unfold all_short. intros Ha Hb. rewrite split_lf_app, forallb_app. apply andb_true_iff. split; assumption.
Qed.

Lemma stream_lines_app (a : bytes) : forall b,
  stream_lines (a ++ c_lf :: b) = stream_lines (a ++ [c_lf]) ++ stream_lines b.
Proof.
  induction a as [x Hx | x y Hx IH] using lf_ind; intros b.
  - rewrite !(stream_lines_cons x) by exact Hx. now rewrite (stream_lines_free []).
  - rewrite <- !app_assoc. cbn [app]. rewrite !(stream_lines_cons x) by exact Hx.
    rewrite IH. reflexivity.
Qed.

Lemma hostile_prefix_tcp_ok : stmt_hostile_prefix_tcp.
Proof.
  intros h g Hh Hg Hlen.
  assert (Hs : all_short (h ++ c_lf :: g ++ [c_lf]) = true).
  { apply all_short_app; [exact Hh|]. unfold all_short.
    rewrite split_byte_app by exact Hg. rewrite (split_byte_free c_lf []) by reflexivity.
    cbn [forallb]. apply andb_true_iff. split; [now apply Nat.ltb_lt|reflexivity]. }
  rewrite tcp_framing_ok by exact Hs.
  rewrite stream_lines_app. rewrite (stream_lines_cons g) by exact Hg.
  now rewrite (stream_lines_free []).
Qed.

Section H.
Variable pf : bytes -> F64 * bool.
Variable uni_word : rune -> bool.
Variable re_match : bytes -> bytes -> option (list (option bytes)).
Variable CS : Type.
Variable c_get : CS -> bytes -> option (option mresult) * CS.
Variable c_add : CS -> bytes -> option mresult -> CS.

Lemma hostile_prefix_events_ok : stmt_hostile_prefix_events pf.
Proof.
  intros f h g Hg. rewrite hostile_prefix_datagram_ok by exact Hg.
  rewrite map_app, concat_app. cbn [map concat]. now rewrite app_nil_r.
Qed.

Lemma hostile_then_good_ok : stmt_hostile_then_good pf uni_word re_match CS c_get c_add.
Proof.
  intros heur_bt re_compiles c_reset builtins s h g Hg.
  rewrite hostile_prefix_datagram_ok by exact Hg.
  unfold feed_lines. rewrite fold_left_app. reflexivity.
Qed.

Lemma packets_sequential_ok : stmt_packets_sequential pf uni_word re_match CS c_get c_add.
Proof.
  intros heur_bt re_compiles c_reset builtins s a b.
  rewrite map_app, concat_app. unfold feed_lines. now rewrite fold_left_app.
Qed.
End H.
