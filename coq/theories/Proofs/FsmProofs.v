From SE Require Import Spec.MatchSpec.
(* C04 / C12: the trie search of Model/Fsm.v finds the first matching rule (ordered mode) and the
   most specific matching rule (unordered mode); properties of the two specification functions.
   Helper lemmas are in Proofs/FsmLemmas.v. *)
From Coq Require Import Permutation.
From SE Require Import Proofs.FsmLemmas.

(* ---- C04: ordered mode ---- *)
Lemma fsm_first_match_ok : stmt_fsm_first_match.
Proof.
  intros rules metric ty Hp.
  unfold fsm_get_mapping, pick, first_match.
  set (fs := split_byte c_dot metric).
  assert (Hfs : fs <> []) by apply split_byte_nonnil.
  rewrite <- (visit_search true (root_node rules ty) fs []) by exact Hfs.
  pose proof (root_find rules ty fs) as Hroot.
  destruct (find (g_matches ty fs) rules) as [g|] eqn:Efind; cbn [option_map] in Hroot.
  - (* g is the first matching rule *)
    pose proof (visit_first fs _ [] _ _ Hroot) as Hin. cbn [rev app] in Hin.
    destruct (find_split _ _ _ Efind) as (l1 & l2 & Hrules & Hg & Hl1).
    apply best_hit_min; [| intros ? [=] | left; exact Hin].
    intros [q c] Hh. cbn [fst].
    apply visit_sound in Hh. destruct Hh as (rem & Hrem & Hm & ->). cbn [rev app].
    apply root_in in Hrem. destruct Hrem as (g' & Hg' & <- & <- & Hty).
    assert (Hgm : g_matches ty fs g' = true) by (unfold g_matches; rewrite Hty, Hm; reflexivity).
    rewrite Hrules in Hg'. apply in_app_or in Hg'. destruct Hg' as [Hg'|[<-|Hg']].
    + rewrite (Hl1 _ Hg') in Hgm. discriminate.
    + split; [lia | reflexivity].
    + rewrite Hrules in Hp. pose proof (prios_split _ _ _ _ Hp _ Hg'). split; [lia | intros; lia].
  - (* no rule matches: no hit *)
    destruct (visit true (root_node rules ty) fs []) as [|[q c] hits] eqn:Ev; [reflexivity|].
    exfalso.
    assert (Hh : In (q, c) (visit true (root_node rules ty) fs [])) by (rewrite Ev; left; reflexivity).
    apply visit_sound in Hh. destruct Hh as (rem & Hrem & Hm & _).
    apply root_in in Hrem. destruct Hrem as (g' & Hg' & _ & <- & Hty).
    pose proof (find_none _ _ Efind _ Hg') as Hn. unfold g_matches in Hn. rewrite Hty, Hm in Hn.
    discriminate.
Qed.

(* ---- C12: unordered mode ---- *)
Lemma fsm_most_specific_bt rules metric ty :
  fsm_get_mapping rules true true metric ty = most_specific rules ty (split_byte c_dot metric).
Proof.
  unfold fsm_get_mapping, pick, most_specific.
  set (fs := split_byte c_dot metric).
  assert (Hfs : fs <> []) by apply split_byte_nonnil.
  rewrite <- (visit_search true (root_node rules ty) fs []) by exact Hfs.
  rewrite visit_hd. unfold bestm.
  pose proof (root_ms rules ty fs None) as HR. cbn [option_map] in HR. rewrite HR.
  destruct (most_specific_aux (filter (g_matches ty fs) rules) None) as [g|]; reflexivity.
Qed.

Lemma fsm_most_specific_ok : stmt_fsm_most_specific.
Proof.
  intros rules bt metric ty _ H.
  destruct bt; [apply fsm_most_specific_bt|].
  destruct H as [H|H]; [discriminate|].
  rewrite <- fsm_most_specific_bt.
  unfold fsm_get_mapping. f_equal.
  pose proof (split_byte_nonnil c_dot metric) as Hfs.
  rewrite <- !visit_search by exact Hfs.
  apply visit_nobt. apply root_unamb. exact H.
Qed.

(* ---- C12: properties of most_specific ---- *)
Lemma most_specific_complete_ok : stmt_most_specific_complete.
Proof.
  intros rules ty fields H. unfold most_specific.
  destruct (most_specific_aux (filter (g_matches ty fields) rules) None) eqn:E; [discriminate|].
  apply msa_none in E. apply existsb_exists in H. destruct H as (g & Hg & Hm).
  assert (Hin : In g (filter (g_matches ty fields) rules)) by (apply filter_In; split; assumption).
  rewrite E in Hin. destruct Hin.
Qed.

Lemma most_specific_order_independent_ok : stmt_most_specific_order_independent.
Proof.
  intros rules rules' ty fields HP. unfold winner_pattern.
  pose proof (Permutation_filter' (g_matches ty fields) _ _ HP) as HP'.
  set (l := filter (g_matches ty fields) rules) in *.
  set (l' := filter (g_matches ty fields) rules') in *.
  assert (Hm : forall x, In x l -> glob_match (g_fields x) fields = true).
  { intros x Hx. apply filter_In in Hx. destruct Hx as [_ Hx]. unfold g_matches in Hx.
    apply andb_true_iff in Hx. apply Hx. }
  assert (Hlen : forall x, In x l -> length (g_fields x) = length fields).
  { intros x Hx. apply glob_match_length. apply Hm; exact Hx. }
  assert (Hlen' : forall x, In x l' -> length (g_fields x) = length fields).
  { intros x Hx. apply Hlen. apply (Permutation_in _ (Permutation_sym HP')). exact Hx. }
  destruct (most_specific_aux l None) as [e|] eqn:E; destruct (most_specific_aux l' None) as [e'|] eqn:E'.
  - apply (msa_min (length fields)) in E; [| exact Hlen | intros ? [=]].
    apply (msa_min (length fields)) in E'; [| exact Hlen' | intros ? [=]].
    destruct E as ([He|[=]] & Hmin & _). destruct E' as ([He'|[=]] & Hmin' & _).
    f_equal. apply (ms_total fields).
    + apply Hm; exact He.
    + apply Hm. apply (Permutation_in _ (Permutation_sym HP')). exact He'.
    + apply Hmin'. apply (Permutation_in _ HP'). exact He.
    + apply Hmin. apply (Permutation_in _ (Permutation_sym HP')). exact He'.
  - apply msa_none in E'. rewrite E' in HP'. apply Permutation_sym, Permutation_nil in HP'.
    rewrite HP' in E. discriminate.
  - apply msa_none in E. rewrite E in HP'. apply Permutation_nil in HP'.
    rewrite HP' in E'. discriminate.
  - reflexivity.
Qed.

(* ---- C04: properties of first_match ---- *)
Lemma irrelevant_rule_ok : stmt_irrelevant_rule.
Proof.
  intros l1 l2 g ty fields Hg. unfold winner_rule.
  assert (E : find (g_matches ty fields) (l1 ++ g :: l2) = find (g_matches ty fields) (l1 ++ l2)).
  { induction l1 as [|x l1 IH]; cbn [app find].
    - rewrite Hg. reflexivity.
    - destruct (g_matches ty fields x); [reflexivity | exact IH]. }
  rewrite E. split; reflexivity.
Qed.

Lemma later_rules_irrelevant_ok : stmt_later_rules_irrelevant.
Proof.
  intros l1 g l2 l2' ty fields Hg Hl. unfold winner_rule.
  assert (Hn : forall x, In x l1 -> g_matches ty fields x = false).
  { intros x Hx. rewrite forallb_forall in Hl. apply Hl in Hx.
    destruct (g_matches ty fields x); [discriminate Hx | reflexivity]. }
  rewrite !find_app_skip by exact Hn. cbn [find]. rewrite Hg. reflexivity.
Qed.
