(* C06: the value a counter series exposes never decreases and is never NaN, as long as the
   integral increments accumulated by the client library stay below 2^64 (its uint64 wraps
   beyond that: known finding, witnessed below). *)
From SE Require Export Model.ClientGolang.
From Coq Require Import ZArith.
From Flocq Require Import IEEE754.Binary IEEE754.Bits.

(* x <= y on floats, neither NaN *)
Definition f_le (x y : F64) : Prop := f_leb x y = true.
Definition nonneg (x : F64) : Prop := f_leb f_zero x = true.     (* >= +0 or -0; excludes NaN; +Inf allowed *)

(* the state of a live counter child *)
Definition counter_inv (c : mvalue) : Prop :=
  match c with
  | VCounter i f => (0 <= i < two64)%Z /\ nonneg f
  | _ => False
  end.

Definition exposed (c : mvalue) : F64 :=
  match c with VCounter i f => counter_value i f | _ => f_zero end.

Definition int_part (c : mvalue) : Z := match c with VCounter i _ => i | _ => 0%Z end.

(* one increment that passed the exporter's guard (not negative, not NaN) and does not overflow
   the uint64 part: the exposed value does not decrease, is not NaN, and the invariant holds *)
Definition stmt_counter_add_monotone : Prop := forall c v,
  counter_inv c -> nonneg v -> (int_part c + f_to_uint64 v < two64)%Z ->
  exists c', counter_add c v = Ok c' /\ counter_inv c' /\ f_le (exposed c) (exposed c') /\
             f_is_nan (exposed c') = false.

(* lifted to whole histories of a series: the sequence of exposed values is non-decreasing *)
Fixpoint counter_history (c : mvalue) (vs : list F64) : list mvalue :=
  match vs with
  | [] => [c]
  | v :: r => c :: match counter_add c v with Ok c' => counter_history c' r | Panic => [] end
  end.

Fixpoint no_wrap (c : mvalue) (vs : list F64) : Prop :=
  match vs with
  | [] => True
  | v :: r => nonneg v /\ (int_part c + f_to_uint64 v < two64)%Z /\
              match counter_add c v with Ok c' => no_wrap c' r | Panic => False end
  end.

Fixpoint nondecreasing (l : list F64) : Prop :=
  match l with
  | x :: ((y :: _) as r) => f_le x y /\ nondecreasing r
  | _ => True
  end.

Definition stmt_counter_history_monotone : Prop := forall vs,
  no_wrap (VCounter 0 f_zero) vs ->
  let h := counter_history (VCounter 0 f_zero) vs in
  length h = S (length vs) /\ nondecreasing (map exposed h) /\
  Forall (fun c => f_is_nan (exposed c) = false) h.

(* the guard used by handleEvent is exactly [nonneg]'s complement *)
Definition stmt_guard_is_nonneg : Prop := forall v,
  (f_ltb v f_zero || f_is_nan v) = false <-> nonneg v.

(* the known finding: two increments of 10^19 *)
Definition wrap_witness : bool :=
  let v := f_of_bits 4891288408196988160 (* 1e19 = 0x43E158E460913D00 *) in
  match counter_add (VCounter 0 f_zero) v with
  | Ok c1 => match counter_add c1 v with
             | Ok c2 => f_ltb (exposed c2) (exposed c1)
             | Panic => false end
  | Panic => false
  end.
Definition stmt_counter_wrap_refuted : Prop := wrap_witness = true.
