(* C01, composed: the whole pipeline (Model/System.v: line parser, mapper with FSM and cache,
   exporter, registry) against the specification system in which
     - the mapper is "the last configuration that loaded" answering by spec_lookup
       (first matching glob rule / most specific / first matching regex; Spec/MatchSpec.v),
     - the registry is the flat account of Spec/SeriesSpec.v (claims, shapes, series).
   The line parser is shared (its own specification is C09/C10). *)
From SE Require Export Model.System Spec.MapperSpec Spec.SeriesSpec.
From Coq Require Import ZArith.

Section SystemSpec.
Variable pf : bytes -> F64 * bool.
Variable uni_word : rune -> bool.
Variable re_match : bytes -> bytes -> option (list (option bytes)).
Variable heur_bt : list bytes -> bool -> bool.
Variable re_compiles : bytes -> bool.
Variable CS : Type.
Variable c_get : CS -> bytes -> option (option mresult) * CS.
Variable c_add : CS -> bytes -> option mresult -> CS.
Variable c_reset : CS -> CS.
Variable builtins : list sample.

Record ssys := { ss_cfg : option config; ss_exp : fexporter; ss_now : Z; ss_flags : flags }.

Definition ss_init (f : flags) (t0 : Z) : ssys :=
  {| ss_cfg := None; ss_exp := fx0; ss_now := t0; ss_flags := f |}.

Definition spec_mapped (cfg : option config) (e : event) : option (rule * bytes * lmap) :=
  match cfg with
  | None => None
  | Some c =>
    match spec_lookup uni_word re_match c (e_name e) (type_string (e_kind e)) with
    | Some r => match nth_error (cf_rules c) (mr_rule r) with
                | Some ru => Some (ru, mr_name r, mr_labels r)
                | None => None end
    | None => None
    end
  end.

Definition spec_defaults (cfg : option config) : defaults :=
  match cfg with Some c => cf_defaults c | None => zero_defaults end.

Fixpoint spec_events (cfg : option config) (x : fexporter) (now : Z) (evs : list event) : fexporter * bool :=
  match evs with
  | [] => (x, false)
  | e :: rest =>
    match flat_step x (XEvent (spec_defaults cfg) now e (spec_mapped cfg e)) with
    | Some x' => spec_events cfg x' now rest
    | None => (x, true)
    end
  end.

Inductive sout := SLine (panicked : bool) | SNone | SLoaded (e : option load_err) | SGather.

Definition sstep (s : ssys) (o : op) : sout * ssys :=
  match o with
  | OpLine l =>
    match line_to_events pf (ss_flags s) l with
    | Panic => (SLine true, s)
    | Ok (evs, _) =>
      let '(x, p) := spec_events (ss_cfg s) (ss_exp s) (ss_now s) evs in
      (SLine p, {| ss_cfg := ss_cfg s; ss_exp := x; ss_now := ss_now s; ss_flags := ss_flags s |})
    end
  | OpAdvance ns => (SNone, {| ss_cfg := ss_cfg s; ss_exp := ss_exp s; ss_now := (ss_now s + ns)%Z; ss_flags := ss_flags s |})
  | OpSweep =>
    (SNone, {| ss_cfg := ss_cfg s;
               ss_exp := {| fx_state := f_sweep (fx_state (ss_exp s)) (ss_now s); fx_tel := fx_tel (ss_exp s) |};
               ss_now := ss_now s; ss_flags := ss_flags s |})
  | OpLoad ast =>
    match load re_compiles ast with
    | LOk c => (SLoaded None, {| ss_cfg := Some c; ss_exp := ss_exp s; ss_now := ss_now s; ss_flags := ss_flags s |})
    | LErr e => (SLoaded (Some e), s)
    end
  | OpGather => (SGather, s)
  end.

Fixpoint srun (s : ssys) (ops : list op) : list sout * ssys :=
  match ops with
  | [] => ([], s)
  | o :: r => let '(out, s') := sstep s o in let '(outs, s'') := srun s' r in (out :: outs, s'')
  end.

(* the implementation model, keeping the final state *)
Fixpoint irun (s : sys CS) (ops : list op) : list out * sys CS :=
  match ops with
  | [] => ([], s)
  | o :: r =>
    let '(out, s') := step pf uni_word re_match heur_bt re_compiles CS c_get c_add c_reset builtins s o in
    let '(outs, s'') := irun s' r in (out :: outs, s'')
  end.

Definition out_matches (a : out) (b : sout) : Prop :=
  match a, b with
  | OutLine p, SLine q => p = q
  | OutNone, SNone => True
  | OutLoaded e, SLoaded e' => e = e'
  | OutGather _ _ _ _, SGather => True
  | _, _ => False
  end.

(* For every sound cache and every history: the two systems answer every line and reload alike,
   and afterwards the registry exposes - for EVERY series key - exactly what the flat account
   holds (value, help, type, clock), no series more and none less, with equal telemetry. *)
Definition stmt_system_refines_spec : Prop := forall holds f cache t0 ops,
  cache_sound CS c_get c_add c_reset holds ->
  (forall s, cache = Some s -> forall k v, ~ holds s k v) ->
  let '(outs, s) := irun (init_sys CS f cache t0) ops in
  let '(souts, ss) := srun (ss_init f t0) ops in
  Forall2 out_matches outs souts /\
  (forall name names values,
     reg_lookup (x_registry (s_exp CS s)) name names values = flat_lookup (fx_state (ss_exp ss)) name names values) /\
  x_tel (s_exp CS s) = fx_tel (ss_exp ss) /\
  rg_created (x_registry (s_exp CS s)) = f_created (fx_state (ss_exp ss)) /\
  s_now CS s = ss_now ss.
End SystemSpec.
