(* C13 / C14 (and the glue for C04 / C12): the mapper object, with any sound cache and across
   reloads, refines the simplest possible specification - "the last configuration that loaded
   answers every lookup by spec_lookup". *)
From SE Require Export Spec.MatchSpec Model.Cache.

Inductive mop :=
| OLookup (metric ty : bytes)
| OReload (ast : config_ast).

Inductive mout :=
| OutLookup (r : option mresult)
| OutLoad (e : option load_err).

Definition valid_type (ty : bytes) : bool :=
  bytes_eqb ty s_counter || bytes_eqb ty s_gauge || bytes_eqb ty s_observer.

Definition valid_op (o : mop) : bool :=
  match o with OLookup _ ty => valid_type ty | OReload _ => true end.

Section Refinement.
Variable uni_word : rune -> bool.
Variable re_match : bytes -> bytes -> option (list (option bytes)).
Variable heur_bt : list bytes -> bool -> bool.
Variable re_compiles : bytes -> bool.

(* ---------- the specification ---------- *)
Definition spec_step (st : option config) (o : mop) : mout * option config :=
  match o with
  | OLookup metric ty =>
    (OutLookup (match st with Some c => spec_lookup uni_word re_match c metric ty | None => None end), st)
  | OReload ast =>
    match load re_compiles ast with
    | LOk n => (OutLoad None, Some n)
    | LErr e => (OutLoad (Some e), st)       (* all-or-nothing: an invalid config changes nothing *)
    end
  end.

Fixpoint spec_run (st : option config) (ops : list mop) : list mout :=
  match ops with
  | [] => []
  | o :: r => let '(out, st') := spec_step st o in out :: spec_run st' r
  end.

(* ---------- the implementation model with an arbitrary cache ---------- *)
Variable CS : Type.
Variable c_get : CS -> bytes -> option (option mresult) * CS.
Variable c_add : CS -> bytes -> option mresult -> CS.
Variable c_reset : CS -> CS.

Definition impl_step (m : mapper CS) (o : mop) : mout * mapper CS :=
  match o with
  | OLookup metric ty =>
    let '(r, m') := get_mapping uni_word re_match CS c_get c_add m metric ty in (OutLookup r, m')
  | OReload ast =>
    let '(e, m') := init_from_yaml heur_bt CS c_reset re_compiles m ast in (OutLoad e, m')
  end.

Fixpoint impl_run (m : mapper CS) (ops : list mop) : list mout :=
  match ops with
  | [] => []
  | o :: r => let '(out, m') := impl_step m o in out :: impl_run m' r
  end.

(* what it means for a cache to be sound: it only returns what was added under that key since
   the last reset.  [holds s k v]: state s may answer v for key k. *)
Record cache_sound (holds : CS -> bytes -> option mresult -> Prop) : Prop := {
  cs_get : forall s k v s', c_get s k = (Some v, s') -> holds s k v;
  cs_get_mono : forall s k k' v', holds (snd (c_get s k)) k' v' -> holds s k' v';
  cs_add : forall s k v k' v', holds (c_add s k v) k' v' -> (k' = k /\ v' = v) \/ holds s k' v';
  cs_reset : forall s k v, ~ holds (c_reset s) k v }.

(* C13 + C14 in one statement: for EVERY sound cache (any policy, any size) starting empty, and
   for no cache at all, any sequence of lookups and reloads produces exactly the outputs of the
   specification.  Premise: a freshly built FSM answers like spec_lookup (C04/C12, proved
   separately as stmt_lookup_is_spec). *)
Definition stmt_mapper_refines_spec : Prop :=
  stmt_lookup_is_spec uni_word re_match heur_bt re_compiles ->
  forall holds, cache_sound holds ->
  forall (cache0 : option CS), (forall s, cache0 = Some s -> forall k v, ~ holds s k v) ->
  forall ops, forallb valid_op ops = true ->
  impl_run (new_mapper CS cache0) ops = spec_run None ops.
End Refinement.

(* the two shipped caches are sound, for every size and every eviction choice *)
Definition lru_holds (s : lru (option mresult)) (k : bytes) (v : option mresult) : Prop :=
  c_find _ k (lru_items _ s) = Some v.
Definition stmt_lru_sound : Prop :=
  cache_sound (lru (option mresult)) (lru_get _) (lru_add _) (lru_reset _) lru_holds.

Definition rr_holds (s : rr (option mresult)) (k : bytes) (v : option mresult) : Prop :=
  In (k, v) (rr_items _ s).
Definition stmt_rr_sound : Prop := forall choose,
  cache_sound (rr (option mresult)) (rr_get _) (rr_add _ choose) (rr_reset _) rr_holds.

(* formatKey separates the three metric types *)
Definition stmt_format_key_inj : Prop := forall m1 t1 m2 t2,
  valid_type t1 = true -> valid_type t2 = true ->
  format_key m1 t1 = format_key m2 t2 -> m1 = m2 /\ t1 = t2.
