(* C02, "well-formed lines that follow a malformed or hostile line (in the same packet, the same
   connection or later) are still processed": whatever bytes come first, the line after the
   newline is framed as a line of its own, parsed on its own bytes only (line_to_events takes no
   state), and handled by the exporter exactly as if it had arrived alone after the prefix. *)
From SE Require Export Spec.BinarySpec Spec.ListenerSpec.

(* datagram transports: the piece after the last newline is a line of its own, whatever precedes it *)
Definition stmt_hostile_prefix_datagram : Prop := forall hostile good,
  free_of [c_lf] good = true ->
  packet_lines (hostile ++ c_lf :: good) = packet_lines hostile ++ [good].

(* ... and so is any line in the middle of a packet: framing distributes over newlines *)
Definition stmt_packet_lines_app : Prop := forall a b,
  packet_lines (a ++ c_lf :: b) = packet_lines a ++ packet_lines b.

(* TCP: the same, as long as no raw line of the prefix reaches the 4096-byte buffer (an over-long
   line closes that connection, C18_tcp_too_long; other connections are separate streams) *)
Definition stmt_hostile_prefix_tcp : Prop := forall hostile good,
  all_short hostile = true -> free_of [c_lf] good = true -> length good < tcp_buf ->
  tcp_lines (hostile ++ c_lf :: good ++ [c_lf]) = (stream_lines (hostile ++ [c_lf]) ++ [drop_cr good], false).

Section Hostile.
Variable pf : bytes -> F64 * bool.
Variable uni_word : rune -> bool.
Variable re_match : bytes -> bytes -> option (list (option bytes)).
Variable CS : Type.
Variable c_get : CS -> bytes -> option (option mresult) * CS.
Variable c_add : CS -> bytes -> option mresult -> CS.

(* the events of a packet are the events of the prefix followed by the events the good line
   yields on its own *)
Definition stmt_hostile_prefix_events : Prop := forall f hostile good,
  free_of [c_lf] good = true ->
  concat (map (line_events pf f) (packet_lines (hostile ++ c_lf :: good))) =
  concat (map (line_events pf f) (packet_lines hostile)) ++ line_events pf f good.

(* system level: the packet "hostile \n good" leaves the exporter in the state that the good line,
   arriving alone, produces from whatever state the hostile prefix left behind - from every state,
   under every configuration, cache behaviour and flag set *)
Definition stmt_hostile_then_good : Prop :=
  forall heur_bt re_compiles c_reset builtins (s : sys CS) hostile good,
  free_of [c_lf] good = true ->
  feed_lines pf uni_word re_match CS c_get c_add heur_bt re_compiles c_reset builtins s (packet_lines (hostile ++ c_lf :: good)) =
  snd (step pf uni_word re_match heur_bt re_compiles CS c_get c_add c_reset builtins
         (feed_lines pf uni_word re_match CS c_get c_add heur_bt re_compiles c_reset builtins s (packet_lines hostile))
         (OpLine good)).

(* later packets: a packet is handled from the state the earlier ones left, by the same function *)
Definition stmt_packets_sequential : Prop :=
  forall heur_bt re_compiles c_reset builtins (s : sys CS) earlier later,
  feed_lines pf uni_word re_match CS c_get c_add heur_bt re_compiles c_reset builtins s (concat (map packet_lines (earlier ++ later))) =
  feed_lines pf uni_word re_match CS c_get c_add heur_bt re_compiles c_reset builtins
    (feed_lines pf uni_word re_match CS c_get c_add heur_bt re_compiles c_reset builtins s (concat (map packet_lines earlier)))
    (concat (map packet_lines later)).
End Hostile.
