(* Statements about the exporter pipeline (Model/System.v): no panics (C02, C19), scrapes always
   succeed (C03), conflicts are isolated (C08), labels are local (C05), counter guard (C06),
   what a loaded configuration guarantees (C19). *)
From SE Require Export Model.System Spec.MapperSpec.
From Coq Require Import ZArith.

(* ---------- C19: what [load] guarantees / rejects ---------- *)
Definition rule_valid (r : rule) : bool :=
  match ru_hist r with Some h => buckets_increasing (ho_buckets h) | None => true end &&
  match ru_summary r with Some s => summary_ok s | None => true end &&
  forallb (fun kv => label_name_ok (fst kv)) (ru_labels r) &&
  metric_name_ok (ru_name r) &&
  (ru_is_regex r || metric_line_ok (ru_match r)).

Definition defaults_valid (d : defaults) : bool :=
  buckets_increasing (df_buckets d) && summary_ok (df_summary d).

Definition config_valid (c : config) : bool :=
  defaults_valid (cf_defaults c) && forallb rule_valid (cf_rules c).

(* every configuration that loads has increasing buckets, quantiles in [0,1], non-negative
   ages, legal label keys, legal names and legal glob matches: everything else was rejected *)
Definition stmt_load_valid : Prop := forall re_compiles ast c,
  load re_compiles ast = LOk c -> config_valid c = true.

(* the rejected classes, one by one (each is a reason for [load] to return an error) *)
Definition ast_rule_defect (re_compiles : bytes -> bool) (dflt_regex : bool) (a : rule_ast) : bool :=
  negb (forallb (fun kv => label_name_ok (fst kv)) (ra_labels a)) ||
  negb (metric_name_ok (ra_name a)) ||
  match dec_observer_type (ra_observer_type a), dec_observer_type (ra_timer_type a), dec_match_type (ra_match_type a),
        dec_action (ra_action a), dec_metric_type (ra_mmt a) with
  | LOk _, LOk _, LOk mt, LOk _, LOk _ =>
    let is_regex := match mt with Some b => b | None => dflt_regex end in
    if is_regex then negb (re_compiles (ra_match a)) else negb (metric_line_ok (ra_match a))
  | _, _, _, _, _ => true
  end ||
  (opt_is_some (ra_summary a) && opt_is_some (ra_legacy_quantiles a) &&
   match ra_summary a with Some s => opt_is_some (sa_quantiles s) | None => false end) ||
  (opt_is_some (ra_hist a) && opt_is_some (ra_legacy_buckets a) &&
   match ra_hist a with Some h => opt_is_some (ha_buckets h) | None => false end).

Definition stmt_load_rejects : Prop := forall re_compiles d rules,
  (exists a, In a rules /\
     ast_rule_defect re_compiles
       (match d with Some da => match dec_match_type (da_match_type da) with LOk (Some b) => b | _ => false end | None => false end) a = true) ->
  exists e, load re_compiles (Parsed d rules) = LErr e.
Definition stmt_load_rejects_unparsable : Prop := forall re_compiles,
  load re_compiles Unparsable = LErr EYaml.

(* ---------- C05: labels are local ---------- *)
(* the labels of the series an event updates are a function of the event's own tags and its own
   rule only: neither the exporter state nor any other event, line or cache entry occurs *)
Definition stmt_labels_local : Prop := forall d tel e mapped tel1 t name labels help ttl rule_ upd,
  classify d tel e mapped = DUpdate tel1 t name labels help ttl rule_ upd ->
  labels = match mapped with
           | Some (r, _, ls) => merge_labels (ru_honor r) (e_labels e) ls
           | None => e_labels e
           end.

(* the merge: the rule's value wins on a clash unless honor_labels, then the tag's value wins *)
Definition stmt_merge_semantics : Prop := forall honor tags rl k,
  NoDup (map fst rl) ->
  lm_get k (merge_labels honor tags rl) =
  match lm_get k (fold_left (fun m kv => lm_set (fst kv) (snd kv) m) rl []) with
  | Some v => if honor && lm_mem k tags then lm_get k tags else Some v
  | None => lm_get k tags
  end.

(* and the registry updates exactly the series with that name and those label values *)
Definition stmt_series_identity : Prop := forall rg d rule_ now t name labels help ttl rg' n vk vals,
  get_series rg d rule_ now t name labels help ttl = GOk rg' n vk vals ->
  n = name /\ vals = lm_vals labels.

(* ---------- C06: the counter guard ---------- *)
Definition scaled_value (e : event) (mapped : option (rule * bytes * lmap)) : F64 :=
  match mapped with
  | Some (r, _, _) => match ru_scale r with Some s => f_mul (e_value e) s | None => e_value e end
  | None => e_value e
  end.
(* a counter increment that is negative or NaN after scaling is never applied *)
Definition stmt_counter_guard : Prop := forall d tel e mapped,
  e_kind e = KCounter ->
  (f_ltb (scaled_value e mapped) f_zero || f_is_nan (scaled_value e mapped)) = true ->
  exists tel', classify d tel e mapped = DDone tel'.

(* ---------- C08: a conflicting event changes nothing but the conflict counter ---------- *)
Definition stmt_conflict_isolated : Prop := forall rg d rule_ now t name labels help ttl rg',
  get_series rg d rule_ now t name labels help ttl = GConflict rg' ->
  rg_names rg' = rg_names rg.

Definition stmt_conflict_detected : Prop := forall rg d rule_ now t name labels help ttl,
  (metric_conflicts rg name t = true \/ check_name_collision rg name t = true) ->
  (forall rn, name_find name (rg_names rg) = Some rn -> mtype_eqb (rn_type rn) t = true ->
              rm_find (lm_keys labels, lm_vals labels) (rn_metrics rn) = None) ->
  get_series rg d rule_ now t name labels help ttl = GConflict rg.

(* handleEvent when a reload lands in the middle of it: the defaults it classifies the event with
   (d1, read by Exporter.handleEvent) and the defaults the registry takes bucket / quantile options
   from when it creates the vector (d2, read later by Registry.GetHistogram / GetSummary) may differ.
   With d1 = d2 this is Model/Exporter.v's handle_event. *)
Definition handle_event2 (d1 d2 : defaults) (now : Z) (x : exporter) (e : event)
           (mapped : option (rule * bytes * lmap)) : hres :=
  let rg := x_registry x in
  match classify d1 (x_tel x) e mapped with
  | DDone tel => HOk {| x_registry := rg; x_tel := tel |}
  | DUpdate tel1 t name labels help ttl rule_ upd =>
    match get_series rg d2 rule_ now t name labels help ttl with
    | GPanic => HPanic
    | GConflict rg' => HOk {| x_registry := rg'; x_tel := tl_conflict tel1 (type_string (e_kind e)) name |}
    | GOk rg' n vk vals =>
      match update_series rg' n vk vals upd with
      | Ok rg'' => HOk {| x_registry := rg''; x_tel := tl_event tel1 (type_string (e_kind e)) |}
      | Panic => HPanic
      end
    end
  end.

Definition stmt_handle_event2_same : Prop := forall d now x e mapped,
  handle_event2 d d now x e mapped = handle_event d now x e mapped.

(* ---------- C02 / C19: nothing in the pipeline panics ---------- *)
Section Run.
Variable pf : bytes -> F64 * bool.
Variable uni_word : rune -> bool.
Variable re_match : bytes -> bytes -> option (list (option bytes)).
Variable heur_bt : list bytes -> bool -> bool.
Variable re_compiles : bytes -> bool.
Variable CS : Type.
Variable c_get : CS -> bytes -> option (option mresult) * CS.
Variable c_add : CS -> bytes -> option mresult -> CS.
Variable c_reset : CS -> CS.
Variable builtins : list sample.

Definition run_sys := run pf uni_word re_match heur_bt re_compiles CS c_get c_add c_reset builtins.
Definition init := init_sys CS.

(* whatever lines arrive, under whatever sequence of (re)loaded configurations, clock advances,
   sweeps and scrapes, with whatever cache: no step panics *)
Definition stmt_pipeline_no_panic : Prop := forall f cache t0 ops,
  Forall (fun o => o <> OutLine true) (run_sys (init f cache t0) ops).

(* the state after a history *)
Definition final_sys (s : sys CS) (ops : list op) : sys CS :=
  fold_left (fun s o => snd (step pf uni_word re_match heur_bt re_compiles CS c_get c_add c_reset builtins s o)) ops s.

(* C19 / C14, an event that overlaps a reload.  Exporter.handleEvent asks the mapper twice
   (GetMapping, then GetDefaults; two critical sections), so the rule an event was matched by may
   belong to one configuration and the defaults it is handled with to another; the registry reads
   the defaults once more when it creates a vector (a third section).  Whatever moments of the
   system's life the rule (sA), the two readings of the defaults (sB, sC) and the registry (s) are
   taken from, handling the event does not panic. *)
Definition stmt_event_across_reload_no_panic : Prop :=
  forall f cache t0 opsA opsB opsC ops l evs t e,
  let sA := final_sys (init f cache t0) opsA in
  let sB := final_sys (init f cache t0) opsB in
  let sC := final_sys (init f cache t0) opsC in
  let s := final_sys (init f cache t0) ops in
  line_to_events pf f l = Ok (evs, t) -> In e evs ->
  let rm := get_mapping uni_word re_match CS c_get c_add (s_mapper CS sA) (e_name e) (type_string (e_kind e)) in
  let mapped := match fst rm with Some mr => lookup_rule CS (snd rm) mr | None => None end in
  handle_event2 (m_defaults CS (s_mapper CS sB)) (m_defaults CS (s_mapper CS sC)) (s_now CS s) (s_exp CS s) e mapped <> HPanic.

(* ---------- C03: every scrape succeeds ---------- *)
(* names the binary's own collectors occupy (known finding: a client metric using one of them) *)
Definition name_independent (n : bytes) (b : sample) : bool :=
  negb (bytes_eqb n (sm_name b)) &&
  negb (bytes_eqb n (sm_name b ++ s_count)) && negb (bytes_eqb n (sm_name b ++ s_sum)) &&
  negb (bytes_eqb n (sm_name b ++ s_bucket)) &&
  negb (bytes_eqb (sm_name b) (n ++ s_count)) && negb (bytes_eqb (sm_name b) (n ++ s_sum)) &&
  negb (bytes_eqb (sm_name b) (n ++ s_bucket)).

Fixpoint gather_outs (outs : list out) : list (bool * list sample) :=
  match outs with
  | [] => []
  | OutGather ok smp _ _ :: r => (ok, smp) :: gather_outs r
  | _ :: r => gather_outs r
  end.

(* after any history, every scrape succeeds, provided the mapping cache is sound (C13), the
   binary's own families are consistent and no exposed series uses (or suffix-collides with)
   one of their names *)
Definition stmt_scrape_ok : Prop := forall f cache t0 ops holds,
  cache_sound CS c_get c_add c_reset holds ->
  (forall s, cache = Some s -> forall k v, ~ holds s k v) ->
  gather_ok builtins = true ->
  Forall (fun g => (forall s b, In s (snd g) -> In b builtins -> name_independent (sm_name s) b = true) ->
                   fst g = true)
         (gather_outs (run_sys (init f cache t0) ops)).
End Run.
