(* Statements of C09 / C10 / C02(parser) about Model/Line.v.  Each statement is a closed Prop
   (Definition stmt_xxx), proved in Proofs/ and restated as a Theorem in Properties/. *)
From SE Require Export Model.Line.
From Coq Require Import Permutation.

(* ---------- tags as written by a client ---------- *)
Inductive wtag := WKV (k v : bytes) | WBare (t : bytes).

Definition render_tag (sep : byte) (t : wtag) : bytes :=
  match t with WKV k v => k ++ sep :: v | WBare t => t end.
Definition render_tags (sep : byte) (ts : list wtag) : bytes :=
  join [c_comma] (map (render_tag sep) ts).

(* what a tag list means: well-formed tags set a label (key escaped), malformed ones count *)
Definition tag_sem (t : wtag) (st : lmap * nat) : lmap * nat :=
  match t with
  | WKV ((_ :: _) as k) ((_ :: _) as v) => (lm_set (esc k) v (fst st), snd st)
  | _ => (fst st, S (snd st))
  end.
Definition tags_sem (ts : list wtag) : lmap * nat := fold_left (fun st t => tag_sem t st) ts ([], 0).

(* ---------- delimiter-freedom hypotheses ---------- *)
Definition free_of (bad : list byte) (s : bytes) : bool :=
  forallb (fun b => negb (existsb (beq b) bad)) s.

Definition name_bad : list byte := [c_colon; c_pipe; c_comma; c_hash; c_lbr; c_rbr].
Definition key_bad : list byte := c_eq :: name_bad.
Definition clean_tag (t : wtag) : bool :=
  match t with
  | WKV k v => free_of key_bad k && free_of name_bad v && valid_string k && valid_string v
  | WBare t => free_of key_bad t && valid_string t
  end.
Definition tail_bad : list byte := [c_colon; c_pipe; c_hash].

(* a single sample: value | type [ | @rate ] *)
Definition sample_text (v ty : bytes) (rate : option bytes) : bytes :=
  v ++ c_pipe :: ty ++ match rate with Some r => c_pipe :: c_at :: r | None => [] end.
Definition clean_sample (v ty : bytes) (rate : option bytes) : bool :=
  free_of tail_bad v && free_of tail_bad ty && valid_string v && valid_string ty &&
  match rate with Some r => free_of tail_bad r && valid_string r | None => true end.

Definition last_not_empty (ts : list wtag) : bool :=
  match rev ts with WBare [] :: _ => false | [] => false | _ => true end.

Definition all_on : flags := {| f_dog := true; f_influx := true; f_librato := true; f_signalfx := true |}.

Definition hyp_c09 (pre post : bytes) (ts : list wtag) (v ty : bytes) (rate : option bytes) : bool :=
  free_of name_bad (pre ++ post) && valid_string pre && valid_string post &&
  match pre ++ post with [] => false | _ => true end &&
  forallb clean_tag ts && last_not_empty ts && clean_sample v ty rate.

(* the meaning of a tagged single-sample line: labels from the tags, then the sample *)
Definition sem_single (pf : bytes -> F64 * bool) (name : bytes) (ts : list wtag) (v ty : bytes)
           (rate : option bytes) : list event * list tick :=
  let '(labels, nerr) := tags_sem ts in
  let '(evs, _, ticks) := do_sample pf all_on name (sample_text v ty rate) labels in
  (evs, repeat TTagErr nerr ++ ticks).

Definition obs_equiv (a b : res (list event * list tick)) : Prop :=
  match a, b with
  | Ok (e1, t1), Ok (e2, t2) => e1 = e2 /\ Permutation t1 t2
  | _, _ => False
  end.

(* C09: the three name-side syntaxes produce exactly [sem_single]; DogStatsD the same events and
   the same counter totals (ticks equal up to order). *)
Definition stmt_librato : Prop := forall pf pre post ts v ty rate,
  hyp_c09 pre post ts v ty rate = true ->
  line_to_events pf all_on ((pre ++ post) ++ c_hash :: render_tags c_eq ts ++ c_colon :: sample_text v ty rate)
  = Ok (sem_single pf (pre ++ post) ts v ty rate).

Definition stmt_influx : Prop := forall pf pre post ts v ty rate,
  hyp_c09 pre post ts v ty rate = true ->
  line_to_events pf all_on ((pre ++ post) ++ c_comma :: render_tags c_eq ts ++ c_colon :: sample_text v ty rate)
  = Ok (sem_single pf (pre ++ post) ts v ty rate).

Definition stmt_signalfx : Prop := forall pf pre post ts v ty rate,
  hyp_c09 pre post ts v ty rate = true ->
  line_to_events pf all_on (pre ++ c_lbr :: render_tags c_eq ts ++ c_rbr :: post ++ c_colon :: sample_text v ty rate)
  = Ok (sem_single pf (pre ++ post) ts v ty rate).

(* For DogStatsD the tag section is parsed after the value: when the value itself does not parse
   the sample is malformed and its tags are not looked at, so "counted in every syntax" needs a
   parsable value (or no malformed tag).  The hypothesis is necessary: Proofs/LineSyntaxProofs.v
   proves [dogstatsd_fails], the converse. *)
Definition stmt_dogstatsd : Prop := forall pf pre post ts v ty rate,
  hyp_c09 pre post ts v ty rate = true ->
  (snd (pf v) = false \/ snd (tags_sem ts) = 0) ->
  obs_equiv
    (line_to_events pf all_on ((pre ++ post) ++ c_colon :: sample_text v ty rate ++ c_pipe :: c_hash :: render_tags c_colon ts))
    (Ok (sem_single pf (pre ++ post) ts v ty rate)).

(* disabled syntaxes are inert: their markers are ordinary name characters ... *)
Definition stmt_disabled_nameside : Prop := forall f name labels,
  (f_librato f = true -> free_of [c_hash] name = true) ->
  (f_influx f = true -> free_of [c_comma] name = true) ->
  (f_signalfx f = true -> free_of [c_lbr; c_rbr] name = true) ->
  parse_name_and_tags f name labels = Ok (name, labels, []).

(* ... and a DogStatsD section is skipped when DogStatsD parsing is off *)
Definition stmt_disabled_dog : Prop := forall pf f metric v ty rate tags labels,
  f_dog f = false -> free_of [c_pipe] tags = true -> clean_sample v ty rate = true ->
  do_sample pf f metric (sample_text v ty rate ++ c_pipe :: c_hash :: tags) labels
  = do_sample pf f metric (sample_text v ty rate) labels.

(* a line mixing a name-side syntax (that produced a label) with a DogStatsD section is
   rejected as a whole and counted *)
Definition stmt_mixed_rejected : Prop := forall pf f name rest metric labels t0,
  name <> [] -> free_of [c_colon] name = true -> valid_string (name ++ c_colon :: rest) = true ->
  parse_name_and_tags f name [] = Ok (metric, labels, t0) -> labels <> [] ->
  contains [c_pipe; c_hash] rest = true ->
  line_to_events pf f (name ++ c_colon :: rest) = Ok ([], t0 ++ [TErr MixedTagging]).

(* ---------- C10 ---------- *)
Definition events_of (r : res (list event * list tick)) : list event :=
  match r with Ok (e, _) => e | Panic => [] end.
Definition ticks_of (r : res (list event * list tick)) : list tick :=
  match r with Ok (_, t) => t | Panic => [] end.
Definition not_tag_tick (t : tick) : bool := match t with TTagErr => false | _ => true end.

(* samples: no ':' inside, no DogStatsD section anywhere; the first has a '|' *)
Definition clean_multi (name : bytes) (ss : list bytes) : bool :=
  match name with [] => false | _ => true end && free_of [c_colon] name &&
  forallb (fun s => free_of [c_colon] s && negb (contains [c_pipe; c_hash] s)) ss &&
  negb (contains [c_pipe; c_hash] (join [c_colon] ss)) &&
  match ss with s1 :: _ => negb (free_of [c_pipe] s1) | [] => false end &&
  valid_string (name ++ c_colon :: join [c_colon] ss).

(* name:s1:s2:... yields the events of name:s1, name:s2, ... in order; sample/error counters add
   up (tag errors of the name part are counted once per parsed line, hence excluded) *)
Definition stmt_multi_decomposes : Prop := forall pf f name ss,
  clean_multi name ss = true ->
  let whole := line_to_events pf f (name ++ c_colon :: join [c_colon] ss) in
  let parts := map (fun s => line_to_events pf f (name ++ c_colon :: s)) ss in
  whole <> Panic /\
  events_of whole = concat (map events_of parts) /\
  (Forall (fun s => negb (free_of [c_pipe] s) = true) ss ->
   filter not_tag_tick (ticks_of whole) = concat (map (fun p => filter not_tag_tick (ticks_of p)) parts)).

(* extended aggregation: name:v1:v2|T|suffix == name:v1|T|suffix, name:v2|T|suffix, ... *)
Definition clean_extagg (name : bytes) (vs : list bytes) (suffix : bytes) : bool :=
  match name with [] => false | _ => true end && free_of [c_colon] name &&
  (2 <=? length vs)%nat && forallb (free_of [c_colon; c_pipe]) vs &&
  valid_string (name ++ c_colon :: join [c_colon] vs ++ c_pipe :: suffix).

Definition agg_type_of (suffix : bytes) : bytes := fst (fst (cut_byte c_pipe suffix)).

(* a ':' in the suffix outside a "|#" section would make a part line split again: excluded *)
Definition stmt_extagg_decomposes : Prop := forall pf f name vs suffix,
  clean_extagg name vs suffix = true -> is_agg_type (agg_type_of suffix) = true ->
  (contains [c_pipe; c_hash] (c_pipe :: suffix) = true \/ free_of [c_colon] suffix = true) ->
  (forall metric labels t0, parse_name_and_tags f name [] = Ok (metric, labels, t0) ->
     contains [c_pipe; c_hash] (c_pipe :: suffix) = true -> labels = []) ->
  let whole := line_to_events pf f (name ++ c_colon :: join [c_colon] vs ++ c_pipe :: suffix) in
  let parts := map (fun v => line_to_events pf f (name ++ c_colon :: v ++ c_pipe :: suffix)) vs in
  whole <> Panic /\
  events_of whole = concat (map events_of parts) /\
  filter not_tag_tick (ticks_of whole) = concat (map (fun p => filter not_tag_tick (ticks_of p)) parts).

Definition stmt_extagg_bad_type : Prop := forall pf f name vs suffix metric labels t0,
  clean_extagg name vs suffix = true -> is_agg_type (agg_type_of suffix) = false ->
  parse_name_and_tags f name [] = Ok (metric, labels, t0) ->
  (contains [c_pipe; c_hash] (c_pipe :: suffix) = true -> labels = []) ->
  line_to_events pf f (name ++ c_colon :: join [c_colon] vs ++ c_pipe :: suffix)
  = Ok ([], t0 ++ [TErr InvalidExtAgg]).

(* a malformed sample (bad number, unknown or set type, empty or surplus fields) yields no event
   and at least one error tick.  A bad sampling factor is NOT in this list: see KNOWN_FINDINGS. *)
Inductive malformed (pf : bytes -> F64 * bool) (s : bytes) : Prop :=
| MalFields : (length (split_byte c_pipe s) < 2 \/ 4 < length (split_byte c_pipe s))%nat -> malformed pf s
| MalValue v rest : split_byte c_pipe s = v :: rest -> snd (pf v) = true -> malformed pf s
| MalType v ty rest : split_byte c_pipe s = v :: ty :: rest ->
    (stat_of ty = StSet \/ stat_of ty = StBad) -> malformed pf s
| MalEmpty v ty rest : split_byte c_pipe s = v :: ty :: rest -> In [] rest -> malformed pf s.

Definition is_err_tick (t : tick) : bool := match t with TErr _ => true | _ => false end.

Definition stmt_malformed_no_event : Prop := forall pf f metric s labels,
  malformed pf s ->
  let '(evs, _, ticks) := do_sample pf f metric s labels in
  evs = [] /\ existsb is_err_tick ticks = true.

(* ---------- C02 (parser part): no byte string makes the parser panic ---------- *)
Definition stmt_l2e_no_panic : Prop := forall pf f line, line_to_events pf f line <> Panic.
