(* C01, protocol reading of ONE well-formed sample (the part of "what the StatsD protocol
   predicts" that is independent of mapping and registry):
     counter  v|c[|@r]   one counter event with value v / r          (r = 0 counts as 1)
     gauge    v|g[|@r]   one gauge event with value v, relative iff v is written with a sign;
                         the sampling rate is ignored
     timer    v|ms[|@r]  floor(1/r) observer events of value v / 1000 (one when no rate; r = 0 as 1)
     histogram / distribution  v|h, v|d   the same without the division by 1000
   and every event carries the metric name and the labels it was given. *)
From SE Require Export Spec.LineSpec.
From Coq Require Import ZArith.

Section SampleSpec.
Variable pf : bytes -> F64 * bool.

Definition rate_value (rate : option bytes) : F64 :=
  match rate with
  | None => f_one
  | Some r => let x := fst (pf r) in if f_eqb x f_zero then f_one else x
  end.

(* how many times a timer sample is repeated *)
Definition repeat_count (rate : option bytes) : nat :=
  match rate with
  | None => 1%nat
  | Some _ => Z.to_nat (f_to_int (f_div f_one (rate_value rate)))
  end.

Definition predicted_events (metric : bytes) (labels : lmap) (v ty : bytes) (rate : option bytes) : list event :=
  let x := fst (pf v) in
  let mk := fun k val => {| e_kind := k; e_name := metric; e_value := val; e_labels := labels |} in
  match stat_of ty with
  | StC => [mk KCounter (match rate with None => x | Some _ => f_div x (rate_value rate) end)]
  | StG => [mk (KGauge (starts_with_sign v)) x]
  | StMs => repeat (mk KObserver (f_div x f_1000)) (repeat_count rate)
  | StH | StD => repeat (mk KObserver x) (repeat_count rate)
  | StSet | StBad => []
  end.

(* the value and (when given) the rate parse, the type is one of c g ms h d *)
Definition well_formed_sample (v ty : bytes) (rate : option bytes) : bool :=
  negb (snd (pf v)) &&
  match rate with Some r => negb (snd (pf r)) | None => true end &&
  match stat_of ty with StSet | StBad => false | _ => true end.

(* For every flag set, metric name and incoming label map: a well-formed sample yields exactly
   the predicted events, leaves the labels alone, counts one sample (plus tags-received when
   labels are present) and raises no error. *)
Definition stmt_sample_semantics : Prop := forall f metric labels v ty rate,
  clean_sample v ty rate = true -> well_formed_sample v ty rate = true ->
  do_sample pf f metric (sample_text v ty rate) labels =
  (predicted_events metric labels v ty rate, labels,
   TSample :: match labels with [] => [] | _ => [TTagsRecv] end).
End SampleSpec.
