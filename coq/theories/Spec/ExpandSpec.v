(* C11: what capture references mean, as a function on a tokenised template. *)
From SE Require Export Model.Template Spec.LineSpec.
From Coq Require Import ZArith.

Inductive ttok :=
| TLit (s : bytes)        (* literal text without '$' *)
| TRef (ds : bytes)       (* $<digits> *)
| TBrace (ds : bytes).    (* ${<digits>} *)

Definition render_tok (t : ttok) : bytes :=
  match t with
  | TLit s => s
  | TRef ds => c_dollar :: ds
  | TBrace ds => c_dollar :: c_lbrace :: ds ++ [c_rbrace]
  end.
Definition render_toks (ts : list ttok) : bytes := concat (map render_tok ts).

(* a decimal number of at most 8 digits without a leading zero (or "0" itself) *)
Definition wf_digits (ds : bytes) : bool :=
  match ds with
  | [] => false
  | [d] => is_digit_n (bN d)
  | d :: _ => negb (bN d =? 48)%N && forallb (fun b => is_digit_n (bN b)) ds && (length ds <=? 8)%nat
  end.

(* decimal value *)
Definition dec_value (ds : bytes) : nat :=
  fold_left (fun acc b => acc * 10 + (N.to_nat (bN b) - 48))%nat ds 0%nat.

Section ExpandSpec.
Variable uni_word : rune -> bool.

(* the text does not start with a character that could continue an identifier *)
Definition no_word_start (s : bytes) : bool := (word_prefix uni_word s 0 =? 0)%nat.

Fixpoint wf_toks (ts : list ttok) : bool :=
  match ts with
  | [] => true
  | TLit s :: r => free_of [c_dollar] s && wf_toks r
  | TRef ds :: r =>
    (* what follows must not continue the identifier (longest-identifier rule of Expand) *)
    wf_digits ds && wf_toks r && no_word_start (render_toks r)
  | TBrace ds :: r => wf_digits ds && wf_toks r
  end.

(* the n-th capture, n >= 1, among the first [count] captures; empty otherwise (also for n = 0) *)
Definition capture (count : nat) (caps : list bytes) (n : nat) : bytes :=
  match n with
  | O => []
  | S k => nth k (firstn count caps) []
  end.

Definition tok_sem (count : nat) (caps : list bytes) (t : ttok) : bytes :=
  match t with
  | TLit s => s
  | TRef ds | TBrace ds => capture count caps (dec_value ds)
  end.

(* C11, first sentence: references are replaced by the n-th capture (empty when out of range),
   every other character is copied literally *)
Definition stmt_format_tokens : Prop := forall ts count caps,
  wf_toks ts = true ->
  format uni_word (render_toks ts) count caps = concat (map (tok_sem count caps) ts).

(* C11, second sentence: the regex rule obtained from the glob rule sees the same captures as
   groups 1..n and the whole metric as group 0; unless the template refers to group 0 the two
   expansions coincide.  (That Go's regexp engine returns exactly the glob captures for the
   translated pattern is the oracle hypothesis, tested by the mapper engine.) *)
Definition refers_to_zero (t : ttok) : bool :=
  match t with TLit _ => false | TRef ds | TBrace ds => (dec_value ds =? 0)%nat end.

Definition stmt_glob_regex_agree : Prop := forall ts caps whole,
  wf_toks ts = true -> existsb refers_to_zero ts = false ->
  expand uni_word (Some whole :: map Some caps) (render_toks ts)
  = format uni_word (render_toks ts) (length caps) caps.

(* templates are total: whatever the bytes, formatting is defined (no fmt verbs, no panics) and
   text without '$' is copied unchanged *)
Definition stmt_expand_literal : Prop := forall groups s,
  free_of [c_dollar] s = true -> expand uni_word groups s = s.
End ExpandSpec.
