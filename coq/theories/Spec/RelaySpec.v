(* C17: the relay forwards every accepted line once, intact, in packets within the limit. *)
From SE Require Export Model.Relay.
From Coq Require Import ZArith.

(* the lines RelayLine accepted so far (newline-terminated), in arrival order *)
Fixpoint accepted (r : relay) (ops : list rop) : list bytes :=
  match ops with
  | [] => []
  | RLine l :: rest =>
    match fst (relay_line r l) with
    | LEnqueued => (if has_suffix [c_nl] l then l else l ++ [c_nl]) :: accepted (rstep r (RLine l)) rest
    | _ => accepted (rstep r (RLine l)) rest
    end
  | o :: rest => accepted (rstep r o) rest
  end.

Definition all_ok (ops : list rop) : bool :=
  forallb (fun o => match o with RRecv ok | RTick ok => ok | RLine _ => true end) ops.

(* without send failures: sent ++ buffered ++ queued is exactly the accepted lines, byte for byte,
   in arrival order (exactly once, nothing split across the three places) *)
Definition stmt_relay_stream : Prop := forall plen ops,
  all_ok ops = true ->
  let r := rrun (new_relay plen) ops in
  concat (r_sent r) ++ r_buffer r ++ concat (r_chan r) = concat (accepted (new_relay plen) ops).

(* with failures a datagram is lost as a whole: what was sent is still made of whole accepted
   lines, each at most once, in arrival order *)
Inductive sublist {A} : list A -> list A -> Prop :=
| sub_nil : forall l, sublist [] l
| sub_keep : forall x a b, sublist a b -> sublist (x :: a) (x :: b)
| sub_skip : forall x a b, sublist a b -> sublist a (x :: b).

Definition stmt_relay_no_split : Prop := forall plen ops,
  let r := rrun (new_relay plen) ops in
  exists groups : list (list bytes),
    r_sent r = map (@concat byte) groups /\
    Forall (fun g => g <> []) groups /\
    sublist (concat groups) (accepted (new_relay plen) ops).

(* no datagram exceeds the packet length (for packet lengths that can hold at least one byte + newline) *)
Definition stmt_relay_packet_bound : Prop := forall plen ops,
  (2 <= plen <= uint_max)%Z ->
  let r := rrun (new_relay plen) ops in
  Forall (fun d => (zlen d <= plen)%Z) (r_sent r) /\ (zlen (r_buffer r) <= plen)%Z /\
  Forall (fun b => (zlen b <= plen)%Z) (r_chan r).

(* a tick leaves nothing buffered *)
Definition stmt_relay_tick_drains : Prop := forall r ok, r_buffer (sender_tick r ok) = [].

(* over-long lines are counted and skipped; empty lines are ignored; every call is accounted for *)
Definition stmt_relay_line_cases : Prop := forall r l,
  match fst (relay_line r l) with
  | LEmpty => l = [] /\ snd (relay_line r l) = r
  | LTooLong => (plen_minus_1 r < zlen l)%Z /\ r_long (snd (relay_line r l)) = N.succ (r_long r) /\
                r_chan (snd (relay_line r l)) = r_chan r
  | LEnqueued => l <> [] /\ (zlen l <= plen_minus_1 r)%Z /\ r_relayed (snd (relay_line r l)) = N.succ (r_relayed r)
  | LBlocked => snd (relay_line r l) = r /\ (chan_cap <= length (r_chan r))%nat
  end.

(* a failing send never stops ingestion: on every reachable state the sender can always take the
   next line, so a blocked RelayLine is unblocked after one sender step, whatever the socket
   answers *)
Definition stmt_relay_never_stuck : Prop := forall plen ops l ok,
  let r := rrun (new_relay plen) ops in
  fst (relay_line r l) = LBlocked ->
  exists r', sender_recv r ok = Some r' /\ fst (relay_line r' l) <> LBlocked.
