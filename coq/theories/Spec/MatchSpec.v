(* What C04 / C12 say about glob matching, as functions on the rule list, and the statements
   relating Model/Fsm.v and Model/Mapper.v to them. *)
From SE Require Export Model.Mapper.
From Coq Require Import Permutation.

(* a pattern matches a name component by component: a literal equals the component, * matches any *)
Fixpoint glob_match (pat fields : list bytes) : bool :=
  match pat, fields with
  | [], [] => true
  | p :: pat', f :: fields' => (bytes_eqb p star || bytes_eqb p f) && glob_match pat' fields'
  | _, _ => false
  end.

(* the components matched by the wildcards, in order *)
Fixpoint glob_captures (pat fields : list bytes) : list bytes :=
  match pat, fields with
  | p :: pat', f :: fields' =>
    if bytes_eqb p star then f :: glob_captures pat' fields' else glob_captures pat' fields'
  | _, _ => []
  end.

Definition type_ok (mmt ty : bytes) : bool := match mmt with [] => true | _ => bytes_eqb mmt ty end.

Definition g_matches (ty : bytes) (fields : list bytes) (g : grule) : bool :=
  type_ok (g_mmt g) ty && glob_match (g_fields g) fields.

(* C04: the first rule, in configuration order, that matches *)
Definition first_match (rules : list grule) (ty : bytes) (fields : list bytes) : option (nat * list bytes) :=
  match find (g_matches ty fields) rules with
  | Some g => Some (g_prio g, glob_captures (g_fields g) fields)
  | None => None
  end.

(* C12: "comparing the matching patterns component by component from the left, a literal beats a
   wildcard": pattern a is more specific than b *)
Fixpoint more_specific (a b : list bytes) : bool :=
  match a, b with
  | x :: a', y :: b' =>
    match bytes_eqb x star, bytes_eqb y star with
    | false, true => true
    | true, false => false
    | _, _ => more_specific a' b'
    end
  | _, _ => false
  end.

(* the most specific matching rule; among rules with the same pattern the first one *)
Fixpoint most_specific_aux (cands : list grule) (best : option grule) : option grule :=
  match cands with
  | [] => best
  | g :: r =>
    match best with
    | None => most_specific_aux r (Some g)
    | Some b => if more_specific (g_fields g) (g_fields b) then most_specific_aux r (Some g)
                else most_specific_aux r best
    end
  end.

Definition most_specific (rules : list grule) (ty : bytes) (fields : list bytes) : option (nat * list bytes) :=
  match most_specific_aux (filter (g_matches ty fields) rules) None with
  | Some g => Some (g_prio g, glob_captures (g_fields g) fields)
  | None => None
  end.

(* rule lists as AddState builds them: priorities are the positions *)
Fixpoint prios_from (rules : list grule) (n : nat) : Prop :=
  match rules with
  | [] => True
  | g :: r => g_prio g = n /\ prios_from r (S n)
  end.

(* ---- C04: ordered mode (backtracking always on) finds the first matching rule ---- *)
Definition stmt_fsm_first_match : Prop := forall rules metric ty,
  prios_from rules 0 ->
  fsm_get_mapping rules true false metric ty = first_match rules ty (split_byte c_dot metric).

(* ---- C12: unordered mode finds the most specific matching rule whenever backtracking is on
        or no state has both a wildcard and a literal transition ---- *)
Definition stmt_fsm_most_specific : Prop := forall rules bt metric ty,
  prios_from rules 0 ->
  (bt = true \/ has_ambiguous_wildcard (map g_fields rules) = false) ->
  fsm_get_mapping rules bt true metric ty = most_specific rules ty (split_byte c_dot metric).

(* C12: complete - mapped whenever at least one rule matches *)
Definition stmt_most_specific_complete : Prop := forall rules ty fields,
  existsb (g_matches ty fields) rules = true -> most_specific rules ty fields <> None.

(* C12: the winner does not depend on the order in which rules are written (identified by its
   pattern and captures; rules with identical pattern and type filter are interchangeable) *)
Definition winner_pattern (rules : list grule) (ty : bytes) (fields : list bytes) : option (list bytes) :=
  match most_specific_aux (filter (g_matches ty fields) rules) None with
  | Some g => Some (g_fields g) | None => None end.
Definition stmt_most_specific_order_independent : Prop := forall rules rules' ty fields,
  Permutation rules rules' -> winner_pattern rules ty fields = winner_pattern rules' ty fields.

(* C04: rules that do not match the metric are irrelevant (insert/remove anywhere) *)
Definition winner_rule (rules : list grule) (ty : bytes) (fields : list bytes) : option grule :=
  find (g_matches ty fields) rules.
Definition stmt_irrelevant_rule : Prop := forall l1 l2 g ty fields,
  g_matches ty fields g = false ->
  option_map g_fields (winner_rule (l1 ++ g :: l2) ty fields) = option_map g_fields (winner_rule (l1 ++ l2) ty fields) /\
  option_map g_mmt (winner_rule (l1 ++ g :: l2) ty fields) = option_map g_mmt (winner_rule (l1 ++ l2) ty fields).
(* ... and so are rules after the first match *)
Definition stmt_later_rules_irrelevant : Prop := forall l1 g l2 l2' ty fields,
  g_matches ty fields g = true -> forallb (fun x => negb (g_matches ty fields x)) l1 = true ->
  winner_rule (l1 ++ g :: l2) ty fields = winner_rule (l1 ++ g :: l2') ty fields.

(* ---- the whole lookup of a loaded configuration (glob first, then regex) ---- *)
Section MapperSpec.
Variable uni_word : rune -> bool.
Variable re_match : bytes -> bytes -> option (list (option bytes)).
Variable heur_bt : list bytes -> bool -> bool.

Definition glob_answer (c : config) (metric ty : bytes) : option (nat * list bytes) :=
  let gr := glob_rules_of (cf_rules c) in
  if df_disable_ordering (cf_defaults c)
  then most_specific gr ty (split_byte c_dot metric)
  else first_match gr ty (split_byte c_dot metric).

Definition spec_lookup (c : config) (metric ty : bytes) : option mresult :=
  match glob_answer c metric ty with
  | Some (prio, caps) =>
    match nth_glob_rule (cf_rules c) prio with
    | Some (idx, r) => Some {| mr_rule := idx; mr_name := format uni_word (ru_name r) (ru_stars r) caps;
                               mr_labels := labels_of (fun v => format uni_word v (ru_stars r) caps) (ru_labels r) |}
    | None => None
    end
  | None => regex_lookup uni_word re_match (cf_rules c) 0 metric ty
  end.

Variable re_compiles : bytes -> bool.

(* a freshly loaded configuration answers every lookup as the specification says *)
Definition stmt_lookup_is_spec : Prop := forall ast c metric ty,
  load re_compiles ast = LOk c ->
  lookup_uncached uni_word re_match (cf_rules c) (build_fsm heur_bt c) (cf_do_fsm c) (cf_do_regex c) metric ty
  = spec_lookup c metric ty.
End MapperSpec.
