(* C18: listeners frame lines identically on every transport and account for all of them. *)
From SE Require Export Model.Listener Spec.LineSpec.

(* the lines of a stream according to the property: split at newlines only; a terminated line
   loses one trailing carriage return; the unterminated tail is a line when non-empty *)
Definition drop_cr (l : bytes) : bytes :=
  match rev l with b :: r => if beq b c_cr then rev r else l | [] => l end.

Definition stream_lines (p : bytes) : list bytes :=
  let ls := split_byte c_lf p in
  map drop_cr (removelast ls) ++ match last ls [] with [] => [] | t => [t] end.

Definition all_short (p : bytes) : bool :=
  forallb (fun l => length l <? tcp_buf) (split_byte c_lf p).

(* TCP framing is exactly that, whenever no raw line reaches the 4096-byte buffer *)
Definition stmt_tcp_framing : Prop := forall p,
  all_short p = true -> tcp_lines p = (stream_lines p, false).

(* an over-long line closes the connection (and only that): the lines before it are delivered *)
Definition stmt_tcp_too_long : Prop := forall pre long rest,
  all_short pre = true -> (pre = [] \/ last pre c_lf = c_lf) ->
  free_of [c_lf] long = true -> tcp_buf <= length long ->
  tcp_lines (pre ++ long ++ rest) = (stream_lines pre, true).

(* the same payload yields the same events on a datagram transport and on TCP: the line lists
   differ only by empty lines (which parse to nothing) when the payload has no carriage returns *)
Definition nonempty_lines (ls : list bytes) : list bytes := filter (fun l => match l with [] => false | _ => true end) ls.
Definition stmt_framing_agree : Prop := forall p,
  all_short p = true -> free_of [c_cr] p = true ->
  nonempty_lines (fst (tcp_lines p)) = nonempty_lines (packet_lines p).
(* ... and an empty line produces no event and no error on any transport *)
Definition stmt_empty_line_inert : Prop := forall pf f, line_to_events pf f [] = Ok ([], []).

(* with CRLF line ends TCP sees the lines a datagram transport would see after removing the CRs *)
Definition stmt_crlf_agree : Prop := forall ls,
  forallb (fun l => free_of [c_lf; c_cr] l && (length l + 1 <? tcp_buf)) ls = true ->
  fst (tcp_lines (concat (map (fun l => l ++ [c_cr; c_lf]) ls))) = ls.

(* datagram framing: every piece between newlines is a line, each exactly once, in order *)
Definition stmt_packet_lines_join : Prop := forall ls,
  ls <> [] -> forallb (free_of [c_lf]) ls = true -> packet_lines (join [c_lf] ls) = ls.

(* the UDP packet queue: every datagram is either processed, still queued, or counted as dropped;
   processed datagrams are an in-order sub-sequence of the received ones, byte for byte *)
Fixpoint received (ops : list pqop) : list bytes :=
  match ops with [] => [] | PRecv d :: r => d :: received r | PProcess :: r => received r end.

Inductive subseq {A} : list A -> list A -> Prop :=
| ss_nil : forall l, subseq [] l
| ss_keep : forall x a b, subseq a b -> subseq (x :: a) (x :: b)
| ss_skip : forall x a b, subseq a b -> subseq a (x :: b).

Definition stmt_pq_accounting : Prop := forall cap ops,
  let q := pq_run (pq_new cap) ops in
  pq_packets q = length (received ops) /\
  pq_packets q = length (pq_processed q) + length (pq_queue q) + pq_drops q /\
  length (pq_queue q) <= cap /\
  subseq (pq_processed q ++ pq_queue q) (received ops).

(* nothing is dropped while there is room *)
Definition stmt_pq_no_spurious_drop : Prop := forall q d,
  length (pq_queue q) < pq_cap q -> pq_drops (pq_recv q d) = pq_drops q /\ pq_queue (pq_recv q d) = pq_queue q ++ [d].
