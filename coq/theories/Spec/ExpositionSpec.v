(* C03, what a successful scrape means.  [gather_ok] (Model/ClientGolang.v) is the boolean the
   theorems of C03 are about; this file spells its content out in the words of the property:
   every metric and label name is legal, each family has one type and one help string, and no two
   series share a name and a label set. *)
From SE Require Export Model.ClientGolang.

Definition stmt_gather_ok_names_legal : Prop := forall all s,
  gather_ok all = true -> In s all ->
  metric_name_valid (sm_name s) = true /\
  (forall k v, In (k, v) (sm_labels s) -> label_name_valid k = true /\ valid_string v = true) /\
  has_dup_names (sm_labels s) = false.

Definition stmt_gather_ok_one_help_one_type : Prop := forall all s o,
  gather_ok all = true -> In s all -> In o all -> sm_name s = sm_name o ->
  sm_help s = sm_help o /\ sm_type s = sm_type o.

Definition stmt_gather_ok_series_distinct : Prop := forall all i j s o,
  gather_ok all = true -> nth_error all i = Some s -> nth_error all j = Some o -> i <> j ->
  ~ (sm_name s = sm_name o /\ sm_labels s = sm_labels o).

(* a histogram or summary family and the plain families its exposition lines would collide with
   (X_count, X_sum, X_bucket) are never exposed together *)
Definition stmt_gather_ok_no_companion_clash : Prop := forall all s o,
  gather_ok all = true -> In s all -> In o all ->
  (sm_type s = MHistogram \/ sm_type s = MSummary) ->
  sm_name o <> sm_name s ++ s_count /\ sm_name o <> sm_name s ++ s_sum /\
  (sm_type s = MHistogram -> sm_name o <> sm_name s ++ s_bucket).
