(* What C15 says, as a function on the rune sequence of the input. *)
From SE Require Export Model.Escape.
Local Open Scope N_scope.

(* the decoded runes of a byte string; each undecodable byte is one U+FFFD *)
Definition runes_of (s : bytes) : list rune := map (fun irw => snd (fst irw)) (range_runes s).

Definition byte_of_rune (c : rune) : byte :=
  match Byte.of_N c with Some b => b | None => underscore end.

Fixpoint spec_runes (rs : list rune) (prev : rune) : bytes :=
  match rs with
  | [] => []
  | c :: t =>
    if is_legal_rune c then byte_of_rune c :: spec_runes t c
    else if (c =? dash_rune) && (prev =? dash_rune) then spec_runes t prev
    else underscore :: spec_runes t c
  end.

Definition escape_spec_body (s : bytes) (b0 : byte) : bytes :=
  (if is_digit_n (bN b0) then [underscore] else []) ++ spec_runes (runes_of s) 0.

Definition escape_spec (s : bytes) : bytes :=
  match s with
  | [] => []
  | b0 :: _ => escape_spec_body s b0
  end.

(* [a-zA-Z_][a-zA-Z0-9_]* *)
Definition legal_byte (b : byte) : bool := is_legal_rune (bN b).
Definition legal_first (b : byte) : bool := legal_byte b && negb (is_digit_n (bN b)).
Definition legal_name (s : bytes) : bool :=
  match s with [] => false | b :: t => legal_first b && forallb legal_byte t end.

Definition alnum_byte (b : byte) : bool := legal_byte b && negb (bN b =? 95).
