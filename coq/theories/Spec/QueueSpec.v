(* C16: the event queue delivers every event exactly once, in order, in bounded batches - for
   every trace of the transition system of Model/EventQueue.v: any number of producers, any
   programs, any channel capacity, any threshold >= 1, any interleaving with the flush ticker
   and the consumer. *)
From SE Require Export Model.EventQueue.
From Coq Require Import Permutation.

Definition mine (prog : list (list ev)) (e : ev) : bool := existsb (Nat.eqb e) (concat prog).

Definition holders (s : qstate) : nat :=
  length (filter (fun p => match p_phase p with PIdle => false | _ => true end) (q_producers s))
  + match q_ticker s with TIdle => 0 | _ => 1 end.

Definition all_done (s : qstate) : bool :=
  forallb (fun p => match p_calls p, p_phase p with [], PIdle => true | _, _ => false end) (q_producers s).

Section Trace.
Variables (threshold cap : nat) (programs : list (list (list ev))).
(* the flush threshold is at least 1 and event identifiers are globally distinct *)
Definition pre : Prop := 1 <= threshold /\ NoDup (concat (concat programs)).

Definition reachable (s : qstate) : Prop := exists ls, qrun (qinit threshold cap programs) ls = Some s.

(* mutual exclusion: the model's lock is a lock *)
Definition stmt_q_mutex : Prop := pre -> forall s, reachable s -> holders s <= 1.

(* conservation: delivered ++ in the channel ++ pending is exactly what was appended, in append
   order - nothing lost, nothing duplicated, nothing reordered *)
Definition stmt_q_conservation : Prop := pre -> forall s, reachable s ->
  concat (q_delivered s) ++ concat (q_chan s) ++ q_pending s = q_log s /\ NoDup (q_log s).

(* events of one producer are appended (hence delivered) in the order it queued them *)
Definition stmt_q_producer_order : Prop := pre -> forall s i prog, reachable s ->
  nth_error programs i = Some prog ->
  exists k, filter (mine prog) (q_log s) = firstn k (concat prog).

(* when every producer has finished, every event has been appended exactly once *)
Definition stmt_q_complete : Prop := pre -> forall s, reachable s -> all_done s = true ->
  Permutation (q_log s) (concat (concat programs)).

(* no batch exceeds the threshold; outside a critical section fewer than threshold are pending *)
Definition stmt_q_batch_bound : Prop := pre -> forall s, reachable s ->
  Forall (fun b => length b <= threshold) (q_delivered s ++ q_chan s) /\
  length (q_pending s) <= threshold /\
  (lock_free s = true -> length (q_pending s) < threshold).

(* a flush tick leaves nothing pending: everything queued before it is in the channel or delivered *)
Definition stmt_q_tick_flushes : Prop := pre -> forall s s', reachable s -> qstep s LTickSend = Some s' ->
  q_pending s' = [] /\ concat (q_delivered s') ++ concat (q_chan s') = q_log s'.

(* no deadlock while the consumer keeps reading: whenever the lock is held, its holder or the
   consumer can take a step; and the consumer can always drain a non-empty channel *)
Definition stmt_q_progress : Prop := pre -> forall s, reachable s ->
  (lock_free s = false -> exists l s', qstep s l = Some s') /\
  (q_chan s <> [] -> exists s', qstep s LRecv = Some s').
End Trace.
