(* The single-listener binary as a composition of the modelled parts:
     datagrams --packet_lines--> lines --line_to_events--> one Queue call per line
       --event queue (any threshold >= 1, any channel capacity, any interleaving with the flush
         ticker and the consumer)--> batches --Exporter.Listen's loop--> exporter state
   is the line-at-a-time system of Model/System.v (the object of C01-C08, C19).  This is what
   licenses reading those theorems as statements about the running program with one listener
   goroutine; the atomicity of the queue's critical sections is the generated obligation of
   Properties/C16_locks.v.  (Several listeners: per-producer order only - C16_producer_order.) *)
From SE Require Export Model.System Model.Listener Spec.QueueSpec.

Section Binary.
Variable pf : bytes -> F64 * bool.
Variable uni_word : rune -> bool.
Variable re_match : bytes -> bytes -> option (list (option bytes)).
Variable CS : Type.
Variable c_get : CS -> bytes -> option (option mresult) * CS.
Variable c_add : CS -> bytes -> option mresult -> CS.

(* the events one line yields (the parser never panics: C02) *)
Definition line_events (f : flags) (l : bytes) : list event :=
  match line_to_events pf f l with Ok (evs, _) => evs | Panic => [] end.

(* the queue model moves identifiers: number the events of the calls 0, 1, 2, ... in order *)
Fixpoint number_calls {A} (calls : list (list A)) (from : nat) : list (list ev) :=
  match calls with
  | [] => []
  | c :: r => seq from (length c) :: number_calls r (from + length c)
  end.

(* 1. the queue hands the exporter exactly the events of the calls, in order, whatever the
      threshold, the capacity and the schedule, once the listener is done and everything is flushed *)
Definition stmt_single_producer_delivery : Prop :=
  forall (A : Type) threshold cap (calls : list (list A)) s,
  1 <= threshold ->
  reachable threshold cap [number_calls calls 0] s ->
  all_done s = true -> q_chan s = [] -> q_pending s = [] ->
  concat (q_delivered s) = seq 0 (length (concat calls)).

(* Exporter.Listen: batch after batch (a panic ends the loop) *)
Fixpoint consume (m : mapper CS) (x : exporter) (now : Z) (batches : list (list event)) : mapper CS * exporter * bool :=
  match batches with
  | [] => (m, x, false)
  | b :: r =>
    let '(m', x', p) := handle_events uni_word re_match CS c_get c_add m x now b in
    if p then (m', x', true) else consume m' x' now r
  end.

(* 2. how the events are cut into batches does not matter *)
Definition stmt_batching_irrelevant : Prop := forall batches m x now,
  consume m x now batches = handle_events uni_word re_match CS c_get c_add m x now (concat batches).

(* the system fed whole lines, one step per line *)
Definition feed_lines (heur_bt : list bytes -> bool -> bool) (re_compiles : bytes -> bool) (c_reset : CS -> CS)
           (builtins : list sample) (s : sys CS) (lines : list bytes) : sys CS :=
  fold_left (fun s l => snd (step pf uni_word re_match heur_bt re_compiles CS c_get c_add c_reset builtins s (OpLine l))) lines s.

(* 3. datagrams -> lines -> events, handled as one stream, is the line-at-a-time system (as long as
      nothing panics, which C02 excludes for loaded configurations) *)
Definition stmt_binary_is_system : Prop :=
  forall heur_bt re_compiles c_reset builtins (s : sys CS) (packets : list bytes),
  let lines := concat (map packet_lines packets) in
  let evs := concat (map (line_events (s_flags CS s)) lines) in
  let '(m, x, p) := handle_events uni_word re_match CS c_get c_add (s_mapper CS s) (s_exp CS s) (s_now CS s) evs in
  p = false ->
  (forall l, In l lines -> line_to_events pf (s_flags CS s) l <> Panic) ->
  feed_lines heur_bt re_compiles c_reset builtins s lines =
  {| s_mapper := m; s_exp := x; s_now := s_now CS s; s_flags := s_flags CS s |}.
End Binary.
